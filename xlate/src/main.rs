// xlate — a small Rust -> Gallina translator for the pure kernels of xcp.
//
//   xlate <repo root>   prints coq/theories/Extracted.v on stdout
//
// It parses the CURRENT source files of /repo with `syn` and translates a fixed
// list of items (arithmetic of the block partition, the batching condition of
// the updater, the sparseness test, errno classification tables, constants, the
// order of the finalisation steps, and the whole of merge_extents, a loop with
// mutable state that becomes a fold) into Gallina definitions.  The theorems of
// coq/proofs/ExtractedOk.v then state that each extracted definition EQUALS the
// hand-written model's; they are re-checked on every run, so a change to one of
// these pieces of code breaks a proof obligation (or the extraction itself,
// which leaves the definition out and breaks the obligation the same way).
//
// Supported subset (anything else is an extraction failure, never a guess):
//   expressions: integer literals, paths and field chains (a.b.c -> a_b_c),
//     zero-argument method calls (x.len() -> x_len), + - * / %, comparisons,
//     && || !, `as` casts (dropped), parentheses, if/else, cmp::min/max,
//     struct literals of known records, Some/None/Ok, vec![], bool `&`
//   statements (state-passing translation over the mutable locals):
//     let [mut], assignment, v.push(e), for x in e { }, match on an Option,
//     if / if let Some(p) = e, tail expression
use std::collections::{BTreeMap, BTreeSet};
use std::fmt::Write as _;
use std::path::Path;

use syn::spanned::Spanned;
use syn::visit::Visit;
use syn::{BinOp, Block, Expr, ExprMatch, ImplItem, Item, ItemFn, Lit, Pat, Stmt, UnOp};

type R<T> = Result<T, String>;

fn errno_value(name: &str) -> Option<u64> {
    Some(match name {
        "EPERM" | "PERM" => 1, "ENOENT" | "NOENT" => 2, "EINTR" | "INTR" => 4, "EIO" | "IO" => 5, "ENXIO" | "NXIO" => 6,
        "EACCES" | "ACCESS" => 13, "EEXIST" | "EXIST" => 17, "EXDEV" | "XDEV" => 18, "EINVAL" | "INVAL" => 22,
        "EMFILE" | "MFILE" => 24, "ETXTBSY" | "TXTBSY" => 26, "ENOSPC" | "NOSPC" => 28, "EROFS" | "ROFS" => 30,
        "ENOSYS" | "NOSYS" => 38, "EOPNOTSUPP" | "OPNOTSUPP" | "ENOTSUP" | "NOTSUP" => 95,
        _ => return None,
    })
}

struct Tr {
    consts: BTreeMap<String, String>,               // const NAME -> Gallina term
    lets: Vec<(String, String)>,                    // local let bindings in scope (name, Gallina term)
    free: BTreeSet<String>,
    bound: BTreeSet<String>,
}

fn flat_name(e: &Expr) -> Option<String> {
    match e {
        Expr::Path(p) => {
            let segs: Vec<String> = p.path.segments.iter().map(|s| s.ident.to_string()).collect();
            Some(segs.join("_"))
        }
        Expr::Field(f) => {
            let base = flat_name(&f.base)?;
            let m = match &f.member {
                syn::Member::Named(i) => i.to_string(),
                syn::Member::Unnamed(i) => i.index.to_string(),
            };
            Some(format!("{}_{}", base, m))
        }
        Expr::MethodCall(m) if m.args.is_empty() => {
            let base = flat_name(&m.receiver)?;
            Some(format!("{}_{}", base, m.method))
        }
        Expr::Paren(p) => flat_name(&p.expr),
        Expr::Reference(r) => flat_name(&r.expr),
        Expr::Unary(u) if matches!(u.op, UnOp::Deref(_)) => flat_name(&u.expr),
        _ => None,
    }
}

impl Tr {
    fn new() -> Tr {
        Tr { consts: BTreeMap::new(), lets: vec![], free: BTreeSet::new(), bound: BTreeSet::new() }
    }

    fn var(&mut self, name: &str) -> String {
        if let Some(v) = self.consts.get(name) {
            return v.clone();
        }
        let n = match name {
            "self_config_block_size" | "handle_config_block_size" => "bsize".to_string(),
            other => other.to_string(),
        };
        if !self.bound.contains(&n) {
            self.free.insert(n.clone());
        }
        n
    }

    fn expr(&mut self, e: &Expr) -> R<String> {
        Ok(match e {
            Expr::Lit(l) => match &l.lit {
                Lit::Int(i) => i.base10_digits().to_string(),
                Lit::Bool(b) => b.value.to_string(),
                _ => return Err("unsupported literal".into()),
            },
            Expr::Paren(p) => format!("({})", self.expr(&p.expr)?),
            Expr::Group(g) => self.expr(&g.expr)?,
            Expr::Cast(c) => self.expr(&c.expr)?,
            Expr::Reference(r) => self.expr(&r.expr)?,
            Expr::Unary(u) => match u.op {
                UnOp::Not(_) => format!("(negb {})", self.expr(&u.expr)?),
                UnOp::Deref(_) => self.expr(&u.expr)?,
                _ => return Err("unsupported unary operator".into()),
            },
            Expr::Binary(b) => {
                let l = self.expr(&b.left)?;
                let r = self.expr(&b.right)?;
                match b.op {
                    BinOp::Add(_) => format!("({} + {})", l, r),
                    BinOp::Sub(_) => format!("({} - {})", l, r),
                    BinOp::Mul(_) => format!("({} * {})", l, r),
                    BinOp::Div(_) => format!("({} / {})", l, r),
                    BinOp::Rem(_) => format!("({} mod {})", l, r),
                    BinOp::Lt(_) => format!("({} <? {})", l, r),
                    BinOp::Le(_) => format!("({} <=? {})", l, r),
                    BinOp::Gt(_) => format!("({} <? {})", r, l),
                    BinOp::Ge(_) => format!("({} <=? {})", r, l),
                    BinOp::Eq(_) => format!("({} =? {})", l, r),
                    BinOp::Ne(_) => format!("(negb ({} =? {}))", l, r),
                    BinOp::And(_) => format!("({} && {})", l, r),
                    BinOp::Or(_) => format!("({} || {})", l, r),
                    BinOp::BitAnd(_) => format!("({} && {})", l, r),     // only used on bool fields here
                    _ => return Err("unsupported binary operator".into()),
                }
            }
            Expr::If(i) => {
                let c = self.expr(&i.cond)?;
                let t = self.block_value(&i.then_branch)?;
                let f = match &i.else_branch {
                    Some((_, e)) => self.expr(e)?,
                    None => return Err("if without else in expression position".into()),
                };
                format!("(if {} then {} else {})", c, t, f)
            }
            Expr::Block(b) => self.block_value(&b.block)?,
            Expr::Call(c) => {
                let f = flat_name(&c.func).ok_or("unsupported callee")?;
                let args: Vec<&Expr> = c.args.iter().collect();
                match (f.as_str(), args.len()) {
                    ("cmp_min", 2) | ("std_cmp_min", 2) | ("min", 2) => format!("(N.min {} {})", self.expr(args[0])?, self.expr(args[1])?),
                    ("cmp_max", 2) | ("std_cmp_max", 2) | ("max", 2) => format!("(N.max {} {})", self.expr(args[0])?, self.expr(args[1])?),
                    ("Some", 1) => format!("(Some {})", self.expr(args[0])?),
                    ("Ok", 1) => self.expr(args[0])?,
                    (name, 0) if self.consts.contains_key(name) => self.consts[name].clone(),
                    _ => return Err(format!("unsupported call {}", f)),
                }
            }
            Expr::Struct(s) => {
                let name = s.path.segments.last().map(|x| x.ident.to_string()).unwrap_or_default();
                if name != "Extent" {
                    return Err(format!("unknown record {}", name));
                }
                let mut f = BTreeMap::new();
                for fv in &s.fields {
                    if let syn::Member::Named(i) = &fv.member {
                        f.insert(i.to_string(), self.expr(&fv.expr)?);
                    }
                }
                let g = |k: &str| f.get(k).cloned().ok_or(format!("record field {} missing", k));
                format!("(mkExt {} {} {})", g("start")?, g("end")?, g("shared")?)
            }
            Expr::Macro(m) if m.mac.path.is_ident("vec") && m.mac.tokens.is_empty() => "[]".to_string(),
            Expr::Path(p) if p.path.is_ident("None") => "None".to_string(),
            Expr::Field(f) => {
                // record accessors of libfs::Extent
                if let syn::Member::Named(i) = &f.member {
                    let acc = match i.to_string().as_str() {
                        "start" => Some("e_start"), "end" => Some("e_end"), "shared" => Some("e_shared"), _ => None,
                    };
                    if let (Some(acc), Some(base)) = (acc, flat_name(&f.base)) {
                        if self.bound.contains(&base) || base == "range" {
                            if base == "range" {
                                let n = format!("range_{}", i);
                                return Ok(self.var(&n));
                            }
                            return Ok(format!("({} {})", acc, base));
                        }
                    }
                }
                let n = flat_name(e).ok_or("unsupported field expression")?;
                self.var(&n)
            }
            Expr::Path(_) | Expr::MethodCall(_) => {
                let n = flat_name(e).ok_or("unsupported path / method call")?;
                self.var(&n)
            }
            _ => return Err(format!("unsupported expression at line {}", e.span().start().line)),
        })
    }

    /// value of a block whose statements are lets followed by a tail expression
    fn block_value(&mut self, b: &Block) -> R<String> {
        let mut out = String::new();
        let mut closers = 0;
        for (k, st) in b.stmts.iter().enumerate() {
            match st {
                Stmt::Local(l) => {
                    let name = pat_ident(&l.pat).ok_or("unsupported let pattern")?;
                    let init = l.init.as_ref().ok_or("let without initialiser")?;
                    let v = self.expr(&init.expr)?;
                    write!(out, "(let {} := {} in ", name, v).unwrap();
                    self.bound.insert(name);
                    closers += 1;
                }
                Stmt::Expr(e, None) if k + 1 == b.stmts.len() => {
                    out.push_str(&self.expr(e)?);
                }
                _ => return Err("unsupported statement in value block".into()),
            }
        }
        for _ in 0..closers {
            out.push(')');
        }
        Ok(out)
    }

    // ---- state-passing translation of a statement list over the mutable locals `muts` ----
    fn tuple(muts: &[String]) -> String {
        if muts.len() == 1 { muts[0].clone() } else { format!("({})", muts.join(", ")) }
    }
    fn tuple_pat(muts: &[String]) -> String {
        if muts.len() == 1 { muts[0].clone() } else { format!("'({})", muts.join(", ")) }
    }

    fn stmts_state(&mut self, stmts: &[Stmt], muts: &[String]) -> R<String> {
        if stmts.is_empty() {
            return Ok(Self::tuple(muts));
        }
        let (st, rest) = (&stmts[0], &stmts[1..]);
        match st {
            Stmt::Expr(e, _) => {
                let step = self.expr_state(e, muts)?;
                let tail = self.stmts_state(rest, muts)?;
                Ok(format!("let {} := {} in\n      {}", Self::tuple_pat(muts), step, tail))
            }
            Stmt::Local(l) => {
                let name = pat_ident(&l.pat).ok_or("unsupported let pattern")?;
                let init = l.init.as_ref().ok_or("let without initialiser")?;
                let v = self.expr(&init.expr)?;
                self.bound.insert(name.clone());
                let tail = self.stmts_state(rest, muts)?;
                Ok(format!("let {} := {} in\n      {}", name, v, tail))
            }
            _ => Err("unsupported statement".into()),
        }
    }

    /// an expression statement as a function from the state to the state (a Gallina term of tuple type)
    fn expr_state(&mut self, e: &Expr, muts: &[String]) -> R<String> {
        match e {
            Expr::Assign(a) => {
                let lhs = flat_name(&a.left).ok_or("unsupported assignment target")?;
                if !muts.contains(&lhs) {
                    return Err(format!("assignment to {} which is not a tracked mutable", lhs));
                }
                let v = self.expr(&a.right)?;
                let vals: Vec<String> = muts.iter().map(|m| if *m == lhs { v.clone() } else { m.clone() }).collect();
                Ok(Self::tuple(&vals))
            }
            Expr::MethodCall(m) if m.method == "push" && m.args.len() == 1 => {
                let lhs = flat_name(&m.receiver).ok_or("unsupported push target")?;
                if !muts.contains(&lhs) {
                    return Err(format!("push on {} which is not a tracked mutable", lhs));
                }
                let v = self.expr(&m.args[0])?;
                let vals: Vec<String> = muts.iter().map(|x| if *x == lhs { format!("({} ++ [{}])", lhs, v) } else { x.clone() }).collect();
                Ok(Self::tuple(&vals))
            }
            Expr::Block(b) => self.stmts_state(&b.block.stmts, muts),
            Expr::If(i) => {
                if let Expr::Let(l) = &*i.cond {
                    // if let Some(p) = e { .. } [else { .. }]
                    let (ctor, binder) = some_pat(&l.pat).ok_or("unsupported if-let pattern")?;
                    let scrut = self.expr(&l.expr)?;
                    self.bound.insert(binder.clone());
                    let t = self.stmts_state(&i.then_branch.stmts, muts)?;
                    let f = match &i.else_branch { Some((_, e)) => self.expr_state(e, muts)?, None => Self::tuple(muts) };
                    let _ = ctor;
                    return Ok(format!("(match {} with Some {} => {} | None => {} end)", scrut, binder, t, f));
                }
                let c = self.expr(&i.cond)?;
                let t = self.stmts_state(&i.then_branch.stmts, muts)?;
                let f = match &i.else_branch { Some((_, e)) => self.expr_state(e, muts)?, None => Self::tuple(muts) };
                Ok(format!("(if {} then {} else {})", c, t, f))
            }
            Expr::Match(m) => self.match_state(m, muts),
            Expr::ForLoop(f) => {
                let x = pat_ident(&f.pat).ok_or("unsupported for pattern")?;
                let coll = self.expr(&f.expr)?;
                self.bound.insert(x.clone());
                let body = self.stmts_state(&f.body.stmts, muts)?;
                Ok(format!("(fold_left (fun {} {} =>\n      {}) {} {})", Self::tuple_pat(muts), x, body, coll, Self::tuple(muts)))
            }
            _ => Err(format!("unsupported statement expression at line {}", e.span().start().line)),
        }
    }

    fn match_state(&mut self, m: &ExprMatch, muts: &[String]) -> R<String> {
        let scrut = self.expr(&m.expr)?;
        let mut arms = String::new();
        for arm in &m.arms {
            if arm.guard.is_some() {
                return Err("match guard".into());
            }
            let pat = if let Some((_, b)) = some_pat(&arm.pat) {
                self.bound.insert(b.clone());
                format!("Some {}", b)
            } else if is_none_pat(&arm.pat) {
                "None".to_string()
            } else {
                return Err("unsupported match pattern (only Some(x) / None)".into());
            };
            let body = self.expr_state(&arm.body, muts)?;
            write!(arms, " | {} => {}", pat, body).unwrap();
        }
        Ok(format!("(match {} with{} end)", scrut, arms))
    }
}

fn pat_ident(p: &Pat) -> Option<String> {
    match p {
        Pat::Ident(i) => Some(i.ident.to_string()),
        Pat::Type(t) => pat_ident(&t.pat),
        _ => None,
    }
}
fn some_pat(p: &Pat) -> Option<(String, String)> {
    if let Pat::TupleStruct(ts) = p {
        if ts.path.is_ident("Some") && ts.elems.len() == 1 {
            return pat_ident(&ts.elems[0]).map(|b| ("Some".to_string(), b));
        }
    }
    None
}
fn is_none_pat(p: &Pat) -> bool {
    matches!(p, Pat::Ident(i) if i.ident == "None") || matches!(p, Pat::Path(pp) if pp.path.is_ident("None"))
}

// ---------------------------------------------------------------------------
// source access
// ---------------------------------------------------------------------------
struct Src {
    file: syn::File,
    path: String,
}

fn load(root: &Path, rel: &str) -> R<Src> {
    let p = root.join(rel);
    let txt = std::fs::read_to_string(&p).map_err(|e| format!("{}: {}", p.display(), e))?;
    let file = syn::parse_file(&txt).map_err(|e| format!("{}: {}", rel, e))?;
    Ok(Src { file, path: rel.to_string() })
}

/// Inventory of process-wide state in the non-test code of the three crates: every `static` item, every
/// `thread_local!` / `lazy_static!` block, and every call of `umask` (which changes the creation mode of all threads).
/// The models treat one file's copy as independent of every other file's: that is only sound if nothing is carried
/// from file to file through such state.
fn process_wide_state(root: &Path) -> R<String> {
    fn rs_files(dir: &Path, out: &mut Vec<std::path::PathBuf>) {
        if let Ok(rd) = std::fs::read_dir(dir) {
            let mut es: Vec<_> = rd.filter_map(|e| e.ok()).map(|e| e.path()).collect();
            es.sort();
            for p in es {
                if p.is_dir() { rs_files(&p, out); } else if p.extension().map(|x| x == "rs").unwrap_or(false) { out.push(p); }
            }
        }
    }
    struct V { file: String, statics: Vec<String>, tls: Vec<String>, umask: u64, in_test: u32 }
    impl<'ast> Visit<'ast> for V {
        fn visit_item_mod(&mut self, m: &'ast syn::ItemMod) {
            let is_test = m.attrs.iter().any(|a| quote::ToTokens::to_token_stream(a).to_string().replace(' ', "").contains("cfg(test)"));
            if is_test { return; }
            syn::visit::visit_item_mod(self, m)
        }
        fn visit_item_static(&mut self, s: &'ast syn::ItemStatic) {
            self.statics.push(format!("{}::{}", self.file, s.ident));
            syn::visit::visit_item_static(self, s)
        }
        fn visit_macro(&mut self, m: &'ast syn::Macro) {
            let n = m.path.segments.last().map(|x| x.ident.to_string()).unwrap_or_default();
            if n == "thread_local" || n == "lazy_static" { self.tls.push(format!("{}::{}!", self.file, n)); }
            let _ = self.in_test;
        }
        fn visit_expr_call(&mut self, c: &'ast syn::ExprCall) {
            let n = quote::ToTokens::to_token_stream(&c.func).to_string().replace(' ', "");
            if n == "umask" || n.ends_with("::umask") { self.umask += 1; }
            syn::visit::visit_expr_call(self, c)
        }
    }
    let mut v = V { file: String::new(), statics: vec![], tls: vec![], umask: 0, in_test: 0 };
    for d in ["src", "libxcp/src", "libfs/src"] {
        let mut files = vec![];
        rs_files(&root.join(d), &mut files);
        for f in files {
            let rel = f.strip_prefix(root).map(|x| x.display().to_string()).unwrap_or_default();
            let txt = std::fs::read_to_string(&f).map_err(|e| format!("{}: {}", rel, e))?;
            let file = syn::parse_file(&txt).map_err(|e| format!("{}: {}", rel, e))?;
            v.file = rel;
            v.visit_file(&file);
        }
    }
    let q = |l: &Vec<String>| format!("[{}]", l.iter().map(|x| format!("\"{}\"", x)).collect::<Vec<_>>().join("; "));
    Ok(format!("(* process-wide state in the non-test code of src/, libxcp/src/, libfs/src/: `static` items, thread_local!/lazy_static! blocks, calls of umask *)\nDefinition x_static_items : list string := {}.\nDefinition x_thread_locals : list string := {}.\nDefinition x_umask_calls : N := {}.\n",
               q(&v.statics), q(&v.tls), v.umask))
}

/// Inventory of the places that can PANIC in code that runs inside a job of the parblock pool (the closure given to
/// `pool.execute` and everything it calls in the three crates, including the drop of the last handle): `panic!`-family
/// macros, `.unwrap()` / `.expect()`, index and slice expressions.  A panic there is reported by nobody — the pool
/// replaces the thread and the dispatcher returns Ok — so each site must be shown harmless, and a new one re-opens C04.
fn pool_job_panic_sites(root: &Path) -> R<String> {
    struct V { sites: Vec<String>, under: Vec<String> }
    impl<'ast> Visit<'ast> for V {
        fn visit_expr_if(&mut self, i: &'ast syn::ExprIf) {
            // a site inside the then-branch of an `if` is recorded with the condition(s) it stands under
            self.visit_expr(&i.cond);
            self.under.push(quote::ToTokens::to_token_stream(&i.cond).to_string().replace(' ', ""));
            self.visit_block(&i.then_branch);
            self.under.pop();
            if let Some((_, e)) = &i.else_branch { self.visit_expr(e); }
        }
        fn visit_macro(&mut self, m: &'ast syn::Macro) {
            let n = m.path.segments.last().map(|x| x.ident.to_string()).unwrap_or_default();
            if ["panic", "unreachable", "assert", "assert_eq", "assert_ne", "todo", "unimplemented"].contains(&n.as_str()) {
                if self.under.is_empty() { self.sites.push(format!("{}!", n)); }
                else { self.sites.push(format!("{}! under {}", n, self.under.join(" && "))); }
            }
        }
        fn visit_expr_method_call(&mut self, c: &'ast syn::ExprMethodCall) {
            let n = c.method.to_string();
            if n == "unwrap" || n == "expect" {
                self.sites.push(format!("{}.{}()", quote::ToTokens::to_token_stream(&c.receiver).to_string().replace(' ', ""), n));
            }
            syn::visit::visit_expr_method_call(self, c)
        }
        fn visit_expr_index(&mut self, i: &'ast syn::ExprIndex) {
            self.sites.push(quote::ToTokens::to_token_stream(i).to_string().replace(' ', ""));
            syn::visit::visit_expr_index(self, i)
        }
    }
    let mut rows: Vec<String> = vec![];
    // the job closure itself
    let pb = load(root, "libxcp/src/drivers/parblock.rs")?;
    {
        let (_, block) = find_fn(&pb, "queue_file_range")?;
        struct C { body: Option<Expr> }
        impl<'ast> Visit<'ast> for C {
            fn visit_expr_method_call(&mut self, c: &'ast syn::ExprMethodCall) {
                if c.method == "execute" && self.body.is_none() {
                    if let Some(Expr::Closure(cl)) = c.args.first() { self.body = Some((*cl.body).clone()); }
                }
                syn::visit::visit_expr_method_call(self, c)
            }
        }
        let mut c = C { body: None };
        c.visit_block(block);
        let body = c.body.ok_or("queue_file_range: no closure given to pool.execute")?;
        let mut v = V { sites: vec![], under: vec![] };
        v.visit_expr(&body);
        for s in v.sites { rows.push(format!("(\"parblock::queue_file_range(job)\", \"{}\")", s.replace('"', "\"\""))); }
    }
    for (file, fns) in [("libfs/src/linux.rs", vec!["copy_file_offset", "try_copy_file_range"]),
                        ("libfs/src/common.rs", vec!["copy_range_uspace", "read_bytes", "write_bytes", "copy_permissions", "copy_xattr", "copy_timestamps", "copy_owner", "sync"]),
                        ("libxcp/src/feedback.rs", vec!["send"]),
                        ("libxcp/src/operations.rs", vec!["finalise_copy", "drop"])] {
        let src = load(root, file)?;
        for f in fns {
            let (_, block) = find_fn(&src, f)?;
            let mut v = V { sites: vec![], under: vec![] };
            v.visit_block(block);
            let stem = file.rsplit('/').next().unwrap_or(file).trim_end_matches(".rs");
            for s in v.sites { rows.push(format!("(\"{}::{}\", \"{}\")", stem, f, s.replace('"', "\"\""))); }
        }
    }
    Ok(format!("(* every place that can panic in code run inside a job of the parblock pool: panic!-family macros, unwrap/expect, index and slice expressions *)\nDefinition x_pool_job_panic_sites : list (string * string) := [{}].\n", rows.join("; ")))
}

fn find_fn<'a>(src: &'a Src, name: &str) -> R<(&'a syn::Signature, &'a Block)> {
    for it in &src.file.items {
        match it {
            Item::Fn(ItemFn { sig, block, .. }) if sig.ident == name => return Ok((sig, block)),
            Item::Impl(im) => {
                for ii in &im.items {
                    if let ImplItem::Fn(f) = ii {
                        if f.sig.ident == name {
                            return Ok((&f.sig, &f.block));
                        }
                    }
                }
            }
            _ => {}
        }
    }
    Err(format!("fn {} not found in {}", name, src.path))
}

/// `impl FiemapReq { fn new() -> FiemapReq { FiemapReq { fm_start: .., fm_length: .., .. } } }`: the request every
/// FIEMAP call starts from — the range of the file it asks the kernel to map
fn fiemap_request(src: &Src) -> R<String> {
    for it in &src.file.items {
        if let Item::Impl(im) = it {
            let ty = quote::ToTokens::to_token_stream(&im.self_ty).to_string().replace(' ', "");
            if ty != "FiemapReq" { continue; }
            for ii in &im.items {
                if let ImplItem::Fn(f) = ii {
                    if f.sig.ident != "new" { continue; }
                    if f.block.stmts.len() != 1 { return Err("FiemapReq::new: one expression expected".into()); }
                    let st = match &f.block.stmts[0] { Stmt::Expr(Expr::Struct(st), None) => st, _ => return Err("FiemapReq::new: struct literal expected".into()) };
                    let mut start = None; let mut length = None; let mut flags = None;
                    for fv in &st.fields {
                        let name = quote::ToTokens::to_token_stream(&fv.member).to_string();
                        let val = quote::ToTokens::to_token_stream(&fv.expr).to_string().replace(' ', "");
                        let num = |v: &str| -> R<String> {
                            if v == "u64::MAX" { return Ok("18446744073709551615".into()); }
                            let d: String = v.chars().filter(|c| *c != '_').collect();
                            if !d.is_empty() && d.chars().all(|c| c.is_ascii_digit()) { Ok(d) } else { Err(format!("FiemapReq::new: field value {} is not a literal", v)) }
                        };
                        match name.as_str() {
                            "fm_start" => start = Some(num(&val)?),
                            "fm_length" => length = Some(num(&val)?),
                            "fm_flags" => flags = Some(num(&val)?),
                            _ => {}
                        }
                    }
                    let (start, length, flags) = (start.ok_or("fm_start")?, length.ok_or("fm_length")?, flags.ok_or("fm_flags")?);
                    return Ok(format!("(* {}:{}  FiemapReq::new: the range of the file every FIEMAP request asks for, and its flags *)\nDefinition x_fiemap_req_start : N := {}.\nDefinition x_fiemap_req_length : N := {}.\nDefinition x_fiemap_req_flags : N := {}.\n",
                                      src.path, f.block.span().start().line, start, length, flags));
                }
            }
        }
    }
    Err("impl FiemapReq::new not found".into())
}

/// paths::ignore_filter: what it hands to the matcher — `gi.matched(<path>, <is_dir>)` — and the entries it lets through
/// without asking (the `if entry.depth() == 0 { return true; }` guard)
fn ignore_filter_query(root: &Path) -> R<String> {
    let src = load(root, "libxcp/src/paths.rs")?;
    let (_, block) = find_fn(&src, "ignore_filter")?;
    struct V { calls: Vec<(String, String)>, guards: Vec<String> }
    impl<'ast> Visit<'ast> for V {
        fn visit_expr_method_call(&mut self, c: &'ast syn::ExprMethodCall) {
            if c.method == "matched" || c.method == "matched_path_or_any_parents" {
                let a: Vec<String> = c.args.iter().map(|x| quote::ToTokens::to_token_stream(x).to_string().replace(' ', "")).collect();
                self.calls.push((a.get(0).cloned().unwrap_or_default(), a.get(1).cloned().unwrap_or_default()));
            }
            syn::visit::visit_expr_method_call(self, c)
        }
        fn visit_expr_if(&mut self, i: &'ast syn::ExprIf) {
            let body = quote::ToTokens::to_token_stream(&i.then_branch).to_string().replace(' ', "");
            if body == "{returntrue;}" || body == "{returntrue}" {
                self.guards.push(quote::ToTokens::to_token_stream(&i.cond).to_string().replace(' ', ""));
            }
            syn::visit::visit_expr_if(self, i)
        }
    }
    let mut v = V { calls: vec![], guards: vec![] };
    v.visit_block(block);
    if v.calls.len() != 1 { return Err(format!("ignore_filter: {} matcher queries (one expected)", v.calls.len())); }
    // local aliases: `let path = entry.path();` -> the query is about entry.path()
    let mut pathx = v.calls[0].0.clone();
    let mut dirx = v.calls[0].1.clone();
    for st in &block.stmts { let _ = st; }
    struct L { lets: Vec<(String, String)> }
    impl<'ast> Visit<'ast> for L {
        fn visit_local(&mut self, l: &'ast syn::Local) {
            if let (Some(n), Some(init)) = (pat_ident(&l.pat), l.init.as_ref()) {
                self.lets.push((n, quote::ToTokens::to_token_stream(&init.expr).to_string().replace(' ', "")));
            }
            syn::visit::visit_local(self, l)
        }
    }
    let mut l = L { lets: vec![] };
    l.visit_block(block);
    for (n, e) in &l.lets {
        if &pathx == n { pathx = e.clone(); }
        dirx = dirx.replace(&format!("{}.", n), &format!("{}.", e));
    }
    Ok(format!("(* {}  ignore_filter: the query put to the matcher (path, is_dir), local names resolved; entries passed without asking *)\nDefinition x_ignore_filter_query : string * string := (\"{}\", \"{}\").\nDefinition x_ignore_filter_unasked : list string := [{}].\n",
               src.path, pathx, dirx, v.guards.iter().map(|g| format!("\"{}\"", g)).collect::<Vec<_>>().join("; ")))
}

fn find_const(src: &Src, name: &str) -> Option<String> {
    struct V<'a> { name: &'a str, out: Option<String> }
    impl<'ast, 'a> Visit<'ast> for V<'a> {
        fn visit_item_const(&mut self, c: &'ast syn::ItemConst) {
            if c.ident == self.name {
                if let Expr::Lit(l) = &*c.expr {
                    if let Lit::Int(i) = &l.lit { self.out = Some(i.base10_digits().to_string()); }
                }
            }
        }
        fn visit_local(&mut self, l: &'ast syn::Local) { syn::visit::visit_local(self, l) }
    }
    let mut v = V { name, out: None };
    v.visit_file(&src.file);
    if v.out.is_none() {
        // `const X: T = lit;` inside a function body is an Item in a Stmt
        struct W<'a> { name: &'a str, out: Option<String> }
        impl<'ast, 'a> Visit<'ast> for W<'a> {
            fn visit_stmt(&mut self, s: &'ast Stmt) {
                if let Stmt::Item(Item::Const(c)) = s {
                    if c.ident == self.name {
                        if let Expr::Lit(l) = &*c.expr {
                            if let Lit::Int(i) = &l.lit { self.out = Some(i.base10_digits().to_string()); }
                        }
                    }
                }
                syn::visit::visit_stmt(self, s)
            }
        }
        let mut w = W { name, out: None };
        w.visit_file(&src.file);
        return w.out;
    }
    v.out
}

/// all `let` statements of a block and of the bodies of its for-loops / closures, in source order
fn collect_lets<'a>(b: &'a Block, out: &mut Vec<&'a syn::Local>) {
    struct V<'a> { out: Vec<&'a syn::Local> }
    impl<'ast> Visit<'ast> for V<'ast> {
        fn visit_local(&mut self, l: &'ast syn::Local) {
            self.out.push(l);
            syn::visit::visit_local(self, l)
        }
    }
    let mut v = V { out: vec![] };
    v.visit_block(b);
    out.extend(v.out);
}

/// Gallina function for the local `target` of `fname`: earlier lets become nested lets
fn let_function(src: &Src, fname: &str, target: &str, gname: &str, params: &[&str], ret: &str, consts: &[(&str, String)]) -> R<String> {
    let (_, block) = find_fn(src, fname)?;
    let mut lets = vec![];
    collect_lets(block, &mut lets);
    let mut tr = Tr::new();
    for (k, v) in consts { tr.consts.insert(k.to_string(), v.clone()); }
    let mut body = String::new();
    let mut closers = 0;
    let mut found = None;
    for l in lets {
        let name = match pat_ident(&l.pat) { Some(n) => n, None => continue };
        let init = match &l.init { Some(i) => i, None => continue };
        if name == target {
            found = Some((tr.expr(&init.expr)?, l.span().start().line));
            break;
        }
        // an earlier binding: keep it only if it translates (others cannot be referenced by a translatable target)
        let mut probe = Tr::new();
        probe.consts = tr.consts.clone();
        probe.bound = tr.bound.clone();
        if let Ok(v) = probe.expr(&init.expr) {
            for f in probe.free { tr.free.insert(f); }
            write!(body, "let {} := {} in ", name, v).unwrap();
            tr.bound.insert(name);
            closers += 1;
        }
    }
    let _ = closers;
    let (val, line) = found.ok_or(format!("local `{}` not found in fn {}", target, fname))?;
    // drop lets the value does not depend on (keeps the definition readable and the parameter list minimal)
    let mut needed: Vec<(String, String)> = vec![];
    {
        let mut want: BTreeSet<String> = idents_of(&val);
        let all: Vec<(String, String)> = body.split("let ").filter(|s| !s.is_empty()).filter_map(|s| {
            let s = s.trim_end().trim_end_matches(" in").to_string();
            let mut it = s.splitn(2, " := ");
            Some((it.next()?.to_string(), it.next()?.to_string()))
        }).collect();
        for (n, v) in all.iter().rev() {
            if want.contains(n) {
                for i in idents_of(v) { want.insert(i); }
                needed.push((n.clone(), v.clone()));
            }
        }
        needed.reverse();
        let bound: BTreeSet<String> = needed.iter().map(|x| x.0.clone()).collect();
        for w in &want {
            if !bound.contains(w) && !params.contains(&w.as_str()) && !is_gallina_word(w) {
                return Err(format!("{}: free variable `{}` is not a declared parameter", gname, w));
            }
        }
    }
    let mut out = String::new();
    writeln!(out, "(* {}:{}  fn {}: `{}` *)", src.path, line, fname, target).unwrap();
    write!(out, "Definition {} ({} : N) : {} :=\n  ", gname, params.join(" "), ret).unwrap();
    for (n, v) in &needed { write!(out, "let {} := {} in ", n, v).unwrap(); }
    writeln!(out, "{}.", val).unwrap();
    Ok(out)
}

fn is_gallina_word(w: &str) -> bool {
    matches!(w, "N" | "min" | "max" | "mod" | "if" | "then" | "else" | "negb" | "true" | "false" | "let" | "in" | "Some" | "None")
}
fn idents_of(s: &str) -> BTreeSet<String> {
    let mut out = BTreeSet::new();
    let mut cur = String::new();
    for ch in s.chars().chain(std::iter::once(' ')) {
        if ch.is_alphanumeric() || ch == '_' || ch == '.' { cur.push(ch); } else {
            if !cur.is_empty() && !cur.chars().next().unwrap().is_ascii_digit() && !cur.starts_with("N.") { out.insert(cur.clone()); }
            cur.clear();
        }
    }
    out
}

/// the errnos whose match arm has a body matching `pred`
fn errno_arms(src: &Src, fname: &str, pred: &dyn Fn(&str) -> bool) -> R<(Vec<u64>, usize)> {
    let (_, block) = find_fn(src, fname)?;
    struct V { matches: Vec<ExprMatch> }
    impl<'ast> Visit<'ast> for V {
        fn visit_expr_match(&mut self, m: &'ast ExprMatch) { self.matches.push(m.clone()); syn::visit::visit_expr_match(self, m) }
    }
    let mut v = V { matches: vec![] };
    v.visit_block(block);
    for m in &v.matches {
        let mut out = vec![];
        let mut any = false;
        for arm in &m.arms {
            let body = quote::ToTokens::to_token_stream(&arm.body).to_string();
            let mut names = vec![];
            pat_errnos(&arm.pat, &mut names);
            if let Some((_, g)) = &arm.guard {
                // `Err(errno) if errno == Errno::NXIO`
                if let Expr::Binary(b) = &**g {
                    if matches!(b.op, BinOp::Eq(_)) {
                        if let Some(n) = flat_name(&b.right) { names.push(n.rsplit('_').next().unwrap().to_string()); }
                    }
                }
            }
            if names.is_empty() { continue; }
            any = true;
            if pred(&body) {
                for n in names {
                    out.push(errno_value(&n).ok_or(format!("unknown errno {}", n))?);
                }
            }
        }
        if any { return Ok((out, m.span().start().line)); }
    }
    Err(format!("no errno match in fn {}", fname))
}

fn pat_errnos(p: &Pat, out: &mut Vec<String>) {
    match p {
        Pat::Or(o) => for c in &o.cases { pat_errnos(c, out) },
        Pat::TupleStruct(ts) => for e in &ts.elems { pat_errnos(e, out) },
        Pat::Path(pp) => {
            let last = pp.path.segments.last().map(|s| s.ident.to_string()).unwrap_or_default();
            if errno_value(&last).is_some() { out.push(last); }
        }
        Pat::Ident(i) => { let n = i.ident.to_string(); if errno_value(&n).is_some() { out.push(n); } }
        Pat::Paren(pp) => pat_errnos(&pp.pat, out),
        _ => {}
    }
}

fn nlist(v: &[u64]) -> String {
    format!("[{}]", v.iter().map(|x| x.to_string()).collect::<Vec<_>>().join("; "))
}

/// `x == Some(libc::E...)` comparisons inside fn
fn errno_eq(src: &Src, fname: &str) -> R<(Vec<u64>, usize)> {
    let (_, block) = find_fn(src, fname)?;
    struct V { out: Vec<u64>, line: usize }
    impl<'ast> Visit<'ast> for V {
        fn visit_expr_binary(&mut self, b: &'ast syn::ExprBinary) {
            if matches!(b.op, BinOp::Eq(_)) {
                let txt = quote::ToTokens::to_token_stream(&b.right).to_string();
                for w in txt.split(|c: char| !(c.is_alphanumeric() || c == '_')) {
                    if w.starts_with('E') { if let Some(v) = errno_value(w) { self.out.push(v); self.line = b.span().start().line; } }
                }
            }
            syn::visit::visit_expr_binary(self, b)
        }
    }
    let mut v = V { out: vec![], line: 0 };
    v.visit_block(block);
    if v.out.is_empty() { return Err(format!("no errno comparison in fn {}", fname)); }
    Ok((v.out, v.line))
}

/// integer literal argument of the first call of method `method` in fn
fn method_literal(src: &Src, fname: &str, method: &str) -> R<(String, usize)> {
    let (_, block) = find_fn(src, fname)?;
    struct V<'a> { method: &'a str, out: Option<(String, usize)> }
    impl<'ast, 'a> Visit<'ast> for V<'a> {
        fn visit_expr_method_call(&mut self, m: &'ast syn::ExprMethodCall) {
            if m.method == self.method && m.args.len() == 1 && self.out.is_none() {
                if let Expr::Lit(l) = &m.args[0] {
                    if let Lit::Int(i) = &l.lit { self.out = Some((i.base10_digits().to_string(), m.span().start().line)); }
                }
            }
            syn::visit::visit_expr_method_call(self, m)
        }
    }
    let mut v = V { method, out: None };
    v.visit_block(block);
    v.out.ok_or(format!("no .{}(<literal>) in fn {}", method, fname))
}

/// The tail of a driver's `copy()`: how the results of its threads become the result of the call.  Recognised statements:
/// `<t>.join().map_err(..)??;` (the thread's error, or a panic, is returned at once), `for <h> in <v> { <h>.join().map_err(..)??; }`
/// (the same for every handle of the vector, in order) and the final `Ok(())`.  A thread result is `option N`: None = Ok.
fn driver_join(src: &Src, gname: &str) -> R<String> {
    let (_, block) = find_fn(src, "copy")?;
    let txt = |st: &Stmt| quote::ToTokens::to_token_stream(st).to_string().replace(' ', "");
    let start = block.stmts.iter().position(|st| txt(st).contains(".join()")).ok_or("copy(): no join")?;
    fn join_of(t: &str) -> Option<String> {
        // <name>.join().map_err(|_|XcpError::CopyError("..".to_string()))??;
        let (name, rest) = t.split_once(".join()")?;
        if !name.chars().all(|c| c.is_alphanumeric() || c == '_') { return None; }
        if rest.starts_with(".map_err(|_|XcpError::CopyError(") && rest.ends_with("))??;") { Some(name.to_string()) } else { None }
    }
    let mut steps: Vec<(String, bool)> = vec![];   // (thread or vector name, is a vector)
    let mut closed = false;
    for st in &block.stmts[start..] {
        let t = txt(st);
        if closed { return Err(format!("copy(): statement after the final Ok(()): {}", t)); }
        if t == "Ok(())" { closed = true; continue; }
        if let Some(n) = join_of(&t) { steps.push((n, false)); continue; }
        if let Stmt::Expr(Expr::ForLoop(f), _) = st {
            let h = pat_ident(&f.pat).ok_or("copy(): for pattern")?;
            let v = flat_name(&f.expr).ok_or("copy(): for collection")?;
            if f.body.stmts.len() == 1 {
                if let Some(n) = join_of(&txt(&f.body.stmts[0])) {
                    if n == h { steps.push((v, true)); continue; }
                }
            }
            return Err(format!("copy(): unexpected join loop body: {}", t));
        }
        return Err(format!("copy(): unexpected statement among the joins: {}", t));
    }
    if !closed { return Err("copy(): does not end in Ok(())".into()); }
    let params: Vec<String> = steps.iter().map(|(n, v)| format!("({} : {})", n, if *v { "list (option N)" } else { "option N" })).collect();
    let mut body = "None".to_string();
    for (n, v) in steps.iter().rev() {
        let scrut = if *v { format!("fold_left (fun acc h => match acc with Some e => Some e | None => h end) {} None", n) } else { n.clone() };
        body = format!("match {} with Some e => Some e | None =>\n  {} end", scrut, body);
    }
    Ok(format!("(* {}:{}  Driver::copy: the result of the call from the results of its threads (None = Ok; a panic counts as an error), joined in this order *)\nDefinition {} {} : option N :=\n  {}.\n",
               src.path, block.span().start().line, gname, params.join(" "), body))
}

/// How each kind of operation reports its failure in a worker loop (`copy_worker`, `dispatch_worker`): per `Operation` arm
/// the list of routes — 1 = an Error update is sent, 2 = the worker returns the error (`return Err` / `?`), 99 = anything
/// else found on the failure path (a `continue`, a retry, a swallowed error...)
fn error_routes(src: &Src, fname: &str, gname: &str) -> R<String> {
    let (_, block) = find_fn(src, fname)?;
    struct V { arms: Vec<syn::Arm> }
    impl<'ast> Visit<'ast> for V {
        fn visit_arm(&mut self, a: &'ast syn::Arm) {
            let p = quote::ToTokens::to_token_stream(&a.pat).to_string().replace(' ', "");
            if p.starts_with("Operation::") { self.arms.push(a.clone()); }
            syn::visit::visit_arm(self, a)
        }
    }
    let mut v = V { arms: vec![] };
    v.visit_block(block);
    let mut rows = vec![];
    for arm in &v.arms {
        let p = quote::ToTokens::to_token_stream(&arm.pat).to_string().replace(' ', "");
        let kind = if p.starts_with("Operation::Copy") { 0 } else if p.starts_with("Operation::Link") { 1 } else if p.starts_with("Operation::Special") { 2 } else { 9 };
        let body = match &*arm.body { Expr::Block(b) => b.block.clone(), _ => return Err(format!("{}: arm {} is not a block", fname, p)) };
        // the failure path: the `if let Err(e) = .. { .. }` block when there is one, else the `?` / `return Err` of the arm itself
        let mut routes: Vec<u64> = vec![];
        let mut handler = None;
        for st in &body.stmts {
            if let Stmt::Expr(Expr::If(i), _) = st {
                let c = quote::ToTokens::to_token_stream(&i.cond).to_string().replace(' ', "");
                if c.starts_with("letErr(e)=") { handler = Some(i.then_branch.clone()); }
            }
        }
        match handler {
            Some(h) => {
                for st in &h.stmts {
                    let t = quote::ToTokens::to_token_stream(st).to_string().replace(' ', "");
                    if t.starts_with("error!") || t.starts_with("warn!") || t.starts_with("info!") || t.starts_with("debug!") { continue; }
                    if t.contains(".send(StatusUpdate::Error(") && t.ends_with("?;") { routes.push(1); }
                    else if t.starts_with("returnErr(") { routes.push(2); }
                    else { routes.push(99); }
                }
            }
            None => {
                let t = quote::ToTokens::to_token_stream(&body).to_string().replace(' ', "");
                if t.contains(".send(StatusUpdate::Error(") { routes.push(1); }
                if t.contains(")?;") || t.contains("returnErr(") { routes.push(2); }
                if t.contains("continue;") || t.contains(".ok();") || t.contains("ifletErr(") { routes.push(99); }
            }
        }
        rows.push(format!("({}, {})", kind, nlist(&routes)));
    }
    Ok(format!("(* {}  fn {}: per operation kind (0 Copy, 1 Link, 2 Special) what its failure path does, in order: 1 sends an Error update, 2 returns the error from the worker, 99 anything else *)\nDefinition {} : list (N * list N) := [{}].\n",
               src.path, fname, gname, rows.join("; ")))
}

/// main(): the loop that collects the status updates and the join that follows, as a function of the update stream and
/// of the driver thread's result
fn main_collect(src: &Src) -> R<String> {
    let (_, block) = find_fn(src, "main")?;
    let txt = |st: &Stmt| quote::ToTokens::to_token_stream(st).to_string().replace(' ', "");
    let pos = block.stmts.iter().position(|st| matches!(st, Stmt::Expr(Expr::ForLoop(f), _) if quote::ToTokens::to_token_stream(&f.expr).to_string().replace(' ', "") == "stat_rx"))
        .ok_or("main(): no `for stat in stat_rx` loop")?;
    let f = match &block.stmts[pos] { Stmt::Expr(Expr::ForLoop(f), _) => f, _ => unreachable!() };
    let binder = pat_ident(&f.pat).ok_or("main(): loop pattern")?;
    let m = match f.body.stmts.as_slice() { [Stmt::Expr(Expr::Match(m), _)] => m, _ => return Err("main(): the update loop is not a single match".into()) };
    if quote::ToTokens::to_token_stream(&m.expr).to_string().replace(' ', "") != binder { return Err("main(): the update loop matches on something else".into()); }
    let mut arms = String::new();
    let mut seen = vec![];
    for arm in &m.arms {
        let p = quote::ToTokens::to_token_stream(&arm.pat).to_string().replace(' ', "");
        let (ctor, b) = if let Some(r) = p.strip_prefix("StatusUpdate::Copied(") { ("XuCopied", r.trim_end_matches(')').to_string()) }
            else if let Some(r) = p.strip_prefix("StatusUpdate::Size(") { ("XuSize", r.trim_end_matches(')').to_string()) }
            else if let Some(r) = p.strip_prefix("StatusUpdate::Error(") { ("XuError", r.trim_end_matches(')').to_string()) }
            else { return Err(format!("main(): unexpected update pattern {}", p)) };
        seen.push(ctor);
        // body: logging dropped; `pb.inc(..)` / `pb.inc_size(..)` keep going; `return Err(e.into())` ends main
        let stmts: Vec<String> = match &*arm.body {
            Expr::Block(bl) => bl.block.stmts.iter().map(|s| txt(s)).collect(),
            e => vec![quote::ToTokens::to_token_stream(e).to_string().replace(' ', "")],
        };
        let stmts: Vec<String> = stmts.into_iter().filter(|t| !(t.starts_with("error!") || t.starts_with("info!") || t.starts_with("warn!") || t.starts_with("debug!"))).collect();
        let rhs = match stmts.as_slice() {
            [t] if t.starts_with("pb.inc(") || t.starts_with("pb.inc_size(") => "x_main_collect rest handle".to_string(),
            [t] if *t == format!("returnErr({}.into());", b) || *t == format!("returnErr({}.into())", b) => format!("Some {}", b),
            other => return Err(format!("main(): unexpected body of the {} arm: {:?}", ctor, other)),
        };
        write!(arms, " | {} {} => {}", ctor, b, rhs).unwrap();
    }
    for c in ["XuCopied", "XuSize", "XuError"] { if !seen.contains(&c) { return Err(format!("main(): no arm for {}", c)); } }
    // after the loop: the join of the driver thread, then only display calls and Ok(())
    let mut joined = false;
    for st in &block.stmts[pos + 1..] {
        let t = txt(st);
        if t.starts_with("info!") || t.starts_with("debug!") || t == "pb.end();" { continue; }
        if t.starts_with("handle.join().map_err(|_|XcpError::CopyError(") && t.ends_with("))??;") && !joined { joined = true; continue; }
        if t == "Ok(())" && joined { continue; }
        return Err(format!("main(): unexpected statement after the update loop: {}", t));
    }
    if !joined { return Err("main(): the driver thread is not joined after the update loop".into()); }
    Ok(format!("(* {}:{}  main(): collecting the status updates, then joining the driver thread: the exit status (None = 0) from the update stream and the driver's result *)\nInductive x_update := XuCopied (v : N) | XuSize (v : N) | XuError (e : N).\nFixpoint x_main_collect (stats : list x_update) (handle : option N) : option N :=\n  match stats with\n  | [] => match handle with Some e => Some e | None => None end\n  | {} :: rest => match {} with{} end\n  end.\n",
               src.path, f.span().start().line, binder, binder, arms))
}

/// finalise_copy: the ordered (step code, guard is negated) list
fn finalise_order(src: &Src) -> R<(Vec<(u64, bool)>, usize)> {
    let (_, block) = find_fn(src, "finalise_copy")?;
    let mut out = vec![];
    for st in &block.stmts {
        let e = match st { Stmt::Expr(e, _) => e, _ => continue };
        let i = match e { Expr::If(i) => i, _ => continue };
        let cond = quote::ToTokens::to_token_stream(&i.cond).to_string().replace(' ', "");
        let body = quote::ToTokens::to_token_stream(&i.then_branch).to_string() + &cond;
        let code = if body.contains("copy_owner") { 6 } else if body.contains("copy_permissions") { 8 }
                   else if body.contains("copy_timestamps") { 9 } else if body.contains("sync(") || body.contains("sync (") { 10 }
                   else { return Err(format!("finalise_copy: unknown step at line {}", i.span().start().line)) };
        let guard_flag = if cond.contains("ownership") { 6 } else if cond.contains("no_perms") { 8 }
                         else if cond.contains("no_timestamps") { 9 } else if cond.contains("fsync") { 10 } else { 0 };
        if guard_flag != code { return Err(format!("finalise_copy: step {} is guarded by another flag", code)); }
        out.push((code, cond.starts_with('!')));
    }
    Ok((out, block.span().start().line))
}

/// name of the zero-argument method bound to local `target` in fn (e.g. `let dev = meta.rdev();`)
fn let_method(src: &Src, fname: &str, target: &str) -> R<(String, usize)> {
    let (_, block) = find_fn(src, fname)?;
    let mut lets = vec![];
    collect_lets(block, &mut lets);
    for l in lets {
        if pat_ident(&l.pat).as_deref() == Some(target) {
            if let Some(init) = &l.init {
                if let Expr::MethodCall(m) = &*init.expr {
                    return Ok((m.method.to_string(), l.span().start().line));
                }
            }
        }
    }
    Err(format!("`let {} = _.method()` not found in fn {}", target, fname))
}

fn merge_extents(src: &Src) -> R<String> {
    let (sig, block) = find_fn(src, "merge_extents")?;
    let arg = match sig.inputs.first() {
        Some(syn::FnArg::Typed(t)) => pat_ident(&t.pat).ok_or("merge_extents: argument pattern")?,
        _ => return Err("merge_extents: no argument".into()),
    };
    // leading `let mut x = init;` are the mutable state; the tail is Ok(<one of them>)
    let mut muts = vec![];
    let mut inits = vec![];
    let mut k = 0;
    let mut tr = Tr::new();
    tr.bound.insert(arg.clone());
    for st in &block.stmts {
        if let Stmt::Local(l) = st {
            if let Pat::Ident(pi) = strip_type(&l.pat) {
                if pi.mutability.is_some() {
                    let init = l.init.as_ref().ok_or("merge_extents: let mut without initialiser")?;
                    inits.push(tr.expr(&init.expr)?);
                    muts.push(pi.ident.to_string());
                    k += 1;
                    continue;
                }
            }
        }
        break;
    }
    if muts.is_empty() { return Err("merge_extents: no mutable state found".into()); }
    for m in &muts { tr.bound.insert(m.clone()); }
    let n = block.stmts.len();
    let tail = match &block.stmts[n - 1] { Stmt::Expr(e, None) => tr.expr(e)?, _ => return Err("merge_extents: no tail expression".into()) };
    let body = tr.stmts_state(&block.stmts[k..n - 1], &muts)?;
    let mut out = String::new();
    writeln!(out, "(* {}:{}  fn merge_extents, translated statement by statement: the mutable locals ({}) are", src.path,
             sig.span().start().line, muts.join(", ")).unwrap();
    writeln!(out, "   threaded through; the for loop is a fold_left *)").unwrap();
    writeln!(out, "Definition x_merge_extents ({} : list extent) : list extent :=", arg).unwrap();
    for (m, i) in muts.iter().zip(inits.iter()) {
        let ty = if i == "[]" { " : list extent" } else if i == "None" { " : option extent" } else { "" };
        writeln!(out, "  let {}{} := {} in", m, ty, i).unwrap();
    }
    writeln!(out, "  let {} :=\n      {} in", Tr::tuple_pat(&muts), body).unwrap();
    writeln!(out, "  {}.", tail).unwrap();
    Ok(out)
}

fn strip_type(p: &Pat) -> &Pat {
    match p { Pat::Type(t) => strip_type(&t.pat), other => other }
}

/// first `if` condition in fn that is a `>` comparison containing a division
fn send_condition(src: &Src) -> R<String> {
    let (_, block) = find_fn(src, "send")?;
    struct V { found: Option<Expr> }
    impl<'ast> Visit<'ast> for V {
        fn visit_expr_if(&mut self, i: &'ast syn::ExprIf) {
            let t = quote::ToTokens::to_token_stream(&i.cond).to_string();
            if self.found.is_none() && t.contains('/') { self.found = Some((*i.cond).clone()); }
            syn::visit::visit_expr_if(self, i)
        }
    }
    let mut v = V { found: None };
    v.visit_block(block);
    let c = v.found.ok_or("send: batching condition not found")?;
    let mut tr = Tr::new();
    let val = tr.expr(&c)?;
    for f in &tr.free {
        if !["prev_written", "bytes", "bsize"].contains(&f.as_str()) { return Err(format!("send: unexpected variable {}", f)); }
    }
    Ok(format!("(* {}:{}  ChannelUpdater::send: the batching condition *)\nDefinition x_send_cond (prev_written bytes bsize : N) : bool :=\n  {}.\n",
               src.path, c.span().start().line, val))
}

fn probably_sparse(src: &Src) -> R<String> {
    let (_, block) = find_fn(src, "probably_sparse")?;
    let n = block.stmts.len();
    let tail = match &block.stmts[n - 1] { Stmt::Expr(e, None) => e, _ => return Err("probably_sparse: no tail".into()) };
    let mut tr = Tr::new();
    if let Some(c) = find_const(src, "ST_NBLOCKSIZE") { tr.consts.insert("ST_NBLOCKSIZE".into(), c); }
    let val = tr.expr(tail)?;
    for f in &tr.free {
        if !["stat_st_blocks", "stat_st_size"].contains(&f.as_str()) { return Err(format!("probably_sparse: unexpected variable {}", f)); }
    }
    Ok(format!("(* {}:{}  probably_sparse *)\nDefinition x_probably_sparse (stat_st_blocks stat_st_size : N) : bool :=\n  {}.\n",
               src.path, tail.span().start().line, val))
}

/// `while cond` and the `cmp::min` request of CopyHandle::copy_bytes
fn copy_bytes_loop(src: &Src) -> R<String> {
    let (_, block) = find_fn(src, "copy_bytes")?;
    struct V { w: Option<syn::ExprWhile> }
    impl<'ast> Visit<'ast> for V {
        fn visit_expr_while(&mut self, w: &'ast syn::ExprWhile) { if self.w.is_none() { self.w = Some(w.clone()); } }
    }
    let mut v = V { w: None };
    v.visit_block(block);
    let w = v.w.ok_or("copy_bytes: no while loop")?;
    let mut tr = Tr::new();
    let cond = tr.expr(&w.cond)?;
    let mut req = None;
    for st in &w.body.stmts {
        if let Stmt::Local(l) = st {
            if pat_ident(&l.pat).as_deref() == Some("bytes_to_copy") {
                req = Some(tr.expr(&l.init.as_ref().ok_or("copy_bytes: let without init")?.expr)?);
            }
        }
    }
    let req = req.ok_or("copy_bytes: `bytes_to_copy` not found")?;
    for f in &tr.free {
        if !["written", "len", "bsize"].contains(&f.as_str()) { return Err(format!("copy_bytes: unexpected variable {}", f)); }
    }
    Ok(format!("(* {}:{}  CopyHandle::copy_bytes: loop guard and size of the next request *)\n\
Definition x_copy_bytes_continue (written len : N) : bool :=\n  {}.\n\
Definition x_copy_bytes_request (written len bsize : N) : N :=\n  {}.\n", src.path, w.span().start().line, cond, req))
}

/// `Config::from(&Opts)`: the expression of field `field` in the struct literal
fn struct_field_expr(src: &Src, fname: &str, field: &str) -> R<(Expr, usize)> {
    let (_, block) = find_fn(src, fname)?;
    struct V<'a> { field: &'a str, out: Option<(Expr, usize)> }
    impl<'ast, 'a> Visit<'ast> for V<'a> {
        fn visit_field_value(&mut self, f: &'ast syn::FieldValue) {
            if let syn::Member::Named(i) = &f.member {
                if i == self.field && self.out.is_none() { self.out = Some((f.expr.clone(), f.span().start().line)); }
            }
            syn::visit::visit_field_value(self, f)
        }
    }
    let mut v = V { field, out: None };
    v.visit_block(block);
    v.out.ok_or(format!("field `{}` not found in fn {}", field, fname))
}

fn config_block_size(src: &Src) -> R<String> {
    let (e, line) = struct_field_expr(src, "from", "block_size")?;
    let mut tr = Tr::new();
    tr.consts.insert("usize_MAX".into(), "18446744073709551615".into());
    tr.consts.insert("u64_MAX".into(), "18446744073709551615".into());
    let v = tr.expr(&e)?;
    for f in &tr.free {
        if !["opts_no_progress", "opts_block_size"].contains(&f.as_str()) { return Err(format!("Config::from: unexpected variable {}", f)); }
    }
    Ok(format!("(* {}:{}  Config::from(&Opts): the block size (usize::MAX under --no-progress) *)\nDefinition x_config_block_size (opts_no_progress : bool) (opts_block_size : N) : N :=\n  {}.\n", src.path, line, v))
}

/// Config::num_workers (libxcp/src/config.rs): the number of worker threads both drivers start
fn num_workers(src: &Src) -> R<String> {
    let (_, block) = find_fn(src, "num_workers")?;
    let mut tr = Tr::new();
    tr.consts.insert("num_cpus_get".into(), "ncpus".into());
    let v = tr.block_value(block)?;
    for f in &tr.free {
        if f != "self_workers" { return Err(format!("Config::num_workers: unexpected variable {}", f)); }
    }
    Ok(format!("(* {}:{}  Config::num_workers: how many workers the drivers start (num_cpus::get() = ncpus) *)\nDefinition x_num_workers (self_workers ncpus : N) : N :=\n  {}.\n",
               src.path, block.span().start().line, v))
}

/// impl From<&Opts> for Config (src/options.rs): the `workers` field as a function, and every field with the text of its initialiser
fn config_from_opts(src: &Src) -> R<String> {
    let (e, line) = struct_field_expr(src, "from", "workers")?;
    let mut tr = Tr::new();
    tr.consts.insert("num_cpus_get".into(), "ncpus".into());
    let v = tr.expr(&e)?;
    for f in &tr.free {
        if f != "opts_workers" { return Err(format!("Config::from: unexpected variable {} in `workers`", f)); }
    }
    let (_, block) = find_fn(src, "from")?;
    // the function must be exactly one struct literal `Config { .. }` without a `..base` tail
    let lit = match block.stmts.as_slice() {
        [Stmt::Expr(Expr::Struct(st), None)] => st,
        _ => return Err("Config::from is not a single struct literal".into()),
    };
    if lit.rest.is_some() { return Err("Config::from: struct literal has a `..base` tail".into()); }
    let mut fields = vec![];
    for fv in &lit.fields {
        if let syn::Member::Named(i) = &fv.member {
            let t = quote::ToTokens::to_token_stream(&fv.expr).to_string().replace(' ', "");
            fields.push(format!("(\"{}\", \"{}\")", i, t.replace('"', "\"\"")));
        }
    }
    Ok(format!("(* {}:{}  Config::from(&Opts): the worker count (0 = one per CPU) *)\nDefinition x_config_workers (opts_workers ncpus : N) : N :=\n  {}.\n\n(* {}  Config::from(&Opts): every field of the one struct literal with the text of its initialiser *)\nDefinition x_config_fields : list (string * string) :=\n  [{}].\n",
               src.path, line, v, src.path, fields.join("; ")))
}

/// next_backup_num: `Ok(current + 1)` and the `.unwrap_or(<lit>)` default
fn next_backup(src: &Src) -> R<String> {
    let (_, block) = find_fn(src, "next_backup_num")?;
    let n = block.stmts.len();
    let tail = match &block.stmts[n - 1] { Stmt::Expr(e, None) => e, _ => return Err("next_backup_num: no tail".into()) };
    // tail: `current.checked_add(<lit>).ok_or_else(|| <error>)` — the successor, an ERROR when it does not fit in a u64 — or
    // the unchecked `Ok(current + <lit>)` (which wraps in a release build)
    let tt = quote::ToTokens::to_token_stream(tail).to_string().replace(' ', "");
    let (v, checked) = if let Some(rest) = tt.strip_prefix("current.checked_add(") {
        let (lit, after) = rest.split_once(')').ok_or("next_backup_num: checked_add shape")?;
        if !lit.chars().all(|c| c.is_ascii_digit()) || !(after.starts_with(".ok_or_else(") || after.starts_with(".ok_or(")) || !after.contains("XcpError::") {
            return Err(format!("next_backup_num: unexpected tail {}", tt));
        }
        (format!("(current + {})", lit), true)
    } else {
        let mut tr = Tr::new();
        let v = tr.expr(tail)?;
        for f in &tr.free { if f != "current" { return Err(format!("next_backup_num: unexpected variable {}", f)); } }
        (v, false)
    };
    let (dflt, l2) = method_literal(src, "next_backup_num", "unwrap_or")?;
    Ok(format!("(* {}:{}  next_backup_num: the number chosen from the largest existing one (checked: an error, not a wrap-around, when it does not fit in a u64); {}:{} the default when there is none *)\nDefinition x_next_backup_from_max (current : N) : N :=\n  {}.\nDefinition x_next_backup_checked : bool := {}.\nDefinition x_backup_max_default : N := {}.\n",
               src.path, tail.span().start().line, src.path, l2, v, checked, dflt))
}

fn str_const(src: &Src, name: &str) -> R<(String, usize)> {
    for it in &src.file.items {
        if let Item::Const(c) = it {
            if c.ident == name {
                if let Expr::Lit(l) = &*c.expr {
                    if let Lit::Str(sl) = &l.lit { return Ok((sl.value(), c.span().start().line)); }
                }
            }
        }
    }
    Err(format!("string const {} not found", name))
}

/// CopyHandle::try_reflink as a decision table over (mode, did the clone work)
fn try_reflink(src: &Src) -> R<String> {
    let (_, block) = find_fn(src, "try_reflink")?;
    let m = match block.stmts.last() { Some(Stmt::Expr(Expr::Match(m), _)) => m, _ => return Err("try_reflink: body is not a match".into()) };
    fn mode_code(n: &str) -> Option<u64> { match n { "Auto" => Some(0), "Always" => Some(1), "Never" => Some(2), _ => None } }
    fn pat_modes(p: &Pat, out: &mut Vec<u64>) -> R<()> {
        match p {
            Pat::Or(o) => { for c in &o.cases { pat_modes(c, out)?; } Ok(()) }
            Pat::Path(pp) => { let l = pp.path.segments.last().unwrap().ident.to_string(); out.push(mode_code(&l).ok_or(format!("unknown mode {}", l))?); Ok(()) }
            Pat::Ident(i) => { let l = i.ident.to_string(); out.push(mode_code(&l).ok_or(format!("unknown mode {}", l))?); Ok(()) }
            _ => Err("try_reflink: unsupported pattern".into()),
        }
    }
    fn outcome(e: &Expr) -> R<String> {
        // Ok(true) -> 1, Ok(false) -> 0, Err(_) -> 2, if/else chains
        match e {
            Expr::Block(b) => block_outcome(&b.block),
            Expr::If(i) => {
                let c = cond(&i.cond)?;
                let t = block_outcome(&i.then_branch)?;
                let f = outcome(&i.else_branch.as_ref().ok_or("try_reflink: if without else")?.1)?;
                Ok(format!("(if {} then {} else {})", c, t, f))
            }
            Expr::Call(c) => {
                let f = flat_name(&c.func).unwrap_or_default();
                let a = c.args.first().map(|x| quote::ToTokens::to_token_stream(x).to_string()).unwrap_or_default();
                match (f.as_str(), a.as_str()) { ("Ok", "true") => Ok("1".into()), ("Ok", "false") => Ok("0".into()), ("Err", _) => Ok("2".into()),
                    _ => Err(format!("try_reflink: unsupported result {}({})", f, a)) }
            }
            Expr::Return(r) => outcome(r.expr.as_ref().ok_or("return without value")?),
            _ => Err(format!("try_reflink: unsupported expression at line {}", e.span().start().line)),
        }
    }
    fn cond(e: &Expr) -> R<String> {
        match e {
            Expr::Path(p) if p.path.is_ident("worked") => Ok("worked".into()),
            Expr::Binary(b) if matches!(b.op, BinOp::Eq(_)) => {
                let l = flat_name(&b.left).unwrap_or_default();
                let r = flat_name(&b.right).unwrap_or_default();
                if l.ends_with("config_reflink") {
                    let m = mode_code(r.rsplit('_').next().unwrap()).ok_or("unknown mode in comparison")?;
                    Ok(format!("(mode =? {})", m))
                } else { Err("try_reflink: unsupported comparison".into()) }
            }
            _ => Err("try_reflink: unsupported condition".into()),
        }
    }
    fn block_outcome(b: &Block) -> R<String> {
        for (k, st) in b.stmts.iter().enumerate() {
            match st {
                Stmt::Local(l) => {
                    // `let worked = reflink(..)?;`
                    let name = pat_ident(&l.pat).unwrap_or_default();
                    let init = quote::ToTokens::to_token_stream(&l.init.as_ref().ok_or("let without init")?.expr).to_string();
                    if name != "worked" || !init.replace(' ', "").starts_with("reflink(") { return Err("try_reflink: unexpected let".into()); }
                }
                Stmt::Macro(_) => {}
                Stmt::Expr(e, _) if k + 1 == b.stmts.len() => return outcome(e),
                Stmt::Expr(Expr::Macro(_), _) => {}
                _ => return Err("try_reflink: unsupported statement".into()),
            }
        }
        Err("try_reflink: empty block".into())
    }
    let mut table = String::from("2");
    let mut issues = String::from("false");
    for arm in m.arms.iter().rev() {
        let mut modes = vec![];
        pat_modes(&arm.pat, &mut modes)?;
        let c = modes.iter().map(|x| format!("(mode =? {})", x)).collect::<Vec<_>>().join(" || ");
        let o = outcome(&arm.body)?;
        let calls = quote::ToTokens::to_token_stream(&arm.body).to_string().replace(' ', "").contains("reflink(");
        table = format!("(if {} then {} else {})", c, o, table);
        issues = format!("(if {} then {} else {})", c, calls, issues);
    }
    Ok(format!("(* {}:{}  CopyHandle::try_reflink: mode 0 auto, 1 always, 2 never; result 1 = Ok(true), 0 = Ok(false), 2 = Err *)\nDefinition x_try_reflink (mode : N) (worked : bool) : N :=\n  {}.\nDefinition x_try_reflink_issues_clone (mode : N) : bool :=\n  {}.\n",
               src.path, m.span().start().line, table, issues))
}


/// needs_backup: the `match conf.backup { .. }` with guards, as a table over (mode, exists, has_backup)
fn needs_backup(src: &Src) -> R<String> {
    let (_, block) = find_fn(src, "needs_backup")?;
    struct V { m: Option<ExprMatch> }
    impl<'ast> Visit<'ast> for V { fn visit_expr_match(&mut self, m: &'ast ExprMatch) { if self.m.is_none() { self.m = Some(m.clone()); } } }
    let mut v = V { m: None };
    v.visit_block(block);
    let m = v.m.ok_or("needs_backup: no match")?;
    let mut out = String::from("false");
    for arm in m.arms.iter().rev() {
        let pat = quote::ToTokens::to_token_stream(&arm.pat).to_string().replace(' ', "");
        let mode = if pat.ends_with("None") { Some(0) } else if pat.ends_with("Auto") { Some(1) } else if pat.ends_with("Numbered") { Some(2) }
                   else if pat == "_" { None } else { return Err(format!("needs_backup: pattern {}", pat)) };
        let guard = match &arm.guard {
            None => "true".to_string(),
            Some((_, g)) => {
                let t = quote::ToTokens::to_token_stream(g).to_string().replace(' ', "");
                if t.contains("exists()") { "file_exists".to_string() } else { return Err(format!("needs_backup: guard {}", t)) }
            }
        };
        let body = quote::ToTokens::to_token_stream(&arm.body).to_string().replace(' ', "");
        let val = if body == "false" { "false" } else if body == "true" { "true" }
                  else if body.contains("has_backup(file)") { "has_backup" } else { return Err(format!("needs_backup: arm body {}", body)) };
        let cond = match mode { Some(k) => format!("(mode =? {}) && {}", k, guard), None => guard };
        out = format!("(if {} then {} else {})", cond, val, out);
    }
    Ok(format!("(* {}:{}  needs_backup: mode 0 none, 1 auto, 2 numbered *)\nDefinition x_needs_backup (mode : N) (file_exists has_backup : bool) : bool :=\n  {}.\n",
               src.path, m.span().start().line, out))
}

/// the Operation::Special arm of a driver: exists -> (no_clobber -> error | unlink), then mknod
/// result: 0 = error, 1 = mknod only, 2 = unlink then mknod
fn special_arm(src: &Src, fname: &str, gname: &str) -> R<String> {
    let (_, block) = find_fn(src, fname)?;
    struct V { arm: Option<syn::Arm> }
    impl<'ast> Visit<'ast> for V {
        fn visit_arm(&mut self, a: &'ast syn::Arm) {
            let p = quote::ToTokens::to_token_stream(&a.pat).to_string().replace(' ', "");
            if p.starts_with("Operation::Special") && self.arm.is_none() { self.arm = Some(a.clone()); }
            syn::visit::visit_arm(self, a)
        }
    }
    let mut v = V { arm: None };
    v.visit_block(block);
    let arm = v.arm.ok_or(format!("{}: no Operation::Special arm", fname))?;
    let body = match &*arm.body { Expr::Block(b) => b.block.clone(), _ => return Err("Special arm is not a block".into()) };
    // statements (after logging macros): `if to.exists() { if config.no_clobber { return Err } remove_file(&to)?; }` then `copy_node(..)?;`
    let mut stage = 0;
    let mut table = String::new();
    for st in &body.stmts {
        let t = quote::ToTokens::to_token_stream(st).to_string().replace(' ', "");
        if t.starts_with("info!") || t.starts_with("debug!") { continue; }
        if stage == 0 {
            let i = match st { Stmt::Expr(Expr::If(i), _) => i, _ => return Err(format!("{}: Special arm: expected `if to.exists()`", fname)) };
            let c = quote::ToTokens::to_token_stream(&i.cond).to_string().replace(' ', "");
            if c != "to.exists()" { return Err(format!("{}: Special arm: condition {}", fname, c)); }
            if i.else_branch.is_some() { return Err("Special arm: unexpected else".into()); }
            let inner: Vec<String> = i.then_branch.stmts.iter().map(|s| quote::ToTokens::to_token_stream(s).to_string().replace(' ', "")).collect();
            let nc_ok = !inner.is_empty() && inner[0].starts_with("ifconfig.no_clobber{returnErr(");
            if nc_ok && inner.len() == 3 && inner[1].starts_with("ifis_same_file(&from,&to)?{returnErr(") && inner[2].starts_with("remove_file(&to)?") {
                // the node is never replaced by itself: the same-file refusal sits between the no-clobber refusal and the unlink
                table = "(if target_exists then (if no_clobber then 0 else (if same_file then 0 else 2)) else 1)".to_string();
            } else if nc_ok && inner.len() == 2 && inner[1].starts_with("remove_file(&to)?") {
                table = "(if target_exists then (if no_clobber then 0 else 2) else 1)".to_string();
            } else {
                return Err(format!("{}: Special arm: unexpected body of the exists branch: {:?}", fname, inner));
            }
            stage = 1;
        } else if stage == 1 {
            if !t.starts_with("copy_node(&from,&to)?") { return Err(format!("{}: Special arm: expected copy_node, found {}", fname, t)); }
            stage = 2;
        } else { return Err(format!("{}: Special arm: trailing statement {}", fname, t)); }
    }
    if stage != 2 { return Err(format!("{}: Special arm incomplete", fname)); }
    Ok(format!("(* {}:{}  {}: Operation::Special — 0 error, 1 mknod, 2 unlink then mknod *)\nDefinition {} (no_clobber target_exists same_file : bool) : N :=\n  {}.\n",
               src.path, arm.span().start().line, fname, gname, table))
}


/// the calls of a function in evaluation order, as codes: calls not in `known` and not in the ignore list are 99,
/// `return` is 98 — so added, removed, replaced or reordered steps change the list
fn call_order(src: &Src, fname: &str, gname: &str, known: &[(&str, u64)], what: &str) -> R<String> {
    let (_, block) = find_fn(src, fname)?;
    struct V<'a> { known: &'a [(&'a str, u64)], out: Vec<u64> }
    const IGNORE: &[&str] = &["Ok", "Err", "Some", "is_ok", "unwrap_or_else", "into_inner", "into", "clone", "to_string", "len", "as_ref", "as_raw_fd", "unwrap", "is_err", "ok_or",
                             "CopyError", "InvalidDestination", "ReflinkFailed", "DestinationExists", "map_err", "to_path_buf", "new"];
    impl<'a> V<'a> {
        fn note(&mut self, name: &str) {
            let last = name.rsplit("::").next().unwrap_or(name);
            if let Some((_, c)) = self.known.iter().find(|(k, _)| *k == name || *k == last) { self.out.push(*c); return; }
            if IGNORE.contains(&last) || name.starts_with("XcpError") { return; }
            self.out.push(99);
        }
    }
    impl<'ast, 'a> Visit<'ast> for V<'a> {
        fn visit_expr_call(&mut self, c: &'ast syn::ExprCall) {
            syn::visit::visit_expr_call(self, c);
            let n = quote::ToTokens::to_token_stream(&c.func).to_string().replace(' ', "");
            self.note(&n);
        }
        fn visit_expr_method_call(&mut self, m: &'ast syn::ExprMethodCall) {
            syn::visit::visit_expr_method_call(self, m);
            let n = m.method.to_string();
            self.note(&n);
        }
        fn visit_expr_return(&mut self, r: &'ast syn::ExprReturn) {
            syn::visit::visit_expr_return(self, r);
            self.out.push(98);
        }
        fn visit_expr_closure(&mut self, _c: &'ast syn::ExprClosure) { self.out.push(97); }
        fn visit_macro(&mut self, _m: &'ast syn::Macro) {}
    }
    let mut v = V { known, out: vec![] };
    v.visit_block(block);
    Ok(format!("(* {}:{}  fn {}: {} *)\nDefinition {} : list N := {}.\n", src.path, block.span().start().line, fname, what, gname, nlist(&v.out)))
}


/// the block-job closure of parblock::queue_file_range: request size and offset of each kernel copy, the guard
/// under which a zero-byte answer is the regular end, and the completion test
/// the arms of `match copy_result` in the block-job closure of parblock::queue_file_range: how each answer of the kernel
/// copy ends or continues the job.  0 = the job ends normally (`break Ok(())`), 1 = an Error update is sent and the job
/// ends (`break stat_tx.send(StatusUpdate::Error(..))`), 2 = progress is recorded and the loop goes on, 99 = anything else
fn block_job_arms(src: &Src) -> R<String> {
    let (_, block) = find_fn(src, "queue_file_range")?;
    struct V { m: Option<ExprMatch> }
    impl<'ast> Visit<'ast> for V {
        fn visit_expr_match(&mut self, m: &'ast ExprMatch) {
            let t = quote::ToTokens::to_token_stream(&m.expr).to_string().replace(' ', "");
            if t == "copy_result" && self.m.is_none() { self.m = Some(m.clone()); }
            syn::visit::visit_expr_match(self, m)
        }
    }
    let mut v = V { m: None };
    v.visit_block(block);
    let m = v.m.ok_or("queue_file_range: no `match copy_result`")?;
    let mut rows = vec![];
    for arm in &m.arms {
        let mut p = quote::ToTokens::to_token_stream(&arm.pat).to_string().replace(' ', "");
        if let Some((_, g)) = &arm.guard { p = format!("{}if{}", p, quote::ToTokens::to_token_stream(g).to_string().replace(' ', "")); }
        // statements of the arm, logging dropped
        let stmts: Vec<String> = match &*arm.body {
            Expr::Block(bl) => bl.block.stmts.iter().map(|s| quote::ToTokens::to_token_stream(s).to_string().replace(' ', "")).collect(),
            e => vec![quote::ToTokens::to_token_stream(e).to_string().replace(' ', "")],
        };
        let stmts: Vec<String> = stmts.into_iter().filter(|t| !(t.starts_with("error!") || t.starts_with("info!") || t.starts_with("warn!") || t.starts_with("debug!"))).collect();
        let b = stmts.join("");
        let code = if b == "breakOk(())" { 0 }
            else if stmts.len() == 1 && b.starts_with("breakstat_tx.send(StatusUpdate::Error(") { 1 }
            else if b.contains("done+=") && b.contains("stat_tx.send(StatusUpdate::Copied(") && !b.contains("StatusUpdate::Error") { 2 }
            else { 99 };
        rows.push(format!("(\"{}\", {})", p.replace('"', "\"\""), code));
    }
    Ok(format!("(* {}:{}  the block job: what each answer of the kernel copy does (0 ends the job, 1 sends an Error update and ends it, 2 records progress and goes on) *)\nDefinition x_block_job_arms : list (string * N) := [{}].\n",
               src.path, m.span().start().line, rows.join("; ")))
}

fn block_job_exprs(src: &Src) -> R<String> {
    let (_, block) = find_fn(src, "queue_file_range")?;
    struct V { call: Option<syn::ExprCall>, guard: Option<Expr>, complete: Option<Expr> }
    impl<'ast> Visit<'ast> for V {
        fn visit_expr_call(&mut self, c: &'ast syn::ExprCall) {
            let n = quote::ToTokens::to_token_stream(&c.func).to_string().replace(' ', "");
            if n == "copy_file_offset" && self.call.is_none() { self.call = Some(c.clone()); }
            syn::visit::visit_expr_call(self, c)
        }
        fn visit_arm(&mut self, a: &'ast syn::Arm) {
            let p = quote::ToTokens::to_token_stream(&a.pat).to_string().replace(' ', "");
            if p == "Ok(0)" && self.guard.is_none() {
                if let Some((_, g)) = &a.guard { self.guard = Some((**g).clone()); }
            }
            syn::visit::visit_arm(self, a)
        }
        fn visit_expr_if(&mut self, i: &'ast syn::ExprIf) {
            let t = quote::ToTokens::to_token_stream(&i.cond).to_string().replace(' ', "");
            if (t.contains("done") && t.contains("bytes")) && !t.contains("let") && self.complete.is_none() { self.complete = Some((*i.cond).clone()); }
            syn::visit::visit_expr_if(self, i)
        }
    }
    let mut v = V { call: None, guard: None, complete: None };
    v.visit_block(block);
    let call = v.call.ok_or("queue_file_range: no copy_file_offset call")?;
    if call.args.len() != 4 { return Err("copy_file_offset: expected 4 arguments".into()); }
    let chk = |tr: &Tr, allowed: &[&str], what: &str| -> R<()> {
        for f in &tr.free { if !allowed.contains(&f.as_str()) { return Err(format!("{}: unexpected variable {}", what, f)); } }
        Ok(())
    };
    let mut t1 = Tr::new(); let req = t1.expr(&call.args[2])?; chk(&t1, &["bytes", "done"], "request")?;
    let mut t2 = Tr::new(); let off = t2.expr(&call.args[3])?; chk(&t2, &["off", "done"], "offset")?;
    let g = v.guard.ok_or("queue_file_range: no guarded `Ok(0)` arm")?;
    let mut t3 = Tr::new(); let guard = t3.expr(&g)?; chk(&t3, &["off", "done", "harc_metadata_len"], "eof guard")?;
    let c = v.complete.ok_or("queue_file_range: completion test not found")?;
    let mut t4 = Tr::new(); let comp = t4.expr(&c)?; chk(&t4, &["done", "bytes"], "completion test")?;
    Ok(format!("(* {}:{}  the block job of parblock::queue_file_range *)\n\
Definition x_block_job_request (bytes done : N) : N :=\n  {}.\n\
Definition x_block_job_offset (off done : N) : N :=\n  {}.\n\
Definition x_block_job_zero_is_end (harc_metadata_len off done : N) : bool :=\n  {}.\n\
Definition x_block_job_complete (done bytes : N) : bool :=\n  {}.\n", src.path, call.span().start().line, req, off, guard, comp))
}


// ---------------------------------------------------------------------------
// effectful loops: `let mut`, one `while`, oracle calls (each consumes the next kernel answer and logs an
// event), early `return Err`, `continue`, compound assignment, tail `Ok(x)` -> a fuelled Gallina fixpoint
// ---------------------------------------------------------------------------
struct Oracle {
    callee: &'static str,          // function or method name
    event: &'static str,           // Gallina event; {a0}..{a3} = translated arguments, {l0}..{l3} = bound of a `[..x]` slice argument
    post: &'static [(&'static str, &'static str)],   // ghost updates after a successful answer v (or after the composite)
    composite: Option<&'static str>,                 // Some(template) = a modelled library loop returning u_out
}
struct EffCfg {
    fname: &'static str,
    gname: &'static str,
    params: &'static [(&'static str, &'static str)],   // rust free variable -> Gallina parameter
    fparams: &'static str,                             // extra (typed) parameters, e.g. "(sd sh : N -> seek_ans)", and their names
    fnames: &'static str,
    ghosts: &'static [&'static str],
    oracles: &'static [Oracle],
    ignore: &'static [&'static str],                   // statements containing these calls are dropped
    out: &'static str,                                 // "mkU {st} {ret} {tr} {ans}" / "mkOut {st} {tr} {ans}"
    trace_ty: &'static str,
    out_ty: &'static str,
    ret: &'static str,
}

fn slice_bound(tr: &mut Tr, e: &Expr) -> Option<String> {
    let mut e = e;
    loop {
        match e {
            Expr::Reference(r) => e = &r.expr,
            Expr::Paren(p) => e = &p.expr,
            Expr::Index(ix) => {
                if let Expr::Range(r) = &*ix.index {
                    if r.start.is_none() { if let Some(end) = &r.end { return tr.expr(end).ok(); } }
                }
                return None;
            }
            _ => return None,
        }
    }
}

fn error_const(e: &Expr) -> R<String> {
    let t = quote::ToTokens::to_token_stream(e).to_string();
    if t.contains("Source file ended prematurely") { return Ok("EPREMATURE".into()); }
    if t.contains("Failed write to file") { return Ok("EWRITESHORT".into()); }
    Err(format!("unknown error value: {}", t))
}

struct Eff<'a> { cfg: &'a EffCfg, tr: Tr, muts: Vec<String>, loop_call: String }

impl<'a> Eff<'a> {
    fn out(&self, st: &str) -> String {
        self.cfg.out.replace("{st}", st).replace("{ret}", self.cfg.ret).replace("{tr}", "tr").replace("{ans}", "ans")
    }
    fn find_oracle(&self, e: &Expr) -> Option<(&'a Oracle, Vec<Expr>)> {
        let mut e = e;
        loop { match e { Expr::Try(t) => e = &t.expr, Expr::Cast(c) => e = &c.expr, Expr::Paren(p) => e = &p.expr, _ => break } }
        match e {
            Expr::Call(c) => {
                let n = quote::ToTokens::to_token_stream(&c.func).to_string().replace(' ', "");
                let last = n.rsplit("::").next().unwrap().to_string();
                self.cfg.oracles.iter().find(|o| o.callee == last).map(|o| (o, c.args.iter().cloned().collect()))
            }
            Expr::MethodCall(m) => {
                let n = m.method.to_string();
                self.cfg.oracles.iter().find(|o| o.callee == n).map(|o| (o, m.args.iter().cloned().collect()))
            }
            _ => None,
        }
    }
    fn subst(&mut self, template: &str, args: &[Expr]) -> R<String> {
        let mut t = template.to_string();
        for (i, a) in args.iter().enumerate() {
            let key = format!("{{a{}}}", i);
            if t.contains(&key) { let v = self.tr.expr(a)?; t = t.replace(&key, &v); }
            let key = format!("{{l{}}}", i);
            if t.contains(&key) { let v = slice_bound(&mut self.tr, a).ok_or("slice bound not found")?; t = t.replace(&key, &v); }
        }
        Ok(t)
    }
    fn posts(&mut self, o: &Oracle, args: &[Expr], v: &str) -> R<String> {
        let mut out = String::new();
        for (g, t) in o.post {
            let e = self.subst(t, args)?.replace("{v}", v);
            write!(out, "let {} := {} in ", g, e).unwrap();
        }
        Ok(out)
    }

    /// translate a statement list; `k` = what follows the list (Gallina term)
    fn stmts(&mut self, stmts: &[Stmt], k: &str) -> R<String> {
        if stmts.is_empty() { return Ok(k.to_string()); }
        let (st, rest) = (&stmts[0], &stmts[1..]);
        let txt = quote::ToTokens::to_token_stream(st).to_string().replace(' ', "");
        if self.cfg.ignore.iter().any(|i| txt.contains(i)) || txt.starts_with("debug!") || txt.starts_with("info!") {
            return self.stmts(rest, k);
        }
        match st {
            Stmt::Local(l) => {
                let name = match &l.pat {
                    Pat::Tuple(t) if t.elems.len() == 2 => format!("{},{}", pat_ident(&t.elems[0]).ok_or("tuple binder")?, pat_ident(&t.elems[1]).ok_or("tuple binder")?),
                    p => pat_ident(p).ok_or("unsupported let pattern")?,
                };
                let init = &l.init.as_ref().ok_or("let without initialiser")?.expr;
                if let Expr::Match(m) = &**init {
                    if let Some((o, args)) = self.find_oracle(&m.expr) {
                        return self.oracle_match(o, &args, m, Some(&name), rest, k);
                    }
                }
                if let Some((o, args)) = self.find_oracle(init) {
                    return self.oracle_try(o, &args, Some(&name), rest, k);
                }
                let v = self.tr.expr(init)?;
                self.tr.bound.insert(name.clone());
                let tail = self.stmts(rest, k)?;
                Ok(format!("let {} := {} in\n      {}", name, v, tail))
            }
            Stmt::Expr(e, _) => match e {
                Expr::Assign(a) => {
                    let lhs = flat_name(&a.left).ok_or("unsupported assignment target")?;
                    let v = self.tr.expr(&a.right)?;
                    let tail = self.stmts(rest, k)?;
                    Ok(format!("let {} := {} in\n      {}", lhs, v, tail))
                }
                Expr::Binary(b) if matches!(b.op, BinOp::AddAssign(_)) => {
                    let lhs = flat_name(&b.left).ok_or("unsupported += target")?;
                    let v = self.tr.expr(&b.right)?;
                    let tail = self.stmts(rest, k)?;
                    Ok(format!("let {} := ({} + {}) in\n      {}", lhs, lhs, v, tail))
                }
                Expr::If(i) => {
                    let c = self.tr.expr(&i.cond)?;
                    // only `if c { return Err(..) }` / `if c { continue }`
                    let inner = self.stmts(&i.then_branch.stmts, "(* fallthrough *)")?;
                    if inner.contains("(* fallthrough *)") { return Err("if-branch must end in return/continue".into()); }
                    if i.else_branch.is_some() { return Err("else branch in effectful code".into()); }
                    let tail = self.stmts(rest, k)?;
                    Ok(format!("if {} then {} else\n      {}", c, inner, tail))
                }
                Expr::Return(r) => {
                    let v = r.expr.as_ref().ok_or("return without value")?;
                    self.ret_value(v)
                }
                Expr::Continue(_) => Ok(self.loop_call.clone()),
                Expr::Try(_) | Expr::MethodCall(_) | Expr::Call(_) => {
                    if let Some((o, args)) = self.find_oracle(e) { return self.oracle_try(o, &args, None, rest, k); }
                    if rest.is_empty() { return self.ret_value(e); }
                    Err(format!("unsupported call statement: {}", txt))
                }
                _ => Err(format!("unsupported statement: {}", txt)),
            },
            _ => Err("unsupported statement kind".into()),
        }
    }

    fn ret_value(&mut self, v: &Expr) -> R<String> {
        let t = quote::ToTokens::to_token_stream(v).to_string().replace(' ', "");
        if t.starts_with("Err(") {
            // Err(e) / Err(e.into()) with e a bound error variable, or a named error
            if let Expr::Call(c) = v {
                if let Some(a) = c.args.first() {
                    let inner = quote::ToTokens::to_token_stream(a).to_string().replace(' ', "");
                    if inner == "e" || inner == "e.into()" { return Ok(self.out("(StErr e)")); }
                    let ec = error_const(a)?;
                    return Ok(self.out(&format!("(StErr {})", ec)));
                }
            }
            return Err("unsupported Err value".into());
        }
        if t.starts_with("Ok(") { return Ok(self.out("StOk")); }
        Err(format!("unsupported return value {}", t))
    }

    fn consume(&mut self, o: &Oracle, args: &[Expr], on_ok: &str, on_err: &str) -> R<String> {
        let ev = self.subst(o.event, args)?;
        Ok(format!("match ans with\n      | [] => {stuck}\n      | a :: ans =>\n      let tr := tr ++ [({ev}, a)] in\n      match a with\n      | XOk v =>\n      {ok}\n      | XErr e =>\n      {err}\n      end end",
                   stuck = self.out("StStuck").replace(" ans)", " [])"), ev = ev, ok = on_ok, err = on_err))
    }

    fn oracle_try(&mut self, o: &'a Oracle, args: &[Expr], bind: Option<&str>, rest: &[Stmt], k: &str) -> R<String> {
        if let Some(comp) = o.composite {
            if let Some(tpl) = comp.strip_prefix("SUM:") {
                // a pure modelled helper returning `inl (a, b)` or `inr errno`; the binder is a pair pattern
                let call = self.subst(tpl, args)?;
                let (b1, b2) = match bind { Some(b) if b.contains(',') => { let mut it = b.split(','); (it.next().unwrap().to_string(), it.next().unwrap().to_string()) }
                                            _ => return Err("SUM composite needs a pair binder".into()) };
                self.tr.bound.insert(b1.clone()); self.tr.bound.insert(b2.clone());
                let tail = self.stmts(rest, k)?;
                return Ok(format!("match {} with\n      | inr e => {}\n      | inl ({}, {}) =>\n      {}\n      end", call, self.out("(StErr e)"), b1, b2, tail));
            }
            if let Some(tpl) = comp.strip_prefix("OUT:") {
                let call = self.subst(tpl, args)?;
                let posts = self.posts(o, args, "0")?;
                let tail = self.stmts(rest, k)?;
                let fail = self.cfg.out.replace("{st}", "st").replace("{ret}", self.cfg.ret).replace("{tr}", "(tr ++ o_trace w)").replace("{ans}", "(o_rest w)");
                return Ok(format!("let w := {} in\n      match o_st w with\n      | StOk => let tr := tr ++ o_trace w in let ans := o_rest w in {}\n      {}\n      | st => {}\n      end", call, posts, tail, fail));
            }
            // a modelled library loop: run it, splice its trace and remaining answers
            let call = self.subst(comp, args)?;
            let posts = self.posts(o, args, "0")?;
            let tail = self.stmts(rest, k)?;
            let fail = self.cfg.out.replace("{st}", "st").replace("{ret}", self.cfg.ret).replace("{tr}", "(tr ++ u_trace w)").replace("{ans}", "(u_rest w)");
            return Ok(format!("let w := {} in\n      match u_st w with\n      | StOk => let tr := tr ++ u_trace w in let ans := u_rest w in {}\n      {}\n      | st => {}\n      end", call, posts, tail, fail));
        }
        let posts = self.posts(o, args, "v")?;
        if let Some(b) = bind { self.tr.bound.insert(b.to_string()); }
        let tail = self.stmts(rest, k)?;
        let ok = format!("{}{}{}", match bind { Some(b) => format!("let {} := v in ", b), None => String::new() }, posts, tail);
        let err = self.out("(StErr e)");
        self.consume(o, args, &ok, &err)
    }

    fn oracle_match(&mut self, o: &'a Oracle, args: &[Expr], m: &ExprMatch, bind: Option<&str>, rest: &[Stmt], k: &str) -> R<String> {
        // arms in order; Ok(..) arms become a chain of tests on v, Err(..) arms a chain on e
        let mut ok_arms: Vec<(String, String)> = vec![];   // (condition or "", body)
        let mut err_arms: Vec<(String, String)> = vec![];
        if let Some(b) = bind { self.tr.bound.insert(b.to_string()); }
        let posts = self.posts(o, args, "v")?;
        let tail = self.stmts(rest, k)?;
        for arm in &m.arms {
            let p = quote::ToTokens::to_token_stream(&arm.pat).to_string().replace(' ', "");
            let is_ok = p.starts_with("Ok(");
            let inner = p.trim_start_matches("Ok(").trim_start_matches("Err(").trim_end_matches(')').trim_start_matches("ref").to_string();
            let mut cond = String::new();
            if is_ok && inner.chars().all(|c| c.is_ascii_digit()) { cond = format!("(v =? {})", inner); }
            if let Some((_, g)) = &arm.guard {
                let gt = quote::ToTokens::to_token_stream(g).to_string().replace(' ', "");
                if gt.contains("ErrorKind::Interrupted") { cond = "(e =? EINTR)".to_string(); }
                else {
                    // guard over the bound value: rename the binder to v
                    let mut t2 = Tr::new(); t2.bound = self.tr.bound.clone(); t2.bound.insert(inner.clone());
                    let c = t2.expr(g)?;
                    cond = c.replace(&format!("({} ", inner), "(v ").replace(&format!(" {})", inner), " v)");
                    for f in t2.free { self.tr.free.insert(f); }
                }
            }
            // body
            let body = match &*arm.body {
                Expr::Return(r) => self.ret_value(r.expr.as_ref().ok_or("return without value")?)?,
                Expr::Continue(_) => self.loop_call.clone(),
                Expr::Block(b) if b.block.stmts.len() == 1 => match &b.block.stmts[0] {
                    Stmt::Expr(Expr::Return(r), _) => self.ret_value(r.expr.as_ref().ok_or("return without value")?)?,
                    _ => return Err("unsupported arm block".into()),
                },
                Expr::Path(pth) if is_ok && pth.path.is_ident(&inner) => {
                    format!("{}{}{}", match bind { Some(b) => format!("let {} := v in ", b), None => String::new() }, posts, tail)
                }
                _ => return Err(format!("unsupported arm body in match on {}", o.callee)),
            };
            if is_ok { ok_arms.push((cond, body)); } else { err_arms.push((cond, body)); }
        }
        let chain = |arms: &Vec<(String, String)>| -> R<String> {
            let mut out = String::new();
            let mut closed = false;
            for (c, b) in arms {
                if c.is_empty() { write!(out, "{}", b).unwrap(); closed = true; break; }
                write!(out, "if {} then {} else\n      ", c, b).unwrap();
            }
            if !closed { return Err("match arms do not end in a catch-all".into()); }
            Ok(out)
        };
        let ok = chain(&ok_arms)?;
        let err = chain(&err_arms)?;
        self.consume(o, args, &ok, &err)
    }
}

fn eff_function(src: &Src, cfg: &EffCfg) -> R<String> {
    let (_, block) = find_fn(src, cfg.fname)?;
    // prelude: `let mut x = init;` (and ignored lets) ... one `while` ... tail expression
    let mut muts: Vec<(String, String)> = vec![];
    let mut tr = Tr::new();
    for (r, _) in cfg.params { tr.bound.insert(r.to_string()); }
    let mut wl: Option<syn::ExprWhile> = None;
    let mut tail: Option<Expr> = None;
    let mut buf_len: Option<String> = None;
    for st in &block.stmts {
        match st {
            Stmt::Local(l) => {
                let t = quote::ToTokens::to_token_stream(st).to_string().replace(' ', "");
                if t.contains("vec![") {
                    // the byte buffer: contents are not modelled, its LENGTH is (every `buf[..n]` below must fit in it)
                    let inner = t.split_once("vec![").and_then(|x| x.1.rsplit_once(']')).map(|x| x.0.to_string()).ok_or("vec! shape")?;
                    let (_, lenx) = inner.split_once(';').ok_or("vec![v; n] expected")?;
                    let e: Expr = syn::parse_str(lenx).map_err(|e| format!("buffer length: {}", e))?;
                    buf_len = Some(tr.expr(&e)?);
                    continue;
                }
                if let Pat::Ident(pi) = strip_type(&l.pat) {
                    let init = &l.init.as_ref().ok_or("let without init")?.expr;
                    muts.push((pi.ident.to_string(), tr.expr(init)?));
                    continue;
                }
                return Err("unsupported prelude let".into());
            }
            Stmt::Expr(Expr::While(w), _) => wl = Some(w.clone()),
            Stmt::Expr(e, None) => tail = Some(e.clone()),
            _ => return Err(format!("{}: unsupported top-level statement", cfg.fname)),
        }
    }
    let wl = wl.ok_or(format!("{}: no while loop", cfg.fname))?;
    let tail = tail.ok_or(format!("{}: no tail expression", cfg.fname))?;
    let mut_names: Vec<String> = muts.iter().map(|m| m.0.clone()).collect();
    for m in &mut_names { tr.bound.insert(m.clone()); }
    for g in cfg.ghosts { tr.bound.insert(g.to_string()); }
    let pnames: Vec<String> = cfg.params.iter().map(|p| p.1.to_string()).collect();
    let loop_name = format!("{}_loop", cfg.gname);
    let loop_call = format!("{} fuel {} {} {} {} tr ans", loop_name, cfg.fnames, pnames.join(" "), mut_names.join(" "), cfg.ghosts.join(" "));
    let mut eff = Eff { cfg, tr, muts: mut_names.clone(), loop_call: loop_call.clone() };
    let cond = eff.tr.expr(&wl.cond)?;
    let body = eff.stmts(&wl.body.stmts, &loop_call)?;
    let after = eff.ret_value(&tail)?;
    let _ = &eff.muts;
    // rename rust parameter names to the Gallina ones
    let mut text = format!("Fixpoint {ln} (fuel : nat) {fp} ({ps} {ms} {gs} : N) (tr : {tt}) (ans : list xans) {{struct fuel}} : {ot} :=\n  if {c} then\n    match fuel with\n    | O => {oof}\n    | S fuel =>\n      {b}\n    end\n  else {a}.\n",
        ln = loop_name, fp = cfg.fparams, ps = pnames.join(" "), ms = mut_names.join(" "), gs = cfg.ghosts.join(" "), tt = cfg.trace_ty, ot = cfg.out_ty,
        c = cond, oof = eff.out("StOutOfFuel"), b = body, a = after);
    for (r, g) in cfg.params { if r != g { text = text.replace(&format!("{} ", r), &format!("{} ", g)).replace(&format!("{})", r), &format!("{})", g)); } }
    let mut inits: Vec<String> = muts.iter().map(|m| m.1.clone()).collect();
    for i in inits.iter_mut() { for (r, g) in cfg.params { if i == r { *i = g.to_string(); } } }
    let mut out = String::new();
    writeln!(out, "(* {}:{}  fn {}, translated: the `while` becomes a fuelled fixpoint over the loop-carried variables, every kernel call\n   consumes the next answer and appends one event to the trace, `return Err`/`?`/`continue` end or restart the iteration *)",
             src.path, block.span().start().line, cfg.fname).unwrap();
    out.push_str(&text);
    if let Some(bl) = &buf_len {
        let mut bl = bl.clone();
        for (r, g) in cfg.params { if r != g { bl = bl.replace(r, g); } }
        // every name in the length must be a parameter or a constant of the file (inlined): nothing else may leak into
        // Extracted.v, where an unknown name would break every property instead of the ones that depend on this function
        let mut names: Vec<String> = vec![];
        let mut cur = String::new();
        for ch in bl.chars().chain(std::iter::once(' ')) {
            if ch.is_alphanumeric() || ch == '_' { cur.push(ch); } else { if !cur.is_empty() { names.push(cur.clone()); cur.clear(); } }
        }
        for n in names {
            if n.chars().next().map(|c| c.is_ascii_digit()).unwrap_or(true) { continue; }
            if n == "N" || n == "min" || n == "max" || pnames.contains(&n) { continue; }
            match find_const(src, &n) {
                Some(v) => { bl = bl.replace(&n, &v); }
                None => return Err(format!("{}: buffer length mentions `{}`, which is neither a parameter nor a literal constant", cfg.fname, n)),
            }
        }
        // every slice `buf[..x]` taken in the loop body, as written
        let bt = quote::ToTokens::to_token_stream(&wl.body).to_string().replace(' ', "");
        let mut slices: Vec<String> = vec![];
        let mut rest = bt.as_str();
        while let Some(i) = rest.find("buf[..") {
            let r2 = &rest[i + 6..];
            let j = r2.find(']').ok_or("slice shape")?;
            slices.push(r2[..j].to_string());
            rest = &r2[j..];
        }
        writeln!(out, "(* {}: the byte buffer of {} is allocated with this many bytes; the loop slices it as {:?} *)", src.path, cfg.fname, slices).unwrap();
        writeln!(out, "Definition {}_buf_len ({} : N) : N := {}.", cfg.gname, pnames.join(" "), bl).unwrap();
        writeln!(out, "Definition {}_buf_slices : list string := [{}].\n", cfg.gname, slices.iter().map(|x| format!("\"{}\"", x)).collect::<Vec<_>>().join("; ")).unwrap();
    }
    writeln!(out, "Definition {g} (fuel : nat) {fp} ({ps} {gs} : N) (ans : list xans) : {ot} :=\n  {ln} fuel {fnm} {ps} {inits} {gs} [] ans.\n",
             g = cfg.gname, fp = cfg.fparams, fnm = cfg.fnames, ps = pnames.join(" "), gs = cfg.ghosts.join(" "), ot = cfg.out_ty, ln = loop_name, inits = inits.join(" ")).unwrap();
    Ok(out)
}

const EFF_RANGE: EffCfg = EffCfg {
    fname: "copy_range_uspace", gname: "x_copy_range_uspace", params: &[("nbytes", "nbytes"), ("off", "off")], fparams: "", fnames: "", ghosts: &[],
    oracles: &[
        Oracle { callee: "read_bytes", event: "URead {a2} {l1}", post: &[], composite: None },
        Oracle { callee: "write_bytes", event: "UWrite {a2} {a2} {l1}", post: &[], composite: None },
    ],
    ignore: &[], out: "mkU {st} {ret} {tr} {ans}", trace_ty: "utrace", out_ty: "u_out", ret: "written",
};
const EFF_BYTES: EffCfg = EffCfg {
    fname: "copy_bytes_uspace", gname: "x_copy_bytes_uspace", params: &[("nbytes", "nbytes")], fparams: "", fnames: "", ghosts: &["rpos", "wpos"],
    oracles: &[
        Oracle { callee: "read", event: "URead rpos {l0}", post: &[], composite: None },
        Oracle { callee: "write_all", event: "", post: &[("rpos", "(rpos + {l0})"), ("wpos", "(wpos + {l0})")],
                 composite: Some("write_all (S (List.length ans)) rpos wpos {l0} ans") },
    ],
    ignore: &[], out: "mkU {st} {ret} {tr} {ans}", trace_ty: "utrace", out_ty: "u_out", ret: "written",
};
const EFF_COPY_SPARSE: EffCfg = EffCfg {
    fname: "copy_sparse", gname: "x_copy_sparse", params: &[("self_metadata_len", "flen"), ("bsize", "bsize")],
    fparams: "(sd sh : N -> seek_ans)", fnames: "sd sh", ghosts: &[],
    oracles: &[
        Oracle { callee: "next_sparse_segments", event: "", post: &[], composite: Some("SUM:next_segment sd sh flen {a2}") },
        Oracle { callee: "copy_bytes", event: "", post: &[], composite: Some("OUT:copy_bytes (S (List.length ans)) bsize {a0} 0 next_data ans") },
    ],
    ignore: &[], out: "mkOut {st} {tr} {ans}", trace_ty: "xtrace", out_ty: "loop_out", ret: "len",
};
const EFF_COPY_BYTES: EffCfg = EffCfg {
    fname: "copy_bytes", gname: "x_copy_bytes", params: &[("len", "len"), ("bsize", "bsize")], fparams: "", fnames: "", ghosts: &["cur"],
    oracles: &[
        Oracle { callee: "copy_file_bytes", event: "mkReq cur cur {a2}", post: &[("cur", "(cur + {v})")], composite: None },
    ],
    ignore: &["updates.send("], out: "mkOut {st} {tr} {ans}", trace_ty: "xtrace", out_ty: "loop_out", ret: "written",
};


/// libfs::next_sparse_segments: two `match lseek(infd, SeekFrom::X(arg))? { Offset(o) => o, EOF => <len> }` lets, then the pair
fn next_sparse_segments(src: &Src) -> R<String> {
    let (_, block) = find_fn(src, "next_sparse_segments")?;
    let mut steps: Vec<(String, String, String, String)> = vec![];   // (binder, whence, arg, eof value)
    let mut tail = None;
    let mut resets = 0;
    for st in &block.stmts {
        match st {
            Stmt::Local(l) => {
                let name = pat_ident(&l.pat).ok_or("next_sparse_segments: let pattern")?;
                let init = &l.init.as_ref().ok_or("let without init")?.expr;
                let m = match &**init { Expr::Match(m) => m, _ => return Err("next_sparse_segments: let is not a match".into()) };
                let scrut = quote::ToTokens::to_token_stream(&m.expr).to_string().replace(' ', "");
                // lseek(infd,SeekFrom::Data(pos))?
                let inner = scrut.strip_prefix("lseek(infd,SeekFrom::").and_then(|x| x.strip_suffix(")?")).ok_or(format!("unexpected scrutinee {}", scrut))?;
                let (whence, arg) = inner.split_once('(').ok_or("whence")?;
                let arg = arg.trim_end_matches(')').to_string();
                let mut eof = None; let mut off_ok = false;
                for arm in &m.arms {
                    let p = quote::ToTokens::to_token_stream(&arm.pat).to_string().replace(' ', "");
                    let b = quote::ToTokens::to_token_stream(&arm.body).to_string().replace(' ', "");
                    if p == "SeekOff::Offset(off)" && b == "off" { off_ok = true; }
                    else if p == "SeekOff::EOF" { eof = Some(if b == "infd.metadata()?.len()" { "len".to_string() } else { return Err(format!("EOF arm yields {}", b)) }); }
                    else { return Err(format!("unexpected arm {} => {}", p, b)); }
                }
                if !off_ok { return Err("no Offset arm".into()); }
                steps.push((name, whence.to_string(), arg, eof.ok_or("no EOF arm")?));
            }
            Stmt::Expr(e, Some(_)) => {
                let t = quote::ToTokens::to_token_stream(e).to_string().replace(' ', "");
                if t.starts_with("lseek(") && t.contains("SeekFrom::Start(next_data)") { resets += 1; } else { return Err(format!("unexpected statement {}", t)); }
            }
            Stmt::Expr(e, None) => tail = Some(quote::ToTokens::to_token_stream(e).to_string().replace(' ', "")),
            _ => return Err("unexpected statement".into()),
        }
    }
    if steps.len() != 2 || resets != 2 || tail.as_deref() != Some("Ok((next_data,next_hole))") { return Err("next_sparse_segments: unexpected shape".into()); }
    let f = |w: &str| -> R<&'static str> { match w { "Data" => Ok("seek_data"), "Hole" => Ok("seek_hole"), _ => Err(format!("whence {}", w)) } };
    let (b1, w1, a1, e1) = &steps[0];
    let (b2, w2, a2, e2) = &steps[1];
    Ok(format!("(* {}:{}  next_sparse_segments: SEEK_{} from {}, then SEEK_{} from {}; ENXIO (end of file) reads as the file length; both cursors are then set to the data start *)\n\
Definition x_next_segment (seek_data seek_hole : N -> seek_ans) (len pos : N) : N * N + N :=\n  match {f1} {a1} with\n  | SkErr e => inr e\n  | SkOff off => let {b1} := off in\n      match {f2} {a2} with SkErr e => inr e | SkOff off => let {b2} := off in inl (next_data, next_hole) | SkEOF => let {b2} := {e2} in inl (next_data, next_hole) end\n  | SkEOF => let {b1} := {e1} in\n      match {f2} {a2} with SkErr e => inr e | SkOff off => let {b2} := off in inl (next_data, next_hole) | SkEOF => let {b2} := {e2} in inl (next_data, next_hole) end\n  end.\n",
        src.path, block.span().start().line, w1.to_uppercase(), a1, w2.to_uppercase(), a2,
        f1 = f(w1)?, a1 = a1, b1 = b1, e1 = e1, f2 = f(w2)?, a2 = a2, b2 = b2, e2 = e2))
}


/// libfs::map_extents: the FIEMAP paging loop.  The shape is validated statement by statement; the expressions
/// (extent record, flag tests, next request start) are translated.
fn map_extents_loop(src: &Src) -> R<String> {
    let (_, block) = find_fn(src, "map_extents")?;
    let norm = |t: &dyn quote::ToTokens| quote::ToTokens::to_token_stream(t).to_string().replace(' ', "");
    // prelude: let mut req = FiemapReq::new(); let mut extents = Vec::with_capacity(..); loop {..}; Ok(Some(extents))
    if block.stmts.len() != 4 { return Err(format!("map_extents: {} top-level statements (expected 4)", block.stmts.len())); }
    if !norm(&block.stmts[0]).starts_with("letmutreq=FiemapReq::new()") { return Err("map_extents: first statement".into()); }
    if !norm(&block.stmts[1]).starts_with("letmutextents=Vec::with_capacity(") { return Err("map_extents: second statement".into()); }
    if norm(&block.stmts[3]) != "Ok(Some(extents))" { return Err("map_extents: tail".into()); }
    let lp = match &block.stmts[2] { Stmt::Expr(Expr::Loop(l), _) => l, _ => return Err("map_extents: third statement is not `loop`".into()) };
    let b = &lp.body.stmts;
    if b.len() != 6 { return Err(format!("map_extents: loop body has {} statements (expected 6)", b.len())); }
    if norm(&b[0]) != "if!fiemap(fd,&mutreq)?{returnOk(None)}" && norm(&b[0]) != "if!fiemap(fd,&mutreq)?{returnOk(None);}" {
        return Err(format!("map_extents: loop statement 1: {}", norm(&b[0])));
    }
    if norm(&b[1]) != "ifreq.fm_mapped_extents==0{break;}" { return Err(format!("map_extents: loop statement 2: {}", norm(&b[1]))); }
    let fl = match &b[2] { Stmt::Expr(Expr::ForLoop(f), _) => f, _ => return Err("map_extents: loop statement 3 is not `for`".into()) };
    if norm(&fl.pat) != "i" || norm(&fl.expr) != "0..req.fm_mapped_extentsasusize" { return Err("map_extents: for header".into()); }
    let fb = &fl.body.stmts;
    if fb.len() != 3 || norm(&fb[0]) != "lete=req.fm_extents[i];" || norm(&fb[2]) != "extents.push(ext);" {
        return Err(format!("map_extents: for body: {:?}", fb.iter().map(|x| norm(x)).collect::<Vec<_>>()));
    }
    // let ext = Extent { start: .., end: .., shared: .. };
    let ext = match &fb[1] { Stmt::Local(l) if pat_ident(&l.pat).as_deref() == Some("ext") => &l.init.as_ref().ok_or("ext init")?.expr, _ => return Err("map_extents: `let ext`".into()) };
    let st = match &**ext { Expr::Struct(s) => s, _ => return Err("map_extents: ext is not a struct literal".into()) };
    fn fx(e: &Expr, var: &str) -> R<String> {
        // expressions over one FIEMAP extent `var`: fields, +, flag tests
        let t = quote::ToTokens::to_token_stream(e).to_string().replace(' ', "");
        if t == format!("{}.fe_flags&FIEMAP_EXTENT_SHARED!=0", var) { return Ok(format!("(fe_shared {})", var)); }
        if t == format!("{}.fe_flags&FIEMAP_EXTENT_LAST!=0", var) { return Ok(format!("(fe_last {})", var)); }
        match e {
            Expr::Field(f) => { if let syn::Member::Named(i) = &f.member { if flat_name(&f.base).as_deref() == Some(var) { return Ok(format!("({} {})", i, var)); } } Err(format!("field {}", t)) }
            Expr::Binary(b) if matches!(b.op, BinOp::Add(_)) => Ok(format!("({} + {})", fx(&b.left, var)?, fx(&b.right, var)?)),
            Expr::Paren(p) => fx(&p.expr, var),
            _ => Err(format!("map_extents: unsupported extent expression {}", t)),
        }
    }
    let mut fields = BTreeMap::new();
    for fv in &st.fields { if let syn::Member::Named(i) = &fv.member { fields.insert(i.to_string(), fx(&fv.expr, "e")?); } }
    let g = |k: &str| fields.get(k).cloned().ok_or(format!("map_extents: Extent field {} missing", k));
    if norm(&b[3]) != "letlast=req.fm_extents[(req.fm_mapped_extents-1)asusize];" { return Err(format!("map_extents: loop statement 4: {}", norm(&b[3]))); }
    let brk = match &b[4] { Stmt::Expr(Expr::If(i), _) if norm(&i.then_branch) == "{break;}" && i.else_branch.is_none() => fx(&i.cond, "last")?, _ => return Err("map_extents: loop statement 5".into()) };
    let nxt = match &b[5] { Stmt::Expr(Expr::Assign(a), _) if norm(&a.left) == "req.fm_start" => fx(&a.right, "last")?, _ => return Err("map_extents: loop statement 6".into()) };
    Ok(format!("(* {}:{}  map_extents: the FIEMAP paging loop (`loop` with two `break`s and an early `return Ok(None)`) *)\n\
Fixpoint x_map_extents_go (fuel : nat) (fiemap : N -> fiemap_ans) (req_fm_start : N) (extents : list extent) : mx_result :=\n\
  match fuel with\n  | O => MxOutOfFuel\n  | S fuel =>\n\
      match fiemap req_fm_start with\n      | FmUnsupported => MxNone\n      | FmErr e => MxErr e\n      | FmPage pg =>\n\
          if (N.of_nat (List.length pg) =? 0) then MxSome extents else\n\
          let extents := fold_left (fun extents e => let ext := mkExt {s} {e} {sh} in extents ++ [ext]) pg extents in\n\
          match nth_error pg (List.length pg - 1) with\n          | None => MxSome extents\n          | Some last =>\n\
              if {brk} then MxSome extents else\n              let req_fm_start := {nxt} in\n              x_map_extents_go fuel fiemap req_fm_start extents\n          end\n      end\n  end.\n\
Definition x_map_extents (fuel : nat) (fiemap : N -> fiemap_ans) : mx_result := x_map_extents_go fuel fiemap 0 [].\n",
        src.path, lp.span().start().line, s = g("start")?, e = g("end")?, sh = g("shared")?, brk = brk, nxt = nxt))
}


/// operations::tree_walker: the per-entry dispatch table, the position and condition of the no-clobber check,
/// the iterator chain of the walk and the statements that compute `from`, `meta`, `path`, `target` (as normalised text)
fn tree_walker_shape(src: &Src) -> R<String> {
    let (_, block) = find_fn(src, "tree_walker")?;
    let norm = |t: &dyn quote::ToTokens| quote::ToTokens::to_token_stream(t).to_string().replace(' ', "");
    // outer: for source in sources { .. }
    let outer = block.stmts.iter().find_map(|s| if let Stmt::Expr(Expr::ForLoop(f), _) = s { Some(f) } else { None }).ok_or("tree_walker: no `for source in sources`")?;
    if norm(&outer.pat) != "source" || norm(&outer.expr) != "sources" { return Err("tree_walker: outer loop header".into()); }
    let mut per_source: Vec<String> = vec![];
    let mut inner = None;
    for st in &outer.body.stmts {
        let t = norm(st);
        if t.starts_with("debug!") || t.starts_with("info!") { continue; }
        if let Stmt::Expr(Expr::ForLoop(f), _) = st { inner = Some(f); continue; }
        per_source.push(t);
    }
    let inner = inner.ok_or("tree_walker: no inner walk loop")?;
    // iterator chain
    let mut chain: Vec<String> = vec![];
    let mut e: &Expr = &inner.expr;
    loop {
        match e {
            Expr::MethodCall(m) => { chain.push(format!("{}({})", m.method, m.args.iter().map(|a| norm(a)).collect::<Vec<_>>().join(","))); e = &m.receiver; }
            other => { chain.push(norm(other)); break; }
        }
    }
    chain.reverse();
    // body: prelude lets, the no-clobber `if`, `let ft`, the match
    let mut prelude: Vec<String> = vec![];
    let mut noclobber: Option<(String, bool, usize)> = None;
    let mut dispatch: Option<ExprMatch> = None;
    let mut idx = 0;
    for st in &inner.body.stmts {
        let t = norm(st);
        if t.starts_with("debug!") || t.starts_with("info!") { continue; }
        idx += 1;
        match st {
            Stmt::Local(_) => prelude.push(t),
            Stmt::Expr(Expr::If(i), _) => {
                let body = norm(&i.then_branch);
                noclobber = Some((norm(&i.cond), body.contains("returnErr("), idx));
            }
            Stmt::Expr(Expr::Match(m), _) => { dispatch = Some(m.clone()); if noclobber.is_none() { return Err("tree_walker: dispatch before the no-clobber check".into()); } }
            _ => return Err(format!("tree_walker: unexpected statement {}", t)),
        }
    }
    let m = dispatch.ok_or("tree_walker: no dispatch match")?;
    let (nc_cond, nc_returns, _) = noclobber.ok_or("tree_walker: no no-clobber check")?;
    let ftcode = |n: &str| -> R<u64> { Ok(match n { "File" => 0, "Dir" => 1, "Symlink" => 2, "Socket" => 3, "Fifo" => 4, "Char" => 5, "Block" => 6, "Other" => 7, _ => return Err(format!("file type {}", n)) }) };
    let mut table: Vec<(u64, Vec<u64>)> = vec![];
    for arm in &m.arms {
        let p = norm(&arm.pat);
        let mut kinds = vec![];
        for alt in p.split('|') { kinds.push(ftcode(alt.rsplit("::").next().unwrap())?); }
        // actions in source order
        struct V { out: Vec<(usize, u64)> }
        impl<'ast> Visit<'ast> for V {
            fn visit_expr_call(&mut self, c: &'ast syn::ExprCall) {
                let n = quote::ToTokens::to_token_stream(&c.func).to_string().replace(' ', "");
                let pos = c.span().start().line * 1000 + c.span().start().column;
                match n.as_str() {
                    "StatusUpdate::Size" => self.out.push((pos, 0)), "Operation::Copy" => self.out.push((pos, 1)), "Operation::Link" => self.out.push((pos, 2)),
                    "create_dir_all" => self.out.push((pos, 3)), "Operation::Special" => self.out.push((pos, 4)),
                    "XcpError::UnknownFileType" => self.out.push((pos, 5)), _ => {}
                }
                syn::visit::visit_expr_call(self, c)
            }
        }
        let mut v = V { out: vec![] };
        v.visit_expr(&arm.body);
        v.out.sort();
        let acts: Vec<u64> = v.out.iter().map(|x| x.1).collect();
        for k in kinds { table.push((k, acts.clone())); }
    }
    table.sort();
    let strs = |v: &Vec<String>| format!("[{}]", v.iter().map(|x| format!("\"{}\"", x.replace('"', "\"\""))).collect::<Vec<_>>().join(";\n   "));
    let tab = format!("[{}]", table.iter().map(|(k, a)| format!("({}, {})", k, nlist(a))).collect::<Vec<_>>().join("; "));
    Ok(format!("(* {}:{}  tree_walker *)\n\
Definition x_walker_dispatch : list (N * list N) := {}.\n\
Definition x_walker_noclobber_condition : string := \"{}\".\n\
Definition x_walker_noclobber_stops_before_dispatch : bool := {}.\n\
Definition x_walker_iterator : list string :=\n  {}.\n\
Definition x_walker_entry_prelude : list string :=\n  {}.\n\
Definition x_walker_source_prelude : list string :=\n  {}.\n",
        src.path, block.span().start().line, tab, nc_cond, nc_returns, strs(&chain), strs(&prelude), strs(&per_source)))
}


/// the body of a function as normalised text (tokens without white space; logging macros dropped): used for the glue
/// functions whose models are written by hand — an edit re-opens the obligation and the correspondence decides
fn pinned_text(src: &Src, fname: &str) -> R<(String, usize)> {
    let (_, block) = find_fn(src, fname)?;
    let mut out = String::new();
    for st in &block.stmts {
        let t = quote::ToTokens::to_token_stream(st).to_string().replace(' ', "");
        if t.starts_with("debug!") || t.starts_with("info!") || t.starts_with("warn!(\"--reflink") { continue; }
        out.push_str(&t);
    }
    // drop logging macros nested deeper
    let mut cleaned = String::new();
    let mut rest = out.as_str();
    loop {
        let next = ["debug!(", "info!(", "error!(", "warn!("].iter().filter_map(|m| rest.find(m).map(|i| (i, *m))).min();
        match next {
            None => { cleaned.push_str(rest); break; }
            Some((i, m)) => {
                cleaned.push_str(&rest[..i]);
                let mut depth = 0; let mut j = i + m.len() - 1; let b = rest.as_bytes(); let mut instr = false;
                while j < b.len() {
                    let c = b[j] as char;
                    if c == '"' && (j == 0 || b[j - 1] as char != '\\') { instr = !instr; }
                    if !instr { if c == '(' { depth += 1; } if c == ')' { depth -= 1; if depth == 0 { break; } } }
                    j += 1;
                }
                let mut k = j + 1;
                if k < b.len() && b[k] as char == ';' { k += 1; }
                rest = &rest[k..];
            }
        }
    }
    Ok((cleaned, block.span().start().line))
}


// ---------------------------------------------------------------------------
// src/main.rs: the validation block of main(), translated to `x_validate` (same signature as Main.validate)
// ---------------------------------------------------------------------------
fn verr_code(e: &Expr) -> R<u64> {
    let t = quote::ToTokens::to_token_stream(e).to_string();
    for (m, c) in [("No source files found", 4), ("Cannot copy a directory to a file", 5), ("Multiple sources and destination is not a directory", 6),
                   ("Source does not exist", 7), ("--recursive not specified", 8), ("Cannot copy a directory into itself", 9),
                   ("Source is same as destination", 9), ("Failed to find source directory name", 10),
                   ("Multiple sources map to the same destination", 11)] {
        if t.contains(m) { return Ok(c); }
    }
    Err(format!("unknown validation error: {}", t))
}

fn vexpr(e: &Expr) -> R<String> {
    match e {
        Expr::Paren(p) => Ok(format!("({})", vexpr(&p.expr)?)),
        Expr::Unary(u) if matches!(u.op, UnOp::Not(_)) => Ok(format!("(negb {})", vexpr(&u.expr)?)),
        Expr::Binary(b) if matches!(b.op, BinOp::And(_)) => Ok(format!("({} && {})", vexpr(&b.left)?, vexpr(&b.right)?)),
        Expr::Binary(b) if matches!(b.op, BinOp::Or(_)) => Ok(format!("({} || {})", vexpr(&b.left)?, vexpr(&b.right)?)),
        _ => {
            let t = quote::ToTokens::to_token_stream(e).to_string().replace(' ', "");
            Ok(match t.as_str() {
                "sources.is_empty()" => "(match sources with [] => true | _ => false end)",
                "dest.is_dir()" => "(is_dir dest)", "dest.exists()" => "(exists_ dest)",
                "sources.len()==1" => "(Nat.eqb (List.length sources) 1)", "sources.len()>1" => "(Nat.ltb 1 (List.length sources))",
                "sources[0].is_dir()" => "(is_dir (hd [] sources))",
                "source.exists()" => "(exists_ source)", "source.is_dir()" => "(is_dir source)",
                "opts.recursive" => "(o_recursive o)", "opts.no_target_directory" => "(o_no_target_dir o)",
                "source==&dest" => "(path_eqb source dest)", "source==&target_base" => "(path_eqb source target_base)",
                "target_base.exists()" => "(exists_ target_base)", "target_base.is_dir()" => "(is_dir target_base)",
                "libfs::is_same_file(source,&target_base)?" => "(same_file source target_base)",
                "targets.contains(&target_base)" => "(existsb (path_eqb target_base) targets)",
                "sourcedir!=Component::ParentDir" => "(negb (comp_eqb sourcedir CParent))",
                other => return Err(format!("validation: unsupported condition `{}`", other)),
            }.to_string())
        }
    }
}

/// statements with early `return Err(..)`; `k` is the continuation (a Gallina term of type option N)
fn vstmts(stmts: &[Stmt], k: &str) -> R<String> {
    if stmts.is_empty() { return Ok(k.to_string()); }
    let (st, rest) = (&stmts[0], &stmts[1..]);
    let t = quote::ToTokens::to_token_stream(st).to_string().replace(' ', "");
    if t.starts_with("info!") || t.starts_with("debug!") { return vstmts(rest, k); }
    match st {
        Stmt::Expr(Expr::If(i), _) => vif(i, rest, k),
        Stmt::Expr(Expr::Return(r), _) => {
            let v = r.expr.as_ref().ok_or("return without value")?;
            Ok(format!("Some {}", verr_code(v)?))
        }
        Stmt::Local(l) => {
            let name = pat_ident(&l.pat).ok_or("validation: let pattern")?;
            let init = quote::ToTokens::to_token_stream(&l.init.as_ref().ok_or("let without init")?.expr).to_string().replace(' ', "");
            if name == "sourcedir" {
                if !init.starts_with("source.components().next_back().ok_or(") || !init.ends_with(")?") { return Err(format!("validation: sourcedir = {}", init)); }
                let code = verr_code(&l.init.as_ref().unwrap().expr)?;
                let tail = vstmts(rest, k)?;
                return Ok(format!("match last_comp source with\n      | None => Some {}\n      | Some sourcedir =>\n      {}\n      end", code, tail));
            }
            if name == "target_base" {
                let i = match &*l.init.as_ref().unwrap().expr { Expr::If(i) => i, _ => return Err("validation: target_base is not an if".into()) };
                let c = vexpr(&i.cond)?;
                let th = quote::ToTokens::to_token_stream(&i.then_branch).to_string().replace(' ', "");
                let el = quote::ToTokens::to_token_stream(&i.else_branch.as_ref().ok_or("no else")?.1).to_string().replace(' ', "");
                if th != "{dest.join(sourcedir)}" || el != "{dest.to_path_buf()}" { return Err(format!("validation: target_base branches {} / {}", th, el)); }
                let tail = vstmts(rest, k)?;
                return Ok(format!("let target_base := if {} then join dest [sourcedir] else dest in\n      {}", c, tail));
            }
            Err(format!("validation: unexpected let {}", name))
        }
        Stmt::Expr(Expr::MethodCall(m), _) if m.method == "push" && t == "targets.push(target_base);" => {
            let tail = vstmts(rest, k)?;
            Ok(format!("let targets := targets ++ [target_base] in\n      {}", tail))
        }
        _ => Err(format!("validation: unsupported statement {}", t)),
    }
}

fn vif(i: &syn::ExprIf, rest: &[Stmt], k: &str) -> R<String> {
    let c = vexpr(&i.cond)?;
    let mut th: Vec<Stmt> = i.then_branch.stmts.clone();
    th.extend_from_slice(rest);
    let t = vstmts(&th, k)?;
    let e = match &i.else_branch {
        None => vstmts(rest, k)?,
        Some((_, e)) => match &**e {
            Expr::If(i2) => vif(i2, rest, k)?,
            Expr::Block(b) => { let mut el = b.block.stmts.clone(); el.extend_from_slice(rest); vstmts(&el, k)? }
            _ => return Err("validation: else branch".into()),
        },
    };
    Ok(format!("if {} then {} else\n      {}", c, t, e))
}

fn main_validation(src: &Src) -> R<String> {
    let (_, block) = find_fn(src, "main")?;
    let norm = |t: &dyn quote::ToTokens| quote::ToTokens::to_token_stream(t).to_string().replace(' ', "");
    let start = block.stmts.iter().position(|s| norm(s).starts_with("letsources=expand_sources(")).ok_or("main: `let sources = expand_sources` not found")?;
    let pre = match &block.stmts[start + 1] { Stmt::Expr(Expr::If(i), _) => i, _ => return Err("main: the emptiness / destination check does not follow".into()) };
    if !norm(&block.stmts[start + 2]).starts_with("letmuttargets:Vec<PathBuf>=Vec::with_capacity(") { return Err("main: `let mut targets`".into()); }
    let fl = match &block.stmts[start + 3] { Stmt::Expr(Expr::ForLoop(f), _) => f, _ => return Err("main: the per-source loop does not follow".into()) };
    if norm(&fl.pat) != "source" || norm(&fl.expr) != "&sources" { return Err("main: loop header".into()); }
    let body = vstmts(&fl.body.stmts, "x_check_sources dest targets rest")?;
    let head = vif(pre, &[], "x_check_sources dest [] sources")?;
    Ok(format!("(* {}:{}  main(): the validation block — every `return Err` before the driver is started *)\n\
Section XValidate.\n  Variable exists_ is_dir : path -> bool.\n  Variable same_file : path -> path -> bool.\n  Variable o : opts.\n\n\
  Fixpoint x_check_sources (dest : path) (targets : list path) (ss : list path) : option N :=\n    match ss with\n    | [] => None\n    | source :: rest =>\n      {}\n    end.\n\n\
  Definition x_validate (sources : list path) (dest : path) : option N :=\n      {}.\nEnd XValidate.\n",
        src.path, pre.span().start().line, body, head))
}


fn main() {
    let root = std::env::args().nth(1).unwrap_or_else(|| "/repo".to_string());
    let root = Path::new(&root);
    let mut out = String::new();
    out.push_str("(* Extracted.v — GENERATED by /verif/xlate from the current source of the repository on every run.\n   Do not edit.  See xlate/src/main.rs for the supported Rust subset; coq/proofs/ExtractedOk.v proves that\n   every definition below equals the hand-written model's. *)\n");
    out.push_str("From XcpModel Require Import Base Extents Sparse CopyLoop Uspace Backup Paths Walker Main.\nFrom Coq Require Import String.\nLocal Open Scope string_scope.\nLocal Open Scope N_scope.\nLocal Open Scope list_scope.\n\n");
    let mut failures = vec![];
    let mut emit = |label: &str, r: R<String>, out: &mut String| match r {
        Ok(s) => { out.push_str(&s); out.push('\n'); }
        Err(e) => { failures.push(format!("{}: {}", label, e)); writeln!(out, "(* EXTRACTION FAILED: {}: {} *)\n", label, e).unwrap(); }
    };

    match load(root, "libfs/src/common.rs") {
        Ok(src) => {
            emit("merge_extents", merge_extents(&src), &mut out);
            emit("read_bytes", call_order(&src, "read_bytes", "x_read_bytes_steps", &[("pread", 50)],
                "the positional read used by the block fallback (50 = pread: no shared cursor is touched)"), &mut out);
            emit("write_bytes", call_order(&src, "write_bytes", "x_write_bytes_steps", &[("pwrite", 51)],
                "the positional write used by the block fallback (51 = pwrite)"), &mut out);
            emit("copy_range_uspace", eff_function(&src, &EFF_RANGE), &mut out);
            emit("copy_bytes_uspace", eff_function(&src, &EFF_BYTES), &mut out);
        }
        Err(e) => emit("libfs/src/common.rs", Err(e), &mut out),
    }
    match load(root, "libxcp/src/drivers/parblock.rs") {
        Ok(src) => {
            let p3 = ["range_start", "range_end", "bsize"];
            let p4 = ["range_start", "range_end", "bsize", "blkn"];
            emit("parblock copy() joins", driver_join(&src, "x_parblock_copy_result"), &mut out);
            emit("dispatch_worker error routes", error_routes(&src, "dispatch_worker", "x_parblock_error_routes"), &mut out);
            emit("queue_file_range.blocks", let_function(&src, "queue_file_range", "blocks", "x_qfr_blocks", &p3, "N", &[]), &mut out);
            emit("queue_file_range.bytes", let_function(&src, "queue_file_range", "bytes", "x_qfr_bytes", &p4, "N", &[]), &mut out);
            emit("queue_file_range.off", let_function(&src, "queue_file_range", "off", "x_qfr_off", &p4, "N", &[]), &mut out);
            emit("queue_file_range.block_job", block_job_exprs(&src), &mut out);
            emit("block job arms", block_job_arms(&src), &mut out);
            emit("queue_file_blocks", call_order(&src, "queue_file_blocks", "x_queue_file_blocks_steps",
                &[("CopyHandle::new", 40), ("try_reflink", 4), ("Arc::new", 41), ("probably_sparse", 30), ("map_extents", 42), ("merge_extents", 43),
                  ("queue_file_range", 44), ("queue_whole_file", 45)],
                "the steps of parblock::queue_file_blocks (40 open both files, 4 clone attempt, 41 share the handle, 30 sparseness test, 42 extent map, 43 merge, 44 queue the block jobs of a range; 97 = closure)"), &mut out);
            emit("dispatch_worker.special", special_arm(&src, "dispatch_worker", "x_parblock_special"), &mut out);
            emit("dispatch_worker.queue_len", method_literal(&src, "dispatch_worker", "queue_len").map(|(v, l)|
                format!("(* {}:{}  the pool's bounded queue *)\nDefinition x_pool_queue_len : N := {}.\n", src.path, l, v)), &mut out);
        }
        Err(e) => emit("parblock.rs", Err(e), &mut out),
    }
    match load(root, "libxcp/src/drivers/parfile.rs") {
        Ok(src) => {
            emit("copy_worker.special", special_arm(&src, "copy_worker", "x_parfile_special"), &mut out);
            emit("parfile copy() joins", driver_join(&src, "x_parfile_copy_result"), &mut out);
            emit("copy_worker error routes", error_routes(&src, "copy_worker", "x_parfile_error_routes"), &mut out);
        }
        Err(e) => emit("parfile.rs", Err(e), &mut out),
    }
    match load(root, "libxcp/src/feedback.rs") {
        Ok(src) => emit("send", send_condition(&src), &mut out),
        Err(e) => emit("feedback.rs", Err(e), &mut out),
    }
    match load(root, "src/main.rs") {
        Ok(src) => {
            emit("main validation", main_validation(&src), &mut out);
            emit("main update loop", main_collect(&src), &mut out);
        }
        Err(e) => emit("src/main.rs", Err(e), &mut out),
    }
    match load(root, "src/options.rs") {
        Ok(src) => {
            emit("Config::from", config_block_size(&src), &mut out);
            emit("Config::from (fields)", config_from_opts(&src), &mut out);
        }
        Err(e) => emit("options.rs", Err(e), &mut out),
    }
    emit("process-wide state", process_wide_state(root), &mut out);
    emit("pool job panic sites", pool_job_panic_sites(root), &mut out);
    emit("ignore_filter query", ignore_filter_query(root), &mut out);
    match load(root, "libxcp/src/config.rs") {
        Ok(src) => emit("Config::num_workers", num_workers(&src), &mut out),
        Err(e) => emit("config.rs", Err(e), &mut out),
    }
    match load(root, "libxcp/src/backup.rs") {
        Ok(src) => {
            emit("next_backup_num", next_backup(&src), &mut out);
            emit("needs_backup", needs_backup(&src), &mut out);
            emit("BAK_PATTTERN", str_const(&src, "BAK_PATTTERN").map(|(v, l)|
                format!("(* {}:{}  the regular expression a backup suffix must match *)\nDefinition x_backup_pattern : string := \"{}\".\n", src.path, l, v.replace('"', "\"\""))), &mut out);
        }
        Err(e) => emit("backup.rs", Err(e), &mut out),
    }
    match load(root, "libxcp/src/operations.rs") {
        Ok(src) => {
            emit("tree_walker", tree_walker_shape(&src), &mut out);
            emit("try_reflink", try_reflink(&src), &mut out);
            emit("CopyHandle::new", call_order(&src, "new", "x_copy_new_steps",
                &[("File::open", 20), ("metadata", 21), ("try_exists", 22), ("is_same_file", 23), ("symlink_metadata", 26), ("is_dir", 29), ("lock", 27), ("drop", 28), ("needs_backup", 24), ("get_backup_path", 25),
                  ("fs::rename", 1), ("File::create", 2), ("allocate_file", 3)],
                "the steps of CopyHandle::new in evaluation order (20 open source, 21 fstat, 22 probe destination, 23 same-file check, 26 lstat of a destination the probe called absent (a dangling link is refused), 29 is that entry a directory (a file never replaces one), 27 take / 28 release the backup-step lock (97 = its poison handler), 24/25 backup decision and name, 1 rename, 2 create+truncate, 3 size; 99 = any other call, 98 = return)"), &mut out);
            emit("copy_file", call_order(&src, "copy_file", "x_copy_file_steps",
                &[("try_reflink", 4), ("probably_sparse", 30), ("copy_sparse", 31), ("copy_bytes", 32)],
                "the steps of CopyHandle::copy_file (4 clone attempt, 30 sparseness test, 31 sparse walk, 32 plain loop)"), &mut out);
            emit("copy_bytes", copy_bytes_loop(&src), &mut out);
            emit("copy_bytes (loop)", eff_function(&src, &EFF_COPY_BYTES), &mut out);
            emit("copy_sparse (loop)", eff_function(&src, &EFF_COPY_SPARSE), &mut out);
            emit("finalise_copy", finalise_order(&src).map(|(v, l)| {
                let items: Vec<String> = v.iter().map(|(c, n)| format!("({}, {})", c, n)).collect();
                format!("(* {}:{}  finalise_copy: (step, guard negated) in program order; 6 owner, 8 xattrs+permissions, 9 timestamps, 10 fsync *)\nDefinition x_finalise_order : list (N * bool) := [{}].\n",
                        src.path, l, items.join("; "))
            }), &mut out);
        }
        Err(e) => emit("operations.rs", Err(e), &mut out),
    }
    match load(root, "libfs/src/linux.rs") {
        Ok(src) => {
            emit("probably_sparse", probably_sparse(&src), &mut out);
            emit("next_sparse_segments", next_sparse_segments(&src), &mut out);
            emit("map_extents", map_extents_loop(&src), &mut out);
            emit("try_copy_file_range", errno_arms(&src, "try_copy_file_range", &|b| b.trim().trim_matches(|c| c == '{' || c == '}' || c == ' ') == "None")
                .map(|(v, l)| format!("(* {}:{}  try_copy_file_range: errnos answered by the user-space fallback *)\nDefinition x_cfr_fallback_errnos : list N := {}.\n", src.path, l, nlist(&v))), &mut out);
            emit("reflink", errno_arms(&src, "reflink", &|b| b.replace(' ', "").contains("Ok(false)"))
                .map(|(v, l)| format!("(* {}:{}  reflink: errnos that mean `not supported` *)\nDefinition x_reflink_unsupported_errnos : list N := {}.\n", src.path, l, nlist(&v))), &mut out);
            emit("lseek", errno_arms(&src, "lseek", &|b| b.contains("EOF"))
                .map(|(v, l)| format!("(* {}:{}  lseek: errnos that mean end of file *)\nDefinition x_lseek_eof_errnos : list N := {}.\n", src.path, l, nlist(&v))), &mut out);
            emit("fiemap", errno_eq(&src, "fiemap")
                .map(|(v, l)| format!("(* {}:{}  fiemap: errnos that mean `extent maps unsupported` *)\nDefinition x_fiemap_unsupported_errnos : list N := {}.\n", src.path, l, nlist(&v))), &mut out);
            emit("FiemapReq::new", fiemap_request(&src), &mut out);
            emit("FIEMAP_PAGE_SIZE", find_const(&src, "FIEMAP_PAGE_SIZE").ok_or("const not found".to_string())
                .map(|v| format!("(* {}  const FIEMAP_PAGE_SIZE *)\nDefinition x_fiemap_page_size : N := {}.\n", src.path, v)), &mut out);
            emit("copy_node", let_method(&src, "copy_node", "dev").map(|(m, l)| {
                let code = match m.as_str() { "rdev" => 1, "dev" => 0, _ => 2 };
                format!("(* {}:{}  copy_node: the device number comes from meta.{}()  (1 = st_rdev, 0 = st_dev) *)\nDefinition x_copy_node_uses_rdev : N := {}.\n", src.path, l, m, code)
            }), &mut out);
        }
        Err(e) => emit("linux.rs", Err(e), &mut out),
    }
    let pins: &[(&str, &str)] = &[
        ("libfs/src/common.rs", "allocate_file"), ("libfs/src/common.rs", "copy_owner"), ("libfs/src/common.rs", "copy_timestamps"),
        ("libfs/src/common.rs", "copy_permissions"), ("libfs/src/common.rs", "sync"), ("libfs/src/common.rs", "is_same_file"),
        ("libxcp/src/paths.rs", "parse_ignore"), ("libxcp/src/paths.rs", "ignore_filter"),
        ("libxcp/src/backup.rs", "get_backup_path"), ("libxcp/src/backup.rs", "has_backup"), ("libxcp/src/backup.rs", "is_num_backup"),
        ("libxcp/src/operations.rs", "finalise_copy"), ("libxcp/src/operations.rs", "drop"), ("libxcp/src/operations.rs", "new"),
        ("libxcp/src/drivers/parfile.rs", "copy"), ("libxcp/src/drivers/parfile.rs", "copy_worker"),
        ("libxcp/src/drivers/parblock.rs", "copy"), ("libxcp/src/drivers/parblock.rs", "dispatch_worker"),
        ("libxcp/src/drivers/parblock.rs", "queue_file_range"),
        ("libxcp/src/feedback.rs", "new"), ("libxcp/src/feedback.rs", "send"),
        ("src/main.rs", "main"), ("src/main.rs", "expand_globs"), ("src/main.rs", "opts_check"), ("src/main.rs", "expand_sources"),
        ("libxcp/src/drivers/parblock.rs", "new"), ("libxcp/src/drivers/parfile.rs", "new"), ("libxcp/src/drivers/mod.rs", "load_driver"),
        ("libfs/src/linux.rs", "reflink"), ("libfs/src/linux.rs", "copy_file_bytes"), ("libfs/src/linux.rs", "copy_file_offset"),
        ("libfs/src/linux.rs", "try_copy_file_range"), ("libfs/src/linux.rs", "copy_node"), ("libfs/src/linux.rs", "lseek"),
        ("libfs/src/common.rs", "copy_xattr"),
        ("libxcp/src/operations.rs", "tree_walker"), ("libxcp/src/operations.rs", "copy_file"),
        ("libxcp/src/backup.rs", "ls_file_dir"), ("libxcp/src/backup.rs", "next_backup_num"), ("libxcp/src/backup.rs", "needs_backup"),
        ("libxcp/src/drivers/parblock.rs", "queue_file_blocks"),
    ];
    {
        let mut items = vec![];
        for (file, f) in pins {
            match load(root, file).and_then(|src| pinned_text(&src, f)) {
                Ok((t, _)) => items.push(format!("(\"{}::{}\", \"{}\")", file, f, t.replace('"', "\"\""))),
                Err(e) => { failures.push(format!("pin {}::{}: {}", file, f, e)); }
            }
        }
        writeln!(out, "(* the glue functions whose models are written by hand: their bodies as normalised text (logging dropped) *)").unwrap();
        writeln!(out, "Definition x_pinned : list (string * string) :=\n  [{}].\n", items.join(";\n   ")).unwrap();
    }
    print!("{}", out);
    for f in &failures { eprintln!("xlate: {}", f); }
    if !failures.is_empty() { std::process::exit(3); }
}
