From XcpModel Require Import Base Backup Walker Meta Ops.

Lemma in_repeat {A} (x y : A) n : In y (repeat x n) -> y = x.
Proof. induction n; cbn; [intros []|intros [<-|H]; auto]. Qed.

(* every key a copy operation can change is owned by the operation (its
   target or that target's backup name); sources are never among them *)
Theorem copy_mutations_owned fc src dst e a k :
  In a (fst (copy_actions fc src dst e)) -> In k (mutated a) -> owned dst k.
Proof.
  unfold copy_actions.
  destruct (ce_dst_exists e && ce_same_file e); cbn [fst]; intros Ha Hk.
  - apply in_app_or in Ha. destruct Ha as [[<-|[<-|[]]]|Ha]; try destruct Hk.
    destruct (ce_dst_exists e); [destruct Ha as [<-|[]]|destruct Ha]; destruct Hk.
  - repeat (apply in_app_or in Ha; destruct Ha as [Ha|Ha]).
    + destruct Ha as [<-|[<-|[]]]; destruct Hk.
    + destruct (ce_dst_exists e); [destruct Ha as [<-|[]]|destruct Ha]; destruct Hk.
    + destruct (ce_backup e) as [n|]; [|destruct Ha].
      destruct Ha as [<-|[<-|[]]]; [destruct Hk|]. destruct Hk as [<-|[<-|[]]]; reflexivity.
    + destruct Ha as [<-|[<-|[]]]; destruct Hk as [<-|[]]; reflexivity.
    + destruct (ce_clone_issued e); [destruct Ha as [<-|[]]; destruct Hk as [<-|[]]; reflexivity|destruct Ha].
    + destruct (ce_cloned e); [destruct Ha|]. apply in_flat_map in Ha. destruct Ha as (w & _ & [<-|[<-|[]]]).
      * destruct Hk.
      * destruct Hk as [<-|[]]; reflexivity.
    + destruct (c_ownership fc); [destruct Ha as [<-|[]]; destruct Hk as [<-|[]]; reflexivity|destruct Ha].
    + destruct (c_no_perms fc); [destruct Ha|]. apply in_app_or in Ha. destruct Ha as [Ha|[<-|[]]].
      * apply in_repeat in Ha. subst a. destruct Hk as [<-|[]]; reflexivity.
      * destruct Hk as [<-|[]]; reflexivity.
    + destruct (c_no_timestamps fc); [destruct Ha|]. destruct Ha as [<-|[]]. destruct Hk as [<-|[]]; reflexivity.
    + destruct (c_fsync fc); [|destruct Ha]. destruct Ha as [<-|[]]. destruct Hk as [<-|[]]; reflexivity.
Qed.

Corollary copy_never_mutates_source fc src dst e a k :
  In a (fst (copy_actions fc src dst e)) -> In k (mutated a) -> is_src k = false.
Proof.
  intros Ha Hk. pose proof (copy_mutations_owned fc src dst e a k Ha Hk) as H.
  destruct k; [destruct H|reflexivity|reflexivity].
Qed.

(* an alias is refused before ANY mutating action *)
Theorem copy_alias_refused fc src dst e :
  ce_dst_exists e = true -> ce_same_file e = true ->
  snd (copy_actions fc src dst e) = false /\
  forall a, In a (fst (copy_actions fc src dst e)) -> mutated a = [].
Proof.
  intros H1 H2. unfold copy_actions. rewrite H1, H2. cbn [andb fst snd]. split; [reflexivity|].
  intros a [<-|[<-|[<-|[]]]]; reflexivity.
Qed.

(* kill at any instant = any prefix of the action list: still only owned keys *)
Theorem copy_prefix_mutations_owned fc src dst e n a k :
  In a (firstn n (fst (copy_actions fc src dst e))) -> In k (mutated a) -> owned dst k.
Proof.
  intros Ha Hk. apply (copy_mutations_owned fc src dst e a k); [|exact Hk].
  rewrite <- (firstn_skipn n (fst (copy_actions fc src dst e))). apply in_or_app. now left.
Qed.

Theorem link_special_mutations_owned :
  (forall dst text a k, In a (link_actions dst text) -> In k (mutated a) -> owned dst k) /\
  (forall nc src dst ex same a k, In a (fst (special_actions nc src dst ex same)) -> In k (mutated a) -> owned dst k).
Proof.
  split.
  - intros dst text a k [<-|[]] [<-|[]]. reflexivity.
  - intros nc src dst ex same a k Ha Hk. unfold special_actions in Ha.
    destruct ex; [destruct nc; [|destruct same]|]; cbn [fst app] in Ha;
      repeat (destruct Ha as [<-|Ha]; [try (destruct Hk; fail); try (destruct Hk as [<-|[]]; reflexivity)|]); destruct Ha.
Qed.

(* ---- ordering inside one copy operation (used by C06 C10 C18) ---- *)
(* in the action list, every metadata/fsync action comes after every
   sizing/data action, and fsync (when requested) is the last action *)
Fixpoint all_before (p q : sysact -> bool) (l : list sysact) : bool :=
  (* no action satisfying p occurs after an action satisfying q *)
  match l with
  | [] => true
  | a :: r => (if q a then negb (existsb p r) else true) && all_before p q r
  end.

Lemma existsb_app_false {A} (f : A -> bool) a b : existsb f (a ++ b) = false <-> existsb f a = false /\ existsb f b = false.
Proof. rewrite existsb_app. apply orb_false_iff. Qed.

Lemma existsb_flat_writes (p : sysact -> bool) src dst ws :
  (forall o n, p (ARead (KSrc src) o n) = false) -> (forall o n, p (AWrite (KDst dst) o n) = false) ->
  existsb p (flat_map (fun w : N * N => [ARead (KSrc src) (fst w) (snd w); AWrite (KDst dst) (fst w) (snd w)]) ws) = false.
Proof.
  intros H1 H2. induction ws as [|w ws IH]; [reflexivity|]. cbn [flat_map app existsb]. now rewrite H1, H2, IH.
Qed.

Lemma existsb_repeat_false (p : sysact -> bool) a n : p a = false -> existsb p (repeat a n) = false.
Proof. intros H. induction n; cbn; [reflexivity|]. now rewrite H. Qed.

(* a successful copy operation = [open/backup/create/size/clone/data] ++ [finalise]:
   no metadata or fsync action in the first part, no sizing or data action in
   the second, and fsync — exactly one, when requested — is the very last action *)
Theorem copy_actions_order fc src dst e l :
  copy_actions fc src dst e = (l, true) ->
  exists A F, l = A ++ F /\
    existsb is_meta A = false /\ existsb data_or_sizing F = false /\
    (c_fsync fc = true -> exists F', F = F' ++ [AFsync (KDst dst)] /\ existsb is_fsync (A ++ F') = false) /\
    (c_fsync fc = false -> existsb is_fsync l = false).
Proof.
  unfold copy_actions. destruct (ce_dst_exists e && ce_same_file e); [discriminate|]. intros H. injection H as <-.
  set (pre := [AOpenRO (KSrc src); AStat (KSrc src)] ++ (if ce_dst_exists e then [AStat (KDst dst)] else [])).
  set (bk := match ce_backup e with Some n => [AReaddir (KDst dst); ARename (KDst dst) (KBak dst n)] | None => [] end).
  set (cr := [ACreateTrunc (KDst dst); AFtruncate (KDst dst) (ce_len e)]).
  set (cl := if ce_clone_issued e then [AClone (KDst dst)] else []).
  set (wr := if ce_cloned e then [] else flat_map (fun w : N * N => [ARead (KSrc src) (fst w) (snd w); AWrite (KDst dst) (fst w) (snd w)]) (ce_writes e)).
  set (f1 := if c_ownership fc then [AChown (KDst dst)] else []).
  set (f2 := if c_no_perms fc then [] else repeat (ASetxattr (KDst dst)) (ce_nxattr e) ++ [AChmod (KDst dst)]).
  set (f3 := if c_no_timestamps fc then [] else [AUtimens (KDst dst)]).
  set (f4 := if c_fsync fc then [AFsync (KDst dst)] else []).
  exists (pre ++ bk ++ cr ++ cl ++ wr), (f1 ++ f2 ++ f3 ++ f4).
  assert (forall p, p (AOpenRO (KSrc src)) = false -> p (AStat (KSrc src)) = false -> p (AStat (KDst dst)) = false ->
                    existsb p pre = false) as Hpre.
  { intros p h1 h2 h3. subst pre. cbn [app existsb]. rewrite h1, h2. destruct (ce_dst_exists e); cbn; [now rewrite h3|reflexivity]. }
  assert (existsb is_meta (pre ++ bk ++ cr ++ cl ++ wr) = false) as HA.
  { rewrite !existsb_app. rewrite Hpre by reflexivity.
    subst bk cr cl wr. destruct (ce_backup e); destruct (ce_clone_issued e); destruct (ce_cloned e); cbn [existsb is_meta orb];
      try reflexivity; apply existsb_flat_writes; reflexivity. }
  assert (existsb is_fsync (pre ++ bk ++ cr ++ cl ++ wr) = false) as HAf.
  { rewrite !existsb_app. rewrite Hpre by reflexivity.
    subst bk cr cl wr. destruct (ce_backup e); destruct (ce_clone_issued e); destruct (ce_cloned e); cbn [existsb is_fsync orb];
      try reflexivity; apply existsb_flat_writes; reflexivity. }
  assert (existsb data_or_sizing (f1 ++ f2 ++ f3 ++ f4) = false) as HF.
  { rewrite !existsb_app. subst f1 f2 f3 f4.
    destruct (c_ownership fc); destruct (c_no_perms fc); destruct (c_no_timestamps fc); destruct (c_fsync fc);
      cbn [existsb data_or_sizing orb]; rewrite ?existsb_app, ?existsb_repeat_false; reflexivity. }
  assert (existsb is_fsync (f1 ++ f2 ++ f3) = false) as HFf.
  { rewrite !existsb_app. subst f1 f2 f3.
    destruct (c_ownership fc); destruct (c_no_perms fc); destruct (c_no_timestamps fc);
      cbn [existsb is_fsync orb]; rewrite ?existsb_app, ?existsb_repeat_false; reflexivity. }
  split; [now rewrite <- !app_assoc|]. split; [exact HA|]. split; [exact HF|].
  assert (existsb is_fsync ((pre ++ bk ++ cr ++ cl ++ wr) ++ f1 ++ f2 ++ f3) = false) as HAll
      by (rewrite existsb_app; now rewrite HAf, HFf).
  subst f4. destruct (c_fsync fc); split; intros Hfs; try discriminate.
  - exists (f1 ++ f2 ++ f3). split; [now rewrite <- !app_assoc|exact HAll].
  - assert (forall (x y z w : list sysact), x ++ y ++ z ++ w ++ [] = x ++ y ++ z ++ w) as E4
        by (intros; now rewrite app_nil_r).
    rewrite <- HAll. f_equal. rewrite <- !app_assoc. now rewrite app_nil_r.
Qed.

(* ---- C04 ---- *)
(* any failing step outside the finalisation class yields an error exit *)
Theorem fault_outside_known_class_is_reported l i a :
  nth_error l i = Some a -> known_class_04 a = false ->
  match a with ASetxattr _ | AChown _ => True | _ => snd (with_fault l i) = false end.
Proof.
  intros Hn Hk. unfold with_fault. rewrite Hn. destruct a; cbn in *; try exact I; try reflexivity; discriminate.
Qed.

(* exit-ok after a fault => either nothing failed, or the failing action is a
   tolerated one (xattr / ownership), or it is in the known finalisation class *)
Theorem fault_exit_ok_classified l i :
  snd (with_fault l i) = true ->
  nth_error l i = None \/
  exists a, nth_error l i = Some a /\ (fault_effect_of a = FxTolerated \/ known_class_04 a = true).
Proof.
  unfold with_fault. destruct (nth_error l i) as [a|] eqn:E; [|now left]. intros H. right. exists a. split; [reflexivity|].
  destruct a; cbn in *; try discriminate; auto.
Qed.

(* the known class is real: a failing fsync is not reported *)
Lemma fault_in_finalisation_refuted :
  exists fc src dst e i a, nth_error (fst (copy_actions fc src dst e)) i = Some a /\
    a = AFsync (KDst dst) /\ snd (with_fault (fst (copy_actions fc src dst e)) i) = true.
Proof.
  exists (mkFin false false false true), [], [], (mkEnv false false None 4 false false [(0, 4)] 0), 8%nat, (AFsync (KDst [])).
  vm_compute. repeat split.
Qed.

(* a tolerated failure still executes the permission/timestamp/fsync steps *)
Theorem tolerated_fault_continues l i a b :
  nth_error l i = Some a -> fault_effect_of a = FxTolerated ->
  In b (skipn (S i) l) -> (match b with ASetxattr _ => False | _ => True end) ->
  In b (fst (with_fault l i)).
Proof.
  intros Hn He Hb Hnb. unfold with_fault. rewrite Hn, He. cbn [fst]. apply in_or_app. right.
  apply filter_In. split; [exact Hb|]. destruct a; cbn in He; try discriminate; destruct b; try reflexivity; contradiction.
Qed.

(* a special file whose existing target is the source node itself (an alias through a symlinked directory) is refused
   before any mutating action: in particular it is not unlinked *)
Theorem special_alias_refused : forall nc src dst,
  snd (special_actions nc src dst true true) = false /\
  forall a, In a (fst (special_actions nc src dst true true)) -> mutated a = [].
Proof.
  intros nc src dst. unfold special_actions. destruct nc; cbn [fst snd app]; split; try reflexivity;
    intros a Ha; repeat (destruct Ha as [<-|Ha]; [reflexivity|]); destruct Ha.
Qed.

(* a dangling symbolic link at the destination is refused before any mutating action: nothing is created through it *)
Theorem copy_dangling_refused : forall fc src dst e,
  ce_dst_exists e = false ->
  snd (copy_actions_d true fc src dst e) = false /\
  forall a, In a (fst (copy_actions_d true fc src dst e)) -> mutated a = [].
Proof.
  intros fc src dst e He. unfold copy_actions_d. rewrite He. cbn [negb andb fst snd]. split; [reflexivity|].
  intros a Ha. repeat (destruct Ha as [<-|Ha]; [reflexivity|]). destruct Ha.
Qed.
Theorem copy_actions_d_otherwise : forall d fc src dst e,
  d = false \/ ce_dst_exists e = true -> copy_actions_d d fc src dst e = copy_actions fc src dst e.
Proof. intros d fc src dst e [->|He]; unfold copy_actions_d; [now rewrite Bool.andb_false_r|now rewrite He]. Qed.

(* a directory found where a regular file is to be written is refused before any mutating action *)
Theorem copy_onto_directory_refused : forall dg fc src dst e,
  ce_dst_exists e = true -> ce_same_file e = false ->
  snd (copy_actions_dd dg true fc src dst e) = false /\
  forall a, In a (fst (copy_actions_dd dg true fc src dst e)) -> mutated a = [].
Proof.
  intros dg fc src dst e He Hs. unfold copy_actions_dd. rewrite He, Hs. cbn [negb andb fst snd]. split; [reflexivity|].
  intros a Ha. repeat (destruct Ha as [<-|Ha]; [reflexivity|]). destruct Ha.
Qed.
