From XcpModel Require Import Base Backup.
From Coq Require Import ZArith Zify ZifyClasses ZifyBool ZifyN.
Ltac Zify.zify_post_hook ::= Z.to_euclidean_division_equations.

(* ---------------- names ---------------- *)
Lemma name_eqb_eq a : forall b, name_eqb a b = true <-> a = b.
Proof.
  induction a as [|x a IH]; intros [|y b]; cbn [name_eqb]; split; try congruence; try discriminate.
  - intros H. apply andb_true_iff in H. destruct H as [H1 H2]. apply N.eqb_eq in H1. apply IH in H2. congruence.
  - intros H. injection H as -> ->. apply andb_true_iff. split; [apply N.eqb_refl|now apply IH].
Qed.

Lemma name_eqb_refl a : name_eqb a a = true.
Proof. now apply name_eqb_eq. Qed.

Lemma name_eqb_neq a b : a <> b -> name_eqb a b = false.
Proof. intros H. destruct (name_eqb a b) eqn:E; [apply name_eqb_eq in E; contradiction|reflexivity]. Qed.

(* ---------------- splitting at the last dot ---------------- *)
Definition no_dot (l : name) : Prop := ~ In DOT l.

Lemma rsplit_dot_go_none l : rsplit_dot_go l = None <-> no_dot l.
Proof.
  induction l as [|x r IH]; cbn [rsplit_dot_go]; [split; [intros _ []|reflexivity]|].
  destruct (rsplit_dot_go r) as [[b a]|].
  - split; [discriminate|]. intros H. exfalso. destruct IH as [_ IH].
    assert (no_dot r) as Hr by (intros Hi; apply H; now right). apply IH in Hr. discriminate.
  - destruct (N.eqb_spec x DOT) as [->|Hx].
    + split; [discriminate|]. intros H. exfalso. apply H. now left.
    + split; [|reflexivity]. intros _ [Hi|Hi]; [congruence|]. now apply (proj1 IH eq_refl).
Qed.

Lemma rsplit_dot_go_app b a : no_dot a -> rsplit_dot_go (b ++ DOT :: a) = Some (b, a).
Proof.
  intros Ha. induction b as [|x b IH]; cbn [app rsplit_dot_go].
  - rewrite (proj2 (rsplit_dot_go_none a) Ha). now rewrite N.eqb_refl.
  - now rewrite IH.
Qed.

Lemma rsplit_dot_go_some l : forall b a, rsplit_dot_go l = Some (b, a) -> l = b ++ DOT :: a /\ no_dot a.
Proof.
  induction l as [|x r IH]; intros b a; cbn [rsplit_dot_go]; [discriminate|].
  destruct (rsplit_dot_go r) as [[b' a']|] eqn:E.
  - intros H. injection H as <- <-. destruct (IH b' a' eq_refl) as [-> Hn]. split; [reflexivity|assumption].
  - destruct (N.eqb_spec x DOT) as [->|Hx]; [|discriminate].
    intros H. injection H as <- <-. split; [reflexivity|]. now apply rsplit_dot_go_none.
Qed.

(* ---------------- decimal printing and parsing ---------------- *)
Definition dval (l : name) (acc : N) : N := fold_left (fun a c => a * 10 + (c - 48)) l acc.
Definition all_digits (l : name) : Prop := Forall (fun c => is_digit c = true) l.

Lemma parse_dec_go_digits l : forall acc, all_digits l -> parse_dec_go acc l = Some (dval l acc).
Proof.
  induction l as [|c r IH]; intros acc H; [reflexivity|].
  inversion H as [|? ? Hc Hr]; subst. cbn [parse_dec_go dval fold_left]. rewrite Hc. now apply IH.
Qed.

Lemma parse_dec_go_some l : forall acc v, parse_dec_go acc l = Some v -> all_digits l /\ v = dval l acc.
Proof.
  induction l as [|c r IH]; intros acc v; cbn [parse_dec_go].
  - intros H. injection H as <-. split; [constructor|reflexivity].
  - destruct (is_digit c) eqn:Hc; [|discriminate]. intros H. apply IH in H. destruct H as [H1 H2].
    split; [now constructor|exact H2].
Qed.

Lemma dval_app l1 l2 acc : dval (l1 ++ l2) acc = dval l2 (dval l1 acc).
Proof. unfold dval. apply fold_left_app. Qed.

Lemma print_dec_go_spec fuel : forall n, n < 10 ^ N.of_nat fuel -> (0 < fuel)%nat ->
  all_digits (print_dec_go fuel n) /\ dval (print_dec_go fuel n) 0 = n /\ print_dec_go fuel n <> [].
Proof.
  induction fuel as [|f IH]; intros n Hn Hf; [lia|]. cbn [print_dec_go].
  destruct (N.ltb_spec n 10) as [Hlt|Hge].
  - split; [|split; [|discriminate]].
    + repeat constructor. unfold is_digit. apply andb_true_iff. split; [apply N.leb_le|apply N.leb_le]; lia.
    + cbn. lia.
  - assert (n / 10 < 10 ^ N.of_nat f) as Hq.
    { rewrite Nat2N.inj_succ, N.pow_succ_r' in Hn. apply N.div_lt_upper_bound; lia. }
    assert (0 < f)%nat as Hf'.
    { destruct f; [|lia]. cbn in Hn. lia. }
    destruct (IH (n / 10) Hq Hf') as (D1 & D2 & D3).
    pose proof (N.mod_lt n 10 ltac:(lia)) as Hm.
    split; [|split].
    + apply Forall_app. split; [assumption|]. repeat constructor. unfold is_digit.
      apply andb_true_iff. split; apply N.leb_le; lia.
    + rewrite dval_app, D2. cbn. pose proof (N.div_mod n 10 ltac:(lia)). lia.
    + intros H. apply app_eq_nil in H. destruct H as [_ H]. discriminate.
Qed.

Lemma digit_not_dot_tilde c : is_digit c = true -> c <> DOT /\ c <> TILDE.
Proof. unfold is_digit, DOT, TILDE. intros H. apply andb_true_iff in H. destruct H as [H1 H2].
  apply N.leb_le in H1. apply N.leb_le in H2. lia. Qed.

Lemma print_dec_spec n : n < U64 ->
  all_digits (print_dec n) /\ parse_u64 (print_dec n) = Some n.
Proof.
  intros Hn. unfold print_dec.
  assert (10 ^ N.of_nat 21 = 1000000000000000000000) as E21 by (vm_compute; reflexivity).
  assert (n < 10 ^ N.of_nat 21) as Hb by (rewrite E21; unfold U64 in Hn; lia).
  destruct (print_dec_go_spec 21 n Hb ltac:(lia)) as (D1 & D2 & D3).
  split; [assumption|]. unfold parse_u64.
  destruct (print_dec_go 21 n) as [|c r] eqn:E; [contradiction|].
  rewrite (parse_dec_go_digits _ 0 D1), D2.
  destruct (N.ltb_spec n U64); [reflexivity|lia].
Qed.

(* ---------------- is_num_backup ---------------- *)
Lemma parse_tilde_num_spec ds : parse_tilde_num (TILDE :: ds ++ [TILDE]) = parse_u64 ds.
Proof.
  unfold parse_tilde_num. rewrite N.eqb_refl. rewrite rev_app_distr. cbn [rev app].
  rewrite N.eqb_refl. now rewrite rev_involutive.
Qed.

Lemma parse_tilde_num_some ext k : parse_tilde_num ext = Some k ->
  exists ds, ext = TILDE :: ds ++ [TILDE] /\ parse_u64 ds = Some k.
Proof.
  unfold parse_tilde_num. destruct ext as [|c r]; [discriminate|].
  destruct (N.eqb_spec c TILDE) as [->|]; [|discriminate].
  destruct (rev r) as [|c' mid] eqn:Er; [discriminate|].
  destruct (N.eqb_spec c' TILDE) as [->|]; [|discriminate].
  intros H. exists (rev mid). split; [|exact H].
  f_equal. rewrite <- (rev_involutive r), Er. reflexivity.
Qed.

Lemma all_digits_no_dot ds : all_digits ds -> no_dot ds.
Proof.
  intros H Hin. unfold all_digits in H. rewrite Forall_forall in H. apply H in Hin.
  apply digit_not_dot_tilde in Hin. tauto.
Qed.

(* a name built by get_backup_path is recognised, with its number *)
Lemma backup_name_recognised base n : base <> [] -> n < U64 ->
  is_num_backup base (backup_name base n) = Some n.
Proof.
  intros Hb Hn. destruct (print_dec_spec n Hn) as [D1 D2].
  unfold is_num_backup, backup_name, split_ext.
  set (ds := print_dec n) in *.
  assert (name_eqb (base ++ [DOT; TILDE] ++ ds ++ [TILDE]) [DOT; DOT] = false) as Hdd.
  { apply name_eqb_neq. intros H. apply (f_equal (@length N)) in H.
    rewrite !app_length in H. cbn [length] in H. destruct base; [contradiction|cbn [length] in H; lia]. }
  rewrite Hdd.
  assert (no_dot (TILDE :: ds ++ [TILDE])) as Hnd.
  { intros [H|H]; [discriminate H|]. apply in_app_or in H. destruct H as [H|[H|[]]]; [|discriminate H].
    now apply (all_digits_no_dot ds D1). }
  change (base ++ [DOT; TILDE] ++ ds ++ [TILDE]) with (base ++ DOT :: (TILDE :: ds ++ [TILDE])).
  rewrite (rsplit_dot_go_app base _ Hnd).
  destruct base as [|b0 base']; [contradiction|].
  rewrite name_eqb_refl. rewrite parse_tilde_num_spec. exact D2.
Qed.

(* and nothing else is: only `<base>.~<digits>~` counts *)
Lemma is_num_backup_exact base cand k : is_num_backup base cand = Some k ->
  exists ds, cand = base ++ [DOT; TILDE] ++ ds ++ [TILDE] /\ parse_u64 ds = Some k /\ k < U64.
Proof.
  unfold is_num_backup, split_ext.
  destruct (name_eqb cand [DOT; DOT]); [discriminate|].
  destruct (rsplit_dot_go cand) as [[b a]|] eqn:E; [|discriminate].
  destruct b as [|b0 b']; [discriminate|].
  destruct (name_eqb (b0 :: b') base) eqn:Eb; [|discriminate].
  apply name_eqb_eq in Eb. subst base. intros H.
  apply parse_tilde_num_some in H. destruct H as (ds & -> & Hp).
  apply rsplit_dot_go_some in E. destruct E as [-> _].
  exists ds. split; [reflexivity|]. split; [assumption|].
  unfold parse_u64 in Hp. destruct ds; [discriminate|].
  destruct (parse_dec_go 0 (n :: ds)); [|discriminate].
  destruct (N.ltb_spec n0 U64); [|discriminate]. injection Hp as <-. assumption.
Qed.

(* ---------------- next_backup_num ---------------- *)
Lemma max_list_ge l x : In x l -> x <= max_list l.
Proof.
  induction l as [|y r IH]; [intros []|]. intros [->|H]; cbn [max_list fold_right].
  - lia.
  - specialize (IH H). unfold max_list in IH. lia.
Qed.

Lemma backup_nums_in base entries c k :
  In c entries -> is_num_backup base c = Some k -> In k (backup_nums base entries).
Proof.
  intros Hc Hk. unfold backup_nums. apply in_flat_map. exists c. split; [assumption|]. rewrite Hk. now left.
Qed.

Lemma next_backup_num_above base entries n c k :
  next_backup_num base entries = Some n -> In c entries -> is_num_backup base c = Some k -> k < n.
Proof.
  unfold next_backup_num. intros H Hc Hk.
  destruct (N.ltb_spec (max_list (backup_nums base entries) + 1) U64); [|discriminate].
  injection H as <-. pose proof (max_list_ge _ _ (backup_nums_in _ _ _ _ Hc Hk)). lia.
Qed.

Lemma next_backup_num_fresh base entries n : base <> [] ->
  next_backup_num base entries = Some n -> ~ In (backup_name base n) entries.
Proof.
  intros Hb H Hin.
  assert (n < U64) as Hn.
  { unfold next_backup_num in H. destruct (N.ltb_spec (max_list (backup_nums base entries) + 1) U64); [|discriminate].
    injection H as <-. assumption. }
  pose proof (next_backup_num_above base entries n _ n H Hin (backup_name_recognised base n Hb Hn)). lia.
Qed.

Lemma next_backup_num_pos base entries n : next_backup_num base entries = Some n -> 1 <= n.
Proof.
  unfold next_backup_num. destruct (_ <? U64); [|discriminate]. intros H. injection H as <-. lia.
Qed.

(* no overflow as long as every existing number is below u64::MAX *)
Lemma next_backup_num_defined base entries :
  (forall c k, In c entries -> is_num_backup base c = Some k -> k < U64MAX) ->
  exists n, next_backup_num base entries = Some n.
Proof.
  intros H. unfold next_backup_num.
  assert (max_list (backup_nums base entries) < U64MAX) as Hm.
  { assert (forall l, (forall x, In x l -> x < U64MAX) -> max_list l < U64MAX) as G.
    { induction l as [|y r IH]; intros Hl; [unfold U64MAX; cbn; lia|].
      cbn [max_list fold_right]. assert (y < U64MAX) by (apply Hl; now left).
      assert (max_list r < U64MAX) by (apply IH; intros x Hx; apply Hl; now right).
      unfold max_list in *. lia. }
    apply G. intros x Hx. unfold backup_nums in Hx. apply in_flat_map in Hx.
    destruct Hx as (c & Hc & Hx). destruct (is_num_backup base c) as [k|] eqn:E; [|destruct Hx].
    destruct Hx as [<-|[]]. eapply H; eauto. }
  exists (max_list (backup_nums base entries) + 1).
  destruct (N.ltb_spec (max_list (backup_nums base entries) + 1) U64); [reflexivity|].
  unfold U64, U64MAX in *. lia.
Qed.

(* ---------------- directories ---------------- *)
Lemma dir_get_remove_same d n : dir_get (dir_remove d n) n = None.
Proof.
  induction d as [|[k v] r IH]; [reflexivity|]. cbn [dir_remove].
  destruct (name_eqb k n) eqn:E; [exact IH|]. cbn [dir_get]. now rewrite E.
Qed.

Lemma dir_get_remove_other d n m : n <> m -> dir_get (dir_remove d n) m = dir_get d m.
Proof.
  intros Hnm. induction d as [|[k v] r IH]; [reflexivity|]. cbn [dir_remove dir_get].
  destruct (name_eqb k n) eqn:E.
  - apply name_eqb_eq in E. subst k. rewrite (name_eqb_neq n m Hnm). exact IH.
  - cbn [dir_get]. destruct (name_eqb k m); [reflexivity|exact IH].
Qed.

Lemma dir_get_set_same d n v : dir_get (dir_set d n v) n = Some v.
Proof. unfold dir_set. cbn [dir_get]. now rewrite name_eqb_refl. Qed.

Lemma dir_get_set_other d n m v : n <> m -> dir_get (dir_set d n v) m = dir_get d m.
Proof.
  intros H. unfold dir_set. cbn [dir_get]. rewrite (name_eqb_neq n m H). now apply dir_get_remove_other.
Qed.

Lemma dir_get_in d n v : dir_get d n = Some v -> In n (dir_names d).
Proof.
  induction d as [|[k w] r IH]; [discriminate|]. cbn [dir_get dir_names map fst].
  destruct (name_eqb k n) eqn:E; [apply name_eqb_eq in E; subst; intros _; now left|].
  intros H. right. now apply IH.
Qed.

Lemma dir_get_notin d n : ~ In n (dir_names d) -> dir_get d n = None.
Proof.
  intros H. destruct (dir_get d n) eqn:E; [|reflexivity]. apply dir_get_in in E. contradiction.
Qed.

Lemma backup_name_neq base n : backup_name base n <> base.
Proof.
  unfold backup_name. intros H. apply (f_equal (@length N)) in H. rewrite !app_length in H. cbn [length] in H. lia.
Qed.

(* ---------------- one overwrite ---------------- *)
(* the old version is preserved under a fresh number, nothing else changes *)
Lemma overwrite_preserves mode d base c d' old :
  base <> [] -> overwrite mode d base c = Some d' -> dir_get d base = Some old ->
  dir_get d' base = Some c /\
  (forall m, m <> base -> forall v, dir_get d m = Some v -> dir_get d' m = Some v) /\
  (needs_backup mode true base (dir_names d) = true ->
     exists n, next_backup_num base (dir_names d) = Some n /\
               dir_get d (backup_name base n) = None /\
               dir_get d' (backup_name base n) = Some old /\
               (forall e k, In e (dir_names d) -> is_num_backup base e = Some k -> k < n) /\
               (forall m, m <> base -> m <> backup_name base n -> dir_get d' m = dir_get d m)) /\
  (needs_backup mode true base (dir_names d) = false ->
     forall m, m <> base -> dir_get d' m = dir_get d m).
Proof.
  intros Hb Ho Hold. unfold overwrite in Ho. rewrite Hold in Ho.
  destruct (needs_backup mode true base (dir_names d)) eqn:En.
  - destruct (next_backup_num base (dir_names d)) as [n|] eqn:Enb; [|discriminate].
    injection Ho as <-.
    pose proof (next_backup_num_fresh base (dir_names d) n Hb Enb) as Hfresh.
    pose proof (backup_name_neq base n) as Hne.
    assert (base <> backup_name base n) as Hne' by congruence.
    unfold dir_rename. rewrite Hold.
    split; [apply dir_get_set_same|]. split; [|split; [|discriminate]].
    + intros m Hm v Hv. rewrite dir_get_set_other by congruence.
      destruct (name_eqb (backup_name base n) m) eqn:E.
      * apply name_eqb_eq in E. subst m. apply dir_get_in in Hv. contradiction.
      * rewrite dir_get_set_other by (intros Heq; rewrite Heq, name_eqb_refl in E; discriminate).
        rewrite dir_get_remove_other by congruence. exact Hv.
    + intros _. exists n. split; [reflexivity|]. split; [now apply dir_get_notin|]. split; [|split].
      * rewrite dir_get_set_other by congruence. apply dir_get_set_same.
      * intros e k He Hk. eapply next_backup_num_above; eauto.
      * intros m Hm1 Hm2. rewrite dir_get_set_other by congruence.
        rewrite dir_get_set_other by congruence. apply dir_get_remove_other. congruence.
  - injection Ho as <-. split; [apply dir_get_set_same|]. split; [|split; [discriminate|]].
    + intros m Hm v Hv. rewrite dir_get_set_other by congruence. exact Hv.
    + intros _ m Hm. apply dir_get_set_other. congruence.
Qed.

(* kill points: in every intermediate state of an overwrite that makes a
   backup, the old content is under the original or under the backup name *)
Lemma overwrite_steps_keep_old mode d base c steps old :
  base <> [] -> overwrite_steps mode d base c = Some steps -> dir_get d base = Some old ->
  needs_backup mode true base (dir_names d) = true ->
  exists n, next_backup_num base (dir_names d) = Some n /\
  forall s, In s steps -> dir_get s base = Some old \/ dir_get s (backup_name base n) = Some old.
Proof.
  intros Hb Ho Hold Hn. unfold overwrite_steps in Ho. rewrite Hold, Hn in Ho.
  destruct (next_backup_num base (dir_names d)) as [n|] eqn:Enb; [|discriminate].
  injection Ho as <-. exists n. split; [reflexivity|].
  pose proof (backup_name_neq base n) as Hne.
  assert (dir_get (dir_rename d base (backup_name base n)) (backup_name base n) = Some old) as H1.
  { unfold dir_rename. rewrite Hold. apply dir_get_set_same. }
  intros s [<-|[<-|[<-|[]]]].
  - now left.
  - now right.
  - right. rewrite dir_get_set_other by congruence. exact H1.
Qed.

(* auto mode makes a backup exactly when a backup of THAT name exists *)
Lemma auto_iff_backup_exists base entries :
  needs_backup 1 true base entries = true <-> exists c k, In c entries /\ is_num_backup base c = Some k.
Proof.
  unfold needs_backup. cbn. unfold has_backup, backup_nums. split.
  - destruct (flat_map _ entries) as [|k r] eqn:E; [discriminate|]. intros _.
    assert (In k (flat_map (fun c => match is_num_backup base c with Some k => [k] | None => [] end) entries)) as Hin
        by (rewrite E; now left).
    apply in_flat_map in Hin. destruct Hin as (c & Hc & Hk).
    destruct (is_num_backup base c) as [k'|] eqn:Ek; [|destruct Hk]. exists c, k'. auto.
  - intros (c & k & Hc & Hk).
    pose proof (backup_nums_in base entries c k Hc Hk) as Hin. unfold backup_nums in Hin.
    destruct (flat_map _ entries); [destruct Hin|reflexivity].
Qed.
