(* XConfig.v — part of the translator tie (see ExtractedOk.v): option plumbing: Config::from(&Opts), Config::num_workers.
   One file per group of translated definitions, so that a property depends only on the pieces it cites. *)
From XcpModel Require Import Base Extents Blocks Sparse CopyLoop FileCopy Updater Meta Backup Extracted.
From Coq Require Import String.
From Coq Require Import Lia.
From XcpModel Require Import Walker Ops.
From XcpModel Require Import Uspace.
From XcpModel Require Import Paths.
From XcpModel Require Import Main.
(* ---- option plumbing ---- *)
Theorem x_num_workers_ok : forall w n, x_num_workers w n = num_workers w n.
Proof. reflexivity. Qed.
Theorem x_config_workers_ok : forall w n, x_config_workers w n = num_workers w n.
Proof. reflexivity. Qed.

(* the worker count both drivers are started with is at least one on any machine (>= 1 CPU), whatever -w says:
   the hypothesis `1 <= W` of the ConcBlock / ConcFile / ConcFault theorems *)
Theorem x_workers_at_least_one : forall w ncpus, 1 <= ncpus -> 1 <= x_num_workers (x_config_workers w ncpus) ncpus.
Proof.
  intros w n Hn. change (1 <= num_workers (num_workers w n) n). unfold num_workers.
  destruct (N.eqb_spec w 0) as [->|Hw].
  - destruct (N.eqb_spec n 0) as [Hn0|Hn0]; lia.
  - destruct (N.eqb_spec w 0) as [Hw0|Hw0]; lia.
Qed.

(* Config::from is ONE struct literal without a `..default` tail; apart from the two computed fields every Config
   field is the option of the same name, unchanged *)
Definition config_field_plain (fe : string * string) : bool :=
  String.eqb (fst fe) "workers" || String.eqb (fst fe) "block_size" || String.eqb (snd fe) ("opts." ++ fst fe).
Theorem x_config_fields_plain : forall f e, In (f, e) x_config_fields ->
  f <> "workers"%string -> f <> "block_size"%string -> e = ("opts." ++ f)%string.
Proof.
  intros f e Hin H1 H2.
  assert (forallb config_field_plain x_config_fields = true) as Hall by reflexivity.
  rewrite forallb_forall in Hall. specialize (Hall _ Hin). unfold config_field_plain in Hall. cbn [fst snd] in Hall.
  apply Bool.orb_true_iff in Hall. destruct Hall as [Hall|Hall].
  - apply Bool.orb_true_iff in Hall. destruct Hall as [Hall|Hall]; apply String.eqb_eq in Hall; contradiction.
  - now apply String.eqb_eq in Hall.
Qed.
Theorem x_config_fields_names : map fst x_config_fields =
  ["workers"; "block_size"; "gitignore"; "no_clobber"; "no_perms"; "no_timestamps"; "ownership"; "dereference";
   "no_target_directory"; "fsync"; "reflink"; "backup"]%string.
Proof. reflexivity. Qed.

