From XcpModel Require Import Base Updater.
From Coq Require Import Arith PeanoNat.

Lemma sum_copied_app a b : sum_copied (a ++ b) = sum_copied a + sum_copied b.
Proof. unfold sum_copied. rewrite map_app. induction (map copied_of a); cbn [app sumN]; lia. Qed.

Lemma sum_size_app a b : sum_size (a ++ b) = sum_size a + sum_size b.
Proof. unfold sum_size. rewrite map_app. induction (map size_of a); cbn [app sumN]; lia. Qed.

(* batching only drops Copied updates: delivered copied bytes never exceed the
   bytes passed to send, sizes and errors are delivered unchanged *)
Lemma chan_deliver_bounds bs : forall sends sent,
  sum_copied (chan_deliver bs sent sends) <= sum_copied sends /\
  sum_size (chan_deliver bs sent sends) = sum_size sends /\
  has_error (chan_deliver bs sent sends) = has_error sends.
Proof.
  induction sends as [|u r IH]; intros sent; [cbn; repeat split; lia|].
  cbn [chan_deliver]. destruct u as [n|n|]; cbn [chan_send].
  - destruct (IH sent) as (A & B & C). cbn [app]. unfold sum_copied, sum_size in *.
    cbn [map sumN copied_of size_of has_error existsb]. repeat split; try lia. exact C.
  - destruct (IH (sent + n)) as (A & B & C).
    destruct (sent / bs <? (sent + n) / bs); cbn [app]; unfold sum_copied, sum_size in *;
      cbn [map sumN copied_of size_of has_error existsb]; repeat split; try lia; exact C.
  - destruct (IH sent) as (A & B & C). cbn [app]. unfold sum_copied, sum_size in *.
    cbn [map sumN copied_of size_of has_error existsb]. repeat split; try lia.
Qed.

(* the delivered stream of a prefix of the sends is a prefix of the delivered stream *)
Lemma chan_deliver_app bs : forall a b sent,
  exists sent', chan_deliver bs sent (a ++ b) = chan_deliver bs sent a ++ chan_deliver bs sent' b.
Proof.
  induction a as [|u r IH]; intros b sent; [exists sent; reflexivity|].
  cbn [app chan_deliver]. destruct (chan_send bs sent u) as [s' d].
  destruct (IH b s') as [s'' E]. exists s''. rewrite E. now rewrite app_assoc.
Qed.

(* ---- global log: never more copied than announced, at every prefix ---- *)
Definition g_copied (l : list gev) : N := sum_copied (map gev_update l).
Definition g_size (l : list gev) : N := sum_size (map gev_update l).

Fixpoint files_of (l : list gev) : list nat :=
  match l with
  | [] => []
  | GSize f _ :: r | GCopied f _ :: r => f :: files_of r
  | GError :: r => files_of r
  end.

Lemma sum_sel_notin (g : nat) (n : N) (sel : nat -> N) fs : ~ In g fs ->
  sumN (map (fun f => (if Nat.eqb f g then n else 0) + sel f) fs) = sumN (map sel fs).
Proof.
  induction fs as [|y fs IH]; intros Hg; [reflexivity|]. cbn [map sumN].
  destruct (Nat.eqb_spec y g) as [->|Hne]; [exfalso; apply Hg; now left|].
  rewrite IH; [lia|]. intros Hi. apply Hg. now right.
Qed.

Lemma sum_sel_in (g : nat) (n : N) (sel : nat -> N) fs : In g fs -> NoDup fs ->
  sumN (map (fun f => (if Nat.eqb f g then n else 0) + sel f) fs) = n + sumN (map sel fs).
Proof.
  induction fs as [|x fs IH]; intros Hg Hnd; [destruct Hg|].
  inversion Hnd as [|? ? Hx Hnd']; subst. cbn [map sumN].
  destruct Hg as [->|Hg].
  - rewrite Nat.eqb_refl. rewrite (sum_sel_notin g n sel fs Hx). lia.
  - assert (x <> g) by (intros ->; contradiction).
    destruct (Nat.eqb_spec x g); [contradiction|]. rewrite (IH Hg Hnd'). lia.
Qed.

Lemma sum_add0 (sel : nat -> N) fs : sumN (map (fun f => 0 + sel f) fs) = sumN (map sel fs).
Proof. reflexivity. Qed.

(* sum over a duplicate-free list of file ids that contains every id of the log *)
Lemma copied_split l : forall fs, NoDup fs -> (forall f, In f (files_of l) -> In f fs) ->
  g_copied l = sumN (map (fun f => copied_for f l) fs) /\
  g_size l = sumN (map (fun f => size_for f l) fs).
Proof.
  induction l as [|e r IH]; intros fs Hnd Hin.
  - unfold g_copied, g_size, copied_for, size_for, sum_copied, sum_size. cbn [map sumN].
    split; (clear; induction fs as [|x fs IHf]; cbn [map sumN]; [reflexivity|]; rewrite <- IHf; reflexivity).
  - assert (forall f, In f (files_of r) -> In f fs) as Hin'.
    { intros f Hf. apply Hin. destruct e; cbn [files_of]; auto; now right. }
    destruct (IH fs Hnd Hin') as [A B].
    assert (forall f, copied_for f (e :: r) =
              (match e with GCopied g n => if Nat.eqb f g then n else 0 | _ => 0 end) + copied_for f r) as Hc
        by reflexivity.
    assert (forall f, size_for f (e :: r) =
              (match e with GSize g n => if Nat.eqb f g then n else 0 | _ => 0 end) + size_for f r) as Hs
        by reflexivity.
    assert (g_copied (e :: r) = copied_of (gev_update e) + g_copied r) as Gc by reflexivity.
    assert (g_size (e :: r) = size_of (gev_update e) + g_size r) as Gs by reflexivity.
    rewrite Gc, Gs, A, B. rewrite (map_ext _ _ Hc), (map_ext _ _ Hs).
    destruct e as [g n|g n|]; cbn [gev_update copied_of size_of].
    + split; [now rewrite sum_add0|].
      symmetry. apply sum_sel_in; [|assumption]. apply Hin. cbn. now left.
    + split; [|now rewrite sum_add0].
      symmetry. apply sum_sel_in; [|assumption]. apply Hin. cbn. now left.
    + split; now rewrite sum_add0.
Qed.

Lemma sumN_le {A} (f g : A -> N) l : (forall x, f x <= g x) -> sumN (map f l) <= sumN (map g l).
Proof. intros H. induction l as [|x r IH]; cbn [map sumN]; [lia|]. specialize (H x). lia. Qed.

Theorem log_prefix_bound l : log_ok l ->
  forall p s, l = p ++ s -> g_copied p <= g_size p.
Proof.
  intros Hok p s E.
  destruct (copied_split p (nodup Nat.eq_dec (files_of p)) (NoDup_nodup _ _)
              ltac:(intros f Hf; now apply nodup_In)) as [A B].
  rewrite A, B. apply sumN_le. intros f. now apply (Hok p s E f).
Qed.
