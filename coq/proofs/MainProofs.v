From XcpModel Require Import Base Backup Paths Walker Main.

Section V.
  Variable exists_ is_dir : path -> bool.
  Variable same_file : path -> path -> bool.
  Variable o : opts.

  Lemma check_sources_some dest dd ss s : forall seen,
    In s ss -> check_source exists_ is_dir same_file o dest dd s <> None ->
    check_sources exists_ is_dir same_file o dest dd seen ss <> None.
  Proof.
    induction ss as [|x r IH]; intros seen Hin Hs; [destruct Hin|]. cbn [check_sources].
    destruct (check_source exists_ is_dir same_file o dest dd x) eqn:E; [discriminate|].
    destruct Hin as [->|Hin]; [congruence|].
    destruct (target_base dest x dd (o_no_target_dir o)); [|now apply IH].
    destruct (existsb _ seen); [discriminate|now apply IH].
  Qed.

  (* a later source whose mapped destination is already in `seen` is rejected *)
  Lemma check_sources_seen dest dd ss s tb : forall seen,
    In s ss -> target_base dest s dd (o_no_target_dir o) = Some tb -> existsb (path_eqb tb) seen = true ->
    check_sources exists_ is_dir same_file o dest dd seen ss <> None.
  Proof.
    induction ss as [|x r IH]; intros seen Hin Htb Hex; [destruct Hin|]. cbn [check_sources].
    destruct (check_source exists_ is_dir same_file o dest dd x) eqn:E; [discriminate|].
    destruct Hin as [->|Hin].
    - rewrite Htb, Hex. cbv iota. intros HH. discriminate HH.
    - destruct (target_base dest x dd (o_no_target_dir o)) as [tbx|]; [|now apply IH].
      destruct (existsb (path_eqb tbx) seen); [discriminate|]. apply IH; try assumption. cbn [existsb]. rewrite Hex. apply orb_true_r.
  Qed.

  Lemma check_sources_dup dest dd l1 s1 l2 s2 tb1 tb2 : forall seen,
    In s2 l2 -> target_base dest s1 dd (o_no_target_dir o) = Some tb1 ->
    target_base dest s2 dd (o_no_target_dir o) = Some tb2 -> path_eqb tb2 tb1 = true ->
    check_sources exists_ is_dir same_file o dest dd seen (l1 ++ s1 :: l2) <> None.
  Proof.
    induction l1 as [|x l1 IH]; intros seen Hin H1 H2 He; cbn [app check_sources].
    - destruct (check_source exists_ is_dir same_file o dest dd s1); [discriminate|]. rewrite H1.
      destruct (existsb _ seen); [discriminate|].
      apply (check_sources_seen dest dd l2 s2 tb2); try assumption. cbn [existsb]. now rewrite He.
    - destruct (check_source exists_ is_dir same_file o dest dd x); [discriminate|].
      destruct (target_base dest x dd (o_no_target_dir o)); [|now apply IH].
      destruct (existsb _ seen); [discriminate|now apply IH].
  Qed.

  (* every invalid invocation is rejected by the validation block — whatever the
     position of the offending source among valid ones *)
  Theorem invalid_rejected sources dest :
    Invalid exists_ is_dir same_file o sources dest ->
    validate exists_ is_dir same_file o sources dest <> None.
  Proof.
    intros H. unfold validate. destruct sources as [|s0 rest]; [discriminate|].
    set (dd := is_dir dest).
    destruct (negb dd && (match rest with [] => true | _ => false end) && is_dir s0 && exists_ dest); [discriminate|].
    destruct (negb dd && (match rest with [] => false | _ => true end)) eqn:Emulti; [discriminate|].
    assert (forall s, In s (s0 :: rest) ->
              check_source exists_ is_dir same_file o dest (exists_ dest && dd) s <> None ->
              check_sources exists_ is_dir same_file o dest (exists_ dest && dd) [] (s0 :: rest) <> None) as K
        by (intros s; apply check_sources_some).
    destruct H as [H|s Hin Hex|s Hin Hd Hr|Hlen Hnd|s tb Hin Hd Hm Hex Hnd|s tb Hin Hm Hs|s Hin Hs
                   |l1 s1 l2 s2 tb1 tb2 Hsplit Hin2 Hm1 Hm2 Heq].
    - discriminate.
    - apply (K s Hin). unfold check_source. rewrite Hex. discriminate.
    - apply (K s Hin). unfold check_source. destruct (exists_ s); [|discriminate]. cbn [negb].
      rewrite Hd, Hr. discriminate.
    - exfalso. fold dd in Hnd. rewrite Hnd in Emulti. cbn [negb andb] in Emulti.
      destruct rest; [cbn in Hlen; lia|discriminate].
    - apply (K s Hin). unfold check_source. unfold mapped in Hm. fold dd in Hm.
      destruct (exists_ s); [|discriminate]. cbn [negb].
      destruct (is_dir s && negb (o_recursive o)); [discriminate|].
      destruct (path_eqb s dest); [discriminate|]. rewrite Hm.
      destruct (path_eqb s tb || (exists_ tb && same_file s tb)); [discriminate|].
      rewrite Hd, Hex, Hnd. discriminate.
    - apply (K s Hin). unfold check_source. unfold mapped in Hm. fold dd in Hm.
      destruct (exists_ s); [|discriminate]. cbn [negb].
      destruct (is_dir s && negb (o_recursive o)); [discriminate|].
      destruct (path_eqb s dest); [discriminate|]. rewrite Hm.
      assert (path_eqb s tb || (exists_ tb && same_file s tb) = true) as ->.
      { destruct Hs as [->|[-> ->]]; [reflexivity|apply orb_true_r]. }
      discriminate.
    - apply (K s Hin). unfold check_source.
      destruct (exists_ s); [|discriminate]. cbn [negb].
      destruct (is_dir s && negb (o_recursive o)); [discriminate|]. rewrite Hs. discriminate.
    - rewrite Hsplit. unfold mapped in Hm1, Hm2. fold dd in Hm1, Hm2.
      eapply check_sources_dup; eauto.
  Qed.

  (* conversely: when validation passes, no class of the property applies
     (completeness of the declarative predicate w.r.t. the checks) *)
  Theorem validate_none_sound sources dest :
    validate exists_ is_dir same_file o sources dest = None ->
    sources <> [] /\
    (forall s, In s sources -> exists_ s = true /\ (is_dir s = true -> o_recursive o = true)) /\
    ((1 < length sources)%nat -> is_dir dest = true).
  Proof.
    unfold validate. destruct sources as [|s0 rest]; [discriminate|]. intros H.
    split; [discriminate|].
    destruct (negb (is_dir dest) && (match rest with [] => true | _ => false end) && is_dir s0 && exists_ dest); [discriminate|].
    destruct (negb (is_dir dest) && (match rest with [] => false | _ => true end)) eqn:Em; [discriminate|].
    split.
    - assert (forall ss seen, check_sources exists_ is_dir same_file o dest (exists_ dest && is_dir dest) seen ss = None ->
                         forall s, In s ss -> exists_ s = true /\ (is_dir s = true -> o_recursive o = true)) as G.
      { induction ss as [|x r IH]; intros seen Hc s Hin; [destruct Hin|]. cbn [check_sources] in Hc.
        destruct (check_source exists_ is_dir same_file o dest (exists_ dest && is_dir dest) x) eqn:E; [discriminate|].
        destruct Hin as [<-|Hin].
        2:{ destruct (target_base dest x (exists_ dest && is_dir dest) (o_no_target_dir o)); [|eapply IH; eauto].
            destruct (existsb _ seen); [discriminate|eapply IH; eauto]. }
        unfold check_source in E. destruct (exists_ x); [|discriminate]. split; [reflexivity|]. cbn [negb] in E.
        intros Hd. rewrite Hd in E. destruct (o_recursive o); [reflexivity|discriminate]. }
      now apply (G _ []).
    - intros Hlen. destruct (is_dir dest); [reflexivity|]. cbn [negb andb] in Em.
      destruct rest; [cbn in Hlen; lia|discriminate].
  Qed.

  (* a rejected invocation never reaches the driver: `front` yields no sources to copy *)
  Theorem front_conflict paths oracle :
    o_no_clobber o = true -> o_force o = true ->
    front exists_ is_dir same_file o paths oracle = (Some E_CONFLICT, [], []).
  Proof. intros H1 H2. unfold front. now rewrite H1, H2. Qed.
End V.

(* glob expansion: a malformed pattern, or a pattern selecting nothing at ANY
   position, rejects the whole invocation *)
Lemma expand_globs_rejects pats oracle :
  (In None oracle \/ In (Some []) oracle) ->
  exists e, expand_sources true pats oracle = inr e.
Proof.
  intros H. unfold expand_sources. induction oracle as [|[l|] r IH].
  - destruct H as [[]|[]].
  - destruct l as [|x l].
    + exists E_NOSOURCE. reflexivity.
    + assert (In None r \/ In (Some []) r) as H' by (destruct H as [[H|H]|[H|H]]; try discriminate; auto).
      destruct (IH H') as [e He]. exists e. rewrite He. reflexivity.
  - exists E_GLOB. reflexivity.
Qed.
