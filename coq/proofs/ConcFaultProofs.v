(* ConcFaultProofs.v — C07 (and the protocol half of C04) for the shutdown
   protocols with failures: no reachable state is stuck before the process has
   exited, every step strictly decreases a measure (so every execution is
   finite and bounded by the size of the workload), and exit status 0 is only
   reached when no step failed and all the work is done. *)
From XcpModel Require Import Base ConcBlock ConcFault.
From Coq Require Import Arith PeanoNat Lia.
Local Open Scope nat_scope.

Lemma xsum_app a b : xsum (a ++ b) = xsum a + xsum b.
Proof. unfold xsum. induction a as [|x a IH]; cbn [app fold_right]; [reflexivity|]. rewrite IH. lia. Qed.
Lemma ysum_app a b : ysum (a ++ b) = ysum a + ysum b.
Proof. unfold ysum. induction a as [|x a IH]; cbn [app fold_right]; [reflexivity|]. rewrite IH. lia. Qed.

(* break up a hypothesis of the form  match ... = Some s'  one match at a time *)
Ltac split_step H :=
  repeat match type of H with
         | context [match ?x with _ => _ end] =>
             let E := fresh "E" in destruct x eqn:E; try discriminate H
         end.

(* ------------------------------------------------------------------ *)
(* parblock                                                            *)
(* ------------------------------------------------------------------ *)
Theorem xstep_measure W Q s l s' : xstep W Q s l = Some s' -> xmeasure s' < xmeasure s.
Proof.
  destruct s as [todo w fq disp pq run drv errs failed main]. unfold xstep.
  cbn [x_todo x_w x_fq x_disp x_pq x_run x_drv x_errs x_failed x_main].
  destruct main; [|discriminate]. intros H.
  destruct l as [|upd| |upd| |fail| |]; split_step H; injection H as <-; unfold xmeasure;
    cbn [x_todo x_w x_fq x_disp x_pq x_run x_drv x_errs x_failed x_main length];
    rewrite ?xsum_app; unfold xsum; cbn [fold_right xop_cost length]; lia.
Qed.

Fixpoint xrun (W Q : nat) (s : xst) (ls : list xlabel) : option xst :=
  match ls with
  | [] => Some s
  | l :: r => match xstep W Q s l with Some s' => xrun W Q s' r | None => None end
  end.

Theorem xbounded W Q : forall ls s s', xrun W Q s ls = Some s' -> length ls + xmeasure s' <= xmeasure s.
Proof.
  induction ls as [|l r IH]; intros s s' H; cbn [xrun] in H.
  - injection H as <-. cbn. lia.
  - destruct (xstep W Q s l) as [s1|] eqn:E; [|discriminate].
    pose proof (xstep_measure W Q s l s1 E). specialize (IH s1 s' H). cbn [length]. lia.
Qed.

Record XInv (s : xst) : Prop := mkXInv {
  xi_w : x_w s <> WRun -> x_todo s = [];
  xi_join : (x_disp s = XJoin \/ x_disp s = XDone) -> x_fq s = [] /\ x_w s <> WRun;
  xi_done : x_disp s = XDone -> x_pq s = 0 /\ x_run s = 0;
  xi_failed : x_failed s = true -> x_w s = WErr \/ x_disp s = XFail \/ 0 < x_errs s;
  xi_rest : x_drv s = DrvRest -> x_w s = WOk;
  xi_ret : x_drv s = DrvRet true -> x_w s = WOk /\ x_disp s = XDone;
  xi_exit : x_main s = MExit true ->
            x_failed s = false /\ x_todo s = [] /\ x_fq s = [] /\ x_pq s = 0 /\ x_run s = 0 /\ x_disp s = XDone
}.

Lemma xinv_init ops : XInv (xinit ops).
Proof.
  constructor; unfold xinit; cbn [x_todo x_w x_fq x_disp x_pq x_run x_drv x_errs x_failed x_main];
    try discriminate; try (intros [?|?]; discriminate). intros H; now contradiction H.
Qed.

Lemma xinv_step W Q s l s' : XInv s -> xstep W Q s l = Some s' -> XInv s'.
Proof.
  intros [Iw Ijoin Idone Ifailed Irest Iret Iexit].
  destruct s as [todo w fq disp pq run drv errs failed main]. unfold xstep.
  cbn [x_todo x_w x_fq x_disp x_pq x_run x_drv x_errs x_failed x_main] in *.
  destruct main; [|discriminate]. intros H.
  destruct l as [|upd| |upd| |fail| |]; split_step H; injection H as <-;
    (constructor; cbn [x_todo x_w x_fq x_disp x_pq x_run x_drv x_errs x_failed x_main]);
    try discriminate; try (intros [?|?]; discriminate); try tauto; try (intros; reflexivity);
    try (intros ?; split; [reflexivity|discriminate]);
    try (intros [?|?]; try discriminate; split; [reflexivity|discriminate]).
  all: try (intros Hf; destruct (Ifailed Hf) as [?|[?|?]]; try discriminate; try tauto; try (right; right; lia)).
  all: try (intros _; right; right; destruct upd; cbn [b2n]; lia).
  all: try (intros; subst; try discriminate; tauto).
  all: try (intros Hd; destruct (Ijoin (or_intror Hd)); destruct (Idone Hd); tauto).
  all: try (intros Hf; apply Bool.orb_true_iff in Hf; destruct Hf as [Hf|Hf];
            [destruct (Ifailed Hf) as [?|[?|?]]; try tauto; right; right; lia
            |subst; right; right; cbn [b2n]; lia]).
  all: try (intros Hr; destruct (Iret Hr) as [_ Hd]; discriminate).
  all: try (intros Hd; destruct (Idone Hd); lia).
  all: try (intros Hr; try discriminate Hr; apply Irest; assumption).
  all: try (intros _; split; [apply Irest; reflexivity|reflexivity]).
  all: try (intros Hr; specialize (Irest Hr); discriminate).
  all: intros Hr; injection Hr as ->; subst;
    destruct (Iret eq_refl) as [Hw Hd]; subst;
    destruct (Ijoin (or_intror eq_refl)) as [-> _];
    repeat split; try reflexivity; try (apply Iw; discriminate);
    destruct failed; [destruct (Ifailed eq_refl) as [?|[?|?]]; try discriminate;
                      match goal with E : (0 <? _) = false |- _ => apply Nat.ltb_ge in E; lia end|reflexivity].
Qed.

Theorem xinv_reachable W Q ops s : xreachable W Q ops s -> XInv s.
Proof. induction 1; [apply xinv_init|eapply xinv_step; eauto]. Qed.

(* no deadlock: until main has exited, some thread can move — for every number
   and placement of failures *)
Theorem x_no_deadlock W Q s : 1 <= W -> 1 <= Q -> XInv s -> x_main s = MLoop ->
  exists l s', xstep W Q s l = Some s'.
Proof.
  intros HW HQ [Iw Ijoin Idone Ifailed Irest Iret Iexit] Hm.
  destruct s as [todo w fq disp pq run drv errs failed main].
  cbn [x_todo x_w x_fq x_disp x_pq x_run x_drv x_errs x_failed x_main] in *. subst main.
  unfold xstep. cbn [x_todo x_w x_fq x_disp x_pq x_run x_drv x_errs x_failed x_main].
  destruct w.
  - (* the walker is running: it can always move *)
    exists XWalk. destruct todo; [|destruct (disp_alive disp)]; eexists; reflexivity.
  - destruct run as [|r]; [|exists (XJobDone false); eexists; reflexivity].
    destruct pq as [|p].
    2:{ exists XTake. rewrite (proj2 (Nat.ltb_lt 0 W)) by lia. eexists; reflexivity. }
    destruct disp as [|n| | |].
    + exists XDisp. destruct fq as [|[js|] r]; eexists; reflexivity.
    + exists XDisp. destruct n; [eexists; reflexivity|]. rewrite (proj2 (Nat.ltb_lt 0 Q)) by lia. eexists; reflexivity.
    + exists XDisp. eexists; reflexivity.
    + destruct drv as [| |ok]; [exists XDrv; eexists; reflexivity|exists XDrv; eexists; reflexivity|].
      exists XMain. destruct (0 <? errs); eexists; reflexivity.
    + destruct drv as [| |ok]; [exists XDrv; eexists; reflexivity|exists XDrv; eexists; reflexivity|].
      exists XMain. destruct (0 <? errs); eexists; reflexivity.
  - destruct run as [|r]; [|exists (XJobDone false); eexists; reflexivity].
    destruct pq as [|p].
    2:{ exists XTake. rewrite (proj2 (Nat.ltb_lt 0 W)) by lia. eexists; reflexivity. }
    destruct disp as [|n| | |].
    + exists XDisp. destruct fq as [|[js|] r]; eexists; reflexivity.
    + exists XDisp. destruct n; [eexists; reflexivity|]. rewrite (proj2 (Nat.ltb_lt 0 Q)) by lia. eexists; reflexivity.
    + exists XDisp. eexists; reflexivity.
    + destruct drv as [| |ok]; [exists XDrv; eexists; reflexivity| |].
      * (* DrvRest is only reached when the walker ended well *)
        exists XDrv. eexists; reflexivity.
      * exists XMain. destruct (0 <? errs); eexists; reflexivity.
    + destruct drv as [| |ok]; [exists XDrv; eexists; reflexivity|exists XDrv; eexists; reflexivity|].
      exists XMain. destruct (0 <? errs); eexists; reflexivity.
Qed.

(* exit status 0 is sound and complete at the protocol level *)
Theorem x_exit_ok_sound W Q ops s : xreachable W Q ops s -> x_main s = MExit true ->
  x_failed s = false /\ x_todo s = [] /\ x_fq s = [] /\ x_pq s = 0 /\ x_run s = 0 /\ x_disp s = XDone.
Proof. intros Hr. apply (xi_exit s (xinv_reachable W Q ops s Hr)). Qed.

(* ------------------------------------------------------------------ *)
(* parfile                                                             *)
(* ------------------------------------------------------------------ *)
Lemma ysum_busy_drop (l : list nat) : forall k n, nth_error l k = Some n ->
  fold_right (fun n a => S n + a) 0 l = S n + fold_right (fun n a => S n + a) 0 (ydrop k l).
Proof.
  unfold ydrop. induction l as [|x l IH]; intros [|k] n H; cbn [nth_error] in H; try discriminate.
  - injection H as ->. reflexivity.
  - cbn [firstn skipn app fold_right]. rewrite (IH k n H). cbn [skipn]. lia.
Qed.
Lemma ysum_busy_set (l : list nat) : forall k n v, nth_error l k = Some n ->
  fold_right (fun n a => S n + a) 0 (yset k v l) + S n = fold_right (fun n a => S n + a) 0 l + S v.
Proof.
  unfold yset. induction l as [|x l IH]; intros [|k] n v H; cbn [nth_error] in H; try discriminate.
  - injection H as ->. cbn [firstn skipn app fold_right]. lia.
  - cbn [firstn skipn app fold_right]. specialize (IH k n v H). cbn [skipn] in IH. lia.
Qed.
Lemma ydrop_length (l : list nat) : forall k n, nth_error l k = Some n -> S (length (ydrop k l)) = length l.
Proof.
  unfold ydrop. induction l as [|x l IH]; intros [|k] n H; cbn [nth_error] in H; try discriminate.
  - reflexivity.
  - cbn [firstn skipn app length]. specialize (IH k n H). cbn [skipn] in IH. lia.
Qed.
Lemma yset_length (l : list nat) : forall k n v, nth_error l k = Some n -> length (yset k v l) = length l.
Proof.
  unfold yset. induction l as [|x l IH]; intros [|k] n v H; cbn [nth_error] in H; try discriminate.
  - reflexivity.
  - cbn [firstn skipn app length]. specialize (IH k n v H). cbn [skipn] in IH. lia.
Qed.

Theorem ystep_measure s l s' : length (y_busy s) <= y_live s -> ystep s l = Some s' -> ymeasure s' < ymeasure s.
Proof.
  destruct s as [todo w fq live busy werr drv errs failed main]. unfold ystep.
  cbn [y_todo y_w y_fq y_live y_busy y_werr y_drv y_errs y_failed y_main].
  destruct main; [|discriminate]. intros Hb H.
  destruct l as [|upd| |upd|k fail| | |].
  1-4,6-8: split_step H; injection H as <-; unfold ymeasure;
    cbn [y_todo y_w y_fq y_live y_busy y_werr y_drv y_errs y_failed y_main length];
    rewrite ?ysum_app; unfold ysum; cbn [fold_right yop_cost length];
    repeat match goal with E : (_ <? _) = true |- _ => apply Nat.ltb_lt in E end; lia.
  destruct (nth_error busy k) as [n|] eqn:En; [|discriminate].
  pose proof (ysum_busy_drop busy k n En) as Hd. pose proof (ydrop_length busy k n En) as Hl.
  destruct fail.
  - injection H as <-. unfold ymeasure. cbn [y_todo y_w y_fq y_live y_busy y_werr y_drv y_errs y_failed y_main]. lia.
  - destruct n as [|[|m]]; injection H as <-; unfold ymeasure;
      cbn [y_todo y_w y_fq y_live y_busy y_werr y_drv y_errs y_failed y_main]; try lia.
    pose proof (ysum_busy_set busy k (S (S m)) (S m) En). lia.
Qed.

Record YInv (W : nat) (s : yst) : Prop := mkYInv {
  yi_w : y_w s <> WRun -> y_todo s = [];
  yi_busy : length (y_busy s) <= y_live s;
  yi_live : y_live s <= W;
  yi_gone : y_werr s = false -> y_live s = W \/ (y_fq s = [] /\ y_w s <> WRun);
  yi_failed : y_failed s = true -> y_w s = WErr \/ y_werr s = true \/ 0 < y_errs s;
  yi_rest : y_drv s = DrvRest -> y_w s = WOk;
  yi_ret : y_drv s = DrvRet true -> y_w s = WOk /\ y_werr s = false /\ y_live s = 0;
  yi_exit : y_main s = MExit true -> y_failed s = false /\ y_todo s = [] /\ y_busy s = [] /\ (1 <= W -> y_fq s = [])
}.

Lemma yinv_init W ops : YInv W (yinit W ops).
Proof.
  constructor; unfold yinit; cbn [y_todo y_w y_fq y_live y_busy y_werr y_drv y_errs y_failed y_main length];
    try discriminate; try lia; try tauto.
Qed.

Lemma yinv_step W s l s' : YInv W s -> ystep s l = Some s' -> YInv W s'.
Proof.
  intros [Iw Ibusy Ilive Igone Ifailed Irest Iret Iexit].
  destruct s as [todo w fq live busy werr drv errs failed main]. unfold ystep.
  cbn [y_todo y_w y_fq y_live y_busy y_werr y_drv y_errs y_failed y_main] in *.
  destruct main; [|discriminate]. intros H.
  destruct l as [|upd| |upd|k fail| | |].
  5:{ (* work *)
    destruct (nth_error busy k) as [n|] eqn:En; [|discriminate].
    pose proof (ydrop_length busy k n En) as Hl.
    destruct fail.
    - injection H as <-. constructor;
        cbn [y_todo y_w y_fq y_live y_busy y_werr y_drv y_errs y_failed y_main]; try assumption; try discriminate; try lia; try tauto.
      intros Hr. destruct (Iret Hr) as (_ & _ & ?). lia.
    - destruct n as [|[|m]]; injection H as <-; constructor;
        cbn [y_todo y_w y_fq y_live y_busy y_werr y_drv y_errs y_failed y_main]; try assumption; try discriminate; try lia.
      rewrite (yset_length busy k _ _ En). exact Ibusy. }
  all: split_step H; injection H as <-;
    repeat match goal with E : (_ <? _) = true |- _ => apply Nat.ltb_lt in E end;
    repeat match goal with E : (_ <? _) = false |- _ => apply Nat.ltb_ge in E end;
    constructor; cbn [y_todo y_w y_fq y_live y_busy y_werr y_drv y_errs y_failed y_main length] in *;
    try assumption; try discriminate; try lia; try tauto; try (intros; reflexivity).
  all: try (intros Hr; destruct (Iret Hr) as (Hw & _ & Hl0); try discriminate Hw; lia).
  all: try (intros Hr; specialize (Irest Hr); discriminate).
  all: try (intros Hw; destruct (Igone Hw) as [?|[Hq Hc]]; [now left|
              first [discriminate Hq | now contradiction Hc | (right; split; [exact Hq|discriminate])]]).
  all: try (intros _; right; split; [reflexivity|discriminate]).
  all: try (intros Hf; destruct (Ifailed Hf) as [?|[?|?]]; [discriminate|tauto|tauto]).
  all: try (intros Hr; injection Hr as Hr; apply Bool.negb_true_iff in Hr; repeat split; try assumption;
            apply Irest; reflexivity).
  all: intros Hr; injection Hr as ->; subst; destruct (Iret eq_refl) as (Hw & Hwe & _); subst;
    repeat split; try (apply Iw; discriminate);
    try (destruct busy; [reflexivity|cbn [length] in Ibusy; lia]);
    try (destruct failed; [destruct (Ifailed eq_refl) as [?|[?|?]]; try discriminate; lia|reflexivity]);
    intros HW; destruct (Igone eq_refl) as [?|[? _]]; [lia|assumption].
Qed.

Theorem yinv_reachable W ops s : yreachable W ops s -> YInv W s.
Proof. induction 1; [apply yinv_init|eapply yinv_step; eauto]. Qed.

Fixpoint yrun (s : yst) (ls : list ylabel) : option yst :=
  match ls with
  | [] => Some s
  | l :: r => match ystep s l with Some s' => yrun s' r | None => None end
  end.

Theorem ybounded W : forall ls s s', YInv W s -> yrun s ls = Some s' -> length ls + ymeasure s' <= ymeasure s.
Proof.
  induction ls as [|l r IH]; intros s s' HI H; cbn [yrun] in H.
  - injection H as <-. cbn. lia.
  - destruct (ystep s l) as [s1|] eqn:E; [|discriminate].
    pose proof (ystep_measure s l s1 (yi_busy W s HI) E).
    specialize (IH s1 s' (yinv_step W s l s1 HI E) H). cbn [length]. lia.
Qed.

Theorem y_no_deadlock W s : YInv W s -> y_main s = MLoop -> exists l s', ystep s l = Some s'.
Proof.
  intros [Iw Ibusy Ilive Igone Ifailed Irest Iret Iexit] Hm.
  destruct s as [todo w fq live busy werr drv errs failed main].
  cbn [y_todo y_w y_fq y_live y_busy y_werr y_drv y_errs y_failed y_main] in *. subst main.
  unfold ystep. cbn [y_todo y_w y_fq y_live y_busy y_werr y_drv y_errs y_failed y_main].
  destruct w.
  - exists YWalk. destruct todo; [|destruct (0 <? live)]; eexists; reflexivity.
  - destruct busy as [|n busy].
    + destruct live as [|lv].
      * destruct drv as [| |ok]; [exists YDrv; eexists; reflexivity|exists YDrv; eexists; reflexivity|].
        exists YMain. destruct (0 <? errs); eexists; reflexivity.
      * destruct fq as [|o r].
        -- exists YExit. cbn [length]. eexists; reflexivity.
        -- exists YTake. cbn [length]. destruct o; eexists; reflexivity.
    + exists (YWork 0 false). cbn [nth_error]. destruct n as [|[|m]]; eexists; reflexivity.
  - destruct busy as [|n busy].
    + destruct live as [|lv].
      * destruct drv as [| |ok]; [exists YDrv; eexists; reflexivity|exists YDrv; eexists; reflexivity|].
        exists YMain. destruct (0 <? errs); eexists; reflexivity.
      * destruct fq as [|o r].
        -- exists YExit. cbn [length]. eexists; reflexivity.
        -- exists YTake. cbn [length]. destruct o; eexists; reflexivity.
    + exists (YWork 0 false). cbn [nth_error]. destruct n as [|[|m]]; eexists; reflexivity.
Qed.

Theorem y_exit_ok_sound W ops s : yreachable W ops s -> y_main s = MExit true ->
  y_failed s = false /\ y_todo s = [] /\ y_busy s = [] /\ (1 <= W -> y_fq s = []).
Proof. intros Hr. apply (yi_exit W s (yinv_reachable W ops s Hr)). Qed.
