(* XDrivers.v — part of the translator tie: how each driver's copy() turns the results of its threads into its own.
   Translated from the tail of Driver::copy (the joins).  A thread result is `option N` (None = Ok, Some e = Err or a
   panic).  The theorems: copy() returns Ok EXACTLY when the walker and every worker (parfile) / the walker and the
   dispatcher (parblock) returned Ok — no thread's error is ever dropped, whichever thread it is and in whatever order
   they finished.  This is the "driver thread" step of ConcFault's exit-status theorems, and the only report there is
   for a failed special file in parfile (that path sends no update). *)
From XcpModel Require Import Base Extracted.
From Coq Require Import Lia.

Lemma first_error_sticky : forall (js : list (option N)) e,
  fold_left (fun acc h => match acc with Some e => Some e | None => h end) js (Some e) = Some e.
Proof. induction js as [|j js IH]; intros e; cbn [fold_left]; [reflexivity|apply IH]. Qed.

Lemma first_error_none_iff : forall js : list (option N),
  fold_left (fun acc h => match acc with Some e => Some e | None => h end) js None = None <-> Forall (fun r => r = None) js.
Proof.
  induction js as [|j js IH]; cbn [fold_left].
  - split; [constructor|reflexivity].
  - destruct j as [e|].
    + rewrite first_error_sticky. split; [discriminate|]. intros H. inversion H as [|? ? H1 _]. discriminate.
    + rewrite IH. split; [intros H; constructor; [reflexivity|exact H]|intros H; now inversion H].
Qed.

Theorem x_parfile_copy_ok_iff : forall walk workers,
  x_parfile_copy_result walk workers = None <-> walk = None /\ Forall (fun r => r = None) workers.
Proof.
  intros [e|] workers; unfold x_parfile_copy_result.
  - split; [discriminate|intros [H _]; discriminate].
  - destruct (fold_left _ workers None) as [e|] eqn:E.
    + split; [discriminate|]. intros [_ H]. apply first_error_none_iff in H. congruence.
    + split; [|reflexivity]. intros _. split; [reflexivity|]. now apply first_error_none_iff.
Qed.

(* in particular: whichever worker failed — first, last or in between — the call fails *)
Corollary x_parfile_copy_any_worker_error : forall walk ws1 e ws2,
  x_parfile_copy_result walk (ws1 ++ Some e :: ws2) <> None.
Proof.
  intros walk ws1 e ws2 H. apply x_parfile_copy_ok_iff in H. destruct H as [_ H].
  rewrite Forall_app in H. destruct H as [_ H]. inversion H as [|? ? H1 _]. discriminate.
Qed.

Theorem x_parblock_copy_ok_iff : forall walk disp,
  x_parblock_copy_result walk disp = None <-> walk = None /\ disp = None.
Proof. intros [e|] [d|]; unfold x_parblock_copy_result; split; try discriminate; try (intros [H1 H2]; discriminate); auto. Qed.

(* ------------------------------------------------------------------ *)
(* what a failed operation does in the worker loops                     *)
(* ------------------------------------------------------------------ *)
(* per operation kind (0 Copy, 1 Link, 2 Special): 1 = an Error update is sent, 2 = the worker returns the error.
   Copy and Link do both; a special file only returns its error (its sole report is the worker's result). *)
Theorem x_error_routes_ok :
  x_parfile_error_routes = [(0, [1; 2]); (1, [1; 2]); (2, [2])] /\
  x_parblock_error_routes = [(0, [1; 2]); (1, [1; 2]); (2, [2])].
Proof. split; reflexivity. Qed.

(* every kind of operation, in both worker loops, returns its failure from the worker (route 2), and nothing else
   happens on a failure path (no 99: no skip, no retry, no swallowed error) *)
Theorem x_every_failure_is_returned :
  forall routes, In routes [x_parfile_error_routes; x_parblock_error_routes] ->
  map fst routes = [0; 1; 2] /\ forall k r, In (k, r) routes -> In 2 r /\ ~ In 99 r.
Proof.
  intros routes [<-|[<-|[]]]; (split; [reflexivity|]);
    intros k r Hin; cbn in Hin; repeat (destruct Hin as [Hin|Hin]; [injection Hin as <- <-; split; [cbn; tauto|cbn; intros H; repeat (destruct H as [H|H]; try discriminate H); exact H]|]); destruct Hin.
Qed.

(* ------------------------------------------------------------------ *)
(* main(): the exit status from the update stream and the driver result *)
(* ------------------------------------------------------------------ *)
Definition has_error (stats : list x_update) : bool :=
  existsb (fun u => match u with XuError _ => true | _ => false end) stats.

Theorem x_main_collect_ok_iff : forall stats handle,
  x_main_collect stats handle = None <-> has_error stats = false /\ handle = None.
Proof.
  induction stats as [|u stats IH]; intros handle; cbn [x_main_collect has_error existsb].
  - destruct handle; split; try discriminate; try (intros [_ H]; discriminate); auto.
  - destruct u as [v|v|e]; cbn [orb]; try apply IH.
    split; [discriminate|intros [H _]; discriminate].
Qed.

(* end to end, parfile: if ANY worker returned an error the process exit status is non-zero, whatever the updates *)
Corollary x_parfile_worker_error_reaches_exit : forall stats walk ws1 e ws2,
  x_main_collect stats (x_parfile_copy_result walk (ws1 ++ Some e :: ws2)) <> None.
Proof.
  intros stats walk ws1 e ws2 H. apply x_main_collect_ok_iff in H. destruct H as [_ H].
  now apply x_parfile_copy_any_worker_error in H.
Qed.

(* end to end, both drivers: an Error update anywhere in the stream makes the exit status non-zero, whatever the driver
   thread returns (this is the only report of a failed BLOCK JOB of parblock, whose pool threads return nothing) *)
Corollary x_error_update_reaches_exit : forall s1 e s2 handle,
  x_main_collect (s1 ++ XuError e :: s2) handle <> None.
Proof.
  intros s1 e s2 handle H. apply x_main_collect_ok_iff in H. destruct H as [H _].
  unfold has_error in H. rewrite existsb_app in H. cbn in H. now rewrite Bool.orb_true_r in H.
Qed.

(* ------------------------------------------------------------------ *)
(* parblock's block job: what each answer of the kernel copy does       *)
(* ------------------------------------------------------------------ *)
From Coq Require Import String.
(* a failing call (`Err(e)`) and a premature end of the source (`Ok(0)` before the end of the file) each send an Error
   update — the job's pool thread returns nothing, so that update is its only report; with x_error_update_reaches_exit
   it makes the exit status non-zero.  A zero-byte answer at or after the end of the source ends the job normally;
   progress goes on. *)
Theorem x_block_job_arms_ok :
  x_block_job_arms = [("Ok(0)ifoff+done>=harc.metadata.len()", 0); ("Ok(0)", 1); ("Ok(copied)", 2); ("Err(e)", 1)]%string.
Proof. reflexivity. Qed.

(* every place that can PANIC in code run inside a job of the parblock pool (the job closure, the kernel-copy wrappers, the
   user-space fall-back and its positional read/write, ChannelUpdater::send, the finalisation run by the drop of the last
   handle): a panic there is reported by nobody (the pool replaces the thread, join() returns, the dispatcher sees Ok), so
   the inventory is closed — exactly these three:
   * the job's own panic!, which stands under `if let Err(e) = stat_result`: by x_block_job_arms_ok stat_result is an Err
     only when SENDING a status update failed, i.e. when the client has dropped the receiver (xcp's main never does before
     the driver returned);
   * `buf[..next]` and `buf[..rlen]` of copy_range_uspace: in range by XLoops.x_range_buffer_holds_every_read and
     XLoops.x_range_buffer_holds_every_write (the latter under read(2)'s contract).
   A new unwrap / expect / index / panic in any of those functions re-opens this obligation. *)
Theorem x_pool_job_panic_sites_ok :
  x_pool_job_panic_sites = [("parblock::queue_file_range(job)", "panic! under letErr(e)=stat_result");
                            ("common::copy_range_uspace", "buf[..next]"); ("common::copy_range_uspace", "buf[..rlen]")]%string.
Proof. reflexivity. Qed.

(* ------------------------------------------------------------------ *)
(* bridge to the protocol model (ConcFault.v)                           *)
(* ------------------------------------------------------------------ *)
(* ConcFault's XMain step exits with `false` as soon as an Error update is in the channel and otherwise, once everything
   has drained, with the driver thread's result; its XDrv step returns `false` iff the walker or a worker / the
   dispatcher ended in error.  These are exactly the translated functions: *)
Theorem model_main_step_is_translated_main : forall (errs : nat) (r : bool) stats handle,
  has_error stats = Nat.ltb 0 errs -> (handle = None <-> r = true) ->
  (x_main_collect stats handle = None <-> (if Nat.ltb 0 errs then false else r) = true).
Proof.
  intros errs r stats handle He Hh. rewrite x_main_collect_ok_iff, He.
  destruct (Nat.ltb 0 errs); [split; [intros [H _]; discriminate|discriminate]|].
  split; [intros [_ H]; now apply Hh|intros H; split; [reflexivity|now apply Hh]].
Qed.

Theorem model_driver_step_is_translated_copy : forall (walk_ok : bool) (workers_ok : list bool) walk workers,
  (walk = None <-> walk_ok = true) -> Forall2 (fun r b => r = None <-> b = true) workers workers_ok ->
  (x_parfile_copy_result walk workers = None <-> walk_ok && forallb (fun b => b) workers_ok = true).
Proof.
  intros walk_ok workers_ok walk workers Hw Hf. rewrite x_parfile_copy_ok_iff, Bool.andb_true_iff, forallb_forall.
  split; intros [H1 H2]; split; try (now apply Hw).
  - intros b Hb. induction Hf as [|r b' rs bs Hrb Hf IH]; [destruct Hb|].
    inversion H2 as [|? ? Hr Hrs]; subst. destruct Hb as [<-|Hb]; [now apply Hrb|now apply IH].
  - induction Hf as [|r b' rs bs Hrb Hf IH]; constructor.
    + apply Hrb. apply H2. now left.
    + apply IH. intros b Hb. apply H2. now right.
Qed.
