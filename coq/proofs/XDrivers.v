(* XDrivers.v — part of the translator tie: how each driver's copy() turns the results of its threads into its own.
   Translated from the tail of Driver::copy (the joins).  A thread result is `option N` (None = Ok, Some e = Err or a
   panic).  The theorems: copy() returns Ok EXACTLY when the walker and every worker (parfile) / the walker and the
   dispatcher (parblock) returned Ok — no thread's error is ever dropped, whichever thread it is and in whatever order
   they finished.  This is the "driver thread" step of ConcFault's exit-status theorems, and the only report there is
   for a failed special file in parfile (that path sends no update). *)
From XcpModel Require Import Base Extracted.
From Coq Require Import Lia.

Lemma first_error_sticky : forall (js : list (option N)) e,
  fold_left (fun acc h => match acc with Some e => Some e | None => h end) js (Some e) = Some e.
Proof. induction js as [|j js IH]; intros e; cbn [fold_left]; [reflexivity|apply IH]. Qed.

Lemma first_error_none_iff : forall js : list (option N),
  fold_left (fun acc h => match acc with Some e => Some e | None => h end) js None = None <-> Forall (fun r => r = None) js.
Proof.
  induction js as [|j js IH]; cbn [fold_left].
  - split; [constructor|reflexivity].
  - destruct j as [e|].
    + rewrite first_error_sticky. split; [discriminate|]. intros H. inversion H as [|? ? H1 _]. discriminate.
    + rewrite IH. split; [intros H; constructor; [reflexivity|exact H]|intros H; now inversion H].
Qed.

Theorem x_parfile_copy_ok_iff : forall walk workers,
  x_parfile_copy_result walk workers = None <-> walk = None /\ Forall (fun r => r = None) workers.
Proof.
  intros [e|] workers; unfold x_parfile_copy_result.
  - split; [discriminate|intros [H _]; discriminate].
  - destruct (fold_left _ workers None) as [e|] eqn:E.
    + split; [discriminate|]. intros [_ H]. apply first_error_none_iff in H. congruence.
    + split; [|reflexivity]. intros _. split; [reflexivity|]. now apply first_error_none_iff.
Qed.

(* in particular: whichever worker failed — first, last or in between — the call fails *)
Corollary x_parfile_copy_any_worker_error : forall walk ws1 e ws2,
  x_parfile_copy_result walk (ws1 ++ Some e :: ws2) <> None.
Proof.
  intros walk ws1 e ws2 H. apply x_parfile_copy_ok_iff in H. destruct H as [_ H].
  rewrite Forall_app in H. destruct H as [_ H]. inversion H as [|? ? H1 _]. discriminate.
Qed.

Theorem x_parblock_copy_ok_iff : forall walk disp,
  x_parblock_copy_result walk disp = None <-> walk = None /\ disp = None.
Proof. intros [e|] [d|]; unfold x_parblock_copy_result; split; try discriminate; try (intros [H1 H2]; discriminate); auto. Qed.
