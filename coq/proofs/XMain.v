(* XMain.v — part of the translator tie (see ExtractedOk.v): main()'s validation block.
   One file per group of translated definitions, so that a property depends only on the pieces it cites. *)
From XcpModel Require Import Base Extents Blocks Sparse CopyLoop FileCopy Updater Meta Backup Extracted.
From Coq Require Import String.
From Coq Require Import Lia.
From XcpModel Require Import Walker Ops.
From XcpModel Require Import Uspace.
From XcpModel Require Import Paths.
From XcpModel Require Import Main.
(* ------------------------------------------------------------------ *)
(* src/main.rs: the translated validation block is Main.validate        *)
(* ------------------------------------------------------------------ *)

Section XV.
  Variable exists_ is_dir : path -> bool.
  Variable same_file : path -> path -> bool.
  Variable o : opts.

  Lemma x_check_sources_ok dest : forall ss seenM seenX,
    (forall p, existsb (path_eqb p) seenM = existsb (path_eqb p) seenX) ->
    x_check_sources exists_ is_dir same_file o dest seenX ss =
    check_sources exists_ is_dir same_file o dest (exists_ dest && is_dir dest) seenM ss.
  Proof.
    induction ss as [|s r IH]; intros seenM seenX Hseen; [reflexivity|].
    cbn [x_check_sources check_sources]. unfold check_source, target_base.
    destruct (exists_ s); cbn [negb]; [|reflexivity].
    destruct (is_dir s && negb (o_recursive o)); [reflexivity|].
    destruct (path_eqb s dest); [reflexivity|].
    destruct (last_comp s) as [c|]; [|reflexivity].
    (* a source ending in `..` maps onto the destination itself; every other last component is joined to it *)
    assert (forall tb,
      (if path_eqb s tb || exists_ tb && same_file s tb then Some E_SAME
       else if is_dir s && exists_ tb && negb (is_dir tb) then Some E_DIR_TO_FILE
       else if existsb (path_eqb tb) seenX then Some E_DUP_TARGET
       else x_check_sources exists_ is_dir same_file o dest (seenX ++ [tb]) r) =
      match (if path_eqb s tb || exists_ tb && same_file s tb then Some E_SAME
             else if is_dir s && exists_ tb && negb (is_dir tb) then Some E_DIR_TO_FILE else None) with
      | Some e => Some e
      | None => if existsb (path_eqb tb) seenM then Some E_DUP_TARGET
                else check_sources exists_ is_dir same_file o dest (exists_ dest && is_dir dest) (tb :: seenM) r
      end) as Htail.
    { intros tb.
      destruct (path_eqb s tb || exists_ tb && same_file s tb); [reflexivity|].
      destruct (is_dir s && exists_ tb && negb (is_dir tb)); [reflexivity|].
      rewrite (Hseen tb). destruct (existsb (path_eqb tb) seenX); [reflexivity|].
      apply IH. intros p. rewrite existsb_app. cbn [existsb]. rewrite Hseen, orb_false_r. apply orb_comm. }
    destruct c as [| | |n]; cbn [comp_eqb negb]; rewrite ?andb_true_r, ?andb_false_r;
      try (match goal with |- context [join dest ?cl] => set (jn := join dest cl) end;
           destruct (exists_ dest && is_dir dest && negb (o_no_target_dir o)); apply Htail).
    apply Htail.
  Qed.

  Theorem x_validate_ok : forall sources dest,
    x_validate exists_ is_dir same_file o sources dest = validate exists_ is_dir same_file o sources dest.
  Proof.
    intros sources dest. unfold x_validate, validate.
    destruct sources as [|s0 rest]; [reflexivity|].
    rewrite <- (x_check_sources_ok dest (s0 :: rest) [] []) by reflexivity.
    destruct (is_dir dest); cbn [negb andb]; [reflexivity|].
    destruct rest as [|s1 rest']; cbn [List.length hd Nat.eqb Nat.ltb Nat.leb andb].
    - destruct (is_dir s0 && exists_ dest); reflexivity.
    - reflexivity.
  Qed.
End XV.

