(* XMeta.v — part of the translator tie (see ExtractedOk.v): finalise_copy order, copy_node, Operation::Special.
   One file per group of translated definitions, so that a property depends only on the pieces it cites. *)
From XcpModel Require Import Base Extents Blocks Sparse CopyLoop FileCopy Updater Meta Backup Extracted.
From Coq Require Import String.
From Coq Require Import Lia.
(* copy_node takes the device number from st_rdev *)
Theorem x_copy_node_uses_rdev_ok : x_copy_node_uses_rdev = 1.
Proof. reflexivity. Qed.

(* ---- finalise_copy: the steps, their guards and their order ---- *)
Definition step_enabled (c : fin_cfg) (s : N * bool) : bool :=
  let flag := if fst s =? 6 then c_ownership c else if fst s =? 8 then c_no_perms c
              else if fst s =? 9 then c_no_timestamps c else c_fsync c in
  xorb (snd s) flag.
Definition actions_of_step (k : N) (src : meta) : list fin_action :=
  if k =? 6 then [FChown (m_uid src) (m_gid src)]
  else if k =? 8 then map (fun kv => FSetxattr (fst kv) (snd kv)) (m_xattr src) ++ [FChmod (m_mode src)]
  else if k =? 9 then [FUtimens (m_atime src) (m_mtime src)]
  else [FFsync].

(* the model's finalise_actions is: run the extracted steps, in the extracted
   order, each under its extracted guard *)
Theorem x_finalise_order_ok : forall c src,
  finalise_actions c src =
  flat_map (fun s => if step_enabled c s then actions_of_step (fst s) src else []) x_finalise_order.
Proof.
  intros [np nt ow fs] src. unfold finalise_actions, x_finalise_order, step_enabled, actions_of_step.
  cbn [flat_map fst snd c_no_perms c_no_timestamps c_ownership c_fsync].
  repeat match goal with |- context [N.eqb ?a ?b] =>
           let v := eval vm_compute in (N.eqb a b) in change (N.eqb a b) with v end.
  destruct ow, np, nt, fs; cbn [xorb app]; rewrite ?app_nil_r, <- ?app_assoc; reflexivity.
Qed.

(* ---- Operation::Special in both drivers ---- *)
Definition special_code (r : option (list sp_action)) : N :=
  match r with None => 0 | Some [SpMknod _] => 1 | Some [SpUnlink; SpMknod _] => 2 | Some _ => 3 end.

Theorem x_special_ok : forall nc ex same umask src,
  special_code (special_worker nc ex same umask src) = x_parfile_special nc ex same /\
  special_code (special_worker nc ex same umask src) = x_parblock_special nc ex same.
Proof. intros [|] [|] [|] umask src; split; reflexivity. Qed.

