From XcpModel Require Import DestMatrix.
From Coq Require Import NArith List Bool.
Import ListNotations.

(* C08: with no-clobber, whatever exists at the path (lstat) is left alone and the run fails — every source kind, every
   kind of existing entry, a dangling link included *)
Theorem noclobber_refuses_everything_existing : forall s d, d <> DAbsent -> dest_outcome s d ONoClobber = Refused.
Proof. intros s [] H; try reflexivity. contradiction. Qed.

(* C02: an absent path always receives an entry of the source's kind *)
Theorem absent_is_created : forall s o, dest_outcome s DAbsent o = Created.
Proof. intros [] []; reflexivity. Qed.

(* C07: the only cell that can wait is a regular file opened onto a FIFO without options (as cp) *)
Theorem blocks_only_file_onto_fifo : forall s d o, dest_outcome s d o = Blocks -> s = SFile /\ d = DSpecial /\ o = ONone.
Proof. intros [] [] []; cbn; intros H; try discriminate H; auto. Qed.

(* C02 / C03: nothing is ever created or written THROUGH a dangling link *)
Theorem dangling_is_never_written_through : forall s o, dest_outcome s DDangling o = Refused.
Proof. intros [] []; reflexivity. Qed.

(* C02 (frame): a directory found at the path is never replaced, removed or renamed away — it is merged into (by a
   directory source) or the run is refused; so the entries below it that no source maps onto stay where they are *)
Theorem directory_is_merged_or_kept : forall s d o, is_real_dir d = true ->
  dest_outcome s d o = Merged \/ dest_outcome s d o = Refused.
Proof. intros [] [] [] H; try discriminate H; cbn; auto. Qed.

(* C09: with numbered backups a regular file never destroys the entry it replaces: it is renamed to a backup name,
   whatever it is (file, link, node) — or the run is refused *)
Theorem backup_preserves_what_a_file_replaces : forall d, d <> DAbsent ->
  dest_outcome SFile d OBackup = CreatedBackedUp \/ dest_outcome SFile d OBackup = Refused.
Proof. intros [] H; cbn; auto. contradiction. Qed.

(* C14: a special file replaces a file, a link or a node (never through the link), and is refused by a directory *)
Theorem special_replaces_or_is_refused : forall d o, dest_outcome SSpecial d o = Created \/ dest_outcome SSpecial d o = Refused.
Proof. intros [] []; cbn; auto. Qed.

(* the table is total and its codes are those the harness compares *)
Theorem outcome_cells : length (flat_map (fun s => flat_map (fun d => map (dest_outcome s d) all_dopt) all_dstate) all_skind) = 96%nat.
Proof. reflexivity. Qed.

(* ------------------------------------------------------------------ *)
(* the table agrees with the component models it was derived from      *)
(* ------------------------------------------------------------------ *)
From XcpModel Require Import Base Meta Ops.

(* regular files: whenever the model of CopyHandle::new (Ops.copy_actions_dd, fed with what the cell says about the
   destination entry) refuses, the cell is Refused *)
Theorem file_row_refusals_agree : forall d o fc src dst e,
  o <> ONoClobber -> ce_dst_exists e = exists_follow d -> ce_same_file e = false ->
  snd (copy_actions_dd (lexists d && negb (exists_follow d)) (is_real_dir d) fc src dst e) = false ->
  dest_outcome SFile d o = Refused.
Proof.
  intros d o fc src dst e Ho He Hs. unfold copy_actions_dd, copy_actions_d, copy_actions. rewrite He, Hs.
  destruct d, o; try contradiction; cbn; try reflexivity; try discriminate.
Qed.

(* ... and when that model renames the old entry away (a backup number was chosen) the cell is CreatedBackedUp *)
Theorem file_row_backup_agrees : forall d, exists_follow d = true -> is_real_dir d = false ->
  dest_outcome SFile d OBackup = CreatedBackedUp.
Proof. intros [] He Hd; try discriminate He; try discriminate Hd; reflexivity. Qed.

(* special files: the cell is what Meta.special_worker does with Path::exists() of the entry, except that a directory
   cannot be unlinked and that an entry exists() does not see (a dangling link) makes mknod fail *)
Theorem special_row_agrees : forall d o umask src,
  o <> ONoClobber -> is_real_dir d = false -> (lexists d = exists_follow d) ->
  (dest_outcome SSpecial d o = Refused <-> special_worker false (exists_follow d) false umask src = None).
Proof.
  intros d o umask src Ho Hd Hl. unfold special_worker.
  destruct d, o; try contradiction; try discriminate Hd; try discriminate Hl; cbn; split; intros H; try discriminate H; try reflexivity.
Qed.

(* ---- the destination's parent directory is missing ---- *)
Theorem parent_missing_refused_unless_directory : forall s, s <> SDir -> parent_missing_outcome s = Refused.
Proof. intros [] H; try reflexivity. contradiction. Qed.

(* the calls that would have to create the entry there are steps whose failure fails the run (Ops.fault_effect_of): the cell
   is `Refused` for exactly the source kinds whose creating call cannot make the missing ancestors *)
Theorem parent_missing_is_a_failed_step : forall k,
  fault_effect_of (ACreateTrunc k) = FxError /\ fault_effect_of (ASymlink k []) = FxError /\ fault_effect_of (AMknod k) = FxError.
Proof. intros k. repeat split; reflexivity. Qed.
