(* Lemmas about Extents.merge_extents. *)
From XcpModel Require Import Base Extents.

Lemma covered_cons e l i : covered (e :: l) i <-> ext_covers e i \/ covered l i.
Proof.
  unfold covered; split.
  - intros [x [[Hx|Hx] Hc]]; [subst; now left | right; now exists x].
  - intros [Hc|[x [Hx Hc]]]; [exists e; split; [now left|assumption]
                             | exists x; split; [now right|assumption]].
Qed.

Lemma covered_nil i : ~ covered [] i.
Proof. intros [x [[] _]]. Qed.

(* ---------- coverage is never lost ---------- *)
Lemma merge_go_covers l : forall p i,
  ext_wf p -> Forall ext_wf l ->
  ext_covers p i \/ covered l i -> covered (merge_go p l) i.
Proof.
  induction l as [|e r IH]; intros p i Hp Hl H; cbn [merge_go].
  - destruct H as [H|H]; [|now apply covered_nil in H].
    exists p; split; [now left|assumption].
  - inversion Hl as [|? ? He Hr]; subst.
    destruct (N.eqb_spec (e_start e) (e_end p + 1)) as [Heq|Hne].
    + apply IH; [unfold ext_wf in *; cbn; lia | assumption |].
      destruct H as [H|H].
      * left. unfold ext_covers, ext_wf in *; cbn; lia.
      * apply covered_cons in H. destruct H as [H|H]; [left|now right].
        unfold ext_covers, ext_wf in *; cbn; lia.
    + apply covered_cons. destruct H as [H|H]; [now left|right].
      apply IH; [assumption|assumption|]. now apply covered_cons in H.
Qed.

Lemma merge_covers l i :
  Forall ext_wf l -> covered l i -> covered (merge_extents l) i.
Proof.
  destruct l as [|e r]; intros Hl H; [exact H|].
  inversion Hl; subst. cbn [merge_extents].
  apply merge_go_covers; try assumption. now apply covered_cons in H.
Qed.

(* ---------- output boundaries are input boundaries ---------- *)
Lemma merge_go_boundaries l : forall p x,
  In x (merge_go p l) ->
  (exists a, In a (p :: l) /\ e_start x = e_start a) /\
  (exists b, In b (p :: l) /\ e_end x = e_end b).
Proof.
  induction l as [|e r IH]; intros p x Hx; cbn [merge_go] in Hx.
  - destruct Hx as [<-|[]]. split; exists p; (split; [now left|reflexivity]).
  - destruct (N.eqb_spec (e_start e) (e_end p + 1)) as [Heq|Hne].
    + apply IH in Hx. destruct Hx as [[a [Ha Hsa]] [b [Hb Hsb]]]. split.
      * destruct Ha as [<-|Ha]; [exists p; split; [now left|exact Hsa]|].
        exists a; split; [right; now right|exact Hsa].
      * destruct Hb as [<-|Hb]; [exists e; split; [right; now left|exact Hsb]|].
        exists b; split; [right; now right|exact Hsb].
    + destruct Hx as [<-|Hx]; [split; exists p; (split; [now left|reflexivity])|].
      apply IH in Hx. destruct Hx as [[a [Ha Hsa]] [b [Hb Hsb]]].
      split; [exists a|exists b]; (split; [now right|assumption]).
Qed.

Lemma merge_boundaries l x :
  In x (merge_extents l) ->
  (exists a, In a l /\ e_start x = e_start a) /\
  (exists b, In b l /\ e_end x = e_end b).
Proof.
  destruct l as [|e r]; [intros []|]. cbn [merge_extents]. apply merge_go_boundaries.
Qed.

(* ---------- nothing is added except one-byte gaps ---------- *)
Lemma gap_bytes_head p p' l : e_end p = e_end p' -> gap_bytes (p :: l) = gap_bytes (p' :: l).
Proof. intros H. destruct l as [|e r]; cbn [gap_bytes]; [reflexivity|]. now rewrite H. Qed.

Lemma merge_go_adds_only_gaps l : forall p i,
  covered (merge_go p l) i ->
  ext_covers p i \/ covered l i \/ In i (gap_bytes (p :: l)).
Proof.
  induction l as [|e r IH]; intros p i H; cbn [merge_go] in H.
  - apply covered_cons in H. destruct H as [H|H]; [now left|now apply covered_nil in H].
  - cbn [gap_bytes].
    destruct (N.eqb_spec (e_start e) (e_end p + 1)) as [Heq|Hne].
    + apply IH in H.
      rewrite (gap_bytes_head _ e) in H by reflexivity.
      destruct H as [H|[H|H]].
      * unfold ext_covers in H; cbn in H.
        destruct (N.lt_ge_cases i (e_end p)) as [Hlt|Hge].
        -- left. unfold ext_covers; lia.
        -- destruct (N.eq_dec i (e_end p)) as [->|Hn].
           ++ right; right. now left.
           ++ right; left. apply covered_cons; left. unfold ext_covers; lia.
      * right; left. apply covered_cons; now right.
      * right; right. now right.
    + apply covered_cons in H. destruct H as [H|H]; [now left|].
      apply IH in H. destruct H as [H|[H|H]].
      * right; left. apply covered_cons; now left.
      * right; left. apply covered_cons; now right.
      * right; now right.
Qed.

Lemma merge_adds_only_gaps l i :
  covered (merge_extents l) i -> covered l i \/ In i (gap_bytes l).
Proof.
  destruct l as [|e r]; [intros H; now left|]. cbn [merge_extents]. intros H.
  apply merge_go_adds_only_gaps in H. destruct H as [H|[H|H]].
  - left; apply covered_cons; now left.
  - left; apply covered_cons; now right.
  - now right.
Qed.

(* what a gap byte is: the end of an input p immediately followed in the list
   by an input e with e.start = p.end + 1 *)
Lemma gap_bytes_spec l i :
  In i (gap_bytes l) <->
  exists l1 p e l2, l = l1 ++ p :: e :: l2 /\ e_start e = e_end p + 1 /\ i = e_end p.
Proof.
  induction l as [|p r IH]; [split; [intros []|intros (l1&p&e&l2&H&_); now destruct l1]|].
  destruct r as [|e r'].
  - split; [intros []|]. intros (l1&p'&e&l2&H&_).
    destruct l1 as [|? [|? ?]]; discriminate.
  - cbn [gap_bytes]. split.
    + destruct (N.eqb_spec (e_start e) (e_end p + 1)) as [Heq|Hne].
      * intros [<-|H]; [exists [], p, e, r'; now repeat split|].
        apply IH in H. destruct H as (l1&p'&e'&l2&H&H1&H2).
        exists (p :: l1), p', e', l2. rewrite H. now repeat split.
      * intros H. apply IH in H. destruct H as (l1&p'&e'&l2&H&H1&H2).
        exists (p :: l1), p', e', l2. rewrite H. now repeat split.
    + intros (l1&p'&e'&l2&H&H1&H2).
      destruct l1 as [|x l1].
      * cbn in H. injection H as <- <- <-.
        destruct (N.eqb_spec (e_start e) (e_end p + 1)); [now left|contradiction].
      * cbn in H. injection H as <- H.
        assert (In i (gap_bytes (e :: r'))) as Hin
            by (apply IH; exists l1, p', e', l2; now repeat split).
        destruct (N.eqb_spec (e_start e) (e_end p + 1)); [now right|assumption].
Qed.

(* ---------- ordered, non-overlapping output ---------- *)
Lemma sorted_from_weaken l : forall lo lo', lo' <= lo -> sorted_from lo l -> sorted_from lo' l.
Proof. destruct l as [|e r]; cbn; intros lo lo' H Hs; [exact I|]. intuition lia. Qed.

Lemma merge_go_sorted l : forall p lo,
  sorted_from lo (p :: l) -> sorted_from lo (merge_go p l).
Proof.
  induction l as [|e r IH]; intros p lo H; cbn [merge_go]; [exact H|].
  cbn [sorted_from] in H. destruct H as (H1&H2&H3&H4&H5).
  destruct (N.eqb_spec (e_start e) (e_end p + 1)) as [Heq|Hne].
  - apply IH. cbn [sorted_from e_start e_end]. repeat split; try lia. exact H5.
  - cbn [sorted_from]. repeat split; try assumption. apply IH.
    cbn [sorted_from]. repeat split; assumption.
Qed.

Lemma merge_sorted l : sorted_disjoint l -> sorted_disjoint (merge_extents l).
Proof.
  unfold sorted_disjoint. destruct l as [|e r]; [trivial|]. cbn [merge_extents].
  apply merge_go_sorted.
Qed.

Lemma sorted_from_wf lo l : sorted_from lo l -> Forall ext_wf l.
Proof.
  revert lo; induction l as [|e r IH]; intros lo H; [constructor|].
  cbn in H. destruct H as (_&H2&H3). constructor; [exact H2|]. eapply IH; eauto.
Qed.

(* ---------- size ---------- *)
Lemma merge_go_length l : forall p, (length (merge_go p l) <= S (length l))%nat.
Proof.
  induction l as [|e r IH]; intros p; cbn [merge_go length]; [lia|].
  destruct (e_start e =? e_end p + 1); [specialize (IH (mkExt (e_start p) (e_end e) (e_shared p && e_shared e)))
                                       |specialize (IH e); cbn [length]]; lia.
Qed.

Lemma merge_length l : (length (merge_extents l) <= length l)%nat.
Proof. destruct l as [|e r]; cbn [merge_extents length]; [lia|]. apply merge_go_length. Qed.

Lemma merge_go_nonempty l : forall p, merge_go p l <> [].
Proof.
  induction l as [|e r IH]; intros p; cbn [merge_go]; [discriminate|].
  destruct (e_start e =? e_end p + 1); [apply IH|discriminate].
Qed.

(* ---------- wf is preserved (so merge can be iterated) ---------- *)
Lemma merge_go_wf l : forall p, ext_wf p -> Forall ext_wf l -> Forall ext_wf (merge_go p l).
Proof.
  induction l as [|e r IH]; intros p Hp Hl; cbn [merge_go]; [now constructor|].
  inversion Hl; subst.
  destruct (N.eqb_spec (e_start e) (e_end p + 1)).
  - apply IH; [unfold ext_wf in *; cbn; lia|assumption].
  - constructor; [assumption|now apply IH].
Qed.

(* ---------- the `shared` flag: an output is shared only if every input it
   swallowed was ---------- *)
Lemma merge_go_shared l : forall p x,
  In x (merge_go p l) -> e_shared x = true ->
  exists a, In a (p :: l) /\ e_start a = e_start x /\ e_shared a = true.
Proof.
  induction l as [|e r IH]; intros p x Hx Hs; cbn [merge_go] in Hx.
  - destruct Hx as [<-|[]]. exists p. repeat split; [now left|assumption].
  - destruct (N.eqb_spec (e_start e) (e_end p + 1)).
    + apply IH in Hx; [|assumption]. destruct Hx as (a&[<-|Ha]&H1&H2).
      * cbn in *. apply andb_true_iff in H2. exists p. repeat split; [now left|tauto|tauto].
      * exists a. repeat split; [right; now right|assumption|assumption].
    + destruct Hx as [<-|Hx]; [exists p; repeat split; [now left|assumption]|].
      apply IH in Hx; [|assumption]. destruct Hx as (a&Ha&H1&H2).
      exists a. repeat split; [now right|assumption|assumption].
Qed.

(* ---------- sensitivity: the well-formedness guard of merge_covers is needed,
   and the added gap byte is real ---------- *)
Lemma merge_covers_needs_wf :
  exists l i, covered l i /\ ~ covered (merge_extents l) i.
Proof.
  exists [mkExt 10 5 false; mkExt 6 8 false], 6. split.
  - exists (mkExt 6 8 false). split; [right; now left|unfold ext_covers; cbn; lia].
  - intros [x [Hx Hc]]. cbn in Hx. destruct Hx as [<-|[]].
    unfold ext_covers in Hc; cbn in Hc. lia.
Qed.

Lemma merge_gap_is_added :
  exists l i, Forall ext_wf l /\ sorted_disjoint l /\ ~ covered l i /\ covered (merge_extents l) i.
Proof.
  exists [mkExt 0 4096 false; mkExt 4097 8192 false], 4096.
  split; [|split; [|split]].
  - repeat constructor; unfold ext_wf; cbn; lia.
  - unfold sorted_disjoint; cbn; lia.
  - intros [x [Hx Hc]]. cbn in Hx. unfold ext_covers in Hc.
    destruct Hx as [<-|[<-|[]]]; cbn in Hc; lia.
  - exists (mkExt 0 8192 false). split; [now left|unfold ext_covers; cbn; lia].
Qed.

(* encode/decode round trip used by the harness *)
Lemma decode_encode l : decode_exts (encode_exts l) = l.
Proof.
  induction l as [|[s e sh] r IH]; [reflexivity|]. cbn [encode_exts decode_exts e_start e_end e_shared].
  rewrite IH. destruct sh; reflexivity.
Qed.
