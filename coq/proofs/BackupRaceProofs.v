From XcpModel Require Import BackupRace.
From Coq Require Import NArith List Bool.
Import ListNotations.
Open Scope N_scope.

(* repaired (a3... `fix: numbered backups are chosen, made and replaced in one step`): whichever worker goes first, the
   directory ends up the same, with BOTH old versions preserved under fresh names and both new versions in place *)
Theorem locked_overwrites_commute : forall oldf oldb newf newb,
  snapshot (run newf newb (d_init oldf oldb) sched_AB) = snapshot (run newf newb (d_init oldf oldb) sched_BA) /\
  snapshot (run newf newb (d_init oldf oldb) sched_AB) = [Some newf; Some newb; Some oldf; None; Some oldb; None].
Proof. intros. split; reflexivity. Qed.

(* before the repair: the scan of A in the gap between B's rename and B's create picks f.~1~ for the backup of f, and
   B's create then truncates it — the old version of f is lost, and the outcome differs from the sequential ones *)
Theorem unlocked_gap_loses_a_version : forall oldf oldb newf newb,
  snapshot (run newf newb (d_init oldf oldb) sched_gap) = [Some newf; Some newb; None; None; Some oldb; None].
Proof. intros. reflexivity. Qed.

Corollary unlocked_outcome_depends_on_schedule : exists oldf oldb newf newb,
  snapshot (run newf newb (d_init oldf oldb) sched_gap) <> snapshot (run newf newb (d_init oldf oldb) sched_AB).
Proof. exists 1, 2, 3, 4. discriminate. Qed.
