(* ExtractedOk.v — the definitions that /verif/xlate regenerates from the
   repository's CURRENT source on every run (theories/Extracted.v) are equal to
   the hand-written model's.  These lemmas are the translator-based half of the
   tie between model and code: an edit to one of the translated pieces of Rust
   changes Extracted.v and breaks the corresponding lemma (or, if the code
   leaves the supported subset, the extraction and with it the lemma). *)
From XcpModel Require Import Base Extents Blocks Sparse CopyLoop FileCopy Updater Meta Backup Extracted.
From Coq Require Import String.
From Coq Require Import Lia.

(* ---- libfs::merge_extents: the translated loop is the model's recursion ---- *)
Definition merge_final (st : list extent * option extent) : list extent :=
  let '(merged, prev) := st in match prev with Some p => merged ++ [p] | None => merged end.

Theorem x_merge_extents_ok : forall l, x_merge_extents l = merge_extents l.
Proof.
  intros l. unfold x_merge_extents.
  match goal with |- context [fold_left ?F _ _] => set (F0 := F) end.
  assert (forall st, (let '(merged, prev) := st in
                      let '(merged0, _) := match prev with Some p => (merged ++ [p], prev) | None => (merged, prev) end in merged0)
                     = merge_final st) as Hfin.
  { intros [m [p|]]; reflexivity. }
  assert (forall l merged p, merge_final (fold_left F0 l (merged, Some p)) = merged ++ merge_go p l) as Hgo.
  { clear. intros l. induction l as [|e r IH]; intros merged p; cbn [fold_left merge_go].
    - reflexivity.
    - subst F0. cbv beta iota zeta. fold (fold_left (A := list extent * option extent)).
      destruct (e_start e =? e_end p + 1).
      + apply IH.
      + rewrite IH. rewrite <- app_assoc. reflexivity. }
  destruct l as [|e r]; [reflexivity|].
  cbn [fold_left merge_extents].
  transitivity (merge_final (fold_left F0 r (F0 ([], None) e))).
  - destruct (fold_left F0 r (F0 ([], None) e)) as [m [p|]]; reflexivity.
  - assert (F0 ([], None) e = ([], Some e)) as -> by (subst F0; reflexivity).
    rewrite Hgo. reflexivity.
Qed.

(* ---- parblock::queue_file_range: block count, size and offset of block k ---- *)
Theorem x_qfr_blocks_ok : forall s e bs, x_qfr_blocks s e bs = nblocks (e - s) bs.
Proof. reflexivity. Qed.
Theorem x_qfr_bytes_ok : forall s e bs k, x_qfr_bytes s e bs k = blk_bytes (e - s) bs k.
Proof. reflexivity. Qed.
Theorem x_qfr_off_ok : forall s e bs k, x_qfr_off s e bs k = blk_off s bs k.
Proof. reflexivity. Qed.
Theorem x_qfr_jobs_ok : forall s e bs,
  range_jobs s (e - s) bs =
  map (fun k => (x_qfr_off s e bs (N.of_nat k), x_qfr_bytes s e bs (N.of_nat k))) (seq 0 (N.to_nat (x_qfr_blocks s e bs))).
Proof. reflexivity. Qed.

(* the pool's bounded queue: the Q of the C20 bound *)
Theorem x_pool_queue_len_ok : x_pool_queue_len = 128.
Proof. reflexivity. Qed.

(* ---- ChannelUpdater::send ---- *)
Theorem x_send_cond_ok : forall bs sent b,
  chan_send bs sent (UCopied b) = (sent + b, if x_send_cond sent b bs then [UCopied b] else []).
Proof. reflexivity. Qed.

(* ---- CopyHandle::copy_bytes: loop guard and request size ---- *)
Theorem x_copy_bytes_continue_ok : forall written len, x_copy_bytes_continue written len = negb (len <=? written).
Proof. intros. unfold x_copy_bytes_continue. destruct (N.ltb_spec written len), (N.leb_spec len written); try reflexivity; lia. Qed.
Theorem x_copy_bytes_request_ok : forall written len bs, x_copy_bytes_request written len bs = N.min (len - written) bs.
Proof. reflexivity. Qed.

(* ---- libfs: sparseness test, errno classifications, FIEMAP page size ---- *)
Theorem x_probably_sparse_ok : forall blocks size, x_probably_sparse blocks size = probably_sparse blocks size.
Proof. reflexivity. Qed.

Ltac errno_cases e :=
  repeat match goal with |- context [N.eqb e ?k] => destruct (N.eqb_spec e k) end; subst; try reflexivity; try discriminate; try lia.

Theorem x_cfr_fallback_ok : forall e, existsb (N.eqb e) x_cfr_fallback_errnos = cfr_falls_back e.
Proof. intros e. unfold x_cfr_fallback_errnos, cfr_falls_back, ENOSYS, EPERM, EXDEV. cbn [existsb]. errno_cases e. Qed.

Theorem x_reflink_unsupported_ok : forall e, e <> 0 ->
  existsb (N.eqb e) x_reflink_unsupported_errnos = match classify_clone e with ClUnsup => true | _ => false end.
Proof.
  intros e He. unfold x_reflink_unsupported_errnos, classify_clone, EOPNOTSUPP, EINVAL, EXDEV, ETXTBSY. cbn [existsb].
  destruct (N.eqb_spec e 0); [contradiction|]. errno_cases e.
Qed.

Theorem x_lseek_eof_ok : x_lseek_eof_errnos = [ENXIO].
Proof. reflexivity. Qed.
Theorem x_fiemap_unsupported_ok : x_fiemap_unsupported_errnos = [EOPNOTSUPP].
Proof. reflexivity. Qed.
Theorem x_fiemap_page_size_ok : x_fiemap_page_size = N.of_nat FIEMAP_PAGE_SIZE.
Proof. reflexivity. Qed.

(* copy_node takes the device number from st_rdev *)
Theorem x_copy_node_uses_rdev_ok : x_copy_node_uses_rdev = 1.
Proof. reflexivity. Qed.

(* ---- finalise_copy: the steps, their guards and their order ---- *)
Definition step_enabled (c : fin_cfg) (s : N * bool) : bool :=
  let flag := if fst s =? 6 then c_ownership c else if fst s =? 8 then c_no_perms c
              else if fst s =? 9 then c_no_timestamps c else c_fsync c in
  xorb (snd s) flag.
Definition actions_of_step (k : N) (src : meta) : list fin_action :=
  if k =? 6 then [FChown (m_uid src) (m_gid src)]
  else if k =? 8 then map (fun kv => FSetxattr (fst kv) (snd kv)) (m_xattr src) ++ [FChmod (m_mode src)]
  else if k =? 9 then [FUtimens (m_atime src) (m_mtime src)]
  else [FFsync].

(* the model's finalise_actions is: run the extracted steps, in the extracted
   order, each under its extracted guard *)
Theorem x_finalise_order_ok : forall c src,
  finalise_actions c src =
  flat_map (fun s => if step_enabled c s then actions_of_step (fst s) src else []) x_finalise_order.
Proof.
  intros [np nt ow fs] src. unfold finalise_actions, x_finalise_order, step_enabled, actions_of_step.
  cbn [flat_map fst snd c_no_perms c_no_timestamps c_ownership c_fsync].
  repeat match goal with |- context [N.eqb ?a ?b] =>
           let v := eval vm_compute in (N.eqb a b) in change (N.eqb a b) with v end.
  destruct ow, np, nt, fs; cbn [xorb app]; rewrite ?app_nil_r, <- ?app_assoc; reflexivity.
Qed.

(* ---- Config::from: --no-progress selects one block per file (u64::MAX) ---- *)
Theorem x_config_block_size_ok : forall bs,
  x_config_block_size true bs = U64MAX /\ x_config_block_size false bs = bs.
Proof. intros. split; reflexivity. Qed.

(* ---- backup.rs: the next number is the largest existing one plus one (0 when none) ---- *)
Theorem x_next_backup_ok : forall base entries,
  next_backup_num base entries =
  (let n := x_next_backup_from_max (fold_right N.max x_backup_max_default (backup_nums base entries)) in
   if n <? U64 then Some n else None).
Proof. reflexivity. Qed.

Theorem x_backup_pattern_ok : x_backup_pattern = "^\~(\d+)\~$"%string.
Proof. reflexivity. Qed.

(* ---- CopyHandle::try_reflink: the decision table ---- *)
Definition rl_code (o : rl_out) : N := match o with RlCloned => 1 | RlCopy => 0 | RlFail _ => 2 end.
Definition mode_of_code (m : N) : reflink_mode := if m =? 0 then RfAuto else if m =? 1 then RfAlways else RfNever.

Theorem x_try_reflink_ok : forall m, m < 3 ->
  fst (try_reflink (mode_of_code m) ClOk) = x_try_reflink_issues_clone m /\
  rl_code (snd (try_reflink (mode_of_code m) ClOk)) = x_try_reflink m true /\
  rl_code (snd (try_reflink (mode_of_code m) ClUnsup)) = x_try_reflink m false /\
  (forall e, rl_code (snd (try_reflink (mode_of_code m) (ClErr e))) = if x_try_reflink_issues_clone m then 2 else 0).
Proof.
  intros m Hm. assert (m = 0 \/ m = 1 \/ m = 2) as H by lia.
  destruct H as [H|[H|H]]; subst m; repeat split; reflexivity.
Qed.

(* ---- needs_backup: the decision table ---- *)
Theorem x_needs_backup_ok : forall mode ex base entries, mode < 3 ->
  needs_backup mode ex base entries = x_needs_backup mode ex (has_backup base entries).
Proof.
  intros mode ex base entries Hm. assert (mode = 0 \/ mode = 1 \/ mode = 2) as H by lia.
  destruct H as [H|[H|H]]; subst mode; unfold needs_backup, x_needs_backup;
    repeat match goal with |- context [N.eqb ?a ?b] => let v := eval vm_compute in (N.eqb a b) in change (N.eqb a b) with v end;
    cbn [andb]; destruct ex; reflexivity.
Qed.

(* ---- Operation::Special in both drivers ---- *)
Definition special_code (r : option (list sp_action)) : N :=
  match r with None => 0 | Some [SpMknod _] => 1 | Some [SpUnlink; SpMknod _] => 2 | Some _ => 3 end.

Theorem x_special_ok : forall nc ex umask src,
  special_code (special_worker nc ex umask src) = x_parfile_special nc ex /\
  special_code (special_worker nc ex umask src) = x_parblock_special nc ex.
Proof. intros [|] [|] umask src; split; reflexivity. Qed.

(* ---- call order of CopyHandle::new, copy_file and queue_file_blocks ---- *)
From XcpModel Require Import Walker Ops.
Theorem x_copy_new_steps_ok : x_copy_new_steps = copy_new_steps.
Proof. reflexivity. Qed.
Theorem x_copy_file_steps_ok : x_copy_file_steps = copy_file_steps.
Proof. reflexivity. Qed.
Theorem x_queue_file_blocks_steps_ok : x_queue_file_blocks_steps = queue_file_blocks_steps.
Proof. reflexivity. Qed.

(* ... and the model's CopyHandle::new (the prefix of Ops.copy_actions, overwrite with a backup) issues its
   system calls in exactly that order: the extracted steps minus the ones that are not system calls of their
   own (23 shares the probe's stat, 24 decides, 98 returns) *)
Theorem copy_new_steps_model : forall fc src dst n len,
  flat_map step_code_of (fst (copy_actions fc src dst (mkEnv true false (Some n) len false false [] 0))) =
  filter (fun c => negb ((c =? 23) || (c =? 24) || (c =? 98))) x_copy_new_steps.
Proof.
  intros [np nt ow fs] src dst n len. unfold copy_actions. cbn [ce_dst_exists ce_same_file andb].
  destruct ow, np, nt, fs; vm_compute; reflexivity.
Qed.

(* ---- the block job of parblock: one unfolding of CopyLoop.block_job in terms of the extracted expressions ---- *)
Theorem x_block_job_ok : forall f flen off bytes done k rest,
  block_job (S f) flen off bytes done (XOk k :: rest) =
  let req := mkReq (x_block_job_offset off done) (x_block_job_offset off done) (x_block_job_request bytes done) in
  if k =? 0 then mkOut (if x_block_job_zero_is_end flen off done then StOk else StErr EPREMATURE) [(req, XOk 0)] rest
  else if x_block_job_complete (done + k) bytes then mkOut StOk [(req, XOk k)] rest
  else out_cons (req, XOk k) (block_job f flen off bytes (done + k) rest).
Proof. reflexivity. Qed.

(* ------------------------------------------------------------------ *)
(* the translated effectful loops equal the hand-written models          *)
(* ------------------------------------------------------------------ *)
From XcpModel Require Import Uspace.

Definition out_app (tr : xtrace) (o : loop_out) : loop_out := mkOut (o_st o) (tr ++ o_trace o) (o_rest o).

Lemma x_copy_bytes_loop_ok : forall fuel len bs written cur tr ans,
  x_copy_bytes_loop fuel len bs written cur tr ans = out_app tr (copy_bytes fuel bs len written cur ans).
Proof.
  induction fuel as [|f IH]; intros len bs written cur tr ans.
  - cbn [x_copy_bytes_loop copy_bytes]. destruct (N.ltb_spec written len), (N.leb_spec len written); try lia;
      unfold out_app; cbn [o_st o_trace o_rest]; now rewrite app_nil_r.
  - cbn [x_copy_bytes_loop copy_bytes]. destruct (N.ltb_spec written len), (N.leb_spec len written); try lia;
      [|unfold out_app; cbn [o_st o_trace o_rest]; now rewrite app_nil_r].
    destruct ans as [|[k|e] rest]; unfold out_app; cbn [o_st o_trace o_rest].
    + now rewrite app_nil_r.
    + destruct (N.eqb_spec k 0) as [->|Hk]; cbn [o_st o_trace o_rest]; [reflexivity|].
      rewrite IH. unfold out_app, out_cons. cbn [o_st o_trace o_rest]. now rewrite <- app_assoc.
    + reflexivity.
Qed.

Theorem x_copy_bytes_ok : forall fuel bs len cur ans,
  x_copy_bytes fuel len bs cur ans = copy_bytes fuel bs len 0 cur ans.
Proof.
  intros. unfold x_copy_bytes. rewrite x_copy_bytes_loop_ok. unfold out_app. cbn [app].
  destruct (copy_bytes fuel bs len 0 cur ans); reflexivity.
Qed.

Ltac fin := rewrite <- ?app_assoc; cbn [app]; reflexivity.

Lemma u_app_nil o : u_app [] o = o.
Proof. destruct o; reflexivity. Qed.
Lemma u_app_app a b o : u_app a (u_app b o) = u_app (a ++ b) o.
Proof. unfold u_app. cbn [u_st u_ret u_trace u_rest]. now rewrite app_assoc. Qed.

Lemma x_copy_range_uspace_loop_ok : forall fuel nbytes off written tr ans,
  x_copy_range_uspace_loop fuel nbytes off written tr ans = u_app tr (copy_range_uspace fuel nbytes off written ans).
Proof.
  induction fuel as [|f IH]; intros nbytes off written tr ans.
  - cbn [x_copy_range_uspace_loop copy_range_uspace]. destruct (N.ltb_spec written nbytes), (N.leb_spec nbytes written); try lia;
      unfold u_app; cbn [u_st u_ret u_trace u_rest]; now rewrite app_nil_r.
  - cbn [x_copy_range_uspace_loop copy_range_uspace]. destruct (N.ltb_spec written nbytes), (N.leb_spec nbytes written); try lia;
      [|unfold u_app; cbn [u_st u_ret u_trace u_rest]; now rewrite app_nil_r].
    replace (N.min (nbytes - written) nbytes) with (nbytes - written) by lia.
    destruct ans as [|[rlen|e] rest]; unfold u_app at 1; cbn [u_st u_ret u_trace u_rest].
    + now rewrite app_nil_r.
    + destruct (N.eqb_spec rlen 0) as [->|Hr]; cbn [u_st u_ret u_trace u_rest]; [reflexivity|].
      destruct rest as [|[wlen|e] rest']; cbn [u_st u_ret u_trace u_rest].
      * fin.
      * destruct (N.ltb_spec wlen rlen); cbn [u_st u_ret u_trace u_rest]; [fin|].
        rewrite IH. unfold u_app. cbn [u_st u_ret u_trace u_rest]. fin.
      * fin.
    + reflexivity.
Qed.

Theorem x_copy_range_uspace_ok : forall fuel nbytes off ans,
  x_copy_range_uspace fuel nbytes off ans = copy_range_uspace fuel nbytes off 0 ans.
Proof. intros. unfold x_copy_range_uspace. rewrite x_copy_range_uspace_loop_ok. apply u_app_nil. Qed.

Lemma x_copy_bytes_uspace_loop_ok : forall fuel nbytes written rpos wpos tr ans,
  x_copy_bytes_uspace_loop fuel nbytes written rpos wpos tr ans =
  u_app tr (copy_bytes_uspace fuel nbytes rpos wpos written ans).
Proof.
  induction fuel as [|f IH]; intros nbytes written rpos wpos tr ans.
  - cbn [x_copy_bytes_uspace_loop copy_bytes_uspace]. destruct (N.ltb_spec written nbytes), (N.leb_spec nbytes written); try lia;
      unfold u_app; cbn [u_st u_ret u_trace u_rest]; now rewrite app_nil_r.
  - cbn [x_copy_bytes_uspace_loop copy_bytes_uspace]. destruct (N.ltb_spec written nbytes), (N.leb_spec nbytes written); try lia;
      [|unfold u_app; cbn [u_st u_ret u_trace u_rest]; now rewrite app_nil_r].
    replace (N.min (nbytes - written) nbytes) with (nbytes - written) by lia.
    destruct ans as [|[len|e] rest].
    + unfold u_app; cbn [u_st u_ret u_trace u_rest]. now rewrite app_nil_r.
    + destruct (N.eqb_spec len 0) as [->|Hl]; [unfold u_app; cbn [u_st u_ret u_trace u_rest]; reflexivity|].
      destruct (u_st (write_all (S (List.length rest)) rpos wpos len rest)) eqn:Ew.
      * rewrite IH. unfold u_app. cbn [u_st u_ret u_trace u_rest]. fin.
      * unfold u_app; cbn [u_st u_ret u_trace u_rest]. fin.
      * unfold u_app; cbn [u_st u_ret u_trace u_rest]. fin.
      * unfold u_app; cbn [u_st u_ret u_trace u_rest]. fin.
    + destruct (N.eqb_spec e EINTR) as [->|He].
      * rewrite IH. unfold u_cons, u_app. cbn [u_st u_ret u_trace u_rest]. fin.
      * unfold u_app; cbn [u_st u_ret u_trace u_rest]. reflexivity.
Qed.

Theorem x_copy_bytes_uspace_ok : forall fuel nbytes rpos wpos ans,
  x_copy_bytes_uspace fuel nbytes rpos wpos ans = copy_bytes_uspace fuel nbytes rpos wpos 0 ans.
Proof. intros. unfold x_copy_bytes_uspace. rewrite x_copy_bytes_uspace_loop_ok. apply u_app_nil. Qed.

(* the block fallback reads and writes at explicit offsets (pread/pwrite): concurrent block jobs of one file
   share the two descriptors, so nothing may go through their cursors *)
Theorem x_positional_io_ok : x_read_bytes_steps = [50] /\ x_write_bytes_steps = [51].
Proof. split; reflexivity. Qed.

(* CopyHandle::copy_sparse (the parfile sparse walk): next_sparse_segments and copy_bytes are the modelled helpers *)
Lemma x_copy_sparse_loop_ok : forall fuel sd sh flen bs pos tr ans,
  x_copy_sparse_loop fuel sd sh flen bs flen pos tr ans = out_app tr (copy_sparse fuel bs flen pos sd sh ans).
Proof.
  induction fuel as [|f IH]; intros sd sh flen bs pos tr ans.
  - cbn [x_copy_sparse_loop copy_sparse]. destruct (N.ltb_spec pos flen), (N.leb_spec flen pos); try lia;
      unfold out_app; cbn [o_st o_trace o_rest]; now rewrite app_nil_r.
  - cbn [x_copy_sparse_loop copy_sparse]. destruct (N.ltb_spec pos flen), (N.leb_spec flen pos); try lia;
      [|unfold out_app; cbn [o_st o_trace o_rest]; now rewrite app_nil_r].
    destruct (next_segment sd sh flen pos) as [[d h]|e]; [|unfold out_app; cbn [o_st o_trace o_rest]; now rewrite app_nil_r].
    change (CopyLoop.out_app) with CopyLoop.out_app.
    destruct ((h <=? pos) || (h <? d)); [unfold out_app; cbn [o_st o_trace o_rest]; now rewrite app_nil_r|].
    destruct (copy_bytes (S (List.length ans)) bs (h - d) 0 d ans) as [st t r] eqn:Ec. cbn [o_st o_trace o_rest].
    destruct st; try (unfold out_app; cbn [o_st o_trace o_rest]; reflexivity).
    rewrite IH. unfold out_app, CopyLoop.out_app. cbn [o_st o_trace o_rest]. now rewrite app_assoc.
Qed.

Theorem x_copy_sparse_ok : forall fuel sd sh flen bs ans,
  x_copy_sparse fuel sd sh flen bs ans = copy_sparse fuel bs flen 0 sd sh ans.
Proof.
  intros. unfold x_copy_sparse. rewrite x_copy_sparse_loop_ok. unfold out_app. cbn [app].
  destruct (copy_sparse fuel bs flen 0 sd sh ans); reflexivity.
Qed.

(* libfs::next_sparse_segments *)
Theorem x_next_segment_ok : forall sd sh len pos, x_next_segment sd sh len pos = next_segment sd sh len pos.
Proof.
  intros. unfold x_next_segment, next_segment. destruct (sd pos) as [o| |e]; reflexivity.
Qed.

(* libfs::map_extents: the translated paging loop is the model's *)
Lemma fold_push_ext (pg : list fext) : forall acc,
  fold_left (fun extents e => extents ++ [mkExt (fe_logical e) (fe_logical e + fe_length e) (fe_shared e)]) pg acc =
  acc ++ map to_ext pg.
Proof.
  induction pg as [|x pg IH]; intros acc; cbn [fold_left map]; [now rewrite app_nil_r|].
  rewrite IH. rewrite <- app_assoc. reflexivity.
Qed.

Lemma nth_error_last {A} (l : list A) (d : A) : l <> [] -> nth_error l (List.length l - 1) = Some (last l d).
Proof.
  induction l as [|x l IH]; intros H; [contradiction|]. destruct l as [|y l]; [reflexivity|].
  cbn [List.length]. replace (S (S (List.length l)) - 1)%nat with (S (List.length (y :: l) - 1)) by (cbn [List.length]; lia).
  cbn [nth_error]. rewrite IH by discriminate. reflexivity.
Qed.

Theorem x_map_extents_go_ok : forall fuel fiemap start acc,
  x_map_extents_go fuel fiemap start acc = map_extents_go fuel fiemap start acc.
Proof.
  induction fuel as [|f IH]; intros fiemap start acc; [reflexivity|].
  cbn [x_map_extents_go map_extents_go]. destruct (fiemap start) as [|e|pg]; try reflexivity.
  destruct pg as [|x pg]; [reflexivity|].
  replace (N.of_nat (List.length (x :: pg)) =? 0) with false by (symmetry; apply N.eqb_neq; cbn [List.length]; lia).
  rewrite (nth_error_last (x :: pg) x) by discriminate.
  change (fun extents e => let ext := mkExt (fe_logical e) (fe_logical e + fe_length e) (fe_shared e) in extents ++ [ext])
    with (fun extents e => extents ++ [mkExt (fe_logical e) (fe_logical e + fe_length e) (fe_shared e)]).
  rewrite fold_push_ext. destruct (fe_last (last (x :: pg) x)); [reflexivity|]. apply IH.
Qed.

Theorem x_map_extents_ok : forall fuel fiemap, x_map_extents fuel fiemap = map_extents fuel fiemap.
Proof. intros. apply x_map_extents_go_ok. Qed.

(* ---- operations::tree_walker ---- *)
From XcpModel Require Import Paths.
Definition wact_code (a : wact) : N :=
  match a with WSize _ => 0 | WCopy _ _ => 1 | WLink _ _ => 2 | WMkdir _ => 3 | WSpecial _ _ => 4 | WErr _ _ => 5 end.
Definition kind_of_ft (ft : N) : ekind :=
  if ft =? 0 then EFile 0 else if ft =? 1 then EDir else if ft =? 2 then ELink [] else if ft <=? 5 then ESpecial ft else EOther ft.

(* the per-entry dispatch of the walker (which operations / updates each file type produces, and in which order:
   Size BEFORE the Copy operation is queued) is the model's act_of *)
Theorem x_walker_dispatch_ok :
  Forall (fun p => map wact_code (fst (act_of (mkW false false) (fun _ => false) ([], kind_of_ft (fst p), false))) = snd p)
         x_walker_dispatch /\
  map fst x_walker_dispatch = [0; 1; 2; 3; 4; 5; 6; 7].
Proof. split; [vm_compute; repeat constructor|reflexivity]. Qed.

(* the no-clobber check runs before the dispatch, stops the walk, and probes the target WITHOUT following links;
   the walk follows links exactly when dereferencing and prunes with the ignore filter; `from` is the canonical path
   exactly when dereferencing; the kind is taken from lstat(from); the target is target_base joined with the path
   relative to the source.  (This is the text Walker.v was written against; an edit shows up here.) *)
Theorem x_walker_shape_ok :
  x_walker_noclobber_stops_before_dispatch = true /\
  x_walker_noclobber_condition = "config.no_clobber&&target.symlink_metadata().is_ok()"%string /\
  x_walker_iterator = (["WalkDir::new(&source)";
   "follow_links(config.dereference)";
   "into_iter()";
   "filter_entry(|e|ignore_filter(e,&gitignore))"])%string /\
  x_walker_entry_prelude = (["letepath=entry?.into_path();";
   "letfrom=ifconfig.dereference{letcpath=canonicalize(&epath)?;debug!(""Dereferencing{:?}into{:?}"",epath,cpath);cpath}else{epath.clone()};";
   "letmeta=from.symlink_metadata()?;";
   "letpath=epath.strip_prefix(&source)?;";
   "lettarget=if!empty_path(path){target_base.join(path)}else{target_base.clone()};";
   "letft=FileType::from(meta.file_type());"])%string /\
  x_walker_source_prelude = (["letsourcedir=source.components().next_back().ok_or(XcpError::InvalidSource(""Failedtofindsourcedirectoryname.""))?;";
   "lettarget_base=ifdest.exists()&&dest.is_dir()&&!config.no_target_directory{dest.join(sourcedir)}else{dest.to_path_buf()};";
   "letgitignore=parse_ignore(&source,config)?;"])%string.
Proof. repeat split; reflexivity. Qed.

(* ------------------------------------------------------------------ *)
(* src/main.rs: the translated validation block is Main.validate        *)
(* ------------------------------------------------------------------ *)
From XcpModel Require Import Main.

Section XV.
  Variable exists_ is_dir : path -> bool.
  Variable same_file : path -> path -> bool.
  Variable o : opts.

  Lemma x_check_sources_ok dest : forall ss seenM seenX,
    (forall p, existsb (path_eqb p) seenM = existsb (path_eqb p) seenX) ->
    x_check_sources exists_ is_dir same_file o dest seenX ss =
    check_sources exists_ is_dir same_file o dest (exists_ dest && is_dir dest) seenM ss.
  Proof.
    induction ss as [|s r IH]; intros seenM seenX Hseen; [reflexivity|].
    cbn [x_check_sources check_sources]. unfold check_source, target_base.
    destruct (exists_ s); cbn [negb]; [|reflexivity].
    destruct (is_dir s && negb (o_recursive o)); [reflexivity|].
    destruct (path_eqb s dest); [reflexivity|].
    destruct (last_comp s) as [c|]; [|reflexivity].
    destruct c as [| | |n];
      match goal with |- context [join dest ?cl] => set (jn := join dest cl) end;
      set (tb := if exists_ dest && is_dir dest && negb (o_no_target_dir o) then jn else dest);
      (assert ((if exists_ dest && is_dir dest && negb (o_no_target_dir o) then Some jn else Some dest) = Some tb) as ->
          by (subst tb; destruct (exists_ dest && is_dir dest && negb (o_no_target_dir o)); reflexivity));
      (destruct (path_eqb s tb || exists_ tb && same_file s tb); [reflexivity|]);
      (destruct (is_dir s && exists_ tb && negb (is_dir tb)); [reflexivity|]);
      rewrite (Hseen tb); (destruct (existsb (path_eqb tb) seenX); [reflexivity|]);
      apply IH; intros p; rewrite existsb_app; cbn [existsb]; rewrite Hseen; rewrite orb_false_r; apply orb_comm.
  Qed.

  Theorem x_validate_ok : forall sources dest,
    x_validate exists_ is_dir same_file o sources dest = validate exists_ is_dir same_file o sources dest.
  Proof.
    intros sources dest. unfold x_validate, validate.
    destruct sources as [|s0 rest]; [reflexivity|].
    rewrite <- (x_check_sources_ok dest (s0 :: rest) [] []) by reflexivity.
    destruct (is_dir dest); cbn [negb andb]; [reflexivity|].
    destruct rest as [|s1 rest']; cbn [List.length hd Nat.eqb Nat.ltb Nat.leb andb].
    - destruct (is_dir s0 && exists_ dest); reflexivity.
    - reflexivity.
  Qed.
End XV.
