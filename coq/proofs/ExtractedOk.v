(* ExtractedOk.v — umbrella over the per-topic files of the translator tie (XExtents, XBlocks, XUpdater, XLoops,
   XReflink, XMeta, XOps, XBackup, XWalker, XMain, XConfig, XState, XDrivers): the definitions that /verif/xlate regenerates from the
   repository's CURRENT source on every run (theories/Extracted.v) are equal to the hand-written model's.  An edit
   to one of the translated pieces of Rust changes Extracted.v and breaks the corresponding lemma (or, if the code
   leaves the supported subset, the extraction and with it the lemma).  Property files import only the topic files
   they cite, so a change only re-opens the obligations of the properties that depend on it. *)
From XcpProofs Require Export XExtents XBlocks XUpdater XLoops XReflink XMeta XOps XBackup XWalker XMain XConfig XState XDrivers.
