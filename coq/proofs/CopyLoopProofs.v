From XcpModel Require Import Base Sparse CopyLoop.
From XcpProofs Require Import SparseProofs.
From Coq Require Import Permutation.

(* ------------------------------------------------------------------ *)
(* src_of on aligned traces                                            *)
(* ------------------------------------------------------------------ *)
Definition aligned (tr : xtrace) : Prop := Forall (fun e => r_src (fst e) = r_dst (fst e)) tr.
Definition entry_covers (e : xreq * xans) (i : N) : Prop :=
  r_dst (fst e) <= i /\ i < r_dst (fst e) + moved (snd e).
Definition covered_by (tr : xtrace) (i : N) : Prop := exists e, In e tr /\ entry_covers e i.

Lemma covered_by_nil i : ~ covered_by [] i.
Proof. intros (e & [] & _). Qed.

Lemma covered_by_cons e tr i : covered_by (e :: tr) i <-> entry_covers e i \/ covered_by tr i.
Proof.
  unfold covered_by; split.
  - intros (x & [<-|Hx] & Hc); [now left|right; now exists x].
  - intros [Hc|(x & Hx & Hc)]; [exists e; split; [now left|assumption]|exists x; split; [now right|assumption]].
Qed.

Lemma covered_by_app t1 t2 i : covered_by (t1 ++ t2) i <-> covered_by t1 i \/ covered_by t2 i.
Proof.
  unfold covered_by; split.
  - intros (x & Hx & Hc). apply in_app_or in Hx. destruct Hx; [left|right]; now exists x.
  - intros [(x & Hx & Hc)|(x & Hx & Hc)]; exists x; (split; [apply in_or_app; auto|assumption]).
Qed.

Lemma aligned_app t1 t2 : aligned (t1 ++ t2) <-> aligned t1 /\ aligned t2.
Proof. unfold aligned. apply Forall_app. Qed.

Definition entry_coversb (e : xreq * xans) (i : N) : bool :=
  (r_dst (fst e) <=? i) && (i <? r_dst (fst e) + moved (snd e)).
Definition covered_byb (tr : xtrace) (i : N) : bool := existsb (fun e => entry_coversb e i) tr.

Lemma entry_coversb_spec e i : entry_coversb e i = true <-> entry_covers e i.
Proof.
  unfold entry_coversb, entry_covers. rewrite andb_true_iff, N.leb_le, N.ltb_lt. tauto.
Qed.

Lemma covered_byb_spec tr i : covered_byb tr i = true <-> covered_by tr i.
Proof.
  unfold covered_byb, covered_by. rewrite existsb_exists.
  split; intros (e & He & Hc); exists e; (split; [assumption|]); now apply entry_coversb_spec.
Qed.

Lemma covered_byb_false tr i : covered_byb tr i = false <-> ~ covered_by tr i.
Proof.
  rewrite <- covered_byb_spec. destruct (covered_byb tr i); split; intros H; congruence.
Qed.

Lemma src_of_alignedb tr i : aligned tr ->
  src_of tr i = if covered_byb tr i then Some i else None.
Proof.
  induction tr as [|[r a] t IH]; intros Hal; [reflexivity|].
  inversion Hal as [|? ? Hr Ht]; subst. cbn [fst] in Hr.
  cbn [src_of covered_byb existsb]. fold (covered_byb t i). rewrite (IH Ht).
  destruct (covered_byb t i); [now rewrite orb_true_r|]. rewrite orb_false_r.
  unfold entry_coversb; cbn [fst snd].
  destruct (N.leb_spec (r_dst r) i); [|reflexivity].
  destruct (N.ltb_spec i (r_dst r + moved a)); [|reflexivity].
  cbn [andb]. f_equal. lia.
Qed.

Lemma src_of_aligned tr i : aligned tr ->
  (covered_by tr i -> src_of tr i = Some i) /\ (~ covered_by tr i -> src_of tr i = None).
Proof.
  intros Hal. rewrite (src_of_alignedb tr i Hal). split; intros H.
  - apply covered_byb_spec in H. now rewrite H.
  - apply covered_byb_false in H. now rewrite H.
Qed.

(* the final content does not depend on the order in which aligned transfers
   complete (parblock: any completion order of the block jobs) *)
Lemma covered_by_perm tr tr' i : Permutation tr tr' -> covered_by tr i -> covered_by tr' i.
Proof.
  intros Hp (e & He & Hc). exists e. split; [|assumption]. eapply Permutation_in; eauto.
Qed.

Lemma src_of_perm tr tr' i : aligned tr -> Permutation tr tr' -> src_of tr i = src_of tr' i.
Proof.
  intros Hal Hp.
  assert (aligned tr') as Hal' by (unfold aligned in *; eapply Permutation_Forall; eauto).
  destruct (covered_byb tr i) eqn:E.
  - apply covered_byb_spec in E. rewrite (proj1 (src_of_aligned tr i Hal) E).
    symmetry. apply src_of_aligned; [assumption|]. eapply covered_by_perm; eauto.
  - apply covered_byb_false in E. rewrite (proj2 (src_of_aligned tr i Hal) E).
    symmetry. apply src_of_aligned; [assumption|]. intros H. apply E.
    eapply covered_by_perm; [apply Permutation_sym; eassumption|assumption].
Qed.

(* ------------------------------------------------------------------ *)
(* copy_bytes                                                          *)
(* ------------------------------------------------------------------ *)
Lemma copy_bytes_fuel fuel : forall bs len w cur ans,
  (length ans < fuel)%nat -> o_st (copy_bytes fuel bs len w cur ans) <> StOutOfFuel.
Proof.
  induction fuel as [|f IH]; intros bs len w cur ans Hf; [lia|].
  cbn [copy_bytes]. destruct (len <=? w); [cbn; discriminate|].
  destruct ans as [|[k|e] rest]; cbn [o_st]; try discriminate.
  destruct (k =? 0); cbn [o_st out_cons]; [discriminate|].
  apply IH. cbn [length] in Hf. lia.
Qed.

(* everything copy_bytes does, when it reports success and the kernel never
   moves more than asked: the transfers are aligned, lie inside
   [cur, cur + (len - w)), cover it completely, and total len - w bytes *)
Lemma copy_bytes_exact fuel : forall bs len w cur ans,
  w <= len ->
  let o := copy_bytes fuel bs len w cur ans in
  o_st o = StOk -> ans_bounded (o_trace o) ->
  aligned (o_trace o) /\
  total_moved (o_trace o) = len - w /\
  (forall i, covered_by (o_trace o) i <-> cur <= i < cur + (len - w)).
Proof.
  induction fuel as [|f IH]; intros bs len w cur ans Hw; cbn [copy_bytes].
  - destruct (N.leb_spec len w); cbn; [|discriminate]. intros _ _.
    split; [constructor|]. split; [lia|]. intros i; split; [intros H0; now apply covered_by_nil in H0|lia].
  - destruct (N.leb_spec len w).
    + cbn. intros _ _. split; [constructor|]. split; [lia|].
      intros i; split; [intros H0; now apply covered_by_nil in H0|lia].
    + destruct ans as [|[k|e] rest]; cbn [o_st o_trace out_cons]; try discriminate.
      destruct (N.eqb_spec k 0) as [->|Hk0]; cbn [o_st o_trace out_cons]; [discriminate|].
      intros Hst Hb. inversion Hb as [|? ? Hk Hb']; subst. cbn [fst snd moved r_len] in Hk.
      assert (w + k <= len) as Hw' by lia.
      destruct (IH bs len (w + k) (cur + k) rest Hw' Hst Hb') as (A1 & A2 & A3).
      split; [constructor; [reflexivity|exact A1]|].
      split; [unfold total_moved in *; cbn [map sumN snd moved]; lia|].
      intros i. rewrite covered_by_cons, A3. unfold entry_covers; cbn [fst snd r_dst moved]. lia.
Qed.

(* the request sizes: never zero, never above the block size *)
Lemma copy_bytes_reqs fuel : forall bs len w cur ans e,
  0 < bs -> In e (o_trace (copy_bytes fuel bs len w cur ans)) ->
  1 <= r_len (fst e) <= bs /\ r_src (fst e) = r_dst (fst e).
Proof.
  induction fuel as [|f IH]; intros bs len w cur ans e Hbs; cbn [copy_bytes].
  - destruct (len <=? w); intros [].
  - destruct (N.leb_spec len w); [intros []|].
    destruct ans as [|[k|err] rest]; cbn [o_trace out_cons]; [intros []| |].
    + destruct (k =? 0); cbn [o_trace out_cons].
      * intros [<-|[]]. cbn; lia.
      * intros [<-|Hin]; [cbn; lia|]. eapply IH; eauto.
    + intros [<-|[]]. cbn; lia.
Qed.

(* bounded number of kernel calls: at most len - w requests are issued, for
   EVERY answer sequence (a zero-byte answer ends the loop with an error) —
   C07's loop bound *)
Lemma copy_bytes_steps fuel : forall bs len w cur ans,
  N.of_nat (length (o_trace (copy_bytes fuel bs len w cur ans))) <= len - w.
Proof.
  induction fuel as [|f IH]; intros bs len w cur ans; cbn [copy_bytes].
  - destruct (len <=? w); cbn; lia.
  - destruct (N.leb_spec len w); [cbn; lia|].
    destruct ans as [|[k|err] rest]; cbn [o_trace out_cons length]; [lia| |lia].
    destruct (N.eqb_spec k 0) as [->|Hk0]; cbn [o_trace out_cons length]; [lia|].
    specialize (IH bs len (w + k) (cur + k) rest). lia.
Qed.

(* ------------------------------------------------------------------ *)
(* block jobs                                                          *)
(* ------------------------------------------------------------------ *)
Lemma block_job_fuel fuel : forall flen off bytes done ans,
  (length ans < fuel)%nat -> o_st (block_job fuel flen off bytes done ans) <> StOutOfFuel.
Proof.
  induction fuel as [|f IH]; intros flen off bytes done ans Hf; [lia|].
  cbn [block_job]. destruct ans as [|[k|e] rest]; cbn; try discriminate.
  destruct (k =? 0); [cbn; destruct (flen <=? off + done); discriminate|].
  destruct (bytes <=? done + k); [cbn; discriminate|].
  cbn. apply IH. cbn [length] in Hf. lia.
Qed.

(* a successful block job: aligned, inside its block, and covering every byte
   of the block that lies inside the source *)
Lemma block_job_exact fuel : forall flen off bytes done ans,
  done <= bytes ->
  let o := block_job fuel flen off bytes done ans in
  o_st o = StOk -> ans_bounded (o_trace o) ->
  aligned (o_trace o) /\
  (forall i, covered_by (o_trace o) i -> off + done <= i < off + bytes) /\
  (forall i, off + done <= i < off + bytes -> i < flen -> covered_by (o_trace o) i).
Proof.
  induction fuel as [|f IH]; intros flen off bytes done ans Hd; cbn [block_job]; [cbn; discriminate|].
  destruct ans as [|[k|e] rest]; cbn [o_st o_trace]; try discriminate.
  destruct (N.eqb_spec k 0) as [->|Hk0].
  - cbn [o_st o_trace]. destruct (N.leb_spec flen (off + done)); [|discriminate].
    intros _ _. split; [repeat constructor|]. split.
    + intros i (e & [<-|[]] & Hc). unfold entry_covers in Hc; cbn in Hc. lia.
    + intros i Hi Hlt. lia.
  - destruct (N.leb_spec bytes (done + k)).
    + cbn [o_st o_trace]. intros _ Hb. inversion Hb as [|? ? Hk Hb']; subst.
      cbn [fst snd moved r_len] in Hk.
      split; [repeat constructor|]. split.
      * intros i (e & [<-|[]] & Hc). unfold entry_covers in Hc; cbn in Hc. lia.
      * intros i Hi _. exists (mkReq (off + done) (off + done) (bytes - done), XOk k).
        split; [now left|]. unfold entry_covers; cbn. lia.
    + cbn [o_st o_trace out_cons]. intros Hst Hb. inversion Hb as [|? ? Hk Hb']; subst.
      cbn [fst snd moved r_len] in Hk.
      assert (done + k <= bytes) as Hd' by lia.
      destruct (IH flen off bytes (done + k) rest Hd' Hst Hb') as (A1 & A2 & A3).
      split; [constructor; [reflexivity|exact A1]|]. split.
      * intros i Hc. apply covered_by_cons in Hc. destruct Hc as [Hc|Hc].
        -- unfold entry_covers in Hc; cbn in Hc. lia.
        -- apply A2 in Hc. lia.
      * intros i Hi Hlt. apply covered_by_cons.
        destruct (N.lt_ge_cases i (off + done + k)).
        -- left. unfold entry_covers; cbn. lia.
        -- right. apply A3; lia.
Qed.

(* the pinned (unrepaired) block job reports success after a short transfer *)
Lemma block_job_pinned_short_refuted :
  exists off bytes ans i,
    let o := block_job_pinned off bytes ans in
    o_st o = StOk /\ ans_bounded (o_trace o) /\ off <= i < off + bytes /\ ~ covered_by (o_trace o) i.
Proof.
  exists 0, 10000, [XOk 3000], 3000. cbn. split; [reflexivity|].
  split; [repeat constructor; cbn; lia|]. split; [lia|].
  intros (e & [<-|[]] & Hc). unfold entry_covers in Hc; cbn in Hc. lia.
Qed.

(* ------------------------------------------------------------------ *)
(* copy_sparse                                                         *)
(* ------------------------------------------------------------------ *)
Lemma copy_sparse_spec bs len : forall R D pos fuel ans,
  (forall s e, In (s, e) D -> s < e /\ e <= pos) ->
  layout_ok pos len R ->
  let o := copy_sparse fuel bs len pos (k_seek_data (D ++ R) len) (k_seek_hole (D ++ R) len) ans in
  o_st o = StOk -> ans_bounded (o_trace o) ->
  aligned (o_trace o) /\ (forall i, covered_by (o_trace o) i <-> in_data R i).
Proof.
  induction R as [|[s e] r IH]; intros D pos fuel ans HD HR.
  - destruct fuel as [|f]; cbn [copy_sparse].
    + destruct (N.leb_spec len pos); cbn; [|discriminate]. intros _ _.
      split; [constructor|]. intros i; split; [intros H0; now apply covered_by_nil in H0|intros (?&?&[]&_)].
    + destruct (N.leb_spec len pos) as [Hle|Hlt].
      * cbn. intros _ _. split; [constructor|].
        intros i; split; [intros H0; now apply covered_by_nil in H0|intros (?&?&[]&_)].
      * unfold next_segment. rewrite app_nil_r.
        rewrite <- (app_nil_r D), k_seek_data_skip by (intros ? ? Hi; now apply HD in Hi).
        cbn [k_seek_data]. destruct (N.leb_spec len pos); [lia|].
        rewrite k_seek_hole_skip by (intros s0 e0 Hi; apply HD in Hi; lia).
        cbn [k_seek_hole]. rewrite N.leb_refl.
        destruct (N.leb_spec len pos) as [Hg|Hg]; [lia|]. rewrite N.ltb_irrefl. cbn [orb].
        rewrite N.sub_diag.
        cbn [copy_bytes]. cbn [N.leb]. replace (0 <=? 0) with true by reflexivity.
        cbn [o_st o_trace o_rest out_app app].
        destruct f as [|f']; cbn [copy_sparse]; rewrite N.leb_refl; cbn.
        -- intros _ _. split; [constructor|].
           intros i; split; [intros H0; now apply covered_by_nil in H0|intros (?&?&[]&_)].
        -- intros _ _. split; [constructor|].
           intros i; split; [intros H0; now apply covered_by_nil in H0|intros (?&?&[]&_)].
  - cbn [layout_ok] in HR. destruct HR as (H1 & H2 & H3 & H4 & H5).
    destruct fuel as [|f]; cbn [copy_sparse].
    + destruct (N.leb_spec len pos); [lia|]. cbn; discriminate.
    + destruct (N.leb_spec len pos); [lia|].
      unfold next_segment.
      rewrite k_seek_data_skip by (intros ? ? Hi; now apply HD in Hi).
      cbn [k_seek_data]. destruct (N.leb_spec len pos); [lia|].
      destruct (N.ltb_spec pos e); [|lia].
      replace (N.max pos s) with s by lia.
      rewrite k_seek_hole_skip by (intros s0 e0 Hi; apply HD in Hi; lia).
      cbn [k_seek_hole]. destruct (N.leb_spec len s); [lia|].
      destruct (N.ltb_spec s s); [lia|]. destruct (N.ltb_spec s e); [|lia].
      destruct (N.leb_spec e pos) as [Hg1|Hg1]; [lia|]. destruct (N.ltb_spec e s) as [Hg2|Hg2]; [lia|]. cbn [orb].
      set (cb := copy_bytes (S (length ans)) bs (e - s) 0 s ans).
      destruct (o_st cb) eqn:Ecb.
      2-4: (intros Hst; rewrite Ecb in Hst; discriminate).
      cbn [o_st o_trace out_app]. intros Hst Hb.
      unfold ans_bounded in Hb. apply Forall_app in Hb. destruct Hb as [Hb1 Hb2].
      assert (0 <= e - s) as Hz by lia.
      destruct (copy_bytes_exact (S (length ans)) bs (e - s) 0 s ans Hz Ecb Hb1) as (C1 & C2 & C3).
      fold cb in C1, C2, C3.
      replace (D ++ (s, e) :: r) with ((D ++ [(s, e)]) ++ r) in Hst, Hb2 |- * by (now rewrite <- app_assoc).
      assert (forall s0 e0, In (s0, e0) (D ++ [(s, e)]) -> s0 < e0 /\ e0 <= e) as HD'.
      { intros s0 e0 Hi. apply in_app_or in Hi. destruct Hi as [Hi|[Hi|[]]].
        - apply HD in Hi. lia.
        - injection Hi as <- <-. lia. }
      destruct (IH (D ++ [(s, e)]) e f (o_rest cb) HD' H5 Hst Hb2) as (I1 & I2).
      split; [apply aligned_app; split; assumption|].
      intros i. rewrite covered_by_app, C3, I2. unfold in_data. split.
      * intros [Hi|(s' & e' & Hin & Hi)].
        -- exists s, e. split; [now left|lia].
        -- exists s', e'. split; [now right|assumption].
      * intros (s' & e' & [Hin|Hin] & Hi).
        -- injection Hin as <- <-. left. lia.
        -- right. exists s', e'. split; assumption.
Qed.

(* ------------------------------------------------------------------ *)
(* copy_sparse terminates whatever the seek calls answer (C07)          *)
(* ------------------------------------------------------------------ *)
Lemma copy_bytes_not_oof bs len w cur ans : o_st (copy_bytes (S (length ans)) bs len w cur ans) <> StOutOfFuel.
Proof. apply copy_bytes_fuel. lia. Qed.

Lemma out_app_st t o : o_st (out_app t o) = o_st o.
Proof. destruct o; reflexivity. Qed.

(* with the progress guard every iteration either ends the walk or moves pos strictly forward, so len - pos
   iterations suffice for ANY answers of lseek/fstat (sd, sh) and of the copy calls (ans) *)
Lemma copy_sparse_fuel : forall fuel bs len pos sd sh ans,
  (N.to_nat (len - pos) < fuel)%nat -> o_st (copy_sparse fuel bs len pos sd sh ans) <> StOutOfFuel.
Proof.
  induction fuel as [|f IH]; intros bs len pos sd sh ans Hf; [lia|].
  cbn [copy_sparse]. destruct (N.leb_spec len pos) as [Hle|Hlt]; [cbn; discriminate|].
  destruct (next_segment sd sh len pos) as [[d h]|e]; [|cbn; discriminate].
  destruct (N.leb_spec h pos) as [Hhp|Hhp]; cbn [orb]; [cbn; discriminate|].
  destruct (N.ltb_spec h d) as [Hhd|Hhd]; [cbn; discriminate|].
  pose proof (copy_bytes_not_oof bs (h - d) 0 d ans) as Hcb.
  destruct (o_st (copy_bytes (S (length ans)) bs (h - d) 0 d ans)) eqn:Ecb; try (rewrite Ecb; discriminate); try congruence.
  rewrite out_app_st. apply IH. lia.
Qed.

(* the walk as it was before repair 61ae7c3 spins: with answers a shrinking source produces (everything at or
   after pos is gone: both seeks land on the new end T <= pos) no amount of fuel lets it finish *)
Lemma copy_sparse_pinned_spins : exists bs len sd sh, forall fuel,
  o_st (copy_sparse_pinned fuel bs len 0 sd sh []) = StOutOfFuel.
Proof.
  exists 4096, 10, (fun _ => SkOff 0), (fun _ => SkOff 0). induction fuel as [|f IH]; [reflexivity|].
  cbn [copy_sparse_pinned]. change (10 <=? 0) with false. cbn [next_segment]. cbn [N.sub copy_bytes length].
  change (0 - 0 <=? 0) with true. cbn [o_st o_trace o_rest]. rewrite out_app_st. exact IH.
Qed.

(* ... and the repaired walk reports the premature end on the same answers *)
Lemma copy_sparse_shrunk_source_fails : forall fuel,
  o_st (copy_sparse (S fuel) 4096 10 0 (fun _ => SkOff 0) (fun _ => SkOff 0) []) = StErr EPREMATURE.
Proof. intros. reflexivity. Qed.

(* ------------------------------------------------------------------ *)
(* progress accounting (C12): a loop never reports more bytes copied    *)
(* than it was asked to copy, whatever its outcome                      *)
(* ------------------------------------------------------------------ *)
Lemma copied_updates_total tr : sumN (copied_updates tr) = total_moved tr.
Proof.
  unfold copied_updates, total_moved. induction tr as [|[r [k|e]] t IH]; cbn [flat_map map sumN app snd moved]; lia.
Qed.

Lemma copy_bytes_total_le fuel : forall bs len w cur ans,
  w <= len -> ans_bounded (o_trace (copy_bytes fuel bs len w cur ans)) ->
  total_moved (o_trace (copy_bytes fuel bs len w cur ans)) <= len - w.
Proof.
  induction fuel as [|f IH]; intros bs len w cur ans Hw; cbn [copy_bytes].
  - destruct (len <=? w); cbn; unfold total_moved; cbn; lia.
  - destruct (N.leb_spec len w); [unfold total_moved; cbn; lia|].
    destruct ans as [|[k|e] rest]; cbn [o_trace out_cons]; [unfold total_moved; cbn; lia| |].
    + destruct (N.eqb_spec k 0) as [->|Hk0]; cbn [o_trace out_cons]; [intros _; unfold total_moved; cbn; lia|].
      intros Hb. inversion Hb as [|? ? Hk Hb']; subst. cbn [fst snd moved r_len] in Hk.
      assert (w + k <= len) as Hw' by lia. specialize (IH bs len (w + k) (cur + k) rest Hw' Hb').
      unfold total_moved in *. cbn [map sumN snd moved]. lia.
    + intros _. unfold total_moved. cbn. lia.
Qed.

Lemma block_job_total_le fuel : forall flen off bytes done ans,
  done <= bytes -> ans_bounded (o_trace (block_job fuel flen off bytes done ans)) ->
  total_moved (o_trace (block_job fuel flen off bytes done ans)) <= bytes - done.
Proof.
  induction fuel as [|f IH]; intros flen off bytes done ans Hd; cbn [block_job]; [unfold total_moved; cbn; lia|].
  destruct ans as [|[k|e] rest]; cbn [o_trace]; [unfold total_moved; cbn; lia| |unfold total_moved; cbn; lia].
  destruct (N.eqb_spec k 0) as [->|Hk0]; [unfold total_moved; cbn; lia|].
  destruct (N.leb_spec bytes (done + k)); cbn [o_trace out_cons].
  - intros Hb. inversion Hb as [|? ? Hk _]; subst. cbn [fst snd moved r_len] in Hk. unfold total_moved; cbn. lia.
  - intros Hb. inversion Hb as [|? ? Hk Hb']; subst. cbn [fst snd moved r_len] in Hk.
    assert (done + k <= bytes) as Hd' by lia. specialize (IH flen off bytes (done + k) rest Hd' Hb').
    unfold total_moved in *. cbn [map sumN snd moved]. lia.
Qed.

(* ------------------------------------------------------------------ *)
(* loop bounds that do not depend on the supply of answers (C07): the   *)
(* number of kernel requests a block job issues is bounded by the size  *)
(* of its block, whatever the kernel answers and however much fuel      *)
(* ------------------------------------------------------------------ *)
Lemma block_job_steps fuel : forall flen off bytes done ans,
  N.of_nat (length (o_trace (block_job fuel flen off bytes done ans))) <= (bytes - done) + 1.
Proof.
  induction fuel as [|f IH]; intros flen off bytes done ans; cbn [block_job]; [cbn; lia|].
  destruct ans as [|[k|e] rest]; cbn [o_trace length]; [lia| |lia].
  destruct (N.eqb_spec k 0) as [->|Hk0]; cbn [o_trace length]; [lia|].
  destruct (N.leb_spec bytes (done + k)) as [Hc|Hc]; cbn [o_trace out_cons length]; [lia|].
  specialize (IH flen off bytes (done + k) rest). lia.
Qed.
