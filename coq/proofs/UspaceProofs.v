From XcpModel Require Import Base CopyLoop Uspace.
From XcpProofs Require Import CopyLoopProofs.

Lemma moves_app t1 t2 : moves (t1 ++ t2) = moves t1 ++ moves t2.
Proof. unfold moves. apply flat_map_app. Qed.

Lemma uans_bounded_app t1 t2 : uans_bounded (t1 ++ t2) <-> uans_bounded t1 /\ uans_bounded t2.
Proof. unfold uans_bounded. apply Forall_app. Qed.

(* ---------------- copy_range_uspace ---------------- *)
Lemma copy_range_uspace_exact fuel : forall nbytes off w ans,
  w <= nbytes ->
  let o := copy_range_uspace fuel nbytes off w ans in
  u_st o = StOk -> uans_bounded (u_trace o) ->
  u_ret o = N.max w nbytes /\
  aligned (moves (u_trace o)) /\
  (forall i, covered_by (moves (u_trace o)) i <-> off + w <= i < off + nbytes).
Proof.
  induction fuel as [|f IH]; intros nbytes off w ans Hw; cbn [copy_range_uspace].
  - destruct (N.leb_spec nbytes w); cbn; [|discriminate]. intros _ _.
    split; [lia|]. split; [constructor|].
    intros i; split; [intros H0; now apply covered_by_nil in H0|lia].
  - destruct (N.leb_spec nbytes w).
    + cbn. intros _ _. split; [lia|]. split; [constructor|].
      intros i; split; [intros H0; now apply covered_by_nil in H0|lia].
    + destruct ans as [|[rlen|e] rest]; cbn [u_st]; try discriminate.
      destruct (N.eqb_spec rlen 0) as [->|Hr0]; cbn [u_st]; [discriminate|].
      destruct rest as [|[wlen|e] rest']; cbn [u_st]; try discriminate.
      destruct (N.ltb_spec wlen rlen); cbn [u_st u_app u_trace u_ret]; [discriminate|].
      intros Hst Hb. apply uans_bounded_app in Hb. destruct Hb as [Hb1 Hb2].
      inversion Hb1 as [|? ? Hk1 Hb1']; subst. inversion Hb1' as [|? ? Hk2 _]; subst.
      cbn in Hk1, Hk2.
      assert (w + rlen <= nbytes) as Hw' by lia.
      destruct (IH nbytes off (w + rlen) rest' Hw' Hst Hb2) as (A1 & A2 & A3).
      split; [lia|]. rewrite moves_app. cbn [moves flat_map app].
      split; [constructor; [reflexivity|exact A2]|].
      intros i. rewrite covered_by_cons. fold (moves (u_trace (copy_range_uspace f nbytes off (w + rlen) rest'))).
      rewrite A3. unfold entry_covers; cbn [fst snd r_dst moved]. lia.
Qed.

(* ---------------- write_all ---------------- *)
Lemma write_all_exact fuel : forall cur n ans,
  let o := write_all fuel cur cur n ans in
  u_st o = StOk -> uans_bounded (u_trace o) ->
  aligned (moves (u_trace o)) /\
  (forall i, covered_by (moves (u_trace o)) i <-> cur <= i < cur + n).
Proof.
  induction fuel as [|f IH]; intros cur n ans; cbn [write_all].
  - destruct (N.eqb_spec n 0) as [->|]; cbn; [|discriminate]. intros _ _.
    split; [constructor|]. intros i; split; [intros H0; now apply covered_by_nil in H0|lia].
  - destruct (N.eqb_spec n 0) as [->|Hn].
    + cbn. intros _ _. split; [constructor|].
      intros i; split; [intros H0; now apply covered_by_nil in H0|lia].
    + destruct ans as [|[k|e] rest]; cbn [u_st]; try discriminate.
      * destruct (N.eqb_spec k 0) as [->|Hk0]; cbn [u_st u_cons u_trace]; [discriminate|].
        intros Hst Hb. inversion Hb as [|? ? Hk Hb']; subst. cbn in Hk.
        replace (N.min k n) with k in * by lia.
        destruct (IH (cur + k) (n - k) rest Hst Hb') as (A1 & A2).
        cbn [moves flat_map app]. replace (N.min k n) with k by lia.
        split; [constructor; [reflexivity|exact A1]|].
        intros i. rewrite covered_by_cons.
        fold (moves (u_trace (write_all f (cur + k) (cur + k) (n - k) rest))).
        rewrite A2. unfold entry_covers; cbn [fst snd r_dst moved]. lia.
      * destruct (e =? EINTR); cbn [u_st u_cons u_trace]; [|discriminate].
        intros Hst Hb. inversion Hb as [|? ? _ Hb']; subst.
        destruct (IH cur n rest Hst Hb') as (A1 & A2).
        cbn [moves flat_map app]. split; assumption.
Qed.

(* ---------------- copy_bytes_uspace ---------------- *)
Lemma copy_bytes_uspace_exact fuel : forall nbytes cur w ans,
  w <= nbytes ->
  let o := copy_bytes_uspace fuel nbytes cur cur w ans in
  u_st o = StOk -> uans_bounded (u_trace o) ->
  u_ret o = N.max w nbytes /\
  aligned (moves (u_trace o)) /\
  (forall i, covered_by (moves (u_trace o)) i <-> cur <= i < cur + (nbytes - w)).
Proof.
  induction fuel as [|f IH]; intros nbytes cur w ans Hw; cbn [copy_bytes_uspace].
  - destruct (N.leb_spec nbytes w); cbn; [|discriminate]. intros _ _.
    split; [lia|]. split; [constructor|].
    intros i; split; [intros H0; now apply covered_by_nil in H0|lia].
  - destruct (N.leb_spec nbytes w).
    + cbn. intros _ _. split; [lia|]. split; [constructor|].
      intros i; split; [intros H0; now apply covered_by_nil in H0|lia].
    + destruct ans as [|[len|e] rest]; cbn [u_st]; try discriminate.
      * destruct (N.eqb_spec len 0) as [->|Hl0]; cbn [u_st]; [discriminate|].
        set (wa := write_all (S (length rest)) cur cur len rest).
        destruct (u_st wa) eqn:Ewa; cbn [u_st u_app u_trace u_ret]; try discriminate.
        intros Hst Hb.
        change ((URead cur (nbytes - w), XOk len) :: u_trace wa ++ u_trace (copy_bytes_uspace f nbytes (cur + len) (cur + len) (w + len) (u_rest wa)))
          with (((URead cur (nbytes - w), XOk len) :: u_trace wa) ++ u_trace (copy_bytes_uspace f nbytes (cur + len) (cur + len) (w + len) (u_rest wa))) in Hb |- *.
        apply uans_bounded_app in Hb. destruct Hb as [Hb1 Hb2].
        inversion Hb1 as [|? ? Hk Hb1']; subst. cbn in Hk.
        destruct (write_all_exact (S (length rest)) cur len rest Ewa Hb1') as (W1 & W2). fold wa in W1, W2.
        assert (w + len <= nbytes) as Hw' by lia.
        destruct (IH nbytes (cur + len) (w + len) (u_rest wa) Hw' Hst Hb2) as (A1 & A2 & A3).
        split; [lia|]. rewrite moves_app. cbn [moves flat_map app].
        fold (moves (u_trace wa)).
        split; [apply aligned_app; split; assumption|].
        intros i. rewrite covered_by_app, W2, A3. lia.
      * destruct (e =? EINTR); cbn [u_st u_cons u_trace u_ret]; [|discriminate].
        intros Hst Hb. inversion Hb as [|? ? _ Hb']; subst.
        destruct (IH nbytes cur w rest Hw Hst Hb') as (A1 & A2 & A3).
        cbn [moves flat_map app]. split; [assumption|]. split; assumption.
Qed.

(* fuel: one answer is consumed per system call, so fuel > #answers suffices *)
Lemma copy_range_uspace_fuel fuel : forall nbytes off w ans,
  (length ans < fuel)%nat -> u_st (copy_range_uspace fuel nbytes off w ans) <> StOutOfFuel.
Proof.
  induction fuel as [|f IH]; intros nbytes off w ans Hf; [lia|].
  cbn [copy_range_uspace]. destruct (nbytes <=? w); [cbn; discriminate|].
  destruct ans as [|[rlen|e] rest]; cbn; try discriminate.
  destruct (rlen =? 0); [cbn; discriminate|].
  destruct rest as [|[wlen|e] rest']; cbn; try discriminate.
  destruct (wlen <? rlen); cbn; [discriminate|]. apply IH. cbn [length] in Hf. lia.
Qed.
