From XcpModel Require Import Base CopyLoop Uspace.
From XcpProofs Require Import CopyLoopProofs.

Lemma moves_app t1 t2 : moves (t1 ++ t2) = moves t1 ++ moves t2.
Proof. unfold moves. apply flat_map_app. Qed.

Lemma uans_bounded_app t1 t2 : uans_bounded (t1 ++ t2) <-> uans_bounded t1 /\ uans_bounded t2.
Proof. unfold uans_bounded. apply Forall_app. Qed.

(* ---------------- copy_range_uspace ---------------- *)
Lemma copy_range_uspace_exact fuel : forall nbytes off w ans,
  w <= nbytes ->
  let o := copy_range_uspace fuel nbytes off w ans in
  u_st o = StOk -> uans_bounded (u_trace o) ->
  u_ret o = N.max w nbytes /\
  aligned (moves (u_trace o)) /\
  (forall i, covered_by (moves (u_trace o)) i <-> off + w <= i < off + nbytes).
Proof.
  induction fuel as [|f IH]; intros nbytes off w ans Hw; cbn [copy_range_uspace].
  - destruct (N.leb_spec nbytes w); cbn; [|discriminate]. intros _ _.
    split; [lia|]. split; [constructor|].
    intros i; split; [intros H0; now apply covered_by_nil in H0|lia].
  - destruct (N.leb_spec nbytes w).
    + cbn. intros _ _. split; [lia|]. split; [constructor|].
      intros i; split; [intros H0; now apply covered_by_nil in H0|lia].
    + destruct ans as [|[rlen|e] rest]; cbn [u_st]; try discriminate.
      destruct (N.eqb_spec rlen 0) as [->|Hr0]; cbn [u_st]; [discriminate|].
      destruct rest as [|[wlen|e] rest']; cbn [u_st]; try discriminate.
      destruct (N.ltb_spec wlen rlen); cbn [u_st u_app u_trace u_ret]; [discriminate|].
      intros Hst Hb. apply uans_bounded_app in Hb. destruct Hb as [Hb1 Hb2].
      inversion Hb1 as [|? ? Hk1 Hb1']; subst. inversion Hb1' as [|? ? Hk2 _]; subst.
      cbn in Hk1, Hk2.
      assert (w + rlen <= nbytes) as Hw' by lia.
      destruct (IH nbytes off (w + rlen) rest' Hw' Hst Hb2) as (A1 & A2 & A3).
      split; [lia|]. rewrite moves_app. cbn [moves flat_map app].
      split; [constructor; [reflexivity|exact A2]|].
      intros i. rewrite covered_by_cons. fold (moves (u_trace (copy_range_uspace f nbytes off (w + rlen) rest'))).
      rewrite A3. unfold entry_covers; cbn [fst snd r_dst moved]. lia.
Qed.

(* ---------------- write_all ---------------- *)
Lemma write_all_exact fuel : forall cur n ans,
  let o := write_all fuel cur cur n ans in
  u_st o = StOk -> uans_bounded (u_trace o) ->
  aligned (moves (u_trace o)) /\
  (forall i, covered_by (moves (u_trace o)) i <-> cur <= i < cur + n).
Proof.
  induction fuel as [|f IH]; intros cur n ans; cbn [write_all].
  - destruct (N.eqb_spec n 0) as [->|]; cbn; [|discriminate]. intros _ _.
    split; [constructor|]. intros i; split; [intros H0; now apply covered_by_nil in H0|lia].
  - destruct (N.eqb_spec n 0) as [->|Hn].
    + cbn. intros _ _. split; [constructor|].
      intros i; split; [intros H0; now apply covered_by_nil in H0|lia].
    + destruct ans as [|[k|e] rest]; cbn [u_st]; try discriminate.
      * destruct (N.eqb_spec k 0) as [->|Hk0]; cbn [u_st u_cons u_trace]; [discriminate|].
        intros Hst Hb. inversion Hb as [|? ? Hk Hb']; subst. cbn in Hk.
        replace (N.min k n) with k in * by lia.
        destruct (IH (cur + k) (n - k) rest Hst Hb') as (A1 & A2).
        cbn [moves flat_map app]. replace (N.min k n) with k by lia.
        split; [constructor; [reflexivity|exact A1]|].
        intros i. rewrite covered_by_cons.
        fold (moves (u_trace (write_all f (cur + k) (cur + k) (n - k) rest))).
        rewrite A2. unfold entry_covers; cbn [fst snd r_dst moved]. lia.
      * destruct (e =? EINTR); cbn [u_st u_cons u_trace]; [|discriminate].
        intros Hst Hb. inversion Hb as [|? ? _ Hb']; subst.
        destruct (IH cur n rest Hst Hb') as (A1 & A2).
        cbn [moves flat_map app]. split; assumption.
Qed.

(* ---------------- copy_bytes_uspace ---------------- *)
Lemma copy_bytes_uspace_exact fuel : forall nbytes cur w ans,
  w <= nbytes ->
  let o := copy_bytes_uspace fuel nbytes cur cur w ans in
  u_st o = StOk -> uans_bounded (u_trace o) ->
  u_ret o = N.max w nbytes /\
  aligned (moves (u_trace o)) /\
  (forall i, covered_by (moves (u_trace o)) i <-> cur <= i < cur + (nbytes - w)).
Proof.
  induction fuel as [|f IH]; intros nbytes cur w ans Hw; cbn [copy_bytes_uspace].
  - destruct (N.leb_spec nbytes w); cbn; [|discriminate]. intros _ _.
    split; [lia|]. split; [constructor|].
    intros i; split; [intros H0; now apply covered_by_nil in H0|lia].
  - destruct (N.leb_spec nbytes w).
    + cbn. intros _ _. split; [lia|]. split; [constructor|].
      intros i; split; [intros H0; now apply covered_by_nil in H0|lia].
    + destruct ans as [|[len|e] rest]; cbn [u_st]; try discriminate.
      * destruct (N.eqb_spec len 0) as [->|Hl0]; cbn [u_st]; [discriminate|].
        set (wa := write_all (S (length rest)) cur cur len rest).
        destruct (u_st wa) eqn:Ewa; cbn [u_st u_app u_trace u_ret]; try discriminate.
        intros Hst Hb.
        change ((URead cur (nbytes - w), XOk len) :: u_trace wa ++ u_trace (copy_bytes_uspace f nbytes (cur + len) (cur + len) (w + len) (u_rest wa)))
          with (((URead cur (nbytes - w), XOk len) :: u_trace wa) ++ u_trace (copy_bytes_uspace f nbytes (cur + len) (cur + len) (w + len) (u_rest wa))) in Hb |- *.
        apply uans_bounded_app in Hb. destruct Hb as [Hb1 Hb2].
        inversion Hb1 as [|? ? Hk Hb1']; subst. cbn in Hk.
        destruct (write_all_exact (S (length rest)) cur len rest Ewa Hb1') as (W1 & W2). fold wa in W1, W2.
        assert (w + len <= nbytes) as Hw' by lia.
        destruct (IH nbytes (cur + len) (w + len) (u_rest wa) Hw' Hst Hb2) as (A1 & A2 & A3).
        split; [lia|]. rewrite moves_app. cbn [moves flat_map app].
        fold (moves (u_trace wa)).
        split; [apply aligned_app; split; assumption|].
        intros i. rewrite covered_by_app, W2, A3. lia.
      * destruct (e =? EINTR); cbn [u_st u_cons u_trace u_ret]; [|discriminate].
        intros Hst Hb. inversion Hb as [|? ? _ Hb']; subst.
        destruct (IH nbytes cur w rest Hw Hst Hb') as (A1 & A2 & A3).
        cbn [moves flat_map app]. split; [assumption|]. split; assumption.
Qed.

(* fuel: one answer is consumed per system call, so fuel > #answers suffices *)
Lemma copy_range_uspace_fuel fuel : forall nbytes off w ans,
  (length ans < fuel)%nat -> u_st (copy_range_uspace fuel nbytes off w ans) <> StOutOfFuel.
Proof.
  induction fuel as [|f IH]; intros nbytes off w ans Hf; [lia|].
  cbn [copy_range_uspace]. destruct (nbytes <=? w); [cbn; discriminate|].
  destruct ans as [|[rlen|e] rest]; cbn; try discriminate.
  destruct (rlen =? 0); [cbn; discriminate|].
  destruct rest as [|[wlen|e] rest']; cbn; try discriminate.
  destruct (wlen <? rlen); cbn; [discriminate|]. apply IH. cbn [length] in Hf. lia.
Qed.

(* ------------------------------------------------------------------ *)
(* loop bounds independent of the supply of answers (C07)              *)
(* ------------------------------------------------------------------ *)
(* copy_range_uspace: every iteration moves at least one byte (a zero-byte read is an error), so the loop issues at
   most two calls per outstanding byte — for ANY answers and ANY fuel *)
Lemma copy_range_uspace_steps fuel : forall nbytes off w ans,
  N.of_nat (length (u_trace (copy_range_uspace fuel nbytes off w ans))) <= 2 * (nbytes - w).
Proof.
  induction fuel as [|f IH]; intros nbytes off w ans; cbn [copy_range_uspace].
  - destruct (nbytes <=? w); cbn; lia.
  - destruct (N.leb_spec nbytes w) as [Hd|Hd]; [cbn; lia|].
    destruct ans as [|[rlen|e] rest]; cbn [u_trace length]; [lia| |lia].
    destruct (N.eqb_spec rlen 0) as [->|Hr]; cbn [u_trace length]; [lia|].
    destruct rest as [|[wlen|e] rest']; cbn [u_trace length]; [lia| |lia].
    destruct (wlen <? rlen); cbn [u_trace u_app length app]; [lia|].
    specialize (IH nbytes off (w + rlen) rest'). lia.
Qed.

(* the same loop WITHOUT the zero-byte arm (a tempting simplification) spins: kept as the reason the arm matters *)
Fixpoint copy_range_uspace_noguard (fuel : nat) (nbytes off written : N) (ans : list xans) : status :=
  if nbytes <=? written then StOk else
  match fuel with
  | O => StOutOfFuel
  | S f =>
      match ans with
      | XOk rlen :: XOk wlen :: rest' =>
          if wlen <? rlen then StErr EWRITESHORT else copy_range_uspace_noguard f nbytes off (written + rlen) rest'
      | _ => StStuck
      end
  end.
Lemma copy_range_uspace_noguard_spins : forall fuel,
  copy_range_uspace_noguard fuel 1 0 0 (repeat (XOk 0) (2 * fuel)) = StOutOfFuel.
Proof.
  induction fuel as [|f IH]; [reflexivity|].
  replace (2 * S f)%nat with (S (S (2 * f))) by lia. cbn [repeat copy_range_uspace_noguard].
  change (1 <=? 0) with false. change (0 <? 0) with false. cbn [N.add]. exact IH.
Qed.

Definition is_eintr (e : ucall * xans) : bool := match snd e with XErr n => n =? EINTR | _ => false end.
Definition effective (t : utrace) : utrace := filter (fun e => negb (is_eintr e)) t.

(* write_all: apart from EINTR retries, at most n calls for a buffer of n bytes (n >= 1) *)
Lemma write_all_steps fuel : forall src wpos n ans,
  N.of_nat (length (effective (u_trace (write_all fuel src wpos n ans)))) <= n.
Proof.
  induction fuel as [|f IH]; intros src wpos n ans; cbn [write_all].
  - destruct (n =? 0); cbn; lia.
  - destruct (N.eqb_spec n 0) as [->|Hn]; [cbn; lia|].
    destruct ans as [|[k|e] rest]; [cbn; lia| |].
    + destruct (N.eqb_spec k 0) as [->|Hk]; [cbn; lia|].
      cbn [u_trace u_cons]. unfold effective. cbn [filter is_eintr snd negb length].
      specialize (IH (src + N.min k n) (wpos + N.min k n) (n - k) rest). unfold effective in IH. lia.
    + destruct (N.eqb_spec e EINTR) as [->|He].
      * cbn [u_trace u_cons]. unfold effective. cbn [filter is_eintr snd]. rewrite N.eqb_refl. cbn [negb].
        apply IH.
      * unfold effective. cbn [u_trace filter is_eintr snd]. apply N.eqb_neq in He. rewrite He. cbn [negb length]. lia.
Qed.

Lemma effective_app t1 t2 : effective (t1 ++ t2) = effective t1 ++ effective t2.
Proof. unfold effective. apply filter_app. Qed.
Lemma effective_cons e t : effective (e :: t) = if is_eintr e then effective t else e :: effective t.
Proof. unfold effective. cbn [filter]. now destruct (is_eintr e). Qed.

(* copy_bytes_uspace: apart from EINTR retries (which std repeats without bound, like every cp), at most two calls per
   outstanding byte when the kernel honours the read contract (never more than asked) — for ANY such answers, ANY fuel *)
Lemma copy_bytes_uspace_steps fuel : forall nbytes rpos wpos w ans,
  uans_bounded (u_trace (copy_bytes_uspace fuel nbytes rpos wpos w ans)) ->
  N.of_nat (length (effective (u_trace (copy_bytes_uspace fuel nbytes rpos wpos w ans)))) <= 2 * (nbytes - w).
Proof.
  induction fuel as [|f IH]; intros nbytes rpos wpos w ans; cbn [copy_bytes_uspace].
  - destruct (nbytes <=? w); cbn; lia.
  - destruct (N.leb_spec nbytes w) as [Hd|Hd]; [cbn; lia|].
    destruct ans as [|[len|e] rest]; [cbn; lia| |].
    + destruct (N.eqb_spec len 0) as [->|Hl]; [cbn; lia|].
      pose proof (write_all_steps (S (length rest)) rpos wpos len rest) as Hw.
      remember (write_all (S (length rest)) rpos wpos len rest) as wa eqn:Ewa. clear Ewa.
      destruct (u_st wa) eqn:Ew.
      * cbn [u_trace u_app]. rewrite <- app_comm_cons. intros Hb. inversion Hb as [|? ? Hk Hb']; subst.
        apply uans_bounded_app in Hb'. destruct Hb' as [_ Hb2].
        specialize (IH nbytes (rpos + len) (wpos + len) (w + len) _ Hb2).
        rewrite effective_cons. cbn [is_eintr snd]. cbn [length].
        rewrite effective_app, app_length. cbn [fst snd] in Hk. lia.
      * cbn [u_trace]. intros Hb. inversion Hb as [|? ? Hk Hb']; subst. cbn [fst snd] in Hk.
        rewrite effective_cons. cbn [is_eintr snd length]. lia.
      * cbn [u_trace]. intros Hb. inversion Hb as [|? ? Hk Hb']; subst. cbn [fst snd] in Hk.
        rewrite effective_cons. cbn [is_eintr snd length]. lia.
      * cbn [u_trace]. intros Hb. inversion Hb as [|? ? Hk Hb']; subst. cbn [fst snd] in Hk.
        rewrite effective_cons. cbn [is_eintr snd length]. lia.
    + destruct (N.eqb_spec e EINTR) as [->|He].
      * cbn [u_trace u_cons]. intros Hb. inversion Hb as [|? ? _ Hb']; subst.
        unfold effective. cbn [filter is_eintr snd]. rewrite N.eqb_refl. cbn [negb]. apply IH. exact Hb'.
      * intros _. unfold effective. cbn [u_trace filter is_eintr snd]. apply N.eqb_neq in He. rewrite He. cbn [negb length]. lia.
Qed.

(* ---------------- the byte buffer holds every read (no out-of-range slice, hence no panic in a pool job) ------------- *)
Definition reads_fit (cap : N) (t : utrace) : Prop :=
  Forall (fun e => match fst e with URead _ n => n <= cap | UWrite _ _ _ => True end) t.

Lemma reads_fit_mono cap cap' t : cap <= cap' -> reads_fit cap t -> reads_fit cap' t.
Proof.
  intros Hc H. unfold reads_fit in *. eapply Forall_impl; [|exact H].
  intros [[o n|s o n] a]; cbn; [lia|trivial].
Qed.

Lemma reads_fit_app cap t1 t2 : reads_fit cap (t1 ++ t2) <-> reads_fit cap t1 /\ reads_fit cap t2.
Proof. unfold reads_fit. apply Forall_app. Qed.

Lemma copy_range_uspace_reads_fit fuel : forall nbytes off w ans,
  reads_fit nbytes (u_trace (copy_range_uspace fuel nbytes off w ans)).
Proof.
  induction fuel as [|f IH]; intros nbytes off w ans; cbn [copy_range_uspace].
  - destruct (N.leb_spec nbytes w); cbn; constructor.
  - destruct (N.leb_spec nbytes w); [cbn; constructor|].
    destruct ans as [|[rlen|e] rest]; cbn [u_trace]; [constructor| |repeat constructor; cbn; lia].
    destruct (N.eqb_spec rlen 0); cbn [u_trace]; [repeat constructor; cbn; lia|].
    destruct rest as [|[wlen|e] rest']; cbn [u_trace]; [repeat constructor; cbn; lia| |repeat constructor; cbn; lia].
    destruct (N.ltb_spec wlen rlen); cbn [u_trace u_app]; [repeat constructor; cbn; lia|].
    apply reads_fit_app. split; [repeat constructor; cbn; lia|apply IH].
Qed.

Lemma write_all_reads_fit fuel : forall cap src wpos n ans, reads_fit cap (u_trace (write_all fuel src wpos n ans)).
Proof.
  induction fuel as [|f IH]; intros cap src wpos n ans; cbn [write_all].
  - destruct (N.eqb_spec n 0); cbn; constructor.
  - destruct (N.eqb_spec n 0); [cbn; constructor|].
    destruct ans as [|[k|e] rest]; cbn [u_trace]; [constructor| |].
    + destruct (N.eqb_spec k 0); cbn [u_trace u_cons]; [repeat constructor|].
      constructor; [cbn; trivial|apply IH].
    + destruct (N.eqb_spec e EINTR); cbn [u_trace u_cons]; [constructor; [cbn; trivial|apply IH]|repeat constructor].
Qed.

Lemma copy_bytes_uspace_reads_fit fuel : forall nbytes rpos wpos w ans,
  reads_fit nbytes (u_trace (copy_bytes_uspace fuel nbytes rpos wpos w ans)).
Proof.
  induction fuel as [|f IH]; intros nbytes rpos wpos w ans; cbn [copy_bytes_uspace].
  - destruct (N.leb_spec nbytes w); cbn; constructor.
  - destruct (N.leb_spec nbytes w); [cbn; constructor|].
    destruct ans as [|[len|e] rest]; cbn [u_trace]; [constructor| |].
    + destruct (N.eqb_spec len 0); cbn [u_trace]; [repeat constructor; cbn; lia|].
      pose proof (write_all_reads_fit (S (length rest)) nbytes rpos wpos len rest) as Hw.
      destruct (u_st (write_all (S (length rest)) rpos wpos len rest)); cbn [u_trace u_app];
        try (constructor; [cbn; lia|exact Hw]).
      change ((URead rpos (nbytes - w), XOk len) :: ?t ++ ?u) with (((URead rpos (nbytes - w), XOk len) :: t) ++ u).
      apply reads_fit_app. split; [constructor; [cbn; lia|exact Hw]|apply IH].
    + destruct (N.eqb_spec e EINTR); cbn [u_trace u_cons]; [constructor; [cbn; lia|apply IH]|repeat constructor; cbn; lia].
Qed.

(* what is WRITTEN from the buffer (`buf[..rlen]`, rlen being what the read returned) fits too, as long as the kernel
   honours read(2)'s contract (never more than asked) *)
Definition writes_fit (cap : N) (t : utrace) : Prop :=
  Forall (fun e => match fst e with UWrite _ _ n => n <= cap | URead _ _ => True end) t.

Lemma writes_fit_app cap t1 t2 : writes_fit cap (t1 ++ t2) <-> writes_fit cap t1 /\ writes_fit cap t2.
Proof. unfold writes_fit. apply Forall_app. Qed.

Lemma writes_fit_mono cap cap' t : cap <= cap' -> writes_fit cap t -> writes_fit cap' t.
Proof.
  intros Hc H. unfold writes_fit in *. eapply Forall_impl; [|exact H].
  intros [[o n|s o n] a]; cbn; [trivial|lia].
Qed.

Lemma copy_range_uspace_writes_fit fuel : forall nbytes off w ans,
  uans_bounded (u_trace (copy_range_uspace fuel nbytes off w ans)) ->
  writes_fit nbytes (u_trace (copy_range_uspace fuel nbytes off w ans)).
Proof.
  induction fuel as [|f IH]; intros nbytes off w ans; cbn [copy_range_uspace].
  - destruct (N.leb_spec nbytes w); cbn; constructor.
  - destruct (N.leb_spec nbytes w); [cbn; constructor|].
    destruct ans as [|[rlen|e] rest]; cbn [u_trace]; [constructor| |repeat constructor].
    destruct (N.eqb_spec rlen 0); cbn [u_trace]; [repeat constructor|].
    destruct rest as [|[wlen|e] rest']; cbn [u_trace]; [repeat constructor| |].
    + destruct (N.ltb_spec wlen rlen); cbn [u_trace u_app].
      * intros Hb. inversion Hb as [|? ? Hk _]; subst. cbn in Hk. repeat constructor; cbn; lia.
      * intros Hb. apply uans_bounded_app in Hb. destruct Hb as [Hb1 Hb2].
        inversion Hb1 as [|? ? Hk _]; subst. cbn in Hk.
        apply writes_fit_app. split; [repeat constructor; cbn; lia|apply IH; exact Hb2].
    + intros Hb. inversion Hb as [|? ? Hk _]; subst. cbn in Hk. repeat constructor; cbn; lia.
Qed.
