(* XExtents.v — part of the translator tie (see ExtractedOk.v): libfs extent maps: merge_extents, map_extents, probably_sparse, FIEMAP tables.
   One file per group of translated definitions, so that a property depends only on the pieces it cites. *)
From XcpModel Require Import Base Extents Blocks Sparse CopyLoop FileCopy Updater Meta Backup Extracted.
From Coq Require Import String.
From Coq Require Import Lia.
(* ---- libfs::merge_extents: the translated loop is the model's recursion ---- *)
Definition merge_final (st : list extent * option extent) : list extent :=
  let '(merged, prev) := st in match prev with Some p => merged ++ [p] | None => merged end.

Theorem x_merge_extents_ok : forall l, x_merge_extents l = merge_extents l.
Proof.
  intros l. unfold x_merge_extents.
  match goal with |- context [fold_left ?F _ _] => set (F0 := F) end.
  assert (forall st, (let '(merged, prev) := st in
                      let '(merged0, _) := match prev with Some p => (merged ++ [p], prev) | None => (merged, prev) end in merged0)
                     = merge_final st) as Hfin.
  { intros [m [p|]]; reflexivity. }
  assert (forall l merged p, merge_final (fold_left F0 l (merged, Some p)) = merged ++ merge_go p l) as Hgo.
  { clear. intros l. induction l as [|e r IH]; intros merged p; cbn [fold_left merge_go].
    - reflexivity.
    - subst F0. cbv beta iota zeta. fold (fold_left (A := list extent * option extent)).
      destruct (e_start e =? e_end p + 1).
      + apply IH.
      + rewrite IH. rewrite <- app_assoc. reflexivity. }
  destruct l as [|e r]; [reflexivity|].
  cbn [fold_left merge_extents].
  transitivity (merge_final (fold_left F0 r (F0 ([], None) e))).
  - destruct (fold_left F0 r (F0 ([], None) e)) as [m [p|]]; reflexivity.
  - assert (F0 ([], None) e = ([], Some e)) as -> by (subst F0; reflexivity).
    rewrite Hgo. reflexivity.
Qed.

(* ---- libfs: sparseness test, errno classifications, FIEMAP page size ---- *)
Theorem x_probably_sparse_ok : forall blocks size, x_probably_sparse blocks size = probably_sparse blocks size.
Proof. reflexivity. Qed.

Theorem x_fiemap_unsupported_ok : x_fiemap_unsupported_errnos = [EOPNOTSUPP].
Proof. reflexivity. Qed.
(* ---- FiemapReq::new: every request (the first, and each later page, whose start only moves forward) asks the kernel for
   the WHOLE rest of the file: no offset a file can have (< 2^63, the largest loff_t) lies beyond start + length, and no
   flag restricts what is reported ---- *)
Theorem x_fiemap_request_covers_the_rest_of_the_file : forall start off,
  x_fiemap_req_start <= start -> start <= off -> off < 2 ^ 63 -> off < start + x_fiemap_req_length.
Proof.
  intros start off H0 H1 H2. unfold x_fiemap_req_length.
  assert (2 ^ 63 <= 18446744073709551615) by (vm_compute; discriminate). lia.
Qed.
Theorem x_fiemap_request_starts_at_zero_unflagged : x_fiemap_req_start = 0 /\ x_fiemap_req_flags = 0.
Proof. split; reflexivity. Qed.

Theorem x_fiemap_page_size_ok : x_fiemap_page_size = N.of_nat FIEMAP_PAGE_SIZE.
Proof. reflexivity. Qed.

From XcpModel Require Import Walker Ops.
From XcpModel Require Import Uspace.
(* libfs::map_extents: the translated paging loop is the model's *)
Lemma fold_push_ext (pg : list fext) : forall acc,
  fold_left (fun extents e => extents ++ [mkExt (fe_logical e) (fe_logical e + fe_length e) (fe_shared e)]) pg acc =
  acc ++ map to_ext pg.
Proof.
  induction pg as [|x pg IH]; intros acc; cbn [fold_left map]; [now rewrite app_nil_r|].
  rewrite IH. rewrite <- app_assoc. reflexivity.
Qed.

Lemma nth_error_last {A} (l : list A) (d : A) : l <> [] -> nth_error l (List.length l - 1) = Some (last l d).
Proof.
  induction l as [|x l IH]; intros H; [contradiction|]. destruct l as [|y l]; [reflexivity|].
  cbn [List.length]. replace (S (S (List.length l)) - 1)%nat with (S (List.length (y :: l) - 1)) by (cbn [List.length]; lia).
  cbn [nth_error]. rewrite IH by discriminate. reflexivity.
Qed.

Theorem x_map_extents_go_ok : forall fuel fiemap start acc,
  x_map_extents_go fuel fiemap start acc = map_extents_go fuel fiemap start acc.
Proof.
  induction fuel as [|f IH]; intros fiemap start acc; [reflexivity|].
  cbn [x_map_extents_go map_extents_go]. destruct (fiemap start) as [|e|pg]; try reflexivity.
  destruct pg as [|x pg]; [reflexivity|].
  replace (N.of_nat (List.length (x :: pg)) =? 0) with false by (symmetry; apply N.eqb_neq; cbn [List.length]; lia).
  rewrite (nth_error_last (x :: pg) x) by discriminate.
  change (fun extents e => let ext := mkExt (fe_logical e) (fe_logical e + fe_length e) (fe_shared e) in extents ++ [ext])
    with (fun extents e => extents ++ [mkExt (fe_logical e) (fe_logical e + fe_length e) (fe_shared e)]).
  rewrite fold_push_ext. destruct (fe_last (last (x :: pg) x)); [reflexivity|]. apply IH.
Qed.

Theorem x_map_extents_ok : forall fuel fiemap, x_map_extents fuel fiemap = map_extents fuel fiemap.
Proof. intros. apply x_map_extents_go_ok. Qed.

