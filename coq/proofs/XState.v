(* XState.v — part of the translator tie: the inventory of process-wide state in the non-test code of the three crates.
   The models treat the copy of one file as independent of the copy of every other file of the same run (one
   CopyHandle, one operation, one answer per system call).  That is sound only if nothing is carried from one file to
   the next through a `static`, a thread-local or the process umask.  On the current tree the only such item is the
   compiled backup-name pattern (BAK_REGEX, a write-once cache of a constant) and BACKUP_STEP, a mutex holding NO data
   (`Mutex<()>`): it serialises the backup-and-create step of concurrent workers (repair of the C06 defect found in round
   4) and carries nothing from one file to the next. *)
From XcpModel Require Import Base Extracted.
From Coq Require Import String.
Local Open Scope string_scope.

Theorem x_process_wide_state_ok :
  x_static_items = ["libxcp/src/backup.rs::BAK_REGEX"; "libxcp/src/operations.rs::BACKUP_STEP"] /\ x_thread_locals = [] /\ x_umask_calls = 0%N.
Proof. repeat split; reflexivity. Qed.
