From XcpModel Require Import Base Meta.

Lemma fold_left_app_meta (l1 l2 : list fin_action) d :
  fold_left apply_action (l1 ++ l2) d = fold_left apply_action l2 (fold_left apply_action l1 d).
Proof. apply fold_left_app. Qed.

(* xattr actions only touch xattrs *)
Lemma fold_setxattr_fields xs : forall d,
  let d' := fold_left apply_action (map (fun kv => FSetxattr (fst kv) (snd kv)) xs) d in
  m_mode d' = m_mode d /\ m_uid d' = m_uid d /\ m_gid d' = m_gid d /\
  m_atime d' = m_atime d /\ m_mtime d' = m_mtime d.
Proof.
  induction xs as [|[k v] r IH]; intros d; cbn [map fold_left]; [repeat split|].
  destruct (IH (apply_action d (FSetxattr k v))) as (A & B & C & D & E). cbn in *. repeat split; assumption.
Qed.

Lemma xattr_get_set_same l k v : xattr_get (xattr_set l k v) k = Some v.
Proof.
  induction l as [|[k' v'] r IH]; cbn [xattr_set xattr_get]; [now rewrite N.eqb_refl|].
  destruct (N.eqb_spec k' k) as [->|Hne]; cbn [xattr_get]; [now rewrite N.eqb_refl|].
  destruct (N.eqb_spec k' k); [contradiction|exact IH].
Qed.

Lemma xattr_get_set_other l k v k2 : k <> k2 -> xattr_get (xattr_set l k v) k2 = xattr_get l k2.
Proof.
  intros Hne. induction l as [|[k' v'] r IH]; cbn [xattr_set xattr_get].
  - destruct (N.eqb_spec k k2); [contradiction|reflexivity].
  - destruct (N.eqb_spec k' k) as [->|Hk]; cbn [xattr_get].
    + destruct (N.eqb_spec k k2); [contradiction|reflexivity].
    + destruct (N.eqb_spec k' k2); [reflexivity|exact IH].
Qed.

(* after setting every source xattr, the LAST binding of each source name is present *)
Fixpoint last_binding (l : list (N * N)) (k : N) : option N :=
  match l with
  | [] => None
  | (k', v) :: r => match last_binding r k with Some x => Some x | None => if k' =? k then Some v else None end
  end.

Lemma fold_setxattr_get xs : forall d k,
  xattr_get (m_xattr (fold_left apply_action (map (fun kv => FSetxattr (fst kv) (snd kv)) xs) d)) k =
  match last_binding xs k with Some v => Some v | None => xattr_get (m_xattr d) k end.
Proof.
  induction xs as [|[k' v] r IH]; intros d k; cbn [map fold_left last_binding]; [reflexivity|].
  rewrite IH. cbn [fst snd apply_action k_fsetxattr m_xattr].
  destruct (last_binding r k); [reflexivity|].
  destruct (N.eqb_spec k' k) as [->|Hne]; [apply xattr_get_set_same|now apply xattr_get_set_other].
Qed.

Lemma land_mask_idem m : N.land (N.land m PERM_MASK) PERM_MASK = N.land m PERM_MASK.
Proof. rewrite <- N.land_assoc. f_equal. Qed.

(* the full preservation statement *)
Theorem finalise_preserves c src dst :
  let d' := finalise c src dst in
  (c_no_perms c = false -> m_mode d' = N.land (m_mode src) PERM_MASK) /\
  (c_no_perms c = false -> forall k v, last_binding (m_xattr src) k = Some v -> xattr_get (m_xattr d') k = Some v) /\
  (c_no_timestamps c = false -> m_mtime d' = m_mtime src /\ m_atime d' = m_atime src) /\
  (c_ownership c = true -> m_uid d' = m_uid src /\ m_gid d' = m_gid src) /\
  (c_no_perms c = true -> c_ownership c = false -> m_mode d' = m_mode dst) /\
  (c_no_perms c = true -> m_xattr d' = m_xattr dst) /\
  (c_no_timestamps c = true -> m_mtime d' = m_mtime dst /\ m_atime d' = m_atime dst) /\
  (c_ownership c = false -> m_uid d' = m_uid dst /\ m_gid d' = m_gid dst).
Proof.
  unfold finalise, finalise_actions. destruct c as [np nt ow fs]. cbn [c_no_perms c_no_timestamps c_ownership c_fsync].
  rewrite !fold_left_app_meta.
  set (d1 := fold_left apply_action (if ow then [FChown (m_uid src) (m_gid src)] else []) dst).
  assert (m_uid d1 = (if ow then m_uid src else m_uid dst) /\ m_gid d1 = (if ow then m_gid src else m_gid dst) /\
          m_atime d1 = m_atime dst /\ m_mtime d1 = m_mtime dst /\ m_xattr d1 = m_xattr dst /\
          (ow = false -> m_mode d1 = m_mode dst)) as (U1 & G1 & A1 & M1 & X1 & P1).
  { subst d1. destruct ow; cbn; repeat split; auto. discriminate. }
  set (d2 := fold_left apply_action
               (if np then [] else map (fun kv => FSetxattr (fst kv) (snd kv)) (m_xattr src) ++ [FChmod (m_mode src)]) d1).
  assert (m_uid d2 = m_uid d1 /\ m_gid d2 = m_gid d1 /\ m_atime d2 = m_atime d1 /\ m_mtime d2 = m_mtime d1 /\
          (np = false -> m_mode d2 = N.land (m_mode src) PERM_MASK) /\
          (np = false -> forall k v, last_binding (m_xattr src) k = Some v -> xattr_get (m_xattr d2) k = Some v) /\
          (np = true -> d2 = d1)) as (U2 & G2 & A2 & M2 & P2 & X2 & E2).
  { subst d2. destruct np; [cbn; repeat split; auto; discriminate|].
    rewrite fold_left_app_meta. cbn [fold_left apply_action].
    destruct (fold_setxattr_fields (m_xattr src) d1) as (F1 & F2 & F3 & F4 & F5).
    cbn [k_fchmod m_uid m_gid m_atime m_mtime m_mode m_xattr]. repeat split; auto; try discriminate.
    intros _ k v Hk. rewrite fold_setxattr_get, Hk. reflexivity. }
  set (d3 := fold_left apply_action (if nt then [] else [FUtimens (m_atime src) (m_mtime src)]) d2).
  assert (m_uid d3 = m_uid d2 /\ m_gid d3 = m_gid d2 /\ m_mode d3 = m_mode d2 /\ m_xattr d3 = m_xattr d2 /\
          (nt = false -> m_mtime d3 = m_mtime src /\ m_atime d3 = m_atime src) /\
          (nt = true -> m_mtime d3 = m_mtime d2 /\ m_atime d3 = m_atime d2)) as (U3 & G3 & P3 & X3 & T3 & T3').
  { subst d3. destruct nt; cbn; repeat split; auto; discriminate. }
  assert (fold_left apply_action (if fs then [FFsync] else []) d3 = d3) as E4 by (destruct fs; reflexivity).
  cbn zeta. rewrite E4.
  split; [intros Hf; rewrite P3; now apply P2|].
  split; [intros Hf k v Hk; rewrite X3; now apply X2|].
  split; [intros Hf; now apply T3|].
  split; [intros Hf; subst ow; split; congruence|].
  split; [intros Hf1 Hf2; rewrite P3, (E2 Hf1); now apply P1|].
  split; [intros Hf; rewrite X3, (E2 Hf); exact X1|].
  split; [intros Hf; destruct (T3' Hf) as [Ta Tb]; split; congruence|].
  intros Hf; subst ow; split; congruence.
Qed.

(* the pinned order loses the set-id bits *)
Lemma ownership_clears_suid_refuted :
  exists c src dst, c_no_perms c = false /\ c_ownership c = true /\
    m_mode (finalise_pinned c src dst) <> N.land (m_mode src) PERM_MASK.
Proof.
  exists (mkFin false false true false), (mkMeta 3565 0 0 1 2 []), (mkMeta 420 0 0 0 0 []).
  split; [reflexivity|]. split; [reflexivity|]. vm_compute. discriminate.
Qed.

(* ---- nodes ---- *)
Theorem copy_node_spec umask src :
  n_type (copy_node umask src) = n_type src /\
  n_mode (copy_node umask src) = N.land (N.land (n_mode src) PERM_MASK) (PERM_MASK - N.land umask PERM_MASK) /\
  (n_type src = 5 -> n_rdev (copy_node umask src) = n_rdev src).
Proof. unfold copy_node. cbn. repeat split. intros ->. reflexivity. Qed.

Theorem classify_spec ft :
  (classify ft = OpSpecial <-> ft = 3 \/ ft = 4 \/ ft = 5) /\
  (ft = 6 \/ 7 <= ft -> classify ft = OpErrUnsupported).
Proof.
  unfold classify. split.
  - destruct (N.eqb_spec ft 0); [split; [discriminate|lia]|].
    destruct (N.eqb_spec ft 1); [split; [discriminate|lia]|].
    destruct (N.eqb_spec ft 2); [split; [discriminate|lia]|].
    destruct (N.eqb_spec ft 3); destruct (N.eqb_spec ft 4); destruct (N.eqb_spec ft 5); cbn [orb];
      split; try lia; try discriminate; auto.
  - intros H. destruct (N.eqb_spec ft 0); [lia|]. destruct (N.eqb_spec ft 1); [lia|]. destruct (N.eqb_spec ft 2); [lia|].
    destruct (N.eqb_spec ft 3); [lia|]. destruct (N.eqb_spec ft 4); [lia|]. destruct (N.eqb_spec ft 5); [lia|]. reflexivity.
Qed.

Theorem special_worker_spec nc ex same umask src :
  (ex = true -> nc = true -> special_worker nc ex same umask src = None) /\
  (ex = true -> nc = false -> same = true -> special_worker nc ex same umask src = None) /\
  (ex = true -> nc = false -> same = false -> special_worker nc ex same umask src = Some [SpUnlink; SpMknod (copy_node umask src)]) /\
  (ex = false -> special_worker nc ex same umask src = Some [SpMknod (copy_node umask src)]).
Proof. unfold special_worker. repeat split; intros; subst; reflexivity. Qed.

(* the source node is never unlinked: when the existing target is the source itself the worker performs no action *)
Theorem special_worker_never_unlinks_source nc umask src :
  special_worker nc true true umask src = None.
Proof. unfold special_worker. destruct nc; reflexivity. Qed.
