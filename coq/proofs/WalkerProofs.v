From XcpModel Require Import Base Backup Paths Walker.
From XcpProofs Require Import BackupProofs.

(* ---------------- induction principle for the nested tree ---------------- *)
Section TreeInd.
  Variable P : tree -> Prop.
  Hypothesis HFile : forall len, P (TFile len).
  Hypothesis HDir : forall cs, Forall (fun nc => P (snd nc)) cs -> P (TDir cs).
  Hypothesis HLink : forall text res, (forall t, res = LTarget t -> P t) -> P (TLink text res).
  Hypothesis HSpecial : forall ft, P (TSpecial ft).
  Hypothesis HOther : forall ft, P (TOther ft).

  Fixpoint tree_ind' (t : tree) : P t :=
    match t with
    | TFile len => HFile len
    | TDir cs =>
        HDir cs ((fix go (cs : list (name * tree)) : Forall (fun nc => P (snd nc)) cs :=
                    match cs with
                    | [] => Forall_nil _
                    | (n, c) :: r => Forall_cons (n, c) (tree_ind' c) (go r)
                    end) cs)
    | TLink text res =>
        HLink text res
              (match res as r0 return (forall t0, r0 = LTarget t0 -> P t0) with
               | LTarget t' => fun t0 E => match E in (_ = y) return
                                                 (match y with LTarget z => P z | _ => True end) with
                                           | eq_refl => tree_ind' t'
                                           end
               | LDangling => fun t0 E => False_ind _ (match E in (_ = y) return
                                                         (match y with LDangling => True | _ => False end) with eq_refl => I end)
               | LLoop => fun t0 E => False_ind _ (match E in (_ = y) return
                                                     (match y with LLoop => True | _ => False end) with eq_refl => I end)
               end)
    | TSpecial ft => HSpecial ft
    | TOther ft => HOther ft
    end.
End TreeInd.

(* a derived principle that also hands out the hypothesis for the children of
   a link's target directory (the walk descends into it when dereferencing) *)
Lemma tree_ind2 (P : tree -> Prop) :
  (forall len, P (TFile len)) ->
  (forall cs, Forall (fun nc => P (snd nc)) cs -> P (TDir cs)) ->
  (forall text res,
      (forall t, res = LTarget t -> P t /\ forall cs, t = TDir cs -> Forall (fun nc => P (snd nc)) cs) ->
      P (TLink text res)) ->
  (forall ft, P (TSpecial ft)) ->
  (forall ft, P (TOther ft)) ->
  forall t, P t.
Proof.
  intros HF HD HL HS HO.
  assert (forall t, P t /\ forall cs, t = TDir cs -> Forall (fun nc => P (snd nc)) cs) as H.
  { induction t as [len|cs IH|text res IH|ft|ft] using tree_ind'.
    - split; [apply HF|discriminate].
    - assert (Forall (fun nc => P (snd nc)) cs) as Hc.
      { induction IH as [|x l [Hx _] _ IHl]; constructor; assumption. }
      split; [now apply HD|]. intros cs' E. now injection E as <-.
    - split; [|discriminate]. apply HL. intros t E. now apply IH.
    - split; [apply HS|discriminate].
    - split; [apply HO|discriminate]. }
  intros t. now apply H.
Qed.

(* ---------------- unfolding equations (inner fixes as map / flat_map) ---------------- *)
Definition wchildren cfg keep dex (r : rel) (cs : list (name * tree)) : list (list wact * bool) :=
  map (fun nc => walk cfg keep dex (r ++ [fst nc]) (snd nc)) cs.
Definition schildren keep deref (r : rel) (cs : list (name * tree)) : list (rel * ekind * bool) :=
  flat_map (fun nc => sel_entries keep deref (r ++ [fst nc]) (snd nc)) cs.
Definition echildren deref (r : rel) (cs : list (name * tree)) : list (rel * ekind * bool) :=
  flat_map (fun nc => entries deref (r ++ [fst nc]) (snd nc)) cs.

Lemma wchildren_fix cfg keep dex r cs :
  (fix go (cs : list (name * tree)) : list (list wact * bool) :=
     match cs with [] => [] | (n, c) :: rest => walk cfg keep dex (r ++ [n]) c :: go rest end) cs
  = wchildren cfg keep dex r cs.
Proof. induction cs as [|[n c] rest IH]; [reflexivity|]. cbn [wchildren map fst snd]. now rewrite IH. Qed.

Lemma schildren_fix keep deref r cs :
  (fix go (cs : list (name * tree)) : list (rel * ekind * bool) :=
     match cs with [] => [] | (n, c) :: rest => sel_entries keep deref (r ++ [n]) c ++ go rest end) cs
  = schildren keep deref r cs.
Proof. induction cs as [|[n c] rest IH]; [reflexivity|]. cbn [schildren flat_map fst snd]. now rewrite IH. Qed.

Lemma echildren_fix deref r cs :
  (fix go (cs : list (name * tree)) : list (rel * ekind * bool) :=
     match cs with [] => [] | (n, c) :: rest => entries deref (r ++ [n]) c ++ go rest end) cs
  = echildren deref r cs.
Proof. induction cs as [|[n c] rest IH]; [reflexivity|]. cbn [echildren flat_map fst snd]. now rewrite IH. Qed.

(* the node-level behaviour, shared by walk / sel_entries / entries *)
Definition node_entry (deref : bool) (r : rel) (t : tree) : (rel * ekind * bool) * option (list (name * tree)) :=
  (* the entry for t itself and, when the walk descends, the children *)
  match t with
  | TFile len => ((r, EFile len, false), None)
  | TDir cs => ((r, EDir, true), Some cs)
  | TSpecial ft => ((r, ESpecial ft, false), None)
  | TOther ft => ((r, EOther ft, false), None)
  | TLink text res =>
      if deref then
        match res with
        | LDangling => ((r, EBroken 3, false), None)
        | LLoop => ((r, EBroken 4, false), None)
        | LTarget (TFile len) => ((r, EFile len, false), None)
        | LTarget (TDir cs) => ((r, EDir, true), Some cs)
        | LTarget (TSpecial ft) => ((r, ESpecial ft, false), None)
        | LTarget (TOther ft) => ((r, EOther ft, false), None)
        | LTarget (TLink _ _) => ((r, EBroken 4, false), None)
        end
      else ((r, ELink text, tree_is_dir deref t), None)
  end.

Lemma entries_eq deref r t :
  entries deref r t =
  fst (node_entry deref r t) :: match snd (node_entry deref r t) with Some cs => echildren deref r cs | None => [] end.
Proof.
  destruct t as [len|cs|text res|ft|ft]; cbn [entries node_entry fst snd]; try reflexivity.
  - now rewrite echildren_fix.
  - destruct deref; [|reflexivity].
    destruct res as [| |[len|cs|text' res'|ft|ft]]; cbn [fst snd]; try reflexivity. now rewrite echildren_fix.
Qed.

Lemma sel_entries_eq keep deref r t :
  sel_entries keep deref r t =
  if negb (keep r (tree_is_dir deref t)) then [] else
  fst (node_entry deref r t) :: match snd (node_entry deref r t) with Some cs => schildren keep deref r cs | None => [] end.
Proof.
  destruct t as [len|cs|text res|ft|ft]; cbn [sel_entries node_entry fst snd]; try reflexivity.
  - now rewrite schildren_fix.
  - destruct (negb (keep r (tree_is_dir deref (TLink text res)))); [reflexivity|].
    destruct deref; [|reflexivity].
    destruct res as [| |[len|cs|text' res'|ft|ft]]; cbn [fst snd]; try reflexivity. now rewrite schildren_fix.
Qed.

Lemma walk_eq cfg keep dex r t :
  walk cfg keep dex r t =
  if negb (keep r (tree_is_dir (w_deref cfg) t)) then ([], true) else
  let '(e, kids) := node_entry (w_deref cfg) r t in
  match act_of cfg dex e with
  | (a, true) => match kids with
                 | Some cs => seq_walks ((a, true) :: wchildren cfg keep dex r cs)
                 | None => (a, true)
                 end
  | (a, false) => (a, false)
  end.
Proof.
  destruct t as [len|cs|text res|ft|ft]; cbn [walk node_entry]; unfold guard, act_of.
  - destruct (negb _); [reflexivity|]. destruct (w_no_clobber cfg && dex r); reflexivity.
  - destruct (negb _); [reflexivity|]. rewrite wchildren_fix. destruct (w_no_clobber cfg && dex r); reflexivity.
  - destruct (negb _); [reflexivity|]. destruct (w_deref cfg).
    + destruct res as [| |[len|cs|text' res'|ft|ft]]; try reflexivity;
        try (destruct (w_no_clobber cfg && dex r); reflexivity).
      rewrite wchildren_fix. destruct (w_no_clobber cfg && dex r); reflexivity.
    + destruct (w_no_clobber cfg && dex r); reflexivity.
  - destruct (negb _); [reflexivity|]. destruct (w_no_clobber cfg && dex r); reflexivity.
  - destruct (negb _); [reflexivity|]. destruct (w_no_clobber cfg && dex r); reflexivity.
Qed.

(* ---------------- process ---------------- *)
Lemma process_app cfg dex l1 l2 :
  process cfg dex (l1 ++ l2) =
  let '(a, ok) := process cfg dex l1 in
  if ok then let '(b, ok') := process cfg dex l2 in (a ++ b, ok') else (a, false).
Proof.
  induction l1 as [|e r IH]; cbn [app process].
  - destruct (process cfg dex l2); reflexivity.
  - destruct (act_of cfg dex e) as [a [|]]; [|reflexivity].
    rewrite IH. destruct (process cfg dex r) as [b [|]].
    + destruct (process cfg dex l2) as [c ok]. now rewrite app_assoc.
    + reflexivity.
Qed.

Lemma seq_walks_process cfg keep dex dr r cs :
  Forall (fun nc => forall r', walk cfg keep dex r' (snd nc) =
                               process cfg dex (sel_entries keep dr r' (snd nc))) cs ->
  seq_walks (wchildren cfg keep dex r cs) = process cfg dex (schildren keep dr r cs).
Proof.
  induction cs as [|[n c] rest IH]; intros H; [reflexivity|].
  inversion H as [|? ? Hc Hr]; subst. cbn [snd] in Hc.
  cbn [wchildren map schildren flat_map fst snd seq_walks].
  rewrite process_app. rewrite <- (Hc (r ++ [n])).
  destruct (walk cfg keep dex (r ++ [n]) c) as [a [|]]; [|reflexivity].
  fold (wchildren cfg keep dex r rest). fold (schildren keep dr r rest). now rewrite IH.
Qed.

(* the walker is: select (with pruning), then process until the first failure *)
Theorem walk_process cfg keep dex : forall t r,
  walk cfg keep dex r t = process cfg dex (sel_entries keep (w_deref cfg) r t).
Proof.
  intros t. induction t as [len|cs IH|text res IH|ft|ft] using tree_ind2; intros r;
    rewrite walk_eq, sel_entries_eq; destruct (negb (keep r _)); try reflexivity.
  - cbn [node_entry fst snd process]. destruct (act_of cfg dex (r, EFile len, false)) as [a [|]]; [|reflexivity].
    cbn. now rewrite app_nil_r.
  - cbn [node_entry fst snd process]. destruct (act_of cfg dex (r, EDir, true)) as [a [|]]; [|reflexivity].
    cbn [seq_walks]. now rewrite (seq_walks_process cfg keep dex (w_deref cfg) r cs IH).
  - cbn [node_entry]. destruct (w_deref cfg).
    + destruct res as [| |[len|cs|text' res'|ft|ft]]; cbn [fst snd process];
        try (match goal with |- context [act_of cfg dex ?e] => destruct (act_of cfg dex e) as [a [|]] end;
             [cbn; now rewrite app_nil_r|reflexivity]).
      destruct (act_of cfg dex (r, EDir, true)) as [a [|]]; [|reflexivity].
      cbn [seq_walks].
      destruct (IH (TDir cs) eq_refl) as [_ Hcs]. specialize (Hcs cs eq_refl).
      now rewrite (seq_walks_process cfg keep dex true r cs Hcs).
    + cbn [fst snd process].
      match goal with |- context [act_of cfg dex ?e] => destruct (act_of cfg dex e) as [a [|]] end;
        [cbn; now rewrite app_nil_r|reflexivity].
  - cbn [node_entry fst snd process]. destruct (act_of cfg dex (r, ESpecial ft, false)) as [a [|]]; [|reflexivity].
    cbn. now rewrite app_nil_r.
  - cbn [node_entry fst snd process]. destruct (act_of cfg dex (r, EOther ft, false)) as [a [|]]; [|reflexivity].
    cbn. now rewrite app_nil_r.
Qed.

(* ---------------- entries: shape facts ---------------- *)
Lemma node_entry_head deref r t :
  fst (fst (fst (node_entry deref r t))) = r /\ snd (fst (node_entry deref r t)) = tree_is_dir deref t /\
  (forall cs, snd (node_entry deref r t) = Some cs -> tree_is_dir deref t = true).
Proof.
  destruct t as [len|cs|text res|ft|ft].
  - cbn. repeat split. discriminate.
  - cbn. repeat split.
  - cbn [node_entry]. destruct deref.
    + destruct res as [| |[len|cs|text' res'|ft|ft]]; cbn; repeat split; discriminate.
    + cbn. repeat split. discriminate.
  - cbn. repeat split. discriminate.
  - cbn. repeat split. discriminate.
Qed.

Lemma entries_prefix deref : forall t r e, In e (entries deref r t) -> exists s, fst (fst e) = r ++ s.
Proof.
  intros t. induction t as [len|cs IH|text res IH|ft|ft] using tree_ind2; intros r e; rewrite entries_eq;
    intros [<-|Hin]; try (exists []; rewrite app_nil_r; apply node_entry_head);
    try (cbn [node_entry snd] in Hin; destruct Hin; fail).
  - cbn [node_entry snd] in Hin. unfold echildren in Hin. apply in_flat_map in Hin.
    destruct Hin as ([n c] & Hc & He). rewrite Forall_forall in IH. specialize (IH (n, c) Hc (r ++ [n]) e He).
    destruct IH as [s Hs]. exists (n :: s). cbn [fst] in Hs. rewrite Hs. now rewrite <- app_assoc.
  - cbn [node_entry] in Hin. destruct deref; [|destruct Hin].
    destruct res as [| |[len|cs|text' res'|ft|ft]]; cbn [snd] in Hin; try (destruct Hin; fail).
    destruct (IH (TDir cs) eq_refl) as [_ Hcs]. specialize (Hcs cs eq_refl).
    unfold echildren in Hin. apply in_flat_map in Hin.
    destruct Hin as ([n c] & Hc & He). rewrite Forall_forall in Hcs. specialize (Hcs (n, c) Hc (r ++ [n]) e He).
    destruct Hcs as [s Hs]. exists (n :: s). cbn [fst] in Hs. rewrite Hs. now rewrite <- app_assoc.
Qed.

Lemma skipn_app_exact {A} (r s : list A) : skipn (length r) (r ++ s) = s.
Proof. induction r; cbn; auto. Qed.

Lemma kept_from_child keep deref r n c e :
  In e (entries deref (r ++ [n]) c) ->
  kept_from keep r e = keep r true && kept_from keep (r ++ [n]) e.
Proof.
  intros He. destruct (entries_prefix deref c (r ++ [n]) e He) as [s Hs].
  destruct e as [[q k] d]. cbn [fst] in Hs. subst q. unfold kept_from.
  rewrite skipn_app_exact. rewrite <- app_assoc. cbn [app]. rewrite skipn_app_exact. reflexivity.
Qed.

(* ---------------- pruning = filtering by "no ignored ancestor-or-self" ---------------- *)
Lemma schildren_filter keep deref r cs :
  keep r true = true ->
  Forall (fun nc => forall r', sel_entries keep deref r' (snd nc) =
                               filter (kept_from keep r') (entries deref r' (snd nc))) cs ->
  schildren keep deref r cs = filter (kept_from keep r) (echildren deref r cs).
Proof.
  intros Hk. induction cs as [|[n c] rest IH]; intros H; [reflexivity|].
  inversion H as [|? ? Hc Hr]; subst. cbn [snd] in Hc.
  cbn [schildren echildren flat_map fst snd]. rewrite filter_app.
  fold (schildren keep deref r rest). fold (echildren deref r rest). rewrite (IH Hr). f_equal.
  rewrite Hc. apply filter_ext_in. intros e He.
  rewrite (kept_from_child keep deref r n c e He), Hk. reflexivity.
Qed.

Lemma echildren_filter_none keep deref r cs :
  keep r true = false -> filter (kept_from keep r) (echildren deref r cs) = [].
Proof.
  intros Hk. induction cs as [|[n c] rest IH]; [reflexivity|].
  cbn [echildren flat_map fst snd]. rewrite filter_app. fold (echildren deref r rest). rewrite IH, app_nil_r.
  assert (forall l, (forall e, In e l -> kept_from keep r e = false) -> filter (kept_from keep r) l = []) as G.
  { induction l as [|x l IHl]; intros Hl; [reflexivity|]. cbn [filter]. rewrite (Hl x (or_introl eq_refl)).
    apply IHl. intros e He. apply Hl. now right. }
  apply G. intros e He. rewrite (kept_from_child keep deref r n c e He), Hk. reflexivity.
Qed.

Lemma sel_filter_node keep deref r t :
  (forall cs, snd (node_entry deref r t) = Some cs -> keep r true = true ->
     schildren keep deref r cs = filter (kept_from keep r) (echildren deref r cs)) ->
  sel_entries keep deref r t = filter (kept_from keep r) (entries deref r t).
Proof.
  intros H. rewrite sel_entries_eq, entries_eq. cbn [filter].
  destruct (node_entry_head deref r t) as (Hr & Hd & Hkids).
  assert (kept_from keep r (fst (node_entry deref r t)) = keep r (tree_is_dir deref t)) as Hhead.
  { destruct (fst (node_entry deref r t)) as [[q k] d]. cbn [fst snd] in Hr, Hd. subst q d.
    unfold kept_from. rewrite skipn_all. reflexivity. }
  rewrite Hhead. destruct (keep r (tree_is_dir deref t)) eqn:Ek; cbn [negb].
  - f_equal. destruct (snd (node_entry deref r t)) as [cs|] eqn:Ekids; [|reflexivity].
    apply H; [reflexivity|]. rewrite (Hkids cs eq_refl) in Ek. exact Ek.
  - destruct (snd (node_entry deref r t)) as [cs|] eqn:Ekids; [|reflexivity].
    rewrite (Hkids cs eq_refl) in Ek. now rewrite echildren_filter_none.
Qed.

Theorem sel_entries_filter keep deref : forall t r,
  sel_entries keep deref r t = filter (kept_from keep r) (entries deref r t).
Proof.
  intros t. induction t as [len|cs IH|text res IH|ft|ft] using tree_ind2; intros r;
    apply sel_filter_node; intros cs' Ekids Hk; cbn [node_entry snd] in Ekids; try discriminate.
  - injection Ekids as <-. now apply schildren_filter.
  - destruct deref; [|discriminate].
    destruct res as [| |[len|cs|text' res'|ft|ft]]; cbn [snd] in Ekids; try discriminate.
    injection Ekids as <-. destruct (IH (TDir cs) eq_refl) as [_ Hcs]. specialize (Hcs cs eq_refl).
    now apply schildren_filter.
Qed.

(* ---------------- consequences for the processed action list ---------------- *)
Definition e_rel (e : rel * ekind * bool) : rel := fst (fst e).
Definition e_kind (e : rel * ekind * bool) : ekind := snd (fst e).

Lemma process_ok cfg dex es acts :
  process cfg dex es = (acts, true) ->
  acts = flat_map (fun e => fst (act_of cfg dex e)) es /\ forall e, In e es -> snd (act_of cfg dex e) = true.
Proof.
  revert acts. induction es as [|e r IH]; intros acts H; cbn [process] in H.
  - injection H as <-. split; [reflexivity|intros e []].
  - destruct (act_of cfg dex e) as [a [|]] eqn:Ea; [|discriminate].
    destruct (process cfg dex r) as [b ok'] eqn:Er. injection H as <- ->.
    destruct (IH b eq_refl) as [-> Hall]. split.
    + cbn [flat_map]. now rewrite Ea.
    + intros e' [<-|Hin]; [now rewrite Ea|now apply Hall].
Qed.

Lemma process_in cfg dex es : forall acts ok a,
  process cfg dex es = (acts, ok) -> In a acts -> exists e, In e es /\ In a (fst (act_of cfg dex e)).
Proof.
  induction es as [|e r IH]; intros acts ok a H Ha; cbn [process] in H.
  - injection H as <- <-. destruct Ha.
  - destruct (act_of cfg dex e) as [x [|]] eqn:Ea.
    + destruct (process cfg dex r) as [b ok'] eqn:Er. injection H as <- <-.
      apply in_app_or in Ha. destruct Ha as [Ha|Ha].
      * exists e. split; [now left|now rewrite Ea].
      * destruct (IH b ok' a eq_refl Ha) as (e' & He' & Ha'). exists e'. split; [now right|assumption].
    + injection H as <- <-. exists e. split; [now left|now rewrite Ea].
Qed.

(* no-clobber: no operation is ever emitted for a target that exists *)
Lemma act_of_noclobber cfg dex e a q :
  w_no_clobber cfg = true -> In a (fst (act_of cfg dex e)) -> is_err a = false -> act_rel a = Some q ->
  dex q = false.
Proof.
  intros Hnc Ha He Hq. destruct e as [[r k] d]. unfold act_of in Ha. rewrite Hnc in Ha. cbn [andb] in Ha.
  destruct k; try (destruct (dex r) eqn:Ed; cbn [fst] in Ha;
                   [destruct Ha as [<-|[]]; discriminate|]);
    cbn [fst] in Ha; repeat (destruct Ha as [<-|Ha]; try discriminate; try (cbn in Hq; injection Hq as <-; assumption));
    try destruct Ha.
Qed.

Theorem walk_noclobber_untouched cfg keep dex r t acts ok a q :
  w_no_clobber cfg = true -> walk cfg keep dex r t = (acts, ok) ->
  In a acts -> is_err a = false -> act_rel a = Some q -> dex q = false.
Proof.
  intros Hnc Hw Ha He Hq. rewrite walk_process in Hw.
  destruct (process_in cfg dex _ acts ok a Hw Ha) as (e & _ & Hin).
  eapply act_of_noclobber; eauto.
Qed.

(* ... and a collision stops the walk with an error *)
Theorem walk_noclobber_collision_fails cfg keep dex r t e :
  w_no_clobber cfg = true -> In e (sel_entries keep (w_deref cfg) r t) -> dex (e_rel e) = true ->
  snd (walk cfg keep dex r t) = false.
Proof.
  intros Hnc Hin Hd. rewrite walk_process.
  destruct (process cfg dex (sel_entries keep (w_deref cfg) r t)) as [acts [|]] eqn:Ep; [|reflexivity].
  destruct (process_ok cfg dex _ acts Ep) as [_ Hall]. specialize (Hall e Hin).
  destruct e as [[q k] d]. cbn [e_rel fst] in Hd. unfold act_of in Hall. rewrite Hnc, Hd in Hall. cbn [andb] in Hall.
  destruct k; discriminate.
Qed.

(* dereference: the walk never emits a link operation, and a dangling or
   cyclic link that is selected makes it fail *)
Lemma entries_deref_no_link : forall t r e, In e (entries true r t) -> forall text, e_kind e <> ELink text.
Proof.
  intros t. induction t as [len|cs IH|text res IH|ft|ft] using tree_ind2; intros r e; rewrite entries_eq;
    intros [<-|Hin] text0; try (cbn; discriminate); try (cbn [node_entry snd] in Hin; destruct Hin; fail).
  - cbn [node_entry snd] in Hin. unfold echildren in Hin. apply in_flat_map in Hin.
    destruct Hin as ([n c] & Hc & He). rewrite Forall_forall in IH. now apply (IH (n, c) Hc (r ++ [n]) e He).
  - cbn [node_entry]. destruct res as [| |[len|cs|text' res'|ft|ft]]; cbn; discriminate.
  - cbn [node_entry] in Hin. destruct res as [| |[len|cs|text' res'|ft|ft]]; cbn [snd] in Hin; try (destruct Hin; fail).
    destruct (IH (TDir cs) eq_refl) as [_ Hcs]. specialize (Hcs cs eq_refl).
    unfold echildren in Hin. apply in_flat_map in Hin.
    destruct Hin as ([n c] & Hc & He). rewrite Forall_forall in Hcs. now apply (Hcs (n, c) Hc (r ++ [n]) e He).
Qed.

Theorem walk_deref_no_links keep dex nc r t acts ok a :
  walk (mkW nc true) keep dex r t = (acts, ok) -> In a acts -> forall q text, a <> WLink q text.
Proof.
  intros Hw Ha q text ->. rewrite walk_process in Hw. cbn [w_deref] in Hw.
  destruct (process_in _ dex _ acts ok _ Hw Ha) as (e & He & Hin).
  rewrite sel_entries_filter in He. apply filter_In in He. destruct He as [He _].
  pose proof (entries_deref_no_link t r e He) as Hk.
  destruct e as [[q' k] d]. unfold act_of in Hin. cbn [e_kind fst snd] in Hk.
  assert (exists text', k = ELink text') as [text' ->].
  { destruct k as [len| |text'|ft|ft|c]; try (destruct (w_no_clobber _ && dex q')); cbn [fst] in Hin;
      try (exists text'; reflexivity); exfalso; cbn in Hin; intuition discriminate. }
  now apply (Hk text').
Qed.

Theorem walk_deref_broken_fails cfg keep dex r t q c d :
  In (q, EBroken c, d) (sel_entries keep (w_deref cfg) r t) -> snd (walk cfg keep dex r t) = false.
Proof.
  intros Hin. rewrite walk_process.
  destruct (process cfg dex (sel_entries keep (w_deref cfg) r t)) as [acts [|]] eqn:Ep; [|reflexivity].
  destruct (process_ok cfg dex _ acts Ep) as [_ Hall]. specialize (Hall _ Hin). discriminate.
Qed.

(* sizes announced = total length of the selected regular files *)
Definition file_len (e : rel * ekind * bool) : N := match e_kind e with EFile len => len | _ => 0 end.
Definition size_of_act (a : wact) : N := match a with WSize n => n | _ => 0 end.

Lemma sumN_app a b : sumN (a ++ b) = sumN a + sumN b.
Proof. induction a as [|x a IH]; cbn [app sumN]; [reflexivity|rewrite IH; lia]. Qed.

Lemma process_sizes cfg dex es : forall acts,
  process cfg dex es = (acts, true) -> sumN (map size_of_act acts) = sumN (map file_len es).
Proof.
  induction es as [|e es IH]; intros acts H; cbn [process] in H.
  - injection H as <-. reflexivity.
  - destruct (act_of cfg dex e) as [a [|]] eqn:Ea; [|discriminate].
    destruct (process cfg dex es) as [b ok'] eqn:Er. injection H as <- ->.
    rewrite map_app, sumN_app, (IH b eq_refl). cbn [map sumN]. f_equal.
    destruct e as [[q k] d]. unfold act_of in Ea. unfold file_len, e_kind. cbn [fst snd].
    destruct k; try (destruct (w_no_clobber cfg && dex q)); injection Ea as <-; try discriminate;
      cbn [map sumN size_of_act]; lia.
Qed.

Theorem walk_sizes_sum cfg keep dex r t acts :
  walk cfg keep dex r t = (acts, true) ->
  sumN (map size_of_act acts) = sumN (map file_len (sel_entries keep (w_deref cfg) r t)).
Proof. intros Hw. rewrite walk_process in Hw. now apply process_sizes in Hw. Qed.

(* ---------------- destination effect ---------------- *)
Lemma rel_eqb_eq a : forall b, rel_eqb a b = true <-> a = b.
Proof.
  induction a as [|x a IH]; intros [|y b]; cbn [rel_eqb]; split; try congruence; try discriminate.
  - intros H. apply andb_true_iff in H. destruct H as [H1 H2]. apply name_eqb_eq in H1. apply IH in H2. congruence.
  - intros H. injection H as -> ->. apply andb_true_iff. split; [apply name_eqb_refl|now apply IH].
Qed.

Lemma rel_eqb_refl a : rel_eqb a a = true.
Proof. now apply rel_eqb_eq. Qed.

(* entries in a protected set S that no (non-error) action targets keep their value *)
Lemma apply_walk_frame (S : rel -> Prop) : forall acts (d : dmap),
  (forall a q, In a acts -> is_err a = false -> act_rel a = Some q -> ~ S q) ->
  forall q k, S q -> d q = Some k -> apply_walk d acts q = Some k.
Proof.
  unfold apply_walk. induction acts as [|a acts IH]; intros d Hsafe q k HS Hq; [exact Hq|].
  cbn [fold_left]. apply IH; [intros a' q' Ha'; apply Hsafe; now right|exact HS|].
  assert (forall r0, act_rel a = Some r0 -> is_err a = false -> rel_eqb q r0 = false) as Hne.
  { intros r0 Hr He. destruct (rel_eqb q r0) eqn:E; [|reflexivity]. apply rel_eqb_eq in E. subst r0.
    exfalso. apply (Hsafe a q (or_introl eq_refl) He Hr HS). }
  destruct a as [n|r0 len|r0 text|r0|r0 ft|c r0]; cbn [apply_wact]; try exact Hq;
    try (unfold dset; rewrite (Hne r0 eq_refl eq_refl); exact Hq).
  unfold dmkdir_all. rewrite Hq. destruct (existsb (rel_eqb q) (prefixes r0)); reflexivity.
Qed.

(* no-clobber frame: with the existence oracle read off the initial destination
   map, every initially existing entry is unchanged by the walk's operations *)
Theorem walk_noclobber_frame cfg keep r t acts ok (d : dmap) :
  w_no_clobber cfg = true ->
  walk cfg keep (fun q => match d q with Some _ => true | None => false end) r t = (acts, ok) ->
  forall q k, d q = Some k -> apply_walk d acts q = Some k.
Proof.
  intros Hnc Hw q k Hq.
  apply (apply_walk_frame (fun q => d q <> None)); [|congruence|exact Hq].
  intros a q' Ha He Hr Hex.
  pose proof (walk_noclobber_untouched cfg keep _ r t acts ok a q' Hnc Hw Ha He Hr) as H. cbn beta in H.
  destruct (d q'); [discriminate|congruence].
Qed.

(* ---------------- distinct entries have distinct relative paths ---------------- *)
Definition rels (es : list (rel * ekind * bool)) : list rel := map e_rel es.

Lemma rels_app a b : rels (a ++ b) = rels a ++ rels b.
Proof. apply map_app. Qed.

Lemma nodup_app {A} (a b : list A) :
  NoDup a -> NoDup b -> (forall x, In x a -> ~ In x b) -> NoDup (a ++ b).
Proof.
  induction a as [|x a IH]; intros Ha Hb Hd; [exact Hb|].
  inversion Ha as [|? ? Hx Ha']; subst. cbn [app]. constructor.
  - intros Hin. apply in_app_or in Hin. destruct Hin as [Hin|Hin]; [contradiction|].
    apply (Hd x (or_introl eq_refl) Hin).
  - apply IH; [assumption|assumption|]. intros y Hy. apply Hd. now right.
Qed.

Lemma tree_wf_dir cs : tree_wf (TDir cs) = true ->
  names_unique (map fst cs) = true /\ Forall (fun nc => tree_wf (snd nc) = true) cs.
Proof.
  cbn [tree_wf]. intros H. apply andb_true_iff in H. destruct H as [H1 H2]. split; [exact H1|].
  clear H1. induction cs as [|[n c] rest IH]; [constructor|].
  apply andb_true_iff in H2. destruct H2 as [Hc Hr]. constructor; [exact Hc|now apply IH].
Qed.

Lemma in_rels_echildren deref r cs q :
  In q (rels (echildren deref r cs)) -> exists n s, In n (map fst cs) /\ q = r ++ n :: s.
Proof.
  unfold rels, echildren. rewrite in_map_iff. intros (e & <- & He). apply in_flat_map in He.
  destruct He as ([n c] & Hc & He). cbn [fst snd] in He.
  destruct (entries_prefix deref c (r ++ [n]) e He) as [s Hs].
  exists n, s. split; [apply in_map_iff; exists (n, c); auto|].
  unfold e_rel. rewrite Hs. now rewrite <- app_assoc.
Qed.

Lemma echildren_nodup deref r cs :
  names_unique (map fst cs) = true ->
  Forall (fun nc => forall r', NoDup (rels (entries deref r' (snd nc)))) cs ->
  NoDup (rels (echildren deref r cs)).
Proof.
  induction cs as [|[n c] rest IH]; intros Hu Hc; [constructor|].
  cbn [map fst names_unique] in Hu. apply andb_true_iff in Hu. destruct Hu as [Hn Hu].
  inversion Hc as [|? ? Hc0 Hcr]; subst. cbn [snd] in Hc0.
  cbn [echildren flat_map fst snd]. fold (echildren deref r rest). rewrite rels_app.
  apply nodup_app; [apply Hc0|now apply IH|].
  intros q Hq1 Hq2.
  unfold rels in Hq1. apply in_map_iff in Hq1. destruct Hq1 as (e & <- & He).
  destruct (entries_prefix deref c (r ++ [n]) e He) as [s Hs].
  destruct (in_rels_echildren deref r rest _ Hq2) as (n' & s' & Hn' & Heq).
  unfold e_rel in Heq. rewrite Hs, <- app_assoc in Heq. apply app_inv_head in Heq. cbn [app] in Heq.
  injection Heq as -> _.
  apply negb_true_iff in Hn. assert (existsb (name_eqb n') (map fst rest) = true); [|congruence].
  apply existsb_exists. exists n'. split; [assumption|apply name_eqb_refl].
Qed.

Theorem entries_nodup deref : forall t r, tree_wf t = true -> NoDup (rels (entries deref r t)).
Proof.
  intros t. induction t as [len|cs IH|text res IH|ft|ft] using tree_ind2; intros r Hwf; rewrite entries_eq;
    cbn [node_entry fst snd rels map e_rel]; try (constructor; [intros []|constructor]).
  - destruct (tree_wf_dir cs Hwf) as [Hu Hall]. constructor.
    + fold (rels (echildren deref r cs)). intros Hin.
      destruct (in_rels_echildren deref r cs r Hin) as (n & s & _ & Heq).
      rewrite <- (app_nil_r r) in Heq at 1. apply app_inv_head in Heq. discriminate.
    + fold (rels (echildren deref r cs)). apply echildren_nodup; [exact Hu|].
      rewrite Forall_forall in *. intros nc Hnc r'. apply IH; [assumption|now apply Hall].
  - destruct deref.
    + destruct res as [| |[len|cs|text' res'|ft|ft]]; cbn [fst snd map e_rel]; try (constructor; [intros []|constructor]).
      cbn [tree_wf] in Hwf. destruct (tree_wf_dir cs Hwf) as [Hu Hall].
      destruct (IH (TDir cs) eq_refl) as [_ Hcs]. specialize (Hcs cs eq_refl). constructor.
      * fold (rels (echildren true r cs)). intros Hin.
        destruct (in_rels_echildren true r cs r Hin) as (n & s & _ & Heq).
        rewrite <- (app_nil_r r) in Heq at 1. apply app_inv_head in Heq. discriminate.
      * fold (rels (echildren true r cs)). apply echildren_nodup; [exact Hu|].
        rewrite Forall_forall in *. intros nc Hnc r'. apply Hcs; [assumption|now apply Hall].
    + cbn [fst snd map e_rel]. constructor; [intros []|constructor].
Qed.

Lemma nodup_map_filter {A B} (g : A -> B) (f : A -> bool) l : NoDup (map g l) -> NoDup (map g (filter f l)).
Proof.
  induction l as [|x l IH]; intros H; [constructor|]. inversion H as [|? ? Hx Hl]; subst. cbn [filter].
  destruct (f x); [|now apply IH]. cbn [map]. constructor; [|now apply IH].
  intros Hin. apply Hx. apply in_map_iff in Hin. destruct Hin as (y & Hy & Hin). apply filter_In in Hin.
  apply in_map_iff. exists y. tauto.
Qed.

Theorem sel_entries_nodup keep deref t r : tree_wf t = true -> NoDup (rels (sel_entries keep deref r t)).
Proof. intros H. rewrite sel_entries_filter. apply nodup_map_filter. now apply entries_nodup. Qed.

(* ---------------- mirror ---------------- *)
Definition dir_ok (d : dmap) (e : rel * ekind * bool) : Prop :=
  e_kind e = EDir -> d (e_rel e) = None \/ d (e_rel e) = Some DDir.

Lemma in_prefixes_self r : existsb (rel_eqb r) (prefixes r) = true.
Proof.
  apply existsb_exists. exists r. split; [|apply rel_eqb_refl].
  induction r as [|x r IH]; cbn [prefixes]; [now left|]. right. apply in_map_iff. exists r. auto.
Qed.

Lemma act_of_rels cfg dex e a q : In a (fst (act_of cfg dex e)) -> act_rel a = Some q -> q = e_rel e.
Proof.
  destruct e as [[r k] d]. unfold act_of, e_rel. cbn [fst].
  destruct k; try (destruct (w_no_clobber cfg && dex r)); cbn [fst]; intros Hin Hq;
    repeat (destruct Hin as [<-|Hin]; [cbn in Hq; congruence|]); destruct Hin.
Qed.

Lemma process_act_rels cfg dex es acts ok a q :
  process cfg dex es = (acts, ok) -> In a acts -> act_rel a = Some q -> In q (rels es).
Proof.
  intros Hp Ha Hq. destruct (process_in cfg dex es acts ok a Hp Ha) as (e & He & Hin).
  rewrite (act_of_rels cfg dex e a q Hin Hq). unfold rels. now apply in_map.
Qed.

Lemma apply_walk_app d a b : apply_walk d (a ++ b) = apply_walk (apply_walk d a) b.
Proof. unfold apply_walk. apply fold_left_app. Qed.

(* what one successful entry does at its own path, and elsewhere *)
Lemma act_of_effect cfg dex e a d :
  act_of cfg dex e = (a, true) -> dir_ok d e ->
  apply_walk d a (e_rel e) = expect_kind (e_kind e) /\
  (forall q, q <> e_rel e -> apply_walk d a q = d q \/ (d q = None /\ apply_walk d a q = Some DDir)).
Proof.
  destruct e as [[r k] fl]. unfold act_of, e_rel, e_kind, dir_ok. cbn [fst snd]. intros Ha Hd.
  unfold e_rel, e_kind in Hd. cbn [fst snd] in Hd.
  assert (forall q, q <> r -> rel_eqb q r = false) as Hne.
  { intros q Hq. destruct (rel_eqb q r) eqn:E; [apply rel_eqb_eq in E; contradiction|reflexivity]. }
  destruct k; try (destruct (w_no_clobber cfg && dex r)); try discriminate; injection Ha as <-;
    unfold apply_walk; cbn [fold_left apply_wact expect_kind].
  - split; [unfold dset; now rewrite rel_eqb_refl|]. intros q Hq. left. unfold dset. now rewrite (Hne q Hq).
  - split.
    + unfold dmkdir_all. rewrite in_prefixes_self. destruct (Hd eq_refl) as [-> | ->]; reflexivity.
    + intros q Hq. unfold dmkdir_all. destruct (existsb (rel_eqb q) (prefixes r)); [|now left].
      destruct (d q); [now left|right; split; reflexivity].
  - split; [unfold dset; now rewrite rel_eqb_refl|]. intros q Hq. left. unfold dset. now rewrite (Hne q Hq).
  - split; [unfold dset; now rewrite rel_eqb_refl|]. intros q Hq. left. unfold dset. now rewrite (Hne q Hq).
Qed.

Theorem process_mirror cfg dex : forall es acts d,
  process cfg dex es = (acts, true) -> NoDup (rels es) -> (forall e, In e es -> dir_ok d e) ->
  forall e, In e es -> apply_walk d acts (e_rel e) = expect_kind (e_kind e).
Proof.
  induction es as [|e0 rest IH]; intros acts d Hp Hnd Hok e Hin; [destruct Hin|].
  cbn [process] in Hp. destruct (act_of cfg dex e0) as [a0 [|]] eqn:Ea; [|discriminate].
  destruct (process cfg dex rest) as [b ok'] eqn:Er. injection Hp as <- ->.
  cbn [rels map] in Hnd. inversion Hnd as [|? ? Hx Hnd']; subst.
  destruct (act_of_effect cfg dex e0 a0 d Ea (Hok e0 (or_introl eq_refl))) as [Hself Hother].
  rewrite apply_walk_app. destruct Hin as [<-|Hin].
  - (* the entry's own operations, then the rest never touch its path again *)
    assert (exists k, expect_kind (e_kind e0) = Some k) as [k Hk].
    { destruct e0 as [[r0 k0] f0]. unfold act_of in Ea. cbn [e_kind fst snd].
      destruct k0; try (destruct (w_no_clobber cfg && dex r0)); try discriminate; cbn; eauto. }
    rewrite Hk in *. apply (apply_walk_frame (fun q => q = e_rel e0)); [|reflexivity|exact Hself].
    intros a q Ha _ Hq ->. apply Hx. fold (rels rest). eapply process_act_rels; eauto.
  - apply (IH b (apply_walk d a0) eq_refl Hnd'); [|exact Hin].
    intros e' He' Hk. unfold dir_ok in Hok.
    assert (e_rel e' <> e_rel e0) as Hne.
    { intros Heq. apply Hx. fold (rels rest). rewrite <- Heq. unfold rels. now apply in_map. }
    destruct (Hother (e_rel e') Hne) as [-> | [_ ->]]; [apply Hok; [now right|exact Hk]|now right].
Qed.

(* frame: a path that is neither a selected entry's path nor an ancestor of one is untouched *)
Lemma apply_walk_untouched : forall acts (d : dmap) q,
  (forall a r0, In a acts -> act_rel a = Some r0 -> existsb (rel_eqb q) (prefixes r0) = false) ->
  apply_walk d acts q = d q.
Proof.
  unfold apply_walk. induction acts as [|a acts IH]; intros d q H; [reflexivity|].
  cbn [fold_left]. rewrite IH by (intros a' r0 Ha'; apply H; now right).
  assert (forall r0, act_rel a = Some r0 -> existsb (rel_eqb q) (prefixes r0) = false) as Ha
      by (intros r0; apply H; now left).
  assert (forall r0, act_rel a = Some r0 -> rel_eqb q r0 = false) as Hne.
  { intros r0 Hr. specialize (Ha r0 Hr). destruct (rel_eqb q r0) eqn:E; [|reflexivity].
    apply rel_eqb_eq in E. subst. now rewrite in_prefixes_self in Ha. }
  destruct a as [n|r0 len|r0 text|r0|r0 ft|c r0]; cbn [apply_wact]; try reflexivity;
    try (unfold dset; now rewrite (Hne r0 eq_refl)).
  unfold dmkdir_all. now rewrite (Ha r0 eq_refl).
Qed.

Theorem walk_mirror cfg keep dex t (d : dmap) acts :
  walk cfg keep dex [] t = (acts, true) -> tree_wf t = true ->
  (forall e, In e (sel_entries keep (w_deref cfg) [] t) -> dir_ok d e) ->
  (forall e, In e (sel_entries keep (w_deref cfg) [] t) ->
     apply_walk d acts (e_rel e) = expect_kind (e_kind e)) /\
  (forall q, (forall e, In e (sel_entries keep (w_deref cfg) [] t) ->
                existsb (rel_eqb q) (prefixes (e_rel e)) = false) ->
     apply_walk d acts q = d q).
Proof.
  intros Hw Hwf Hok. rewrite walk_process in Hw. split.
  - apply (process_mirror cfg dex _ acts d Hw); [now apply sel_entries_nodup|exact Hok].
  - intros q Hq. apply apply_walk_untouched. intros a r0 Ha Hr.
    destruct (process_in cfg dex _ acts true a Hw Ha) as (e & He & Hin).
    rewrite (act_of_rels cfg dex e a r0 Hin Hr). now apply Hq.
Qed.

(* ------------------------------------------------------------------ *)
(* C06: the walker reaches (and creates) a directory before any entry   *)
(* below it, for every tree, filter and dereference setting             *)
(* ------------------------------------------------------------------ *)
Definition seen_after (seen : list rel) (L : list (rel * ekind * bool)) : list rel :=
  fold_left (fun s e => match snd (fst e) with EDir => fst (fst e) :: s | _ => s end) L seen.

Lemma existsb_rel_in p seen : existsb (rel_eqb p) seen = true <-> In p seen.
Proof.
  rewrite existsb_exists. split.
  - intros [x [Hin He]]. apply rel_eqb_eq in He. now subst.
  - intros Hin. exists p. split; [exact Hin|apply rel_eqb_refl].
Qed.

Lemma parents_first_app A : forall seen B,
  parents_first seen (A ++ B) = parents_first seen A && parents_first (seen_after seen A) B.
Proof.
  induction A as [|[[q k] d] A IH]; intros seen B; [reflexivity|].
  cbn [app parents_first seen_after fold_left fst snd]. rewrite IH. unfold seen_after. now rewrite andb_assoc.
Qed.

Lemma seen_after_incl A : forall seen x, In x seen -> In x (seen_after seen A).
Proof.
  induction A as [|[[q k] d] A IH]; intros seen x Hin; [exact Hin|].
  cbn [seen_after fold_left fst snd]. apply IH. destruct k; try exact Hin. now right.
Qed.

Lemma removelast_snoc {A} (l : list A) x : removelast (l ++ [x]) = l.
Proof. apply removelast_last. Qed.

Lemma children_parents_first keep deref r cs :
  Forall (fun nc : name * tree => forall r seen, In (removelast r) seen ->
            parents_first seen (sel_entries keep deref r (snd nc)) = true) cs ->
  forall seen', In r seen' -> parents_first seen' (schildren keep deref r cs) = true.
Proof.
  induction 1 as [|[n c] rest Hc0 _ IHrest]; intros seen' Hr; [reflexivity|].
  cbn [schildren flat_map fst snd]. rewrite parents_first_app. apply andb_true_iff. split.
  - apply Hc0. rewrite removelast_snoc. exact Hr.
  - apply IHrest. now apply seen_after_incl.
Qed.

Theorem sel_parents_first keep deref : forall t r seen,
  In (removelast r) seen -> parents_first seen (sel_entries keep deref r t) = true.
Proof.
  intros t. induction t as [len|cs IH|text res IH|ft|ft] using tree_ind2; intros r seen Hin;
    rewrite sel_entries_eq; destruct (negb (keep r _)); try reflexivity;
    assert (existsb (rel_eqb (removelast r)) seen = true) as Hp by (now apply existsb_rel_in).
  - cbn [node_entry fst snd parents_first]. now rewrite Hp.
  - cbn [node_entry fst snd parents_first]. rewrite Hp. cbn [andb].
    apply (children_parents_first keep deref r cs IH). now left.
  - destruct deref.
    + destruct res as [| |t']; cbn [node_entry fst snd parents_first]; try (now rewrite Hp).
      destruct (IH t' eq_refl) as [_ Hch].
      destruct t' as [len|cs|text' res'|ft|ft]; cbn [fst snd parents_first]; rewrite Hp; try reflexivity. cbn [andb].
      apply (children_parents_first keep true r cs (Hch cs eq_refl)). now left.
    + cbn [node_entry fst snd parents_first]. now rewrite Hp.
  - cbn [node_entry fst snd parents_first]. now rewrite Hp.
  - cbn [node_entry fst snd parents_first]. now rewrite Hp.
Qed.

(* what parents_first says about positions *)
Theorem parents_first_spec : forall L seen A q k d B,
  parents_first seen L = true -> L = A ++ (q, k, d) :: B ->
  In (removelast q) seen \/ exists d', In (removelast q, EDir, d') A.
Proof.
  intros L seen A. revert L seen. induction A as [|[[q0 k0] d0] A IH]; intros L seen q k d B Hp E; subst L.
  - cbn [app parents_first] in Hp. apply andb_true_iff in Hp. destruct Hp as [Hp _]. left. now apply existsb_rel_in.
  - cbn [app parents_first] in Hp. apply andb_true_iff in Hp. destruct Hp as [_ Hp].
    destruct (IH _ _ q k d B Hp eq_refl) as [Hin|[d' Hin]].
    + destruct k0; try (now left). destruct Hin as [<-|Hin]; [right; exists d0; now left|now left].
    + right. exists d'. now right.
Qed.

(* an operand that is a symbolic link, not dereferenced (the iterator follows a link given as the root only under
   --dereference: `follow_root_links(config.dereference)`, repair of a round-5 defect): the walk consists of re-creating
   that one link, or of the no-clobber refusal — nothing is looked at, created or written below it, whatever the link
   designates *)
Theorem link_operand_is_one_action : forall cfg keep dexists text res,
  w_deref cfg = false -> keep [] (tree_is_dir false (TLink text res)) = true ->
  walk cfg keep dexists [] (TLink text res) =
    if w_no_clobber cfg && dexists [] then ([WErr 1 []], false) else ([WLink [] text], true).
Proof. intros cfg keep dexists text res Hd Hk. cbn [walk]. rewrite Hd, Hk. reflexivity. Qed.
