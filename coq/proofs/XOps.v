(* XOps.v — part of the translator tie (see ExtractedOk.v): Config block size; call orders of CopyHandle::new / copy_file / queue_file_blocks.
   One file per group of translated definitions, so that a property depends only on the pieces it cites. *)
From XcpModel Require Import Base Extents Blocks Sparse CopyLoop FileCopy Updater Meta Backup Extracted.
From Coq Require Import String.
From Coq Require Import Lia.
(* ---- Config::from: --no-progress selects one block per file (u64::MAX) ---- *)
Theorem x_config_block_size_ok : forall bs,
  x_config_block_size true bs = U64MAX /\ x_config_block_size false bs = bs.
Proof. intros. split; reflexivity. Qed.

From XcpModel Require Import Walker Ops.
(* ---- call order of CopyHandle::new, copy_file and queue_file_blocks ---- *)
Theorem x_copy_new_steps_ok : x_copy_new_steps = copy_new_steps.
Proof. reflexivity. Qed.
Theorem x_copy_file_steps_ok : x_copy_file_steps = copy_file_steps.
Proof. reflexivity. Qed.
Theorem x_queue_file_blocks_steps_ok : x_queue_file_blocks_steps = queue_file_blocks_steps.
Proof. reflexivity. Qed.

(* ... and the model's CopyHandle::new (the prefix of Ops.copy_actions, overwrite with a backup) issues its
   system calls in exactly that order: the extracted steps minus the ones that are not system calls of their
   own (23 shares the probe's stat, 24 decides, 98 returns) or are not evaluated for an existing destination (26) *)
Theorem copy_new_steps_model : forall fc src dst n len,
  flat_map step_code_of (fst (copy_actions fc src dst (mkEnv true false (Some n) len false false [] 0))) =
  filter (fun c => negb ((c =? 23) || (c =? 24) || (c =? 98) || (c =? 26) || (c =? 27) || (c =? 28) || (c =? 97) || (c =? 29))) x_copy_new_steps.
Proof.
  intros [np nt ow fs] src dst n len. unfold copy_actions. cbn [ce_dst_exists ce_same_file andb].
  destruct ow, np, nt, fs; vm_compute; reflexivity.
Qed.

