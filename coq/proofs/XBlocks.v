(* XBlocks.v — part of the translator tie (see ExtractedOk.v): parblock block arithmetic, the pool queue bound, the block job.
   One file per group of translated definitions, so that a property depends only on the pieces it cites. *)
From XcpModel Require Import Base Extents Blocks Sparse CopyLoop FileCopy Updater Meta Backup Extracted.
From Coq Require Import String.
From Coq Require Import Lia.
(* ---- parblock::queue_file_range: block count, size and offset of block k ---- *)
Theorem x_qfr_blocks_ok : forall s e bs, x_qfr_blocks s e bs = nblocks (e - s) bs.
Proof. reflexivity. Qed.
Theorem x_qfr_bytes_ok : forall s e bs k, x_qfr_bytes s e bs k = blk_bytes (e - s) bs k.
Proof. reflexivity. Qed.
Theorem x_qfr_off_ok : forall s e bs k, x_qfr_off s e bs k = blk_off s bs k.
Proof. reflexivity. Qed.
Theorem x_qfr_jobs_ok : forall s e bs,
  range_jobs s (e - s) bs =
  map (fun k => (x_qfr_off s e bs (N.of_nat k), x_qfr_bytes s e bs (N.of_nat k))) (seq 0 (N.to_nat (x_qfr_blocks s e bs))).
Proof. reflexivity. Qed.

(* the pool's bounded queue: the Q of the C20 bound *)
Theorem x_pool_queue_len_ok : x_pool_queue_len = 128.
Proof. reflexivity. Qed.

From XcpModel Require Import Walker Ops.
(* ---- the block job of parblock: one unfolding of CopyLoop.block_job in terms of the extracted expressions ---- *)
Theorem x_block_job_ok : forall f flen off bytes done k rest,
  block_job (S f) flen off bytes done (XOk k :: rest) =
  let req := mkReq (x_block_job_offset off done) (x_block_job_offset off done) (x_block_job_request bytes done) in
  if k =? 0 then mkOut (if x_block_job_zero_is_end flen off done then StOk else StErr EPREMATURE) [(req, XOk 0)] rest
  else if x_block_job_complete (done + k) bytes then mkOut StOk [(req, XOk k)] rest
  else out_cons (req, XOk k) (block_job f flen off bytes (done + k) rest).
Proof. reflexivity. Qed.

