From XcpModel Require Import Base Extents Sparse Blocks CopyLoop FileCopy.
From XcpProofs Require Import ExtentsProofs SparseProofs BlocksProofs CopyLoopProofs.
From Coq Require Import Permutation.

(* ---------------- run_jobs ---------------- *)
Lemma run_jobs_exact flen : forall jobs ans,
  let o := run_jobs flen jobs ans in
  o_st o = StOk -> ans_bounded (o_trace o) ->
  aligned (o_trace o) /\
  (forall i, covered_by (o_trace o) i -> exists off bytes, In (off, bytes) jobs /\ off <= i < off + bytes) /\
  (forall i off bytes, In (off, bytes) jobs -> off <= i < off + bytes -> i < flen -> covered_by (o_trace o) i).
Proof.
  induction jobs as [|[off bytes] js IH]; intros ans; cbn [run_jobs].
  - cbn. intros _ _. split; [constructor|]. split.
    + intros i H. now apply covered_by_nil in H.
    + intros i off bytes [].
  - set (j := block_job (S (length ans)) flen off bytes 0 ans).
    cbn [o_st o_trace]. destruct (o_st j) eqn:Ej; try discriminate.
    intros Hst Hb. unfold ans_bounded in Hb. apply Forall_app in Hb. destruct Hb as [Hb1 Hb2].
    assert (0 <= bytes) as Hz by lia.
    destruct (block_job_exact (S (length ans)) flen off bytes 0 ans Hz Ej Hb1) as (J1 & J2 & J3).
    fold j in J1, J2, J3.
    destruct (IH (o_rest j) Hst Hb2) as (R1 & R2 & R3).
    split; [apply aligned_app; split; assumption|]. split.
    + intros i Hc. apply covered_by_app in Hc. destruct Hc as [Hc|Hc].
      * apply J2 in Hc. exists off, bytes. split; [now left|lia].
      * apply R2 in Hc. destruct Hc as (o' & b' & Hin & Hi). exists o', b'. split; [now right|assumption].
    + intros i o' b' [Hin|Hin] Hi Hlt; apply covered_by_app.
      * injection Hin as <- <-. left. apply J3; lia.
      * right. eapply R3; eauto.
Qed.

(* jobs of a list of ranges tile the ranges *)
Lemma pb_jobs_spec bs ranges : 0 < bs ->
  (forall o n, In (o, n) (pb_jobs bs ranges) ->
     exists s e, In (s, e) ranges /\ s <= o /\ o + n <= s + (e - s) /\ 1 <= n <= bs) /\
  (forall i, in_ranges ranges i ->
     exists o n, In (o, n) (pb_jobs bs ranges) /\ o <= i < o + n).
Proof.
  intros Hbs. unfold pb_jobs. split.
  - intros o n Hin. apply in_flat_map in Hin. destruct Hin as ([s e] & Hr & Hj). cbn [fst snd] in Hj.
    apply range_jobs_spec in Hj. destruct Hj as (k & Hk & -> & ->).
    destruct (blk_within s (e - s) bs k Hbs Hk) as (B1 & B2 & B3 & B4).
    exists s, e. repeat split; try assumption; lia.
  - intros i (s & e & Hr & Hi).
    destruct (blk_cover s (e - s) bs i Hbs ltac:(lia)) as (k & Hk & Hc).
    exists (blk_off s bs k), (blk_bytes (e - s) bs k). split; [|exact Hc].
    apply in_flat_map. exists (s, e). split; [assumption|]. cbn [fst snd].
    apply range_jobs_spec. exists k. auto.
Qed.

(* ---------------- parblock, one file ---------------- *)
(* Every byte of the file that lies in a queued range is written with the
   source byte of the same offset, nothing is written outside the queued
   ranges, and this holds for EVERY completion order of the block jobs. *)
Theorem parblock_file_exact bs m len sparse clone mx ans :
  0 < bs ->
  let o := parblock_copy_file bs m len sparse clone mx ans in
  f_st o = StOk -> f_cloned o = false -> ans_bounded (f_trace o) ->
  exists ranges, pb_ranges len sparse mx = (StOk, ranges) /\
  forall tr', Permutation (f_trace o) tr' ->
  forall i,
    (in_ranges ranges i -> i < len -> src_of tr' i = Some i) /\
    (~ in_ranges ranges i -> src_of tr' i = None).
Proof.
  intros Hbs. unfold parblock_copy_file.
  destruct (try_reflink m clone) as [iss [| |e]]; cbn [f_st f_cloned f_trace]; try discriminate.
  destruct (pb_ranges len sparse mx) as [[| | |] ranges] eqn:Er; cbn [f_st f_cloned f_trace]; try discriminate.
  intros Hst _ Hb. exists ranges. split; [reflexivity|].
  destruct (run_jobs_exact len (pb_jobs bs ranges) ans Hst Hb) as (A1 & A2 & A3).
  destruct (pb_jobs_spec bs ranges Hbs) as (P1 & P2).
  intros tr' Hperm i.
  rewrite <- (src_of_perm _ _ i A1 Hperm).
  destruct (src_of_aligned _ i A1) as [S1 S2]. split.
  - intros Hr Hlt. apply S1. destruct (P2 i Hr) as (o & n & Hin & Hi). eapply A3; eauto.
  - intros Hn. apply S2. intros Hc. apply Hn. apply A2 in Hc.
    destruct Hc as (o & n & Hin & Hi). destruct (P1 o n Hin) as (s & e & Hr & H1 & H2 & H3).
    exists s, e. split; [assumption|lia].
Qed.

(* whole-file case: not sparse, or FIEMAP unsupported *)
Lemma pb_ranges_whole len sparse mx ranges :
  pb_ranges len sparse mx = (StOk, ranges) -> (sparse = false \/ mx = MxNone) ->
  ranges = [(0, len)].
Proof.
  unfold pb_ranges. intros H [->| ->]; [now injection H|].
  destruct sparse; now injection H.
Qed.

(* sparse case: the queued ranges contain every extent byte *)
Lemma pb_ranges_extents len l ranges i :
  pb_ranges len true (MxSome l) = (StOk, ranges) -> Forall ext_wf l -> covered l i ->
  in_ranges ranges i.
Proof.
  unfold pb_ranges. intros H Hwf Hc. injection H as <-.
  apply merge_covers in Hc; [|assumption]. destruct Hc as (x & Hx & Hcx).
  exists (e_start x), (e_end x). split; [|exact Hcx].
  apply in_map_iff. exists x. auto.
Qed.

(* ... and nothing but extent bytes and one-byte adjacency gaps *)
Lemma pb_ranges_extents_only len l ranges i :
  pb_ranges len true (MxSome l) = (StOk, ranges) -> in_ranges ranges i ->
  covered l i \/ In i (gap_bytes l).
Proof.
  unfold pb_ranges. intros H (s & e & Hin & Hi). injection H as <-.
  apply in_map_iff in Hin. destruct Hin as (x & Hx & Hin). injection Hx as <- <-.
  apply merge_adds_only_gaps. exists x. split; [assumption|exact Hi].
Qed.

(* ---------------- parfile, one file ---------------- *)
Theorem parfile_file_exact fuel bs m len sparse clone L ans :
  layout_ok 0 len L ->
  let o := parfile_copy_file fuel bs m len sparse clone (k_seek_data L len) (k_seek_hole L len) ans in
  f_st o = StOk -> f_cloned o = false -> ans_bounded (f_trace o) ->
  forall i,
    (sparse = false -> (i < len -> src_of (f_trace o) i = Some i) /\ (len <= i -> src_of (f_trace o) i = None)) /\
    (sparse = true -> (in_data L i -> src_of (f_trace o) i = Some i) /\ (~ in_data L i -> src_of (f_trace o) i = None)).
Proof.
  intros HL. unfold parfile_copy_file.
  destruct (try_reflink m clone) as [iss [| |e]]; cbn [f_st f_cloned f_trace]; try discriminate.
  destruct sparse; cbn [f_st f_cloned f_trace]; intros Hst _ Hb i.
  - split; [discriminate|]. intros _.
    destruct (copy_sparse_spec bs len L [] 0 fuel ans ltac:(intros ? ? []) HL Hst Hb) as (A1 & A2).
    cbn [app] in A1, A2. destruct (src_of_aligned _ i A1) as [S1 S2].
    split; intros H; [apply S1|apply S2]; now rewrite A2.
  - split; [|discriminate]. intros _.
    destruct (copy_bytes_exact (S (length ans)) bs len 0 0 ans ltac:(lia) Hst Hb) as (A1 & A2 & A3).
    destruct (src_of_aligned _ i A1) as [S1 S2].
    split; intros H; [apply S1|apply S2]; rewrite A3; lia.
Qed.

(* ---------------- content ---------------- *)
(* the destination after ftruncate(len) on a fresh/truncated file is all zero;
   transfers overwrite; a hole of the source reads as zero *)
Definition dst_byte (tr : xtrace) (src : N -> N) (i : N) : N :=
  match src_of tr i with Some s => src s | None => 0 end.

Corollary parfile_file_bytes fuel bs m len sparse clone L ans src :
  layout_ok 0 len L -> (forall i, i < len -> ~ in_data L i -> src i = 0) ->
  let o := parfile_copy_file fuel bs m len sparse clone (k_seek_data L len) (k_seek_hole L len) ans in
  f_st o = StOk -> f_cloned o = false -> ans_bounded (f_trace o) ->
  forall i, i < len -> dst_byte (f_trace o) src i = src i.
Proof.
  intros HL Hz o Hst Hc Hb i Hi. unfold dst_byte.
  destruct (parfile_file_exact fuel bs m len sparse clone L ans HL Hst Hc Hb i) as [Hd Hs].
  destruct sparse.
  - destruct (Hs eq_refl) as [S1 S2].
    destruct (in_datab L i) eqn:E.
    + assert (in_data L i) as Hin.
      { unfold in_datab in E. apply existsb_exists in E. destruct E as ([s e] & Hin & Hc').
        apply andb_true_iff in Hc'. cbn [fst snd] in Hc'. exists s, e. split; [assumption|]. lia. }
      fold o in S1. now rewrite (S1 Hin).
    + assert (~ in_data L i) as Hin.
      { intros (s & e & Hin & Hc'). assert (in_datab L i = true); [|congruence].
        unfold in_datab. apply existsb_exists. exists (s, e). split; [assumption|]. cbn [fst snd].
        apply andb_true_iff. split; [apply N.leb_le|apply N.ltb_lt]; lia. }
      fold o in S2. rewrite (S2 Hin). symmetry. now apply Hz.
  - destruct (Hd eq_refl) as [S1 _]. fold o in S1. now rewrite (S1 Hi).
Qed.

(* ---------------- reflink mode contract (C15) ---------------- *)
Lemma never_no_clone a : fst (try_reflink RfNever a) = false /\ snd (try_reflink RfNever a) = RlCopy.
Proof. split; reflexivity. Qed.

Lemma always_ok_iff_cloned a : snd (try_reflink RfAlways a) = RlCloned <-> a = ClOk.
Proof. destruct a; cbn; split; congruence. Qed.

Lemma always_never_copies a : snd (try_reflink RfAlways a) <> RlCopy.
Proof. destruct a; cbn; discriminate. Qed.

Lemma auto_falls_back a : snd (try_reflink RfAuto a) = RlCopy <-> a = ClUnsup.
Proof. destruct a; cbn; split; congruence. Qed.

Lemma auto_always_issue m a : m <> RfNever -> fst (try_reflink m a) = true.
Proof. destruct m; [reflexivity|reflexivity|congruence]. Qed.

Lemma classify_clone_unsup e :
  classify_clone e = ClUnsup <-> e = EOPNOTSUPP \/ e = EINVAL \/ e = EXDEV \/ e = ETXTBSY.
Proof.
  unfold classify_clone.
  destruct (N.eqb_spec e 0) as [->|H0]; [split; [discriminate|intros [H|[H|[H|H]]]; discriminate H]|].
  destruct (N.eqb_spec e EOPNOTSUPP); destruct (N.eqb_spec e EINVAL);
  destruct (N.eqb_spec e EXDEV); destruct (N.eqb_spec e ETXTBSY); cbn [orb];
  split; try tauto; try discriminate; intros [H|[H|[H|H]]]; congruence.
Qed.

(* ---------------- parblock content ---------------- *)
Definition covered_dec l i : {covered l i} + {~ covered l i}.
Proof.
  destruct (coveredb l i) eqn:E; [left|right].
  - unfold coveredb in E. apply existsb_exists in E. destruct E as (e & He & Hc).
    exists e. split; [assumption|]. unfold ext_coversb in Hc. apply andb_true_iff in Hc.
    unfold ext_covers. lia.
  - intros (e & He & Hc). assert (coveredb l i = true); [|congruence].
    unfold coveredb. apply existsb_exists. exists e. split; [assumption|].
    unfold ext_coversb, ext_covers in *. apply andb_true_iff. split; [apply N.leb_le|apply N.ltb_lt]; lia.
Defined.

Definition in_rangesb (ranges : list (N * N)) (i : N) : bool :=
  existsb (fun r => (fst r <=? i) && (i <? snd r)) ranges.

Lemma in_rangesb_spec ranges i : in_rangesb ranges i = true <-> in_ranges ranges i.
Proof.
  unfold in_rangesb, in_ranges. rewrite existsb_exists. split.
  - intros ([s e] & Hin & Hc). cbn [fst snd] in Hc. apply andb_true_iff in Hc.
    exists s, e. split; [assumption|lia].
  - intros (s & e & Hin & Hc). exists (s, e). split; [assumption|]. cbn [fst snd].
    apply andb_true_iff. split; [apply N.leb_le|apply N.ltb_lt]; lia.
Qed.

Lemma in_ranges_dec ranges i : in_ranges ranges i \/ ~ in_ranges ranges i.
Proof.
  destruct (in_rangesb ranges i) eqn:E; [left; now apply in_rangesb_spec|right].
  intros H. apply in_rangesb_spec in H. congruence.
Qed.

Corollary parblock_file_bytes bs m len sparse clone mx ans src :
  0 < bs ->
  (* what the source looks like outside the ranges that will be queued *)
  (sparse = false \/ mx = MxNone \/
   exists l, mx = MxSome l /\ Forall ext_wf l /\ forall i, i < len -> ~ covered l i -> src i = 0) ->
  let o := parblock_copy_file bs m len sparse clone mx ans in
  f_st o = StOk -> f_cloned o = false -> ans_bounded (f_trace o) ->
  forall tr', Permutation (f_trace o) tr' ->
  forall i, i < len -> dst_byte tr' src i = src i.
Proof.
  intros Hbs Hsrc o Hst Hcl Hb tr' Hperm i Hi.
  destruct (parblock_file_exact bs m len sparse clone mx ans Hbs Hst Hcl Hb) as (ranges & Hr & Hx).
  destruct (Hx tr' Hperm i) as [X1 X2]. unfold dst_byte.
  destruct Hsrc as [Hs|[Hs|(l & -> & Hwf & Hz)]].
  - rewrite (pb_ranges_whole _ _ _ _ Hr (or_introl Hs)) in X1. rewrite X1; [reflexivity| |assumption].
    exists 0, len. split; [now left|lia].
  - rewrite (pb_ranges_whole _ _ _ _ Hr (or_intror Hs)) in X1. rewrite X1; [reflexivity| |assumption].
    exists 0, len. split; [now left|lia].
  - destruct sparse.
    + destruct (covered_dec l i) as [Hc|Hc].
      * rewrite X1; [reflexivity| |assumption]. eapply pb_ranges_extents; eauto.
      * destruct (src_of tr' i) as [s|] eqn:Es.
        -- (* written although not an extent byte: it is an adjacency gap, still aligned *)
           assert (in_ranges ranges i) as Hin.
           { destruct (in_ranges_dec ranges i) as [H|H]; [exact H|]. apply X2 in H. congruence. }
           specialize (X1 Hin Hi). injection X1 as ->. reflexivity.
        -- symmetry. now apply Hz.
    + rewrite (pb_ranges_whole _ _ _ _ Hr (or_introl eq_refl)) in X1. rewrite X1; [reflexivity| |assumption].
      exists 0, len. split; [now left|lia].
Qed.
