(* Lemmas about Sparse.map_extents (FIEMAP paging) and the SEEK_DATA/SEEK_HOLE
   segment walk. *)
From XcpModel Require Import Base Extents Sparse.
From XcpProofs Require Import ExtentsProofs.

(* ------------------------------------------------------------------ *)
(* FIEMAP paging                                                       *)
(* ------------------------------------------------------------------ *)

Lemma fexts_ok_bounds L : forall lo y, fexts_ok lo L -> In y L ->
  lo <= fe_logical y /\ lo < fext_end y.
Proof.
  induction L as [|e r IH]; intros lo y H Hy; [destruct Hy|].
  cbn [fexts_ok] in H. destruct H as (H1&H2&H3&H4).
  destruct Hy as [<-|Hy]; [unfold fext_end; lia|].
  specialize (IH _ _ H4 Hy). unfold fext_end in *. lia.
Qed.

Lemma fexts_ok_weaken L : forall lo lo', lo' <= lo -> fexts_ok lo L -> fexts_ok lo' L.
Proof. destruct L as [|e r]; cbn; intros lo lo' H Hs; [exact I|]. intuition lia. Qed.

(* in a legal list, everything up to x ends no later than x, everything
   after x ends strictly later *)
Lemma fexts_ok_split A : forall lo x R, fexts_ok lo (A ++ x :: R) ->
  Forall (fun a => fext_end a <= fext_end x) (A ++ [x]) /\
  (forall y, In y R -> fext_end x < fext_end y) /\
  (fe_last x = true -> R = []).
Proof.
  induction A as [|a A IH]; intros lo x R H.
  - cbn [app] in *. cbn [fexts_ok] in H. destruct H as (H1&H2&H3&H4).
    split; [repeat constructor; lia|]. split; [|exact H3].
    intros y Hy. pose proof (fexts_ok_bounds _ _ _ H4 Hy). lia.
  - cbn [app] in H. cbn [fexts_ok] in H. destruct H as (H1&H2&H3&H4).
    destruct (IH _ _ _ H4) as (I1&I2&I3). split; [|split; assumption].
    cbn [app]. constructor; [|exact I1].
    assert (In x (A ++ x :: R)) as Hin by (apply in_or_app; right; now left).
    pose proof (fexts_ok_bounds _ _ _ H4 Hin). unfold fext_end in *. lia.
Qed.

Lemma drop_before_app A : forall s R,
  Forall (fun a => fext_end a <= s) A ->
  (forall y, In y R -> s < fext_end y) ->
  drop_before s (A ++ R) = R.
Proof.
  induction A as [|a A IH]; intros s R HA HR; cbn [app].
  - destruct R as [|y R]; [reflexivity|]. cbn [drop_before].
    specialize (HR y (or_introl eq_refl)).
    destruct (N.leb_spec (fext_end y) s); [lia|reflexivity].
  - inversion HA; subst. cbn [drop_before].
    destruct (N.leb_spec (fext_end a) s); [|lia]. now apply IH.
Qed.

Lemma firstn_skipn_last {A} (n : nat) (l : list A) (d : A) :
  firstn n l <> [] ->
  exists pre, firstn n l = pre ++ [last (firstn n l) d].
Proof.
  intros H. exists (removelast (firstn n l)). now apply app_removelast_last.
Qed.

(* the loop invariant: L = done ++ rest, fm_start has dropped exactly `done` *)
Lemma map_extents_go_complete L lo (HL : fexts_ok lo L) :
  forall fuel done rest start acc,
    L = done ++ rest ->
    drop_before start L = rest ->
    (length rest < fuel)%nat ->
    map_extents_go fuel (kernel_fiemap L) start acc = MxSome (acc ++ map to_ext rest).
Proof.
  induction fuel as [|f IH]; intros done rest start acc HLeq Hdrop Hfuel; [lia|].
  cbn [map_extents_go]. unfold kernel_fiemap at 1. rewrite Hdrop.
  pose proof (firstn_skipn FIEMAP_PAGE_SIZE rest) as Hfs.
  remember (firstn FIEMAP_PAGE_SIZE rest) as pg eqn:Hpg.
  destruct pg as [|y pg'].
  - destruct rest as [|x rest']; [cbn; now rewrite app_nil_r|].
    unfold FIEMAP_PAGE_SIZE in Hpg; cbn in Hpg; discriminate.
  - assert (y :: pg' <> []) as Hne by discriminate.
    assert (length rest <> 0)%nat as Hlen.
    { destruct rest; [unfold FIEMAP_PAGE_SIZE in Hpg; cbn in Hpg; discriminate Hpg|cbn; lia]. }
    pose proof (app_removelast_last y Hne) as Hpre.
    set (lst := last (y :: pg') y) in *. set (pre := removelast (y :: pg')) in *.
    set (rest' := skipn FIEMAP_PAGE_SIZE rest) in *.
    assert (L = (done ++ pre) ++ lst :: rest') as HL2.
    { rewrite HLeq, <- Hfs, Hpre. now rewrite <- !app_assoc. }
    pose proof HL as HL'. rewrite HL2 in HL'.
    destruct (fexts_ok_split _ _ _ _ HL') as (S1&S2&S3).
    destruct (fe_last lst) eqn:Hlast.
    + specialize (S3 eq_refl). rewrite S3, app_nil_r in Hfs. now rewrite Hfs.
    + rewrite (IH (done ++ y :: pg') rest').
      * rewrite <- app_assoc, <- map_app. now rewrite Hfs.
      * rewrite HLeq, <- Hfs. now rewrite app_assoc.
      * rewrite HL2.
        replace ((done ++ pre) ++ lst :: rest')
          with (((done ++ pre) ++ [lst]) ++ rest')
          by (now rewrite <- !app_assoc).
        apply drop_before_app; [exact S1|exact S2].
      * subst rest'. rewrite skipn_length.
        unfold FIEMAP_PAGE_SIZE. lia.
Qed.

Lemma drop_before_zero L lo : fexts_ok lo L -> drop_before 0 L = L.
Proof.
  destruct L as [|e r]; [reflexivity|]. cbn [fexts_ok drop_before]. intros (H1&H2&_).
  unfold fext_end. destruct (N.leb_spec (fe_logical e + fe_length e) 0); [lia|reflexivity].
Qed.

Theorem map_extents_complete L fuel :
  fexts_ok 0 L -> (length L < fuel)%nat ->
  map_extents fuel (kernel_fiemap L) = MxSome (map to_ext L).
Proof.
  intros HL Hf. unfold map_extents.
  rewrite (map_extents_go_complete L 0 HL fuel [] L 0 []); try reflexivity; try assumption.
  now apply drop_before_zero with (lo := 0).
Qed.

(* the reported list is ordered, non-overlapping, and its ranges are exactly
   the extents *)
Lemma to_ext_sorted L : forall lo, fexts_ok lo L -> sorted_from lo (map to_ext L).
Proof.
  induction L as [|e r IH]; intros lo H; cbn [map sorted_from]; [exact I|].
  cbn [fexts_ok] in H. destruct H as (H1&H2&H3&H4). cbn [to_ext e_start e_end].
  repeat split; [lia|lia|]. now apply IH.
Qed.

Definition fext_covers (e : fext) (i : N) : Prop := fe_logical e <= i /\ i < fext_end e.
Definition fexts_cover (L : list fext) (i : N) : Prop := exists e, In e L /\ fext_covers e i.

Lemma to_ext_covers L i : covered (map to_ext L) i <-> fexts_cover L i.
Proof.
  unfold covered, fexts_cover. split.
  - intros (x&Hx&Hc). apply in_map_iff in Hx. destruct Hx as (e&<-&He).
    exists e. split; [assumption|]. exact Hc.
  - intros (e&He&Hc). exists (to_ext e). split; [now apply in_map|exact Hc].
Qed.

(* unsupported / error answers *)
Lemma map_extents_unsupported fuel f : f 0 = FmUnsupported -> (0 < fuel)%nat ->
  map_extents fuel f = MxNone.
Proof. intros H Hf. destruct fuel; [lia|]. unfold map_extents; cbn. now rewrite H. Qed.

(* sensitivity: restarting the next page at fe_logical (instead of the end) of
   the last extent would duplicate it — the model distinguishes the two *)

(* ------------------------------------------------------------------ *)
(* SEEK_DATA / SEEK_HOLE walk                                          *)
(* ------------------------------------------------------------------ *)

Fixpoint expect_segs (len pos : N) (R : layout) : list (N * N) :=
  if len <=? pos then [] else
  match R with
  | [] => [(len, len)]
  | (s, e) :: r => (s, e) :: expect_segs len e r
  end.

Lemma k_seek_data_skip D : forall R len p,
  (forall s e, In (s, e) D -> e <= p) ->
  k_seek_data (D ++ R) len p = k_seek_data R len p.
Proof.
  induction D as [|[s e] D IH]; intros R len p H; [reflexivity|].
  cbn [app k_seek_data].
  destruct (len <=? p) eqn:E.
  - destruct R as [|[? ?] ?]; cbn [k_seek_data]; now rewrite E.
  - assert (e <= p) by (apply (H s e); now left).
    destruct (N.ltb_spec p e); [lia|].
    apply IH. intros s' e' Hin. apply (H s' e'). now right.
Qed.

Lemma k_seek_hole_skip D : forall R len p,
  (forall s e, In (s, e) D -> s < e /\ e <= p) ->
  k_seek_hole (D ++ R) len p = k_seek_hole R len p.
Proof.
  induction D as [|[s e] D IH]; intros R len p H; [reflexivity|].
  cbn [app k_seek_hole].
  destruct (len <=? p) eqn:E.
  - destruct R as [|[? ?] ?]; cbn [k_seek_hole]; now rewrite E.
  - assert (s < e /\ e <= p) as [? ?] by (apply (H s e); now left).
    destruct (N.ltb_spec p s); [lia|]. destruct (N.ltb_spec p e); [lia|].
    apply IH. intros s' e' Hin. apply (H s' e'). now right.
Qed.

Lemma segments_go_spec len : forall R D pos fuel,
  (forall s e, In (s, e) D -> s < e /\ e <= pos) ->
  layout_ok pos len R ->
  (length R + 1 < fuel)%nat ->
  segments_go fuel (k_seek_data (D ++ R) len) (k_seek_hole (D ++ R) len) len pos
  = SegOk (expect_segs len pos R).
Proof.
  induction R as [|[s e] r IH]; intros D pos fuel HD HR Hf.
  - destruct fuel as [|f]; [lia|]. cbn [segments_go expect_segs].
    destruct (N.leb_spec len pos) as [Hle|Hlt]; [reflexivity|].
    unfold next_segment. rewrite app_nil_r.
    rewrite <- (app_nil_r D), k_seek_data_skip by (intros ? ? Hi; now apply HD in Hi).
    cbn [k_seek_data]. destruct (N.leb_spec len pos); [lia|].
    rewrite k_seek_hole_skip
      by (intros s0 e0 Hi; apply HD in Hi; lia).
    cbn [k_seek_hole]. rewrite N.leb_refl.
    destruct f as [|f']; [lia|]. cbn [segments_go]. now rewrite N.leb_refl.
  - cbn [layout_ok] in HR. destruct HR as (H1&H2&H3&H4&H5).
    destruct fuel as [|f]; [lia|]. cbn [segments_go expect_segs].
    destruct (N.leb_spec len pos) as [Hle|Hlt]; [lia|].
    unfold next_segment.
    rewrite k_seek_data_skip by (intros ? ? Hi; now apply HD in Hi).
    cbn [k_seek_data]. destruct (N.leb_spec len pos); [lia|].
    destruct (N.ltb_spec pos e); [|lia].
    replace (N.max pos s) with s by lia.
    rewrite k_seek_hole_skip by (intros s0 e0 Hi; apply HD in Hi; lia).
    cbn [k_seek_hole]. destruct (N.leb_spec len s); [lia|].
    destruct (N.ltb_spec s s); [lia|]. destruct (N.ltb_spec s e); [|lia].
    replace (D ++ (s, e) :: r) with ((D ++ [(s, e)]) ++ r) by (now rewrite <- app_assoc).
    rewrite IH; [reflexivity| | assumption | cbn [length] in Hf; lia].
    intros s0 e0 Hi. apply in_app_or in Hi. destruct Hi as [Hi|[Hi|[]]].
    + apply HD in Hi. lia.
    + injection Hi as <- <-. lia.
Qed.

Theorem segments_spec L len fuel :
  layout_ok 0 len L -> (length L + 1 < fuel)%nat ->
  segments fuel (k_seek_data L len) (k_seek_hole L len) len = SegOk (expect_segs len 0 L).
Proof.
  intros HL Hf. unfold segments.
  apply (segments_go_spec len L [] 0 fuel); [intros ? ? []|assumption|assumption].
Qed.

Definition seg_covers (segs : list (N * N)) (i : N) : Prop :=
  exists d h, In (d, h) segs /\ d <= i /\ i < h.

Lemma expect_segs_cover len : forall R pos i,
  layout_ok pos len R ->
  (seg_covers (expect_segs len pos R) i <-> in_data R i).
Proof.
  induction R as [|[s e] r IH]; intros pos i HR; cbn [expect_segs].
  - split.
    + destruct (len <=? pos); intros (d&h&Hin&H1&H2); [destruct Hin|].
      destruct Hin as [Hin|[]]. injection Hin as <- <-. lia.
    + intros (s&e&[]&_).
  - cbn [layout_ok] in HR. destruct HR as (H1&H2&H3&H4&H5).
    destruct (N.leb_spec len pos); [lia|].
    split.
    + intros (d&h&[Hin|Hin]&Hd&Hh).
      * injection Hin as <- <-. exists s, e. split; [now left|lia].
      * assert (seg_covers (expect_segs len e r) i) as Hc by (exists d, h; auto).
        apply (IH e i H5) in Hc. destruct Hc as (s'&e'&Hin'&?&?).
        exists s', e'. split; [now right|lia].
    + intros (s'&e'&[Hin|Hin]&Hs&He).
      * injection Hin as <- <-. exists s, e. split; [now left|lia].
      * assert (in_data r i) as Hc by (exists s', e'; auto).
        apply (IH e i H5) in Hc. destruct Hc as (d&h&Hin'&?&?).
        exists d, h. split; [now right|lia].
Qed.

(* ordered, non-overlapping *)
Fixpoint segs_sorted (lo : N) (l : list (N * N)) : Prop :=
  match l with
  | [] => True
  | (d, h) :: r => lo <= d /\ d <= h /\ segs_sorted h r
  end.

Lemma expect_segs_sorted len : forall R pos,
  layout_ok pos len R -> segs_sorted pos (expect_segs len pos R).
Proof.
  induction R as [|[s e] r IH]; intros pos HR; cbn [expect_segs].
  - destruct (N.leb_spec len pos); cbn; [exact I|lia].
  - cbn [layout_ok] in HR. destruct HR as (H1&H2&H3&H4&H5).
    destruct (N.leb_spec len pos); [exact I|]. cbn [segs_sorted].
    repeat split; [lia|lia|]. now apply IH.
Qed.

(* every reported segment lies inside the file *)
Lemma expect_segs_within len : forall R pos d h,
  layout_ok pos len R -> In (d, h) (expect_segs len pos R) -> h <= len.
Proof.
  induction R as [|[s e] r IH]; intros pos d h HR Hin; cbn [expect_segs] in Hin.
  - destruct (len <=? pos); [destruct Hin|]. destruct Hin as [Hin|[]]. injection Hin as <- <-. lia.
  - cbn [layout_ok] in HR. destruct HR as (H1&H2&H3&H4&H5).
    destruct (len <=? pos); [destruct Hin|].
    destruct Hin as [Hin|Hin]; [injection Hin as <- <-; lia|]. eapply IH; eauto.
Qed.
