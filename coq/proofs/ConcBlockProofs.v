From XcpModel Require Import Base ConcBlock.
From Coq Require Import Arith PeanoNat Lia Permutation.
Local Open Scope nat_scope.

(* ------------------------------------------------------------------ *)
(* helpers                                                             *)
(* ------------------------------------------------------------------ *)
Lemma count_h_app h a b : count_h h (a ++ b) = count_h h a + count_h h b.
Proof. unfold count_h. now rewrite filter_app, app_length. Qed.

Lemma count_h_cons h j l : count_h h (j :: l) = (if Nat.eqb (fst j) h then 1 else 0) + count_h h l.
Proof. unfold count_h. cbn [filter]. destruct (Nat.eqb (fst j) h); reflexivity. Qed.

Lemma count_h_in h b l : In (h, b) l -> 0 < count_h h l.
Proof.
  induction l as [|j l IH]; [intros []|]. intros [->|H]; rewrite count_h_cons.
  - cbn [fst]. rewrite Nat.eqb_refl. lia.
  - specialize (IH H). lia.
Qed.

Lemma count_h_pos h l : 0 < count_h h l -> exists b, In (h, b) l.
Proof.
  induction l as [|[h' b] l IH]; [cbn; lia|]. rewrite count_h_cons. cbn [fst].
  destruct (Nat.eqb_spec h' h) as [->|Hne].
  - intros _. exists b. now left.
  - intros H. destruct (IH ltac:(lia)) as [b' Hb]. exists b'. now right.
Qed.

Lemma count_h_remove_nth l : forall k h b h',
  nth_error l k = Some (h, b) ->
  count_h h' (remove_nth k l) + (if Nat.eqb h h' then 1 else 0) = count_h h' l.
Proof.
  induction l as [|j l IH]; intros [|k] h b h' Hn; cbn [nth_error] in Hn; try discriminate.
  - injection Hn as ->. cbn [remove_nth]. rewrite count_h_cons. cbn [fst]. lia.
  - cbn [remove_nth]. rewrite !count_h_cons. specialize (IH k h b h' Hn). lia.
Qed.

Lemma remove_nth_length {A} (l : list A) : forall k x, nth_error l k = Some x -> S (length (remove_nth k l)) = length l.
Proof.
  induction l as [|y l IH]; intros [|k] x Hn; cbn [nth_error] in Hn; try discriminate; cbn [remove_nth length].
  - reflexivity.
  - now rewrite (IH k x Hn).
Qed.

Lemma remove_nth_perm {A} (l : list A) : forall k x, nth_error l k = Some x -> Permutation l (x :: remove_nth k l).
Proof.
  induction l as [|y l IH]; intros [|k] x Hn; cbn [nth_error] in Hn; try discriminate; cbn [remove_nth].
  - injection Hn as ->. apply Permutation_refl.
  - eapply Permutation_trans; [apply perm_skip, (IH k x Hn)|apply perm_swap].
Qed.

Lemma in_remove_h h x l : In x (remove_h h l) <-> In x l /\ x <> h.
Proof.
  induction l as [|y l IH]; cbn [remove_h]; [tauto|].
  destruct (Nat.eqb_spec y h) as [->|Hne]; cbn [In]; rewrite IH; intuition congruence.
Qed.

Lemma nodup_remove_h h l : NoDup l -> NoDup (remove_h h l).
Proof.
  induction l as [|y l IH]; intros H; [constructor|]. inversion H as [|? ? Hy Hl]; subst. cbn [remove_h].
  destruct (Nat.eqb y h); [now apply IH|]. constructor; [|now apply IH].
  intros Hin. apply in_remove_h in Hin. tauto.
Qed.

(* ------------------------------------------------------------------ *)
(* every enabled step does exactly one unit of work                    *)
(* ------------------------------------------------------------------ *)
Lemma fold_fq_app l x :
  fold_right (fun (ho : nat * bop) a => op_cost (snd ho) + a) 0 (l ++ [x]) =
  fold_right (fun (ho : nat * bop) a => op_cost (snd ho) + a) 0 l + op_cost (snd x).
Proof. induction l as [|y l IH]; cbn [app fold_right]; [lia|]. rewrite IH. lia. Qed.

Theorem step_measure W Q s l s' : step W Q s l = Some s' -> S (measure s') = measure s.
Proof.
  destruct s as [todo next wdone fq disp pq run open ev]. unfold step, measure.
  cbn [b_todo b_next b_wdone b_fq b_disp b_pq b_run b_open b_ev].
  destruct l as [| | |k].
  - destruct todo as [|o r].
    + destruct wdone; [discriminate|]. intros H. injection H as <-. cbn. lia.
    + intros H. injection H as <-. cbn [b_todo b_wdone b_fq b_disp b_pq b_run fold_right].
      rewrite fold_fq_app. cbn [snd]. lia.
  - destruct disp as [|h [|b rest]| |].
    + destruct fq as [|[h [js|]] r].
      * destruct wdone; [|discriminate]. intros H. injection H as <-. cbn. lia.
      * intros H. injection H as <-. cbn [b_todo b_wdone b_fq b_disp b_pq b_run fold_right snd op_cost disp_cost]. lia.
      * intros H. injection H as <-. cbn [b_todo b_wdone b_fq b_disp b_pq b_run fold_right snd op_cost disp_cost]. lia.
    + destruct (count_h h pq + count_h h run =? 0); intros H; injection H as <-; cbn; lia.
    + destruct (length pq <? Q); [|discriminate]. intros H. injection H as <-.
      cbn [b_todo b_wdone b_fq b_disp b_pq b_run disp_cost length]. rewrite app_length. cbn [length]. lia.
    + destruct pq; [|discriminate]. destruct run; [|discriminate]. intros H. injection H as <-. cbn. lia.
    + discriminate.
  - destruct pq as [|j r]; [discriminate|]. destruct (length run <? W); [|discriminate].
    intros H. injection H as <-. cbn [b_todo b_wdone b_fq b_disp b_pq b_run length]. lia.
  - destruct (nth_error run k) as [[h b]|] eqn:En; [|discriminate].
    pose proof (remove_nth_length run k (h, b) En) as Hl.
    destruct ((count_h h pq + count_h h (remove_nth k run) =? 0) && negb (disp_holds disp h));
      intros H; injection H as <-; cbn [b_todo b_wdone b_fq b_disp b_pq b_run]; lia.
Qed.

(* hence: no execution, under any schedule, has more than measure(init) steps *)
Fixpoint run_labels (W Q : nat) (s : bst) (ls : list label) : option bst :=
  match ls with
  | [] => Some s
  | l :: r => match step W Q s l with Some s' => run_labels W Q s' r | None => None end
  end.

Theorem bounded_steps W Q : forall ls s s', run_labels W Q s ls = Some s' -> length ls + measure s' = measure s.
Proof.
  induction ls as [|l r IH]; intros s s' H; cbn [run_labels] in H.
  - injection H as <-. reflexivity.
  - destruct (step W Q s l) as [s1|] eqn:E; [|discriminate].
    pose proof (step_measure W Q s l s1 E). specialize (IH s1 s' H). cbn [length]. lia.
Qed.

(* ------------------------------------------------------------------ *)
(* the invariant                                                       *)
(* ------------------------------------------------------------------ *)
Definition fq_ids (s : bst) : list nat := map fst (b_fq s).
Definition has_final (h : nat) (ev : list bev) : bool := existsb (is_final_of h) ev.

Record Inv (W Q : nat) (s : bst) : Prop := mkInv {
  i_pq : length (b_pq s) <= Q;
  i_run : length (b_run s) <= W;
  i_nodup : NoDup (b_open s);
  i_open : forall h, In h (b_open s) <-> 0 < refs s h;
  i_fq_lt : forall h, In h (fq_ids s) -> h < b_next s;
  i_fq_nodup : NoDup (fq_ids s);
  i_live_fq : forall h, 0 < refs s h -> h < b_next s /\ ~ In h (fq_ids s);
  i_final : forall h, has_final h (b_ev s) = true -> refs s h = 0 /\ h < b_next s /\ ~ In h (fq_ids s);
  i_ev : ev_ok (b_ev s) = true;
  i_wdone : b_wdone s = true -> b_todo s = [];
  i_join : (b_disp s = DJoin \/ b_disp s = DDone) -> b_fq s = [] /\ b_wdone s = true;
  i_done : b_disp s = DDone -> b_pq s = [] /\ b_run s = []
}.

Lemma inv_init W Q ops : Inv W Q (init ops).
Proof.
  constructor; unfold init, refs, fq_ids, has_final; cbn [b_todo b_next b_wdone b_fq b_disp b_pq b_run b_open b_ev map length].
  - lia.
  - lia.
  - constructor.
  - intros h. cbn. split; [intros []|lia].
  - intros h [].
  - constructor.
  - intros h. cbn. lia.
  - intros h. cbn. discriminate.
  - reflexivity.
  - discriminate.
  - intros [H|H]; discriminate.
  - discriminate.
Qed.

Lemma has_final_cons h e ev : has_final h (e :: ev) = is_final_of h e || has_final h ev.
Proof. reflexivity. Qed.

Ltac inv_fields H :=
  destruct H as [Ipq Irun Ind Iopen Ifqlt Ifqnd Ilive Ifin Iev Iwd Ijoin Idone].

Lemma refs_unfold s h : refs s h = count_h h (b_pq s) + count_h h (b_run s) + (if disp_holds (b_disp s) h then 1 else 0).
Proof. reflexivity. Qed.

Ltac red_st := unfold fq_ids, refs, has_final in *;
  cbn [b_todo b_next b_wdone b_fq b_disp b_pq b_run b_open b_ev disp_holds] in *.

Lemma nodup_snoc_fresh (l : list nat) n : NoDup l -> (forall h, In h l -> h < n) -> NoDup (l ++ [n]).
Proof.
  induction l as [|x l IH]; intros Hn Hl; [repeat constructor; intros []|].
  inversion Hn as [|? ? Hx Hl']; subst. cbn [app]. constructor.
  - intros Hin. apply in_app_or in Hin. destruct Hin as [Hin|[<-|[]]]; [contradiction|].
    specialize (Hl n (or_introl eq_refl)). lia.
  - apply IH; [exact Hl'|]. intros h Hh. apply Hl. now right.
Qed.

Lemma inv_step_walk W Q s s' : Inv W Q s -> step W Q s LWalk = Some s' -> Inv W Q s'.
Proof.
  intros HI Hs. inv_fields HI. destruct s as [todo next wdone fq disp pq run open ev]. red_st.
  unfold step in Hs. cbn [b_todo b_next b_wdone b_fq b_disp b_pq b_run b_open b_ev] in Hs.
  destruct todo as [|o r].
  - destruct wdone; [discriminate|]. injection Hs as <-. constructor; red_st; try assumption.
    + reflexivity.
    + intros Hd. destruct (Ijoin Hd) as [_ ?]. discriminate.
  - injection Hs as <-. constructor; red_st; try assumption.
    + intros h Hin. rewrite map_app in Hin. apply in_app_or in Hin. destruct Hin as [Hin|[<-|[]]]; [|cbn; lia].
      specialize (Ifqlt h Hin). lia.
    + rewrite map_app. cbn [map fst]. now apply nodup_snoc_fresh.
    + intros h Hr. destruct (Ilive h Hr) as [H1 H2]. split; [lia|].
      rewrite map_app. intros Hin. apply in_app_or in Hin. destruct Hin as [Hin|[<-|[]]]; [contradiction|cbn in H1; lia].
    + intros h Hf. destruct (Ifin h Hf) as (H1 & H2 & H3). split; [exact H1|]. split; [lia|].
      rewrite map_app. intros Hin. apply in_app_or in Hin. destruct Hin as [Hin|[<-|[]]]; [contradiction|cbn in H2; lia].
    + intros Hw. specialize (Iwd Hw). discriminate.
    + intros Hd. destruct (Ijoin Hd) as [_ Hw]. specialize (Iwd Hw). discriminate.
Qed.

Lemma inv_step_take W Q s s' : Inv W Q s -> step W Q s LTake = Some s' -> Inv W Q s'.
Proof.
  intros HI Hs. inv_fields HI. destruct s as [todo next wdone fq disp pq run open ev]. red_st.
  unfold step in Hs. cbn [b_todo b_next b_wdone b_fq b_disp b_pq b_run b_open b_ev] in Hs.
  destruct pq as [|j r]; [discriminate|]. destruct (Nat.ltb_spec (length run) W); [|discriminate].
  injection Hs as <-.
  assert (forall h, count_h h r + count_h h (j :: run) = count_h h (j :: r) + count_h h run) as E
      by (intros h; rewrite !count_h_cons; lia).
  constructor; red_st; try assumption.
  - cbn [length] in Ipq. lia.
  - intros h. rewrite E. apply Iopen.
  - intros h. rewrite E. apply Ilive.
  - intros h. rewrite E. apply Ifin.
  - intros Hd. destruct (Idone Hd) as [? _]. discriminate.
Qed.

Lemma inv_step_done W Q s s' k : Inv W Q s -> step W Q s (LDone k) = Some s' -> Inv W Q s'.
Proof.
  intros HI Hs. inv_fields HI. destruct s as [todo next wdone fq disp pq run open ev]. red_st.
  unfold step in Hs. cbn [b_todo b_next b_wdone b_fq b_disp b_pq b_run b_open b_ev] in Hs.
  destruct (nth_error run k) as [[h b]|] eqn:En; [|discriminate].
  pose proof (remove_nth_length run k (h, b) En) as Hlen.
  pose proof (fun x => count_h_remove_nth run k h b x En) as Hc.
  set (run' := remove_nth k run) in *.
  assert (0 < count_h h run) as Hpos by (specialize (Hc h); rewrite Nat.eqb_refl in Hc; lia).
  assert (existsb (is_final_of h) ev = false) as Hnf.
  { destruct (existsb (is_final_of h) ev) eqn:E; [|reflexivity]. destruct (Ifin h E) as [H0 _]. lia. }
  destruct ((count_h h pq + count_h h run' =? 0) && negb (disp_holds disp h)) eqn:Elast; injection Hs as <-.
  - apply andb_true_iff in Elast. destruct Elast as [E0 Eh]. apply Nat.eqb_eq in E0. apply negb_true_iff in Eh.
    constructor; red_st; try assumption.
    + lia.
    + now apply nodup_remove_h.
    + intros x. rewrite in_remove_h, Iopen. specialize (Hc x).
      destruct (Nat.eqb_spec h x) as [Heq|Hne]; [subst x; rewrite Eh; lia|]. split; [intros [H _]; lia|intros H; split; [lia|congruence]].
    + intros x Hr. apply Ilive. specialize (Hc x). lia.
    + intros x. cbn [existsb is_final_of orb]. specialize (Hc x).
      destruct (Nat.eqb_spec h x) as [Heq|Hne]; [subst x|]; cbn [orb].
      * intros _. split; [rewrite Eh; lia|]. apply Ilive. lia.
      * intros Hf. destruct (Ifin x Hf) as (H1 & H2 & H3). split; [lia|]. split; assumption.
    + cbn [ev_ok existsb is_final_of orb]. rewrite Hnf, Iev. reflexivity.
    + intros Hd. destruct (Idone Hd) as [_ ->]. destruct k; discriminate.
  - constructor; red_st; try assumption.
    + lia.
    + intros x. rewrite Iopen. specialize (Hc x).
      destruct (Nat.eqb_spec h x) as [Heq|Hne]; [subst x|split; intros; lia].
      apply andb_false_iff in Elast. destruct Elast as [E0|Eh].
      * apply Nat.eqb_neq in E0. split; intros; lia.
      * apply negb_false_iff in Eh. rewrite Eh. split; intros; lia.
    + intros x Hr. apply Ilive. specialize (Hc x). lia.
    + intros x. cbn [existsb is_final_of orb]. intros Hf. destruct (Ifin x Hf) as (H1 & H2 & H3).
      specialize (Hc x). split; [lia|]. split; assumption.
    + cbn [ev_ok]. rewrite Hnf, Iev. reflexivity.
    + intros Hd. destruct (Idone Hd) as [_ ->]. destruct k; discriminate.
Qed.

Lemma inv_step_disp W Q s s' : Inv W Q s -> step W Q s LDisp = Some s' -> Inv W Q s'.
Proof.
  intros HI Hs. inv_fields HI. destruct s as [todo next wdone fq disp pq run open ev]. red_st.
  unfold step in Hs. cbn [b_todo b_next b_wdone b_fq b_disp b_pq b_run b_open b_ev] in Hs.
  destruct disp as [|h [|b rest]| |]; cbn [disp_holds] in *.
  - (* DIdle *)
    destruct fq as [|[h [js|]] r]; cbn [map fst] in *.
    + destruct wdone; [|discriminate]. injection Hs as <-. constructor; red_st; try assumption.
      * intros _. split; reflexivity.
      * discriminate.
    + (* open a handle *)
      injection Hs as <-.
      assert (h < next) as Hlt by (apply Ifqlt; now left).
      assert (~ In h (map fst r)) as Hnr by (inversion Ifqnd; assumption).
      assert (count_h h pq + count_h h run + 0 = 0) as Hz.
      { destruct (Nat.eq_dec (count_h h pq + count_h h run + 0) 0) as [E|E]; [exact E|].
        destruct (Ilive h ltac:(lia)) as [_ Hn]. exfalso. apply Hn. now left. }
      assert (existsb (is_final_of h) ev = false) as Hnf.
      { destruct (existsb (is_final_of h) ev) eqn:E; [|reflexivity]. destruct (Ifin h E) as (_ & _ & Hn).
        exfalso. apply Hn. now left. }
      constructor; red_st; try assumption.
      * constructor; [|assumption]. intros Hin. apply Iopen in Hin. lia.
      * intros x. cbn [In]. rewrite Iopen.
        destruct (Nat.eqb_spec h x) as [Heq|Hne]; [subst x; split; [lia|now left]|].
        split; [intros [?|?]; [congruence|lia]|intros; right; lia].
      * intros x Hin. apply Ifqlt. now right.
      * now inversion Ifqnd.
      * intros x Hr. destruct (Nat.eqb_spec h x) as [Heq|Hne]; [subst x; tauto|].
        destruct (Ilive x ltac:(lia)) as [H1 H2]. split; [exact H1|]. intros Hin. apply H2. now right.
      * intros x. cbn [existsb is_final_of orb]. intros Hf. destruct (Ifin x Hf) as (H1 & H2 & H3).
        assert (h <> x) as Hne by (intros ->; apply H3; now left).
        destruct (Nat.eqb_spec h x); [contradiction|]. split; [lia|]. split; [exact H2|]. intros Hin. apply H3. now right.
      * cbn [ev_ok]. rewrite Hnf, Iev. reflexivity.
      * intros [?|?]; discriminate.
      * discriminate.
    + (* inline operation *)
      injection Hs as <-. constructor; red_st; try assumption.
      * intros x Hin. apply Ifqlt. now right.
      * now inversion Ifqnd.
      * intros x Hr. destruct (Ilive x Hr) as [H1 H2]. split; [exact H1|]. intros Hin. apply H2. now right.
      * intros x. cbn [existsb is_final_of orb]. intros Hf. destruct (Ifin x Hf) as (H1 & H2 & H3).
        split; [exact H1|]. split; [exact H2|]. intros Hin. apply H3. now right.
      * intros [?|?]; discriminate.
  - (* DQueue h []: the dispatcher drops its reference *)
    assert (existsb (is_final_of h) ev = false) as Hnf.
    { destruct (existsb (is_final_of h) ev) eqn:E; [|reflexivity]. destruct (Ifin h E) as (H0 & _).
      rewrite Nat.eqb_refl in H0. lia. }
    assert (h < next /\ ~ In h (map fst fq)) as [Hlt Hnfq] by (apply Ilive; rewrite Nat.eqb_refl; lia).
    destruct (Nat.eqb_spec (count_h h pq + count_h h run) 0) as [E0|E0]; injection Hs as <-.
    + constructor; red_st; try assumption.
      * now apply nodup_remove_h.
      * intros x. rewrite in_remove_h, Iopen.
        destruct (Nat.eqb_spec h x) as [Heq|Hne]; [subst x; split; [intros [_ ?]; congruence|lia]|].
        split; [intros [? _]; lia|intros; split; [lia|congruence]].
      * intros x Hr. apply Ilive. lia.
      * intros x. cbn [existsb is_final_of orb].
        destruct (Nat.eqb_spec h x) as [Heq|Hne]; [subst x|]; cbn [orb].
        -- intros _. split; [lia|]. split; assumption.
        -- intros Hf. destruct (Ifin x Hf) as (H1 & H2 & H3). split; [lia|]. split; assumption.
      * cbn [ev_ok]. rewrite Hnf, Iev. reflexivity.
      * intros [?|?]; discriminate.
      * discriminate.
    + constructor; red_st; try assumption.
      * intros x. rewrite Iopen. destruct (Nat.eqb_spec h x) as [Heq|Hne]; [subst x|]; split; intros; lia.
      * intros x Hr. apply Ilive. lia.
      * intros x Hf. destruct (Ifin x Hf) as (H1 & H2 & H3). split; [lia|]. split; assumption.
      * intros [?|?]; discriminate.
      * discriminate.
  - (* DQueue h (b :: rest): push a job *)
    destruct (Nat.ltb_spec (length pq) Q) as [Hq|]; [|discriminate]. injection Hs as <-.
    assert (forall x, count_h x (pq ++ [(h, b)]) = count_h x pq + (if Nat.eqb h x then 1 else 0)) as Hc.
    { intros x. rewrite count_h_app, count_h_cons. cbn [fst]. unfold count_h. cbn. lia. }
    constructor; red_st; try assumption.
    + rewrite app_length. cbn [length]. lia.
    + intros x. rewrite Hc, Iopen. destruct (Nat.eqb_spec h x); split; intros; lia.
    + intros x. rewrite Hc. intros Hr. apply Ilive. destruct (Nat.eqb_spec h x); lia.
    + intros x Hf. destruct (Ifin x Hf) as (H1 & H2 & H3). rewrite Hc.
      destruct (Nat.eqb_spec h x); [lia|]. split; [lia|]. split; assumption.
    + intros [?|?]; discriminate.
    + discriminate.
  - (* DJoin *)
    destruct pq; [|discriminate]. destruct run; [|discriminate]. injection Hs as <-.
    constructor; red_st; try assumption.
    + intros _. apply Ijoin. now left.
    + intros _. split; reflexivity.
  - discriminate.
Qed.

Theorem inv_step W Q s l s' : Inv W Q s -> step W Q s l = Some s' -> Inv W Q s'.
Proof.
  destruct l; [apply inv_step_walk|apply inv_step_disp|apply inv_step_take|apply inv_step_done].
Qed.

Theorem inv_reachable W Q ops s : reachable W Q ops s -> Inv W Q s.
Proof. induction 1; [apply inv_init|eapply inv_step; eauto]. Qed.

(* ------------------------------------------------------------------ *)
(* C20: open handles are bounded by Q + W + 1, whatever the tree size  *)
(* ------------------------------------------------------------------ *)
Definition holders (s : bst) : list nat :=
  map fst (b_pq s) ++ map fst (b_run s) ++ match b_disp s with DQueue h _ => [h] | _ => [] end.

Theorem open_bound W Q s : Inv W Q s -> length (b_open s) <= Q + W + 1.
Proof.
  intros HI. inv_fields HI.
  assert (length (b_open s) <= length (holders s)) as H.
  { apply NoDup_incl_length; [exact Ind|]. intros h Hin. apply Iopen in Hin. unfold refs in Hin. unfold holders.
    destruct (Nat.eq_dec (count_h h (b_pq s)) 0) as [E1|E1].
    - destruct (Nat.eq_dec (count_h h (b_run s)) 0) as [E2|E2].
      + apply in_or_app; right. apply in_or_app; right.
        destruct (b_disp s) as [|h' r| |]; cbn [disp_holds] in Hin; try lia.
        destruct (Nat.eqb_spec h' h) as [->|]; [now left|lia].
      + apply in_or_app; right. apply in_or_app; left.
        destruct (count_h_pos h (b_run s) ltac:(lia)) as [b Hb]. apply in_map_iff. exists (h, b). auto.
    - apply in_or_app; left. destruct (count_h_pos h (b_pq s) ltac:(lia)) as [b Hb]. apply in_map_iff. exists (h, b). auto. }
  unfold holders in H. rewrite !app_length, !map_length in H.
  assert (length (match b_disp s with DQueue h _ => [h] | _ => [] end) <= 1) by (destruct (b_disp s); cbn; lia).
  lia.
Qed.

Corollary reachable_open_bound W Q ops s : reachable W Q ops s -> length (b_open s) <= Q + W + 1.
Proof. intros H. apply open_bound. eapply inv_reachable; eauto. Qed.

(* ------------------------------------------------------------------ *)
(* C07: no deadlock                                                    *)
(* ------------------------------------------------------------------ *)
Theorem no_deadlock W Q s : 1 <= W -> 1 <= Q -> Inv W Q s -> final s = false ->
  exists l s', step W Q s l = Some s'.
Proof.
  intros HW HQ HI Hf. inv_fields HI.
  destruct s as [todo next wdone fq disp pq run open ev]. unfold final in Hf.
  cbn [b_todo b_next b_wdone b_fq b_disp b_pq b_run b_open b_ev] in *.
  destruct todo as [|o r]; [|exists LWalk; eexists; reflexivity].
  destruct wdone; [|exists LWalk; eexists; reflexivity].
  (* the walker is done; some pool worker or the dispatcher can move *)
  assert (pq <> [] -> exists l s', step W Q (mkB [] next true fq disp pq run open ev) l = Some s') as Hpool.
  { intros Hpq. destruct (Nat.ltb_spec (length run) W) as [Hl|Hl].
    - exists LTake. destruct pq as [|j r]; [contradiction|]. unfold step. cbn [b_pq b_run].
      rewrite (proj2 (Nat.ltb_lt _ _) Hl). eexists; reflexivity.
    - exists (LDone 0). destruct run as [|[h b] r]; [cbn in Hl; lia|]. unfold step. cbn [b_run nth_error].
      destruct (_ && _); eexists; reflexivity. }
  assert (run <> [] -> exists l s', step W Q (mkB [] next true fq disp pq run open ev) l = Some s') as Hrun.
  { intros Hr. exists (LDone 0). destruct run as [|[h b] r]; [contradiction|]. unfold step. cbn [b_run nth_error].
    destruct (_ && _); eexists; reflexivity. }
  destruct disp as [|h [|b rest]| |].
  - exists LDisp. unfold step. cbn [b_disp b_fq b_wdone]. destruct fq as [|[h [js|]] r]; eexists; reflexivity.
  - exists LDisp. unfold step. cbn [b_disp]. destruct (_ =? 0); eexists; reflexivity.
  - destruct (Nat.ltb_spec (length pq) Q) as [Hl|Hl].
    + exists LDisp. unfold step. cbn [b_disp b_pq]. rewrite (proj2 (Nat.ltb_lt _ _) Hl). eexists; reflexivity.
    + apply Hpool. intros ->. cbn in Hl. lia.
  - destruct pq as [|j r]; [|apply Hpool; discriminate].
    destruct run as [|j r]; [|apply Hrun; discriminate].
    exists LDisp. unfold step. cbn [b_disp b_pq b_run]. eexists; reflexivity.
  - destruct (Idone eq_refl) as [-> ->]. destruct (Ijoin (or_intror eq_refl)) as [-> _]. discriminate.
Qed.

(* ... and every execution ends in the final state after exactly measure(init) steps:
   from bounded_steps, a maximal execution cannot stop earlier (no_deadlock) *)

(* ------------------------------------------------------------------ *)
(* C06 / C10 / C18: finalisation after the last write, exactly once     *)
(* ------------------------------------------------------------------ *)
Lemma ev_ok_split ev : ev_ok ev = true -> forall newer e older, ev = newer ++ e :: older ->
  forall h, is_final_of h e = true ->
  forall x, In x newer -> match x with EInline _ => True | _ => ev_handle x <> h end.
Proof.
  induction ev as [|y ev IH]; intros Hok newer e older Heq h He x Hx; [destruct newer; discriminate|].
  cbn [ev_ok] in Hok. apply andb_true_iff in Hok. destruct Hok as [Hy Hrest].
  destruct newer as [|n newer]; [destruct Hx|]. cbn [app] in Heq. injection Heq as <- Heq.
  destruct Hx as [<-|Hx]; [|now apply (IH Hrest newer e older Heq h He x Hx)].
  assert (existsb (is_final_of h) ev = true) as Hex.
  { rewrite Heq. rewrite existsb_app. cbn [existsb]. rewrite He. now rewrite orb_true_r. }
  destruct y as [h'|h' b|h'|h']; cbn [ev_handle]; try exact I; intros ->;
    apply negb_true_iff in Hy; congruence.
Qed.

Theorem finalise_after_last_write W Q ops s : reachable W Q ops s ->
  forall newer h older, b_ev s = newer ++ EFinal h :: older ->
  (forall b, ~ In (EWrite h b) newer) /\ ~ In (EOpen h) newer /\ ~ In (EFinal h) newer.
Proof.
  intros Hr newer h older Heq. pose proof (inv_reachable W Q ops s Hr) as HI. inv_fields HI.
  pose proof (ev_ok_split (b_ev s) Iev newer (EFinal h) older Heq h ltac:(cbn; apply Nat.eqb_refl)) as H.
  repeat split.
  - intros b Hin. specialize (H _ Hin). cbn in H. congruence.
  - intros Hin. specialize (H _ Hin). cbn in H. congruence.
  - intros Hin. specialize (H _ Hin). cbn in H. congruence.
Qed.

(* in the final state every handle has been finalised: nothing stays open *)
Theorem final_state_closed W Q s : Inv W Q s -> final s = true -> b_open s = [].
Proof.
  intros HI Hf. inv_fields HI. destruct s as [todo next wdone fq disp pq run open ev]. unfold final in Hf.
  cbn [b_todo b_next b_wdone b_fq b_disp b_pq b_run b_open b_ev] in *.
  destruct todo; [|discriminate]. destruct fq; [|discriminate]. destruct disp; try discriminate.
  destruct pq; [|discriminate]. destruct run; [|discriminate].
  destruct open as [|h r]; [reflexivity|]. exfalso.
  assert (In h (h :: r)) as Hin by now left. apply Iopen in Hin. unfold refs in Hin. cbn in Hin. lia.
Qed.

(* ------------------------------------------------------------------ *)
(* C06 / C01: every block job is executed exactly once, in any schedule *)
(* ------------------------------------------------------------------ *)
Lemma written_cons e ev : written (e :: ev) = match e with EWrite h b => [(h, b)] | _ => [] end ++ written ev.
Proof. reflexivity. Qed.

Lemma fq_pairs_app a b : fq_pairs (a ++ b) = fq_pairs a ++ fq_pairs b.
Proof. unfold fq_pairs. apply flat_map_app. Qed.

Lemma todo_pairs_fq next o r : todo_pairs next (o :: r) = fq_pairs [(next, o)] ++ todo_pairs (S next) r.
Proof. destruct o; cbn [todo_pairs fq_pairs flat_map fst snd]; [now rewrite app_nil_r|reflexivity]. Qed.

Theorem step_pairs W Q s l s' : step W Q s l = Some s' -> Permutation (all_pairs s) (all_pairs s').
Proof.
  destruct s as [todo next wdone fq disp pq run open ev]. unfold step, all_pairs.
  cbn [b_todo b_next b_wdone b_fq b_disp b_pq b_run b_open b_ev].
  destruct l as [| | |k].
  - destruct todo as [|o r].
    + destruct wdone; [discriminate|]. intros H. injection H as <-. apply Permutation_refl.
    + intros H. injection H as <-. cbn [b_todo b_next b_fq b_disp b_pq b_run b_ev].
      rewrite fq_pairs_app, todo_pairs_fq. rewrite <- !app_assoc. apply Permutation_refl.
  - destruct disp as [|h [|b rest]| |].
    + destruct fq as [|[h [js|]] r].
      * destruct wdone; [|discriminate]. intros H. injection H as <-. apply Permutation_refl.
      * intros H. injection H as <-. cbn [b_todo b_next b_fq b_disp b_pq b_run b_ev disp_pairs fq_pairs flat_map fst snd written app].
        rewrite <- ?app_assoc. apply Permutation_refl.
      * intros H. injection H as <-. cbn [b_todo b_next b_fq b_disp b_pq b_run b_ev disp_pairs fq_pairs flat_map fst snd written app].
        rewrite <- ?app_assoc. apply Permutation_refl.
    + destruct (_ =? 0); intros H; injection H as <-; apply Permutation_refl.
    + destruct (length pq <? Q); [|discriminate]. intros H. injection H as <-.
      cbn [b_todo b_next b_fq b_disp b_pq b_run b_ev disp_pairs map].
      apply Permutation_app_head. apply Permutation_app_head. rewrite <- app_assoc. apply Permutation_app_head.
      cbn [app]. apply Permutation_refl.
    + destruct pq; [|discriminate]. destruct run; [|discriminate]. intros H. injection H as <-. apply Permutation_refl.
    + discriminate.
  - destruct pq as [|j r]; [discriminate|]. destruct (length run <? W); [|discriminate].
    intros H. injection H as <-. cbn [b_todo b_next b_fq b_disp b_pq b_run b_ev].
    apply Permutation_app_head. cbn [app]. apply Permutation_sym. apply Permutation_middle.
  - destruct (nth_error run k) as [[h b]|] eqn:En; [|discriminate].
    pose proof (remove_nth_perm run k (h, b) En) as Hp.
    destruct (_ && _); intros H; injection H as <-; cbn [b_todo b_next b_fq b_disp b_pq b_run b_ev];
      rewrite ?written_cons; cbn [app];
      (eapply Permutation_trans;
       [apply Permutation_app_head; apply Permutation_app_tail; exact Hp|]);
      cbn [app]; apply Permutation_sym; apply Permutation_middle.
Qed.

Theorem reachable_pairs W Q ops s : reachable W Q ops s -> Permutation (todo_pairs 0 ops) (all_pairs s).
Proof.
  induction 1 as [|s l s' Hr IH Hs].
  - unfold all_pairs, init. cbn. apply Permutation_refl.
  - eapply Permutation_trans; [exact IH|]. eapply step_pairs; eauto.
Qed.

(* at the end, under EVERY schedule, the blocks written are exactly the blocks
   of the operations (each once) *)
Theorem final_writes_complete W Q ops s : reachable W Q ops s -> final s = true ->
  Permutation (todo_pairs 0 ops) (written (b_ev s)).
Proof.
  intros Hr Hf. pose proof (reachable_pairs W Q ops s Hr) as Hp.
  destruct s as [todo next wdone fq disp pq run open ev]. unfold final in Hf. unfold all_pairs in Hp.
  cbn [b_todo b_next b_wdone b_fq b_disp b_pq b_run b_open b_ev] in *.
  destruct todo; [|discriminate]. destruct fq; [|discriminate]. destruct disp; try discriminate.
  destruct pq; [|discriminate]. destruct run; [|discriminate].
  cbn in Hp. now rewrite !app_nil_r in Hp.
Qed.
