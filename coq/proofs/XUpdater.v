(* XUpdater.v — part of the translator tie (see ExtractedOk.v): ChannelUpdater::send.
   One file per group of translated definitions, so that a property depends only on the pieces it cites. *)
From XcpModel Require Import Base Extents Blocks Sparse CopyLoop FileCopy Updater Meta Backup Extracted.
From Coq Require Import String.
From Coq Require Import Lia.
(* ---- ChannelUpdater::send ---- *)
Theorem x_send_cond_ok : forall bs sent b,
  chan_send bs sent (UCopied b) = (sent + b, if x_send_cond sent b bs then [UCopied b] else []).
Proof. reflexivity. Qed.

