(* XLoops.v — part of the translator tie (see ExtractedOk.v): the kernel-call loops: copy_bytes, copy_sparse, the user-space fallbacks, next_sparse_segments, errno classes of copy_file_range / lseek.
   One file per group of translated definitions, so that a property depends only on the pieces it cites. *)
From XcpModel Require Import Base Extents Blocks Sparse CopyLoop FileCopy Updater Meta Backup Extracted.
From Coq Require Import String.
From Coq Require Import Lia.
(* ---- CopyHandle::copy_bytes: loop guard and request size ---- *)
Theorem x_copy_bytes_continue_ok : forall written len, x_copy_bytes_continue written len = negb (len <=? written).
Proof. intros. unfold x_copy_bytes_continue. destruct (N.ltb_spec written len), (N.leb_spec len written); try reflexivity; lia. Qed.
Theorem x_copy_bytes_request_ok : forall written len bs, x_copy_bytes_request written len bs = N.min (len - written) bs.
Proof. reflexivity. Qed.

Ltac errno_cases e :=
  repeat match goal with |- context [N.eqb e ?k] => destruct (N.eqb_spec e k) end; subst; try reflexivity; try discriminate; try lia.

Theorem x_cfr_fallback_ok : forall e, existsb (N.eqb e) x_cfr_fallback_errnos = cfr_falls_back e.
Proof. intros e. unfold x_cfr_fallback_errnos, cfr_falls_back, ENOSYS, EPERM, EXDEV. cbn [existsb]. errno_cases e. Qed.

Theorem x_lseek_eof_ok : x_lseek_eof_errnos = [ENXIO].
Proof. reflexivity. Qed.
From XcpModel Require Import Walker Ops.
From XcpModel Require Import Uspace.
(* ------------------------------------------------------------------ *)
(* the translated effectful loops equal the hand-written models          *)
(* ------------------------------------------------------------------ *)

Definition out_app (tr : xtrace) (o : loop_out) : loop_out := mkOut (o_st o) (tr ++ o_trace o) (o_rest o).

Lemma x_copy_bytes_loop_ok : forall fuel len bs written cur tr ans,
  x_copy_bytes_loop fuel len bs written cur tr ans = out_app tr (copy_bytes fuel bs len written cur ans).
Proof.
  induction fuel as [|f IH]; intros len bs written cur tr ans.
  - cbn [x_copy_bytes_loop copy_bytes]. destruct (N.ltb_spec written len), (N.leb_spec len written); try lia;
      unfold out_app; cbn [o_st o_trace o_rest]; now rewrite app_nil_r.
  - cbn [x_copy_bytes_loop copy_bytes]. destruct (N.ltb_spec written len), (N.leb_spec len written); try lia;
      [|unfold out_app; cbn [o_st o_trace o_rest]; now rewrite app_nil_r].
    destruct ans as [|[k|e] rest]; unfold out_app; cbn [o_st o_trace o_rest].
    + now rewrite app_nil_r.
    + destruct (N.eqb_spec k 0) as [->|Hk]; cbn [o_st o_trace o_rest]; [reflexivity|].
      rewrite IH. unfold out_app, out_cons. cbn [o_st o_trace o_rest]. now rewrite <- app_assoc.
    + reflexivity.
Qed.

Theorem x_copy_bytes_ok : forall fuel bs len cur ans,
  x_copy_bytes fuel len bs cur ans = copy_bytes fuel bs len 0 cur ans.
Proof.
  intros. unfold x_copy_bytes. rewrite x_copy_bytes_loop_ok. unfold out_app. cbn [app].
  destruct (copy_bytes fuel bs len 0 cur ans); reflexivity.
Qed.

Ltac fin := rewrite <- ?app_assoc; cbn [app]; reflexivity.

Lemma u_app_nil o : u_app [] o = o.
Proof. destruct o; reflexivity. Qed.
Lemma u_app_app a b o : u_app a (u_app b o) = u_app (a ++ b) o.
Proof. unfold u_app. cbn [u_st u_ret u_trace u_rest]. now rewrite app_assoc. Qed.

Lemma x_copy_range_uspace_loop_ok : forall fuel nbytes off written tr ans,
  x_copy_range_uspace_loop fuel nbytes off written tr ans = u_app tr (copy_range_uspace fuel nbytes off written ans).
Proof.
  induction fuel as [|f IH]; intros nbytes off written tr ans.
  - cbn [x_copy_range_uspace_loop copy_range_uspace]. destruct (N.ltb_spec written nbytes), (N.leb_spec nbytes written); try lia;
      unfold u_app; cbn [u_st u_ret u_trace u_rest]; now rewrite app_nil_r.
  - cbn [x_copy_range_uspace_loop copy_range_uspace]. destruct (N.ltb_spec written nbytes), (N.leb_spec nbytes written); try lia;
      [|unfold u_app; cbn [u_st u_ret u_trace u_rest]; now rewrite app_nil_r].
    replace (N.min (nbytes - written) nbytes) with (nbytes - written) by lia.
    destruct ans as [|[rlen|e] rest]; unfold u_app at 1; cbn [u_st u_ret u_trace u_rest].
    + now rewrite app_nil_r.
    + destruct (N.eqb_spec rlen 0) as [->|Hr]; cbn [u_st u_ret u_trace u_rest]; [reflexivity|].
      destruct rest as [|[wlen|e] rest']; cbn [u_st u_ret u_trace u_rest].
      * fin.
      * destruct (N.ltb_spec wlen rlen); cbn [u_st u_ret u_trace u_rest]; [fin|].
        rewrite IH. unfold u_app. cbn [u_st u_ret u_trace u_rest]. fin.
      * fin.
    + reflexivity.
Qed.

Theorem x_copy_range_uspace_ok : forall fuel nbytes off ans,
  x_copy_range_uspace fuel nbytes off ans = copy_range_uspace fuel nbytes off 0 ans.
Proof. intros. unfold x_copy_range_uspace. rewrite x_copy_range_uspace_loop_ok. apply u_app_nil. Qed.

Lemma x_copy_bytes_uspace_loop_ok : forall fuel nbytes written rpos wpos tr ans,
  x_copy_bytes_uspace_loop fuel nbytes written rpos wpos tr ans =
  u_app tr (copy_bytes_uspace fuel nbytes rpos wpos written ans).
Proof.
  induction fuel as [|f IH]; intros nbytes written rpos wpos tr ans.
  - cbn [x_copy_bytes_uspace_loop copy_bytes_uspace]. destruct (N.ltb_spec written nbytes), (N.leb_spec nbytes written); try lia;
      unfold u_app; cbn [u_st u_ret u_trace u_rest]; now rewrite app_nil_r.
  - cbn [x_copy_bytes_uspace_loop copy_bytes_uspace]. destruct (N.ltb_spec written nbytes), (N.leb_spec nbytes written); try lia;
      [|unfold u_app; cbn [u_st u_ret u_trace u_rest]; now rewrite app_nil_r].
    replace (N.min (nbytes - written) nbytes) with (nbytes - written) by lia.
    destruct ans as [|[len|e] rest].
    + unfold u_app; cbn [u_st u_ret u_trace u_rest]. now rewrite app_nil_r.
    + destruct (N.eqb_spec len 0) as [->|Hl]; [unfold u_app; cbn [u_st u_ret u_trace u_rest]; reflexivity|].
      destruct (u_st (write_all (S (List.length rest)) rpos wpos len rest)) eqn:Ew.
      * rewrite IH. unfold u_app. cbn [u_st u_ret u_trace u_rest]. fin.
      * unfold u_app; cbn [u_st u_ret u_trace u_rest]. fin.
      * unfold u_app; cbn [u_st u_ret u_trace u_rest]. fin.
      * unfold u_app; cbn [u_st u_ret u_trace u_rest]. fin.
    + destruct (N.eqb_spec e EINTR) as [->|He].
      * rewrite IH. unfold u_cons, u_app. cbn [u_st u_ret u_trace u_rest]. fin.
      * unfold u_app; cbn [u_st u_ret u_trace u_rest]. reflexivity.
Qed.

Theorem x_copy_bytes_uspace_ok : forall fuel nbytes rpos wpos ans,
  x_copy_bytes_uspace fuel nbytes rpos wpos ans = copy_bytes_uspace fuel nbytes rpos wpos 0 ans.
Proof. intros. unfold x_copy_bytes_uspace. rewrite x_copy_bytes_uspace_loop_ok. apply u_app_nil. Qed.

(* the byte buffer the translated function allocates holds every read the translated loop issues: no `buf[..next]` is
   out of range, so the fall-back cannot panic on a slice (a panic inside a pool job is not an error anyone hears of:
   the pool respawns the thread and the dispatcher sees Ok) *)
From XcpProofs Require Import UspaceProofs.
Theorem x_range_buffer_holds_every_read : forall fuel nbytes off ans,
  reads_fit (x_copy_range_uspace_buf_len nbytes off) (u_trace (x_copy_range_uspace fuel nbytes off ans)).
Proof.
  intros. rewrite x_copy_range_uspace_ok. apply (reads_fit_mono nbytes); [unfold x_copy_range_uspace_buf_len; lia|].
  apply copy_range_uspace_reads_fit.
Qed.
Theorem x_bytes_buffer_holds_every_read : forall fuel nbytes rpos wpos ans,
  reads_fit (x_copy_bytes_uspace_buf_len nbytes) (u_trace (x_copy_bytes_uspace fuel nbytes rpos wpos ans)).
Proof.
  intros. rewrite x_copy_bytes_uspace_ok. apply (reads_fit_mono nbytes); [unfold x_copy_bytes_uspace_buf_len; lia|].
  apply copy_bytes_uspace_reads_fit.
Qed.
Theorem x_range_buffer_holds_every_write : forall fuel nbytes off ans,
  uans_bounded (u_trace (x_copy_range_uspace fuel nbytes off ans)) ->
  writes_fit (x_copy_range_uspace_buf_len nbytes off) (u_trace (x_copy_range_uspace fuel nbytes off ans)).
Proof.
  intros fuel nbytes off ans. rewrite x_copy_range_uspace_ok. intros Hb.
  apply (writes_fit_mono nbytes); [unfold x_copy_range_uspace_buf_len; lia|].
  apply copy_range_uspace_writes_fit. exact Hb.
Qed.
Theorem x_uspace_buffer_slices :
  x_copy_range_uspace_buf_slices = ["next"; "rlen"]%string /\ x_copy_bytes_uspace_buf_slices = ["next"; "len"]%string.
Proof. split; reflexivity. Qed.

(* the block fallback reads and writes at explicit offsets (pread/pwrite): concurrent block jobs of one file
   share the two descriptors, so nothing may go through their cursors *)
Theorem x_positional_io_ok : x_read_bytes_steps = [50] /\ x_write_bytes_steps = [51].
Proof. split; reflexivity. Qed.

(* CopyHandle::copy_sparse (the parfile sparse walk): next_sparse_segments and copy_bytes are the modelled helpers *)
Lemma x_copy_sparse_loop_ok : forall fuel sd sh flen bs pos tr ans,
  x_copy_sparse_loop fuel sd sh flen bs flen pos tr ans = out_app tr (copy_sparse fuel bs flen pos sd sh ans).
Proof.
  induction fuel as [|f IH]; intros sd sh flen bs pos tr ans.
  - cbn [x_copy_sparse_loop copy_sparse]. destruct (N.ltb_spec pos flen), (N.leb_spec flen pos); try lia;
      unfold out_app; cbn [o_st o_trace o_rest]; now rewrite app_nil_r.
  - cbn [x_copy_sparse_loop copy_sparse]. destruct (N.ltb_spec pos flen), (N.leb_spec flen pos); try lia;
      [|unfold out_app; cbn [o_st o_trace o_rest]; now rewrite app_nil_r].
    destruct (next_segment sd sh flen pos) as [[d h]|e]; [|unfold out_app; cbn [o_st o_trace o_rest]; now rewrite app_nil_r].
    change (CopyLoop.out_app) with CopyLoop.out_app.
    destruct ((h <=? pos) || (h <? d)); [unfold out_app; cbn [o_st o_trace o_rest]; now rewrite app_nil_r|].
    destruct (copy_bytes (S (List.length ans)) bs (h - d) 0 d ans) as [st t r] eqn:Ec. cbn [o_st o_trace o_rest].
    destruct st; try (unfold out_app; cbn [o_st o_trace o_rest]; reflexivity).
    rewrite IH. unfold out_app, CopyLoop.out_app. cbn [o_st o_trace o_rest]. now rewrite app_assoc.
Qed.

Theorem x_copy_sparse_ok : forall fuel sd sh flen bs ans,
  x_copy_sparse fuel sd sh flen bs ans = copy_sparse fuel bs flen 0 sd sh ans.
Proof.
  intros. unfold x_copy_sparse. rewrite x_copy_sparse_loop_ok. unfold out_app. cbn [app].
  destruct (copy_sparse fuel bs flen 0 sd sh ans); reflexivity.
Qed.

(* libfs::next_sparse_segments *)
Theorem x_next_segment_ok : forall sd sh len pos, x_next_segment sd sh len pos = next_segment sd sh len pos.
Proof.
  intros. unfold x_next_segment, next_segment. destruct (sd pos) as [o| |e]; reflexivity.
Qed.

