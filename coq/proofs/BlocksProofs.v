From XcpModel Require Import Base Blocks.
From Coq Require Import ZArith Zify ZifyClasses ZifyBool ZifyN.
Ltac Zify.zify_post_hook ::= Z.div_mod_to_equations.

Lemma nblocks_spec len bs : 0 < bs ->
  forall k, k < nblocks len bs <-> k * bs < len.
Proof.
  intros Hbs k. unfold nblocks.
  pose proof (N.div_mod len bs ltac:(lia)) as Hdm.
  pose proof (N.mod_lt len bs ltac:(lia)) as Hm.
  set (q := len / bs) in *. set (r := len mod bs) in *.
  destruct (N.ltb_spec 0 r).
  - split; intros H0.
    + assert (k <= q) by lia. nia.
    + assert (~ (q + 1 <= k)) by nia. lia.
  - assert (r = 0) by lia. split; intros H1.
    + assert (k + 1 <= q) by lia. nia.
    + assert (~ (q <= k)) by nia. lia.
Qed.

(* each block is non-empty, at most bs long, inside the range *)
Lemma blk_within start len bs k : 0 < bs -> k < nblocks len bs ->
  1 <= blk_bytes len bs k /\ blk_bytes len bs k <= bs /\
  start <= blk_off start bs k /\ blk_off start bs k + blk_bytes len bs k <= start + len.
Proof.
  intros Hbs Hk. apply nblocks_spec in Hk; [|assumption].
  unfold blk_bytes, blk_off. lia.
Qed.

(* the blocks cover the range *)
Lemma blk_cover start len bs i : 0 < bs -> start <= i < start + len ->
  exists k, k < nblocks len bs /\
            blk_off start bs k <= i < blk_off start bs k + blk_bytes len bs k.
Proof.
  intros Hbs Hi. exists ((i - start) / bs).
  pose proof (N.div_mod (i - start) bs ltac:(lia)) as Hdm.
  pose proof (N.mod_lt (i - start) bs ltac:(lia)) as Hm.
  set (q := (i - start) / bs) in *. set (r := (i - start) mod bs) in *.
  split.
  - apply nblocks_spec; [assumption|]. nia.
  - unfold blk_off, blk_bytes. nia.
Qed.

(* distinct blocks are disjoint *)
Lemma blk_disjoint start len bs k1 k2 i : 0 < bs -> k1 < nblocks len bs -> k2 < nblocks len bs ->
  blk_off start bs k1 <= i < blk_off start bs k1 + blk_bytes len bs k1 ->
  blk_off start bs k2 <= i < blk_off start bs k2 + blk_bytes len bs k2 ->
  k1 = k2.
Proof.
  intros Hbs H1 H2 I1 I2. unfold blk_off, blk_bytes in *.
  assert (k1 * bs <= i - start < (k1 + 1) * bs) as A1 by nia.
  assert (k2 * bs <= i - start < (k2 + 1) * bs) as A2 by nia.
  destruct (N.lt_trichotomy k1 k2) as [Hc|[Hc|Hc]]; [|assumption|]; nia.
Qed.

(* every u64 intermediate stays below 2^64 when the range does *)
Lemma blk_no_overflow start len bs k : 0 < bs -> bs < U64 -> start + len < U64 ->
  k < nblocks len bs ->
  Forall (fun v => v < U64) (blk_intermediates start len bs k).
Proof.
  intros Hbs Hb Hr Hk. pose proof Hk as Hk'. apply nblocks_spec in Hk'; [|assumption].
  pose proof (N.div_mod len bs ltac:(lia)) as Hdm.
  pose proof (N.mod_lt len bs ltac:(lia)) as Hm.
  unfold blk_intermediates, blk_bytes, blk_off, nblocks in *.
  set (q := len / bs) in *. set (r := len mod bs) in *.
  assert (q * 1 <= q * bs) as Hq by (apply N.mul_le_mono_l; lia).
  assert (q <= len) as Hql by lia.
  assert (k * bs < U64) as Hkb by lia.
  repeat constructor; try lia.
  destruct (N.ltb_spec 0 r); lia.
Qed.

(* bs = usize::MAX (the value --no-progress selects): exactly one block *)
Lemma blk_single len bs : 0 < len -> len <= bs -> nblocks len bs = 1.
Proof.
  intros H1 H2. unfold nblocks.
  destruct (N.eq_dec len bs) as [->|Hne].
  - rewrite N.div_same, N.mod_same by lia. reflexivity.
  - rewrite N.div_small, N.mod_small by lia. destruct (N.ltb_spec 0 len); lia.
Qed.

Lemma nblocks_zero bs : 0 < bs -> nblocks 0 bs = 0.
Proof. intros H. unfold nblocks. rewrite N.div_0_l, N.mod_0_l by lia. reflexivity. Qed.

(* the job list is exactly the blocks 0..nblocks-1 *)
Lemma range_jobs_spec start len bs o n :
  In (o, n) (range_jobs start len bs) <->
  exists k, k < nblocks len bs /\ o = blk_off start bs k /\ n = blk_bytes len bs k.
Proof.
  unfold range_jobs. rewrite in_map_iff. split.
  - intros (k & H & Hin). apply in_seq in Hin. injection H as <- <-.
    exists (N.of_nat k). split; [lia|auto].
  - intros (k & Hk & -> & ->). exists (N.to_nat k). rewrite N2Nat.id. split; [reflexivity|].
    apply in_seq. lia.
Qed.
