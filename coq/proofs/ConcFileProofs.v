From XcpModel Require Import Base ConcBlock ConcFile.
From XcpProofs Require Import ConcBlockProofs.
From Coq Require Import Arith PeanoNat Lia.
Local Open Scope nat_scope.

Lemma len_drop_nth {A} (l : list A) k : k < length l -> S (length (firstn k l ++ skipn (S k) l)) = length l.
Proof. intros Hk. rewrite app_length, firstn_length, skipn_length. lia. Qed.
Lemma len_set_nth {A} (l : list A) k x : k < length l -> length (firstn k l ++ x :: skipn (S k) l) = length l.
Proof. intros Hk. rewrite app_length, firstn_length. cbn [length]. rewrite skipn_length. lia. Qed.

(* the number of open handles is the number of busy workers: at most W *)
Theorem parfile_open_bound W ops s : freachable W ops s -> length (f_run s) <= W.
Proof.
  induction 1 as [|s l s' Hr IH Hs]; [cbn; lia|].
  destruct s as [todo next wdone fq run ev]. unfold fstep in Hs. cbn [f_todo f_next f_wdone f_fq f_run f_ev] in *.
  destruct l as [| |k].
  - destruct todo; [destruct wdone; [discriminate|]|]; injection Hs as <-; exact IH.
  - destruct fq as [|[h [js|]] r]; [discriminate| |];
      destruct (Nat.ltb_spec (length run) W); try discriminate; injection Hs as <-; cbn [f_run length]; lia.
  - destruct (nth_error run k) as [[h [|b rest]]|] eqn:En; [| |discriminate]; injection Hs as <-;
      assert (k < length run) as Hk by (apply nth_error_Some; congruence).
    + pose proof (len_drop_nth run k Hk) as Hl. change (length (firstn k run ++ skipn (S k) run) <= W). lia.
    + pose proof (len_set_nth run k (h, rest) Hk) as Hl. change (length (firstn k run ++ (h, rest) :: skipn (S k) run) <= W). lia.
Qed.

(* no deadlock: in every non-final state some thread can move *)
Theorem parfile_no_deadlock W s : 1 <= W -> length (f_run s) <= W -> ffinal s = false ->
  exists l s', fstep W s l = Some s'.
Proof.
  intros HW Hrun Hf. destruct s as [todo next wdone fq run ev]. unfold ffinal in Hf.
  cbn [f_todo f_next f_wdone f_fq f_run f_ev] in *.
  destruct todo as [|o r]; [|exists FWalk; eexists; reflexivity].
  destruct wdone; [|exists FWalk; eexists; reflexivity].
  destruct run as [|[h js] rr].
  - destruct fq as [|[h [js|]] r]; [discriminate| |]; exists FTake; unfold fstep; cbn [f_fq f_run length];
      rewrite (proj2 (Nat.ltb_lt 0 W) ltac:(lia)); eexists; reflexivity.
  - exists (FWork 0). unfold fstep. cbn [f_run nth_error]. destruct js; eexists; reflexivity.
Qed.

Lemma fold_run_split (run : list (nat * list nat)) k h js :
  nth_error run k = Some (h, js) ->
  fold_right (fun hj a => 1 + length (snd hj) + a) 0 run =
  fold_right (fun hj a => 1 + length (snd hj) + a) 0 (firstn k run ++ skipn (S k) run) + 1 + length js.
Proof.
  revert k. induction run as [|x run IH]; intros [|k] Hn; cbn [nth_error] in Hn; try discriminate.
  - injection Hn as ->. cbn. lia.
  - cbn [firstn skipn app fold_right]. rewrite (IH k Hn). cbn [skipn]. lia.
Qed.

Lemma fold_run_mid (a b : list (nat * list nat)) x :
  fold_right (fun hj acc => 1 + length (snd hj) + acc) 0 (a ++ x :: b) =
  fold_right (fun hj acc => 1 + length (snd hj) + acc) 0 (a ++ b) + 1 + length (snd x).
Proof. induction a as [|y a IH]; cbn [app fold_right]; [lia|]. rewrite IH. lia. Qed.

Lemma fold_ffq_app l x :
  fold_right (fun (ho : nat * bop) a => fop_cost (snd ho) + a) 0 (l ++ [x]) =
  fold_right (fun (ho : nat * bop) a => fop_cost (snd ho) + a) 0 l + fop_cost (snd x).
Proof. induction l as [|y l IH]; cbn [app fold_right]; [lia|]. rewrite IH. lia. Qed.

(* every enabled step does exactly one unit of work: executions are bounded *)
Theorem fstep_measure W s l s' : fstep W s l = Some s' -> S (fmeasure s') = fmeasure s.
Proof.
  destruct s as [todo next wdone fq run ev]. unfold fstep, fmeasure. cbn [f_todo f_next f_wdone f_fq f_run f_ev].
  destruct l as [| |k].
  - destruct todo as [|o r].
    + destruct wdone; [discriminate|]. intros H. injection H as <-. cbn. lia.
    + intros H. injection H as <-. cbn [f_todo f_wdone f_fq f_run fold_right]. rewrite fold_ffq_app. cbn [snd]. lia.
  - destruct fq as [|[h [js|]] r]; [discriminate| |]; destruct (length run <? W); try discriminate;
      intros H; injection H as <-; cbn [f_todo f_wdone f_fq f_run fold_right snd fop_cost length]; lia.
  - destruct (nth_error run k) as [[h [|b rest]]|] eqn:En; [| |discriminate]; intros H; injection H as <-;
      cbn [f_todo f_wdone f_fq f_run];
      change (match run with [] => [] | _ :: l => skipn k l end) with (skipn (S k) run);
      pose proof (fold_run_split run k _ _ En) as E1;
      pose proof (fun x => fold_run_mid (firstn k run) (skipn (S k) run) (h, x)) as E2; try specialize (E2 rest); cbn [snd length] in *; lia.
Qed.
