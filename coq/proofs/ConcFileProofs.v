From XcpModel Require Import Base ConcBlock ConcFile.
From XcpProofs Require Import ConcBlockProofs.
From Coq Require Import Arith PeanoNat Lia.
Local Open Scope nat_scope.

(* the number of open handles is the number of busy workers: at most W *)
Theorem parfile_open_bound W ops s : freachable W ops s -> length (f_run s) <= W.
Proof.
  induction 1 as [|s l s' Hr IH Hs]; [cbn; lia|].
  destruct s as [todo next wdone fq run ev]. unfold fstep in Hs. cbn [f_todo f_next f_wdone f_fq f_run f_ev] in *.
  destruct l as [| |k].
  - destruct todo; [destruct wdone; [discriminate|]|]; injection Hs as <-; exact IH.
  - destruct fq as [|[h [js|]] r]; [discriminate| |];
      destruct (Nat.ltb_spec (length run) W); try discriminate; injection Hs as <-; cbn [f_run length]; lia.
  - destruct (nth_error run k) as [[h [|b rest]]|] eqn:En; [| |discriminate]; injection Hs as <-; unfold f_run.
    + assert (k < length run) as Hk by (apply nth_error_Some; congruence).
      rewrite app_length, firstn_length. cbn [length]. rewrite ?skipn_length. lia.
    + assert (k < length run) as Hk by (apply nth_error_Some; congruence).
      rewrite app_length, firstn_length. cbn [length]. rewrite ?skipn_length. lia.
Qed.

(* no deadlock: in every non-final state some thread can move *)
Theorem parfile_no_deadlock W s : 1 <= W -> length (f_run s) <= W -> ffinal W s = false ->
  exists l s', fstep W s l = Some s'.
Proof.
  intros HW Hrun Hf. destruct s as [todo next wdone fq run ev]. unfold ffinal in Hf.
  cbn [f_todo f_next f_wdone f_fq f_run f_ev] in *.
  destruct todo as [|o r]; [|exists FWalk; eexists; reflexivity].
  destruct wdone; [|exists FWalk; eexists; reflexivity].
  destruct run as [|[h js] rr].
  - destruct fq as [|[h [js|]] r]; [discriminate| |]; exists FTake; unfold fstep; cbn [f_fq f_run length];
      rewrite (proj2 (Nat.ltb_lt 0 W) ltac:(lia)); eexists; reflexivity.
  - exists (FWork 0). unfold fstep. cbn [f_run nth_error]. destruct js; eexists; reflexivity.
Qed.

Lemma fold_run_split (run : list (nat * list nat)) k h js :
  nth_error run k = Some (h, js) ->
  fold_right (fun hj a => 1 + length (snd hj) + a) 0 run =
  fold_right (fun hj a => 1 + length (snd hj) + a) 0 (firstn k run ++ skipn (S k) run) + 1 + length js.
Proof.
  revert k. induction run as [|x run IH]; intros [|k] Hn; cbn [nth_error] in Hn; try discriminate.
  - injection Hn as ->. cbn. lia.
  - cbn [firstn skipn app fold_right]. rewrite (IH k Hn). cbn [skipn]. lia.
Qed.

Lemma fold_run_mid (a b : list (nat * list nat)) x :
  fold_right (fun hj acc => 1 + length (snd hj) + acc) 0 (a ++ x :: b) =
  fold_right (fun hj acc => 1 + length (snd hj) + acc) 0 (a ++ b) + 1 + length (snd x).
Proof. induction a as [|y a IH]; cbn [app fold_right]; [lia|]. rewrite IH. lia. Qed.

(* every enabled step does exactly one unit of work: executions are bounded *)
Theorem fstep_measure W s l s' : fstep W s l = Some s' -> S (fmeasure s') = fmeasure s.
Proof.
  destruct s as [todo next wdone fq run ev]. unfold fstep, fmeasure. cbn [f_todo f_next f_wdone f_fq f_run f_ev].
  destruct l as [| |k].
  - destruct todo as [|o r].
    + destruct wdone; [discriminate|]. intros H. injection H as <-. cbn. lia.
    + intros H. injection H as <-. cbn [f_todo f_wdone f_fq f_run fold_right]. rewrite fold_fq_app. cbn [snd]. lia.
  - destruct fq as [|[h [js|]] r]; [discriminate| |]; destruct (length run <? W); try discriminate;
      intros H; injection H as <-; cbn [f_todo f_wdone f_fq f_run fold_right snd op_cost]; lia.
  - destruct (nth_error run k) as [[h [|b rest]]|] eqn:En; [| |discriminate]; intros H; injection H as <-;
      cbn [f_todo f_wdone f_fq f_run]; rewrite (fold_run_split run k _ _ En); rewrite ?fold_run_mid; cbn [snd length]; lia.
Qed.
