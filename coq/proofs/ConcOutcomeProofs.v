(* ConcOutcomeProofs.v — C06: under EVERY schedule of the parblock protocol
   (any W >= 1 workers, any pool queue bound Q >= 1) every operation has the
   same outcome: a copied file is opened once, then receives each of its
   blocks exactly once (in some order), then is finalised once, and nothing
   touches it afterwards; an inline operation happens exactly once; nothing
   else happens.  The same for the parfile protocol; hence the two drivers
   agree. *)
From XcpModel Require Import Base ConcBlock ConcFile ConcOutcome.
From XcpProofs Require Import ConcBlockProofs.
From Coq Require Import Arith PeanoNat Lia Permutation.
Local Open Scope nat_scope.

(* ------------------------------------------------------------------ *)
(* the per-file automaton                                              *)
(* ------------------------------------------------------------------ *)
Lemma phase_step_not_none p e : phase_step p e <> PNone.
Proof. destruct p, e; cbn; discriminate. Qed.

Lemma phase_none_no_events h ev : phase_of h ev = PNone -> forall e, In e ev -> ev_handle e <> h.
Proof.
  induction ev as [|x ev IH]; intros Hp e Hin; [destruct Hin|]. cbn [phase_of] in Hp.
  destruct (Nat.eqb_spec (ev_handle x) h) as [Hx|Hx].
  - exfalso. eapply phase_step_not_none; eauto.
  - destruct Hin as [<-|Hin]; [exact Hx|]. now apply IH.
Qed.

Lemma blocks_of_cons h e ev :
  blocks_of h (e :: ev) =
  match e with EWrite h' b => if Nat.eqb h' h then b :: blocks_of h ev else blocks_of h ev | _ => blocks_of h ev end.
Proof.
  unfold blocks_of. rewrite written_cons. destruct e as [h'|h' b|h'|h']; cbn [app]; try reflexivity.
  cbn [filter fst]. destruct (Nat.eqb h' h); reflexivity.
Qed.

Lemma blocks_of_none h ev : (forall e, In e ev -> ev_handle e <> h) -> blocks_of h ev = [].
Proof.
  induction ev as [|e ev IH]; intros H; [reflexivity|]. rewrite blocks_of_cons.
  assert (blocks_of h ev = []) as E by (apply IH; intros x Hx; apply H; now right).
  destruct e as [h'|h' b|h'|h']; try exact E.
  destruct (Nat.eqb_spec h' h) as [->|]; [|exact E]. exfalso. apply (H (EWrite h b)); [now left|reflexivity].
Qed.

(* the blocks remembered by the automaton are the blocks written in the history *)
Lemma phase_blocks h ev : forall bs, (phase_of h ev = POpen bs \/ phase_of h ev = PFinal bs) -> bs = blocks_of h ev.
Proof.
  induction ev as [|e ev IH]; intros bs Hp; [destruct Hp; discriminate|].
  cbn [phase_of] in Hp. rewrite blocks_of_cons.
  destruct (Nat.eqb_spec (ev_handle e) h) as [He|He].
  - destruct (phase_of h ev) as [|bs0|bs0| |] eqn:Ep.
    + destruct e as [h'|h' b|h'|h']; cbn [phase_step] in Hp; try (destruct Hp; discriminate).
      destruct Hp as [Hp|Hp]; [|discriminate]. injection Hp as <-.
      symmetry. apply blocks_of_none. now apply phase_none_no_events.
    + specialize (IH bs0 (or_introl eq_refl)).
      destruct e as [h'|h' b|h'|h']; cbn [phase_step ev_handle] in *; try (destruct Hp; discriminate).
      * destruct Hp as [Hp|Hp]; [|discriminate]. injection Hp as <-. subst h'. rewrite Nat.eqb_refl. now f_equal.
      * destruct Hp as [Hp|Hp]; [discriminate|]. injection Hp as <-. exact IH.
    + destruct e; cbn [phase_step] in Hp; destruct Hp; discriminate.
    + destruct e; cbn [phase_step] in Hp; destruct Hp; discriminate.
    + destruct e; cbn [phase_step] in Hp; destruct Hp; discriminate.
  - specialize (IH bs Hp). destruct e as [h'|h' b|h'|h']; try exact IH.
    cbn [ev_handle] in He. destruct (Nat.eqb_spec h' h); [contradiction|exact IH].
Qed.

(* blocks of one handle among the (handle, block) pairs of an operation list *)
Lemma filter_map_pair_same h (js : list nat) :
  map snd (filter (fun p : nat * nat => Nat.eqb (fst p) h) (map (fun b => (h, b)) js)) = js.
Proof. induction js as [|b js IH]; [reflexivity|]. cbn [map filter fst]. rewrite Nat.eqb_refl. cbn [map snd]. now f_equal. Qed.

Lemma filter_map_pair_other h h' (js : list nat) : h' <> h ->
  filter (fun p : nat * nat => Nat.eqb (fst p) h) (map (fun b => (h', b)) js) = [].
Proof.
  intros Hne. induction js as [|b js IH]; [reflexivity|]. cbn [map filter fst].
  destruct (Nat.eqb_spec h' h); [contradiction|exact IH].
Qed.

Lemma todo_pairs_blocks ops : forall n h,
  map snd (filter (fun p : nat * nat => Nat.eqb (fst p) h) (todo_pairs n ops)) =
  if h <? n then [] else match nth_error ops (h - n) with Some (OCopy js) => js | _ => [] end.
Proof.
  induction ops as [|o ops IH]; intros n h; cbn [todo_pairs].
  - cbn [filter map]. destruct (h <? n); [reflexivity|]. destruct (h - n); reflexivity.
  - assert (map snd (filter (fun p : nat * nat => Nat.eqb (fst p) h) (todo_pairs (S n) ops)) =
            if h <? S n then [] else match nth_error ops (h - S n) with Some (OCopy js) => js | _ => [] end) as E by apply IH.
    destruct (Nat.ltb_spec h n) as [Hlt|Hge].
    + destruct (Nat.ltb_spec h (S n)); [|lia].
      destruct o as [js|]; [|exact E]. rewrite filter_app, map_app, E, app_nil_r.
      rewrite filter_map_pair_other by lia. reflexivity.
    + destruct (Nat.eq_dec h n) as [->|Hne].
      * rewrite Nat.sub_diag. cbn [nth_error]. destruct (Nat.ltb_spec n (S n)); [|lia].
        destruct o as [js|]; [|exact E]. rewrite filter_app, map_app, E, app_nil_r. apply filter_map_pair_same.
      * destruct (Nat.ltb_spec h (S n)); [lia|].
        replace (h - n) with (S (h - S n)) by lia. cbn [nth_error].
        destruct o as [js|]; [|exact E]. rewrite filter_app, map_app, E.
        rewrite filter_map_pair_other by lia. reflexivity.
Qed.

Lemma perm_filter_map {A B} (f : A -> bool) (g : A -> B) l l' :
  Permutation l l' -> Permutation (map g (filter f l)) (map g (filter f l')).
Proof.
  induction 1 as [|x l l' Hp IH|x y l|l l' l'' H1 IH1 H2 IH2]; cbn [filter].
  - constructor.
  - destruct (f x); cbn [map]; [now constructor|exact IH].
  - destruct (f x), (f y); cbn [map]; try apply Permutation_refl. apply perm_swap.
  - eapply Permutation_trans; eauto.
Qed.

Lemma skipn_cons_nth {A} (l : list A) : forall n x r, skipn n l = x :: r -> nth_error l n = Some x /\ skipn (S n) l = r.
Proof.
  induction l as [|y l IH]; intros [|n] x r H; cbn [skipn] in H; try discriminate.
  - injection H as -> ->. split; reflexivity.
  - apply IH in H. exact H.
Qed.

(* ------------------------------------------------------------------ *)
(* parblock: the automaton's state is tied to the protocol state        *)
(* ------------------------------------------------------------------ *)
Definition PCase (ops : list bop) (s : bst) (h : nat) : Prop :=
  match phase_of h (b_ev s) with
  | PNone => ~ In h (b_open s) /\ has_final h (b_ev s) = false /\ (b_next s <= h \/ In h (fq_ids s))
  | POpen _ => In h (b_open s) /\ has_final h (b_ev s) = false /\ exists js, nth_error ops h = Some (OCopy js)
  | PFinal _ => has_final h (b_ev s) = true /\ exists js, nth_error ops h = Some (OCopy js)
  | PInline => ~ In h (b_open s) /\ has_final h (b_ev s) = false /\ h < b_next s /\ ~ In h (fq_ids s) /\
               nth_error ops h = Some OInline
  | PBad => False
  end.

Record PInv (ops : list bop) (s : bst) : Prop := mkPInv {
  p_skip : skipn (b_next s) ops = b_todo s;
  p_len : b_next s + length (b_todo s) = length ops;
  p_fq : forall h o, In (h, o) (b_fq s) -> nth_error ops h = Some o;
  p_case : forall h, PCase ops s h
}.

Lemma pinv_init ops : PInv ops (init ops).
Proof.
  constructor; unfold init; cbn [b_todo b_next b_fq b_ev b_open].
  - reflexivity.
  - reflexivity.
  - intros h o [].
  - intros h. unfold PCase, has_final, fq_ids. cbn. split; [tauto|]. split; [reflexivity|]. left. lia.
Qed.

Ltac pred_st := unfold PCase, fq_ids, refs, has_final in *;
  cbn [b_todo b_next b_wdone b_fq b_disp b_pq b_run b_open b_ev disp_holds] in *.

(* helper: the phase of a handle other than the one the new event is about *)
Lemma phase_of_cons_other h e ev : ev_handle e <> h -> phase_of h (e :: ev) = phase_of h ev.
Proof. intros H. cbn [phase_of]. destruct (Nat.eqb_spec (ev_handle e) h); [contradiction|reflexivity]. Qed.
Lemma phase_of_cons_same h e ev : ev_handle e = h -> phase_of h (e :: ev) = phase_step (phase_of h ev) e.
Proof. intros H. cbn [phase_of]. destruct (Nat.eqb_spec (ev_handle e) h); [reflexivity|contradiction]. Qed.

Lemma existsb_final_cons_other h e ev : (forall h', e = EFinal h' -> h' <> h) ->
  existsb (is_final_of h) (e :: ev) = existsb (is_final_of h) ev.
Proof.
  intros H. cbn [existsb]. destruct e as [h'|h' b|h'|h']; cbn [is_final_of orb]; try reflexivity.
  destruct (Nat.eqb_spec h' h) as [->|]; [exfalso; now apply (H h)|reflexivity].
Qed.

Lemma pinv_step W Q ops s l s' : Inv W Q s -> PInv ops s -> step W Q s l = Some s' -> PInv ops s'.
Proof.
  intros HI HP Hs. inv_fields HI. destruct HP as [Pskip Plen Pfq Pcase].
  destruct s as [todo next wdone fq disp pq run open ev]. red_st. unfold PCase, fq_ids, has_final in Pcase.
  cbn [b_todo b_next b_wdone b_fq b_disp b_pq b_run b_open b_ev] in *.
  unfold step in Hs. cbn [b_todo b_next b_wdone b_fq b_disp b_pq b_run b_open b_ev] in Hs.
  destruct l as [| | |k].
  - (* walker *)
    destruct todo as [|o r].
    + destruct wdone; [discriminate|]. injection Hs as <-. constructor; pred_st; assumption.
    + injection Hs as <-. destruct (skipn_cons_nth ops next o r Pskip) as [Hnth Hsk].
      constructor; pred_st.
      * exact Hsk.
      * cbn [length] in Plen. lia.
      * intros h o' Hin. apply in_app_or in Hin. destruct Hin as [Hin|[Heq|[]]]; [now apply Pfq|].
        injection Heq as <- <-. exact Hnth.
      * intros h. specialize (Pcase h). rewrite map_app. cbn [map fst].
        destruct (phase_of h ev); try assumption.
        -- destruct Pcase as (H1 & H2 & H3). split; [exact H1|]. split; [exact H2|].
           destruct H3 as [H3|H3]; [|right; apply in_or_app; now left].
           destruct (Nat.eq_dec h next) as [->|]; [right; apply in_or_app; right; now left|left; lia].
        -- destruct Pcase as (H1 & H2 & H3 & H4 & H5). repeat split; try assumption; [lia|].
           intros Hin. apply in_app_or in Hin. destruct Hin as [Hin|[Heq|[]]]; [contradiction|lia].
  - (* dispatcher *)
    destruct disp as [|h0 [|b rest]| |]; cbn [disp_holds] in *.
    + destruct fq as [|[h0 [js|]] r]; cbn [map fst] in *.
      * destruct wdone; [|discriminate]. injection Hs as <-. constructor; pred_st; assumption.
      * (* open *)
        injection Hs as <-.
        assert (nth_error ops h0 = Some (OCopy js)) as Hop by (apply Pfq; now left).
        assert (~ In h0 (map fst r)) as Hnr by (inversion Ifqnd; assumption).
        assert (phase_of h0 ev = PNone) as Hnone.
        { specialize (Pcase h0). destruct (phase_of h0 ev) as [|bs|bs| |]; [reflexivity| | | |contradiction].
          - destruct Pcase as (Hin & _). apply Iopen in Hin. destruct (Ilive h0 Hin) as [_ Hn]. exfalso. apply Hn. now left.
          - destruct Pcase as (Hf & _). destruct (Ifin h0 Hf) as (_ & _ & Hn). exfalso. apply Hn. now left.
          - destruct Pcase as (_ & _ & _ & Hn & _). exfalso. apply Hn. now left. }
        constructor; pred_st; try assumption.
        -- intros h o Hin. apply Pfq. now right.
        -- intros h. destruct (Nat.eq_dec h0 h) as [<-|Hne].
           ++ rewrite phase_of_cons_same by reflexivity. rewrite Hnone. cbn [phase_step].
              specialize (Pcase h0). rewrite Hnone in Pcase. destruct Pcase as (_ & Hf & _).
              split; [now left|]. split; [|eauto]. rewrite existsb_final_cons_other by (intros ? [=]). exact Hf.
           ++ rewrite phase_of_cons_other by (cbn; exact Hne). rewrite existsb_final_cons_other by (intros ? [=]).
              specialize (Pcase h). destruct (phase_of h ev); try assumption.
              ** destruct Pcase as (H1 & H2 & H3). split; [intros [?|?]; [congruence|contradiction]|]. split; [exact H2|].
                 destruct H3 as [H3|[H3|H3]]; [now left|congruence|now right].
              ** destruct Pcase as (H1 & H2 & H3). split; [now right|]. split; assumption.
              ** destruct Pcase as (H1 & H2 & H3 & H4 & H5). split; [intros [?|?]; [congruence|contradiction]|].
                 repeat split; try assumption. intros Hin. apply H4. now right.
      * (* inline *)
        injection Hs as <-.
        assert (nth_error ops h0 = Some OInline) as Hop by (apply Pfq; now left).
        assert (~ In h0 (map fst r)) as Hnr by (inversion Ifqnd; assumption).
        assert (h0 < next) as Hlt by (apply Ifqlt; now left).
        assert (phase_of h0 ev = PNone) as Hnone.
        { specialize (Pcase h0). destruct (phase_of h0 ev) as [|bs|bs| |]; [reflexivity| | | |contradiction].
          - destruct Pcase as (Hin & _). apply Iopen in Hin. destruct (Ilive h0 Hin) as [_ Hn]. exfalso. apply Hn. now left.
          - destruct Pcase as (Hf & _). destruct (Ifin h0 Hf) as (_ & _ & Hn). exfalso. apply Hn. now left.
          - destruct Pcase as (_ & _ & _ & Hn & _). exfalso. apply Hn. now left. }
        constructor; pred_st; try assumption.
        -- intros h o Hin. apply Pfq. now right.
        -- intros h. destruct (Nat.eq_dec h0 h) as [<-|Hne].
           ++ rewrite phase_of_cons_same by reflexivity. rewrite Hnone. cbn [phase_step].
              specialize (Pcase h0). rewrite Hnone in Pcase. destruct Pcase as (Ho & Hf & _).
              rewrite existsb_final_cons_other by (intros ? [=]). repeat split; assumption.
           ++ rewrite phase_of_cons_other by (cbn; exact Hne). rewrite existsb_final_cons_other by (intros ? [=]).
              specialize (Pcase h). destruct (phase_of h ev); try assumption.
              ** destruct Pcase as (H1 & H2 & H3). split; [exact H1|]. split; [exact H2|].
                 destruct H3 as [H3|[H3|H3]]; [now left|congruence|now right].
              ** destruct Pcase as (H1 & H2 & H3 & H4 & H5). repeat split; try assumption. intros Hin. apply H4. now right.
    + (* DQueue h0 []: drop the dispatcher's reference *)
      assert (In h0 open) as Hopen by (apply Iopen; rewrite Nat.eqb_refl; lia).
      destruct (Nat.eqb_spec (count_h h0 pq + count_h h0 run) 0) as [E0|E0]; injection Hs as <-.
      * assert (exists bs, phase_of h0 ev = POpen bs) as [bs Hph].
        { specialize (Pcase h0). destruct (phase_of h0 ev) as [|bs|bs| |]; [| | | |contradiction].
          - destruct Pcase as (Hn & _). contradiction.
          - eauto.
          - destruct Pcase as (Hf & _). destruct (Ifin h0 Hf) as (Hz & _). rewrite Nat.eqb_refl in Hz. lia.
          - destruct Pcase as (Hn & _). contradiction. }
        constructor; pred_st; try assumption.
        intros h. destruct (Nat.eq_dec h0 h) as [<-|Hne].
        -- rewrite phase_of_cons_same by reflexivity. rewrite Hph. cbn [phase_step existsb is_final_of].
           rewrite Nat.eqb_refl. cbn [orb]. specialize (Pcase h0). rewrite Hph in Pcase. destruct Pcase as (_ & _ & Hj).
           split; [reflexivity|exact Hj].
        -- rewrite phase_of_cons_other by (cbn; exact Hne).
           rewrite existsb_final_cons_other by (intros ? [= <-]; exact Hne).
           specialize (Pcase h). destruct (phase_of h ev); try assumption; rewrite in_remove_h.
           ++ destruct Pcase as (H1 & H2 & H3). split; [intros [? _]; contradiction|]. split; assumption.
           ++ destruct Pcase as (H1 & H2 & H3). split; [split; [exact H1|congruence]|]. split; assumption.
           ++ destruct Pcase as (H1 & H2 & H3 & H4 & H5). split; [intros [? _]; contradiction|]. repeat split; assumption.
      * constructor; pred_st; assumption.
    + destruct (Nat.ltb_spec (length pq) Q); [|discriminate]. injection Hs as <-. constructor; pred_st; assumption.
    + destruct pq; [|discriminate]. destruct run; [|discriminate]. injection Hs as <-. constructor; pred_st; assumption.
    + discriminate.
  - (* take *)
    destruct pq as [|j r]; [discriminate|]. destruct (Nat.ltb_spec (length run) W); [|discriminate].
    injection Hs as <-. constructor; pred_st; assumption.
  - (* a block job completes *)
    destruct (nth_error run k) as [[h0 b]|] eqn:En; [|discriminate].
    pose proof (fun x => count_h_remove_nth run k h0 b x En) as Hc.
    assert (0 < count_h h0 run) as Hpos by (specialize (Hc h0); rewrite Nat.eqb_refl in Hc; lia).
    assert (In h0 open) as Hopen by (apply Iopen; lia).
    assert (exists bs, phase_of h0 ev = POpen bs) as [bs Hph].
    { specialize (Pcase h0). destruct (phase_of h0 ev) as [|bs|bs| |]; [| | | |contradiction].
      - destruct Pcase as (Hn & _). contradiction.
      - eauto.
      - destruct Pcase as (Hf & _). destruct (Ifin h0 Hf) as (Hz & _). lia.
      - destruct Pcase as (Hn & _). contradiction. }
    destruct ((count_h h0 pq + count_h h0 (remove_nth k run) =? 0) && negb (disp_holds disp h0)) eqn:Elast;
      injection Hs as <-.
    + constructor; pred_st; try assumption.
      intros h. destruct (Nat.eq_dec h0 h) as [<-|Hne].
      * rewrite phase_of_cons_same by reflexivity. rewrite phase_of_cons_same by reflexivity.
        rewrite Hph. cbn [phase_step existsb is_final_of]. rewrite Nat.eqb_refl. cbn [orb].
        specialize (Pcase h0). rewrite Hph in Pcase. destruct Pcase as (_ & _ & Hj). split; [reflexivity|exact Hj].
      * rewrite phase_of_cons_other by (cbn; exact Hne). rewrite phase_of_cons_other by (cbn; exact Hne).
        rewrite existsb_final_cons_other by (intros ? [= <-]; exact Hne).
        rewrite existsb_final_cons_other by (intros ? [=]).
        specialize (Pcase h). destruct (phase_of h ev); try assumption; rewrite in_remove_h.
        -- destruct Pcase as (H1 & H2 & H3). split; [intros [? _]; contradiction|]. split; assumption.
        -- destruct Pcase as (H1 & H2 & H3). split; [split; [exact H1|congruence]|]. split; assumption.
        -- destruct Pcase as (H1 & H2 & H3 & H4 & H5). split; [intros [? _]; contradiction|]. repeat split; assumption.
    + constructor; pred_st; try assumption.
      intros h. destruct (Nat.eq_dec h0 h) as [<-|Hne].
      * rewrite phase_of_cons_same by reflexivity. rewrite Hph. cbn [phase_step].
        rewrite existsb_final_cons_other by (intros ? [=]).
        specialize (Pcase h0). rewrite Hph in Pcase. exact Pcase.
      * rewrite phase_of_cons_other by (cbn; exact Hne). rewrite existsb_final_cons_other by (intros ? [=]).
        exact (Pcase h).
Qed.

Theorem pinv_reachable W Q ops s : reachable W Q ops s -> PInv ops s.
Proof.
  induction 1 as [|s l s' Hr IH Hs]; [apply pinv_init|].
  eapply pinv_step; eauto. eapply inv_reachable; eauto.
Qed.

(* ------------------------------------------------------------------ *)
(* C06, parblock                                                       *)
(* ------------------------------------------------------------------ *)
Theorem parblock_any_schedule W Q ops s : reachable W Q ops s -> final s = true ->
  (forall h o, nth_error ops h = Some o -> outcome_ok o (phase_of h (b_ev s))) /\
  (forall h, nth_error ops h = None -> phase_of h (b_ev s) = PNone).
Proof.
  intros Hr Hf. pose proof (inv_reachable W Q ops s Hr) as HI. pose proof (pinv_reachable W Q ops s Hr) as HP.
  pose proof (final_state_closed W Q s HI Hf) as Hclosed.
  pose proof (final_writes_complete W Q ops s Hr Hf) as Hw.
  destruct HP as [Pskip Plen Pfq Pcase].
  assert (b_todo s = [] /\ b_fq s = []) as [Htodo Hfq].
  { unfold final in Hf. destruct (b_todo s); [|discriminate]. destruct (b_fq s); [|discriminate]. split; reflexivity. }
  rewrite Htodo in Plen. cbn [length] in Plen.
  assert (forall h, Permutation (blocks_of h (b_ev s))
                      (match nth_error ops h with Some (OCopy js) => js | _ => [] end)) as Hblocks.
  { intros h. unfold blocks_of. eapply Permutation_trans.
    - apply perm_filter_map. apply Permutation_sym. exact Hw.
    - rewrite todo_pairs_blocks. destruct (Nat.ltb_spec h 0); [lia|]. rewrite Nat.sub_0_r. apply Permutation_refl. }
  split.
  - intros h o Hnth. specialize (Pcase h). unfold PCase in Pcase. unfold fq_ids in Pcase. rewrite Hfq, Hclosed in Pcase.
    assert (h < length ops) as Hlt by (apply nth_error_Some; congruence).
    specialize (Hblocks h). rewrite Hnth in Hblocks.
    destruct (phase_of h (b_ev s)) as [|bs|bs| |] eqn:Eph; [| | | |contradiction].
    + destruct Pcase as (_ & _ & [H|[]]). lia.
    + destruct Pcase as ([] & _).
    + destruct Pcase as (_ & js & Hjs). rewrite Hnth in Hjs. injection Hjs as ->. cbn [outcome_ok].
      rewrite (phase_blocks h (b_ev s) bs (or_intror Eph)). exact Hblocks.
    + destruct Pcase as (_ & _ & _ & _ & Ho). rewrite Hnth in Ho. injection Ho as ->. exact I.
  - intros h Hnth. specialize (Pcase h). unfold PCase in Pcase.
    destruct (phase_of h (b_ev s)) as [|bs|bs| |]; [reflexivity| | | |contradiction].
    + destruct Pcase as (_ & _ & js & Hjs). congruence.
    + destruct Pcase as (_ & js & Hjs). congruence.
    + destruct Pcase as (_ & _ & _ & _ & Ho). congruence.
Qed.

(* ------------------------------------------------------------------ *)
(* parfile                                                             *)
(* ------------------------------------------------------------------ *)
Lemma split_at {A} (l : list A) : forall k x, nth_error l k = Some x ->
  exists l1 l2, l = l1 ++ x :: l2 /\ firstn k l = l1 /\ skipn (S k) l = l2.
Proof.
  induction l as [|y l IH]; intros [|k] x H; cbn [nth_error] in H; try discriminate.
  - injection H as ->. exists [], l. repeat split.
  - destruct (IH k x H) as (l1 & l2 & E & E1 & E2). exists (y :: l1), l2. cbn [firstn skipn app].
    repeat split; [now f_equal|now f_equal|exact E2].
Qed.

Lemma fstep_work W s k : fstep W s (FWork k) =
  match nth_error (f_run s) k with
  | Some (h, b :: rest) =>
      Some (mkF (f_todo s) (f_next s) (f_wdone s) (f_fq s)
                (firstn k (f_run s) ++ (h, rest) :: skipn (S k) (f_run s)) (EWrite h b :: f_ev s))
  | Some (h, []) =>
      Some (mkF (f_todo s) (f_next s) (f_wdone s) (f_fq s)
                (firstn k (f_run s) ++ skipn (S k) (f_run s)) (EFinal h :: f_ev s))
  | None => None
  end.
Proof. reflexivity. Qed.

Definition FCase (ops : list bop) (s : fst_) (h : nat) : Prop :=
  match phase_of h (f_ev s) with
  | PNone => (f_next s <= h \/ In h (map fst (f_fq s))) /\ ~ In h (map fst (f_run s))
  | POpen bs => exists rest js, In (h, rest) (f_run s) /\ nth_error ops h = Some (OCopy js) /\ Permutation (bs ++ rest) js
  | PFinal bs => h < f_next s /\ ~ In h (map fst (f_fq s)) /\ ~ In h (map fst (f_run s)) /\
                 exists js, nth_error ops h = Some (OCopy js) /\ Permutation bs js
  | PInline => h < f_next s /\ ~ In h (map fst (f_fq s)) /\ ~ In h (map fst (f_run s)) /\ nth_error ops h = Some OInline
  | PBad => False
  end.

Record FInv (ops : list bop) (s : fst_) : Prop := mkFInv {
  f_skip : skipn (f_next s) ops = f_todo s;
  f_len : f_next s + length (f_todo s) = length ops;
  f_fqop : forall h o, In (h, o) (f_fq s) -> nth_error ops h = Some o;
  f_fqlt : forall h, In h (map fst (f_fq s)) -> h < f_next s;
  f_runlt : forall h, In h (map fst (f_run s)) -> h < f_next s;
  f_nd : NoDup (map fst (f_fq s) ++ map fst (f_run s));
  f_case : forall h, FCase ops s h
}.

Lemma finv_init ops : FInv ops (finit ops).
Proof.
  constructor; unfold finit; cbn [f_todo f_next f_fq f_run f_ev map app].
  - reflexivity.
  - reflexivity.
  - intros h o [].
  - intros h [].
  - intros h [].
  - constructor.
  - intros h. unfold FCase. cbn. split; [left; lia|tauto].
Qed.

Lemma in_map_fst {A B} (l : list (A * B)) a b : In (a, b) l -> In a (map fst l).
Proof. intros H. apply in_map_iff. exists (a, b). auto. Qed.

Lemma nodup_app_l {A} (a b : list A) : NoDup (a ++ b) -> NoDup a.
Proof. induction a as [|x a IH]; intros H; [constructor|]. inversion H; subst. constructor; [|auto]. intros Hin. apply H2. apply in_or_app. now left. Qed.
Lemma nodup_app_r {A} (a b : list A) : NoDup (a ++ b) -> NoDup b.
Proof. induction a as [|x a IH]; intros H; [exact H|]. inversion H; subst. auto. Qed.
Lemma nodup_app_disj {A} (a b : list A) x : NoDup (a ++ b) -> In x a -> In x b -> False.
Proof.
  induction a as [|y a IH]; intros H Ha Hb; [destruct Ha|]. inversion H; subst.
  destruct Ha as [->|Ha]; [|eauto]. apply H2. apply in_or_app. now right.
Qed.

Lemma nodup_fst_unique {B} (l : list (nat * B)) h x y : NoDup (map fst l) -> In (h, x) l -> In (h, y) l -> x = y.
Proof.
  induction l as [|[h' z] l IH]; intros Hn Hx Hy; [destruct Hx|]. cbn [map fst] in Hn. inversion Hn; subst.
  destruct Hx as [Hx|Hx], Hy as [Hy|Hy].
  - congruence.
  - injection Hx as -> ->. exfalso. apply H1. eapply in_map_fst; eauto.
  - injection Hy as -> ->. exfalso. apply H1. eapply in_map_fst; eauto.
  - eauto.
Qed.

Lemma finv_step W ops s l s' : FInv ops s -> fstep W s l = Some s' -> FInv ops s'.
Proof.
  intros HF Hs. destruct HF as [Fskip Flen Ffqop Ffqlt Frunlt Fnd Fcase].
  destruct s as [todo next wdone fq run ev]. unfold FCase in Fcase.
  cbn [f_todo f_next f_wdone f_fq f_run f_ev] in *.
  destruct l as [| |k].
  - (* walker *)
    unfold fstep in Hs. cbn [f_todo f_next f_wdone f_fq f_run f_ev] in Hs.
    destruct todo as [|o r].
    + destruct wdone; [discriminate|]. injection Hs as <-. constructor; unfold FCase; cbn [f_todo f_next f_wdone f_fq f_run f_ev]; assumption.
    + injection Hs as <-. destruct (skipn_cons_nth ops next o r Fskip) as [Hnth Hsk].
      constructor; unfold FCase; cbn [f_todo f_next f_wdone f_fq f_run f_ev].
      * exact Hsk.
      * cbn [length] in Flen. lia.
      * intros h o' Hin. apply in_app_or in Hin. destruct Hin as [Hin|[Heq|[]]]; [now apply Ffqop|].
        injection Heq as <- <-. exact Hnth.
      * intros h. rewrite map_app. cbn [map fst]. intros Hin. apply in_app_or in Hin.
        destruct Hin as [Hin|[<-|[]]]; [specialize (Ffqlt h Hin); lia|lia].
      * intros h Hin. specialize (Frunlt h Hin). lia.
      * rewrite map_app. cbn [map fst]. rewrite <- app_assoc. cbn [app].
        apply (Permutation_NoDup (l := next :: map fst fq ++ map fst run)); [apply Permutation_middle|].
        constructor; [|exact Fnd]. intros Hin. apply in_app_or in Hin.
        destruct Hin as [Hin|Hin]; [specialize (Ffqlt _ Hin)|specialize (Frunlt _ Hin)]; lia.
      * intros h. specialize (Fcase h). rewrite map_app. cbn [map fst].
        destruct (phase_of h ev); try assumption.
        -- destruct Fcase as [[Hx|Hx] Hy]; (split; [|exact Hy]).
           ++ destruct (Nat.eq_dec h next) as [->|]; [right; apply in_or_app; right; now left|left; lia].
           ++ right. apply in_or_app. now left.
        -- destruct Fcase as (H1 & H2 & H3 & H4). repeat split; try assumption; [lia|].
           intros Hin. apply in_app_or in Hin. destruct Hin as [Hin|[Heq|[]]]; [contradiction|lia].
        -- destruct Fcase as (H1 & H2 & H3 & H4). repeat split; try assumption; [lia|].
           intros Hin. apply in_app_or in Hin. destruct Hin as [Hin|[Heq|[]]]; [contradiction|lia].
  - (* a worker takes an operation *)
    unfold fstep in Hs. cbn [f_todo f_next f_wdone f_fq f_run f_ev] in Hs.
    destruct fq as [|[h0 o] r]; [discriminate|]. cbn [map fst] in *.
    assert (h0 < next) as Hlt by (apply Ffqlt; now left).
    assert (~ In h0 (map fst r) /\ ~ In h0 (map fst run)) as [Hnr Hnrun].
    { inversion Fnd as [|? ? Hni Hnd]; subst. split; intros Hin; apply Hni; apply in_or_app; [now left|now right]. }
    assert (phase_of h0 ev = PNone) as Hnone.
    { specialize (Fcase h0). destruct (phase_of h0 ev) as [|bs|bs| |]; [reflexivity| | | |contradiction].
      - destruct Fcase as (rest & js & Hin & _). exfalso. apply Hnrun. eapply in_map_fst; eauto.
      - destruct Fcase as (_ & Hn & _). exfalso. apply Hn. now left.
      - destruct Fcase as (_ & Hn & _). exfalso. apply Hn. now left. }
    assert (nth_error ops h0 = Some o) as Hop by (apply Ffqop; now left).
    destruct o as [js|]; (destruct (Nat.ltb_spec (length run) W) as [HltW|HgeW]; [|discriminate]); injection Hs as <-.
    + constructor; unfold FCase; cbn [f_todo f_next f_wdone f_fq f_run f_ev map fst]; try assumption.
      * intros h o Hin. apply Ffqop. now right.
      * intros h Hin. apply Ffqlt. now right.
      * intros h [<-|Hin]; [exact Hlt|now apply Frunlt].
      * apply (Permutation_NoDup (l := h0 :: map fst r ++ map fst run)); [apply Permutation_middle|exact Fnd].
      * intros h. destruct (Nat.eq_dec h0 h) as [<-|Hne].
        -- rewrite phase_of_cons_same by reflexivity. rewrite Hnone. cbn [phase_step].
           exists js, js. split; [now left|]. split; [exact Hop|apply Permutation_refl].
        -- rewrite phase_of_cons_other by (cbn; exact Hne). specialize (Fcase h).
           destruct (phase_of h ev); try assumption.
           ++ destruct Fcase as [[Hx|[Hx|Hx]] Hy]; (split; [|intros [?|?]; [congruence|contradiction]]);
                [now left|congruence|now right].
           ++ destruct Fcase as (rest & js' & H1 & H2 & H3). exists rest, js'. split; [now right|]. split; assumption.
           ++ destruct Fcase as (H1 & H2 & H3 & H4). repeat split; try assumption.
              ** intros Hin. apply H2. now right.
              ** intros [?|?]; [congruence|contradiction].
           ++ destruct Fcase as (H1 & H2 & H3 & H4). repeat split; try assumption.
              ** intros Hin. apply H2. now right.
              ** intros [?|?]; [congruence|contradiction].
    + constructor; unfold FCase; cbn [f_todo f_next f_wdone f_fq f_run f_ev map fst]; try assumption.
      * intros h o Hin. apply Ffqop. now right.
      * intros h Hin. apply Ffqlt. now right.
      * now inversion Fnd.
      * intros h. destruct (Nat.eq_dec h0 h) as [<-|Hne].
        -- rewrite phase_of_cons_same by reflexivity. rewrite Hnone. cbn [phase_step]. repeat split; assumption.
        -- rewrite phase_of_cons_other by (cbn; exact Hne). specialize (Fcase h).
           destruct (phase_of h ev); try assumption.
           ++ destruct Fcase as [[Hx|[Hx|Hx]] Hy]; (split; [|exact Hy]); [now left|congruence|now right].
           ++ destruct Fcase as (H1 & H2 & H3 & H4). repeat split; try assumption. intros Hin. apply H2. now right.
           ++ destruct Fcase as (H1 & H2 & H3 & H4). repeat split; try assumption. intros Hin. apply H2. now right.
  - (* a worker makes progress on its file *)
    rewrite fstep_work in Hs. cbn [f_todo f_next f_wdone f_fq f_run f_ev] in Hs.
    destruct (nth_error run k) as [[h0 rem]|] eqn:En; [|destruct (nth_error run k); discriminate].
    destruct (split_at run k (h0, rem) En) as (l1 & l2 & Erun & E1 & E2). rewrite E1, E2 in Hs.
    assert (NoDup (map fst run)) as Hndr by (eapply nodup_app_r; eauto).
    assert (In (h0, rem) run) as Hin0 by (rewrite Erun; apply in_or_app; right; now left).
    assert (exists bs js, phase_of h0 ev = POpen bs /\ nth_error ops h0 = Some (OCopy js) /\ Permutation (bs ++ rem) js)
      as (bs & js & Hph & Hop & Hperm).
    { specialize (Fcase h0). destruct (phase_of h0 ev) as [|bs|bs| |]; [| | | |contradiction].
      - destruct Fcase as (_ & Hn). exfalso. apply Hn. eapply in_map_fst; eauto.
      - destruct Fcase as (rest & js & Hin & Hop & Hp). exists bs, js.
        rewrite (nodup_fst_unique run h0 rem rest Hndr Hin0 Hin). auto.
      - destruct Fcase as (_ & _ & Hn & _). exfalso. apply Hn. eapply in_map_fst; eauto.
      - destruct Fcase as (_ & _ & Hn & _). exfalso. apply Hn. eapply in_map_fst; eauto. }
    assert (forall h x, h <> h0 -> (In (h, x) run <-> In (h, x) (l1 ++ l2))) as Hother.
    { intros h x Hne. rewrite Erun, !in_app_iff. cbn [In]. split; [intros [?|[?|?]]; [now left|congruence|now right]|tauto]. }
    assert (forall h, h <> h0 -> (In h (map fst run) <-> In h (map fst (l1 ++ l2)))) as Hotherk.
    { intros h Hne. rewrite Erun, !map_app, !in_app_iff. cbn [map fst In]. split; [intros [?|[?|?]]; [now left|congruence|now right]|tauto]. }
    assert (~ In h0 (map fst (l1 ++ l2))) as Hgone.
    { rewrite Erun, map_app in Hndr. cbn [map fst] in Hndr. apply NoDup_remove_2 in Hndr. now rewrite map_app. }
    destruct rem as [|b rest]; injection Hs as <-.
    + (* finalise *)
      constructor; unfold FCase; cbn [f_todo f_next f_wdone f_fq f_run f_ev]; try assumption.
      * intros h Hin. apply Frunlt. rewrite Erun, map_app. rewrite map_app in Hin. apply in_app_or in Hin.
        apply in_or_app. destruct Hin; [now left|right; now right].
      * rewrite Erun, map_app in Fnd. cbn [map fst] in Fnd. rewrite map_app.
        rewrite app_assoc in Fnd |- *. eapply NoDup_remove_1; eauto.
      * intros h. destruct (Nat.eq_dec h0 h) as [<-|Hne].
        -- rewrite phase_of_cons_same by reflexivity. rewrite Hph. cbn [phase_step].
           split; [apply Frunlt; eapply in_map_fst; eauto|]. split.
           ++ intros Hin. eapply nodup_app_disj; [exact Fnd|exact Hin|eapply in_map_fst; eauto].
           ++ split; [exact Hgone|]. exists js. split; [exact Hop|]. now rewrite app_nil_r in Hperm.
        -- rewrite phase_of_cons_other by (cbn; exact Hne). specialize (Fcase h).
           destruct (phase_of h ev); try assumption.
           ++ destruct Fcase as [H1 H2]. split; [exact H1|]. rewrite <- Hotherk by congruence. exact H2.
           ++ destruct Fcase as (rest & js' & H1 & H2 & H3). exists rest, js'. rewrite <- Hother by congruence. auto.
           ++ destruct Fcase as (H1 & H2 & H3 & H4). repeat split; try assumption. rewrite <- Hotherk by congruence. exact H3.
           ++ destruct Fcase as (H1 & H2 & H3 & H4). repeat split; try assumption. rewrite <- Hotherk by congruence. exact H3.
    + (* one more block *)
      assert (map fst (l1 ++ (h0, rest) :: l2) = map fst run) as Hkeys by (rewrite Erun, !map_app; reflexivity).
      constructor; unfold FCase; cbn [f_todo f_next f_wdone f_fq f_run f_ev]; rewrite ?Hkeys; try assumption.
      intros h. destruct (Nat.eq_dec h0 h) as [<-|Hne].
      * rewrite phase_of_cons_same by reflexivity. rewrite Hph. cbn [phase_step].
        exists rest, js. split; [apply in_or_app; right; now left|]. split; [exact Hop|].
        eapply Permutation_trans; [|exact Hperm]. cbn [app]. apply Permutation_middle.
      * rewrite phase_of_cons_other by (cbn; exact Hne). specialize (Fcase h).
        destruct (phase_of h ev); try assumption.
        destruct Fcase as (rest' & js' & H1 & H2 & H3). exists rest', js'. split; [|split; assumption].
        apply (Hother h rest' ltac:(congruence)) in H1. apply in_app_or in H1. apply in_or_app.
        destruct H1; [now left|right; now right].
Qed.

Theorem finv_reachable W ops s : freachable W ops s -> FInv ops s.
Proof. induction 1 as [|s l s' Hr IH Hs]; [apply finv_init|eapply finv_step; eauto]. Qed.

Theorem parfile_any_schedule W ops s : freachable W ops s -> ffinal s = true ->
  (forall h o, nth_error ops h = Some o -> outcome_ok o (phase_of h (f_ev s))) /\
  (forall h, nth_error ops h = None -> phase_of h (f_ev s) = PNone).
Proof.
  intros Hr Hf. destruct (finv_reachable W ops s Hr) as [Fskip Flen Ffqop Ffqlt Frunlt Fnd Fcase].
  assert (f_todo s = [] /\ f_fq s = [] /\ f_run s = []) as (Htodo & Hfq & Hrun).
  { unfold ffinal in Hf. destruct (f_todo s); [|discriminate]. destruct (f_fq s); [|discriminate].
    destruct (f_run s); [|discriminate]. repeat split. }
  rewrite Htodo in Flen. cbn [length] in Flen. unfold FCase in Fcase. rewrite Hfq, Hrun in Fcase. cbn [map] in Fcase.
  split.
  - intros h o Hnth. specialize (Fcase h).
    assert (h < length ops) as Hlt by (apply nth_error_Some; congruence).
    destruct (phase_of h (f_ev s)) as [|bs|bs| |]; [| | | |contradiction].
    + destruct Fcase as [[H|[]] _]. lia.
    + destruct Fcase as (rest & js & [] & _).
    + destruct Fcase as (_ & _ & _ & js & Hjs & Hp). rewrite Hnth in Hjs. injection Hjs as ->. exact Hp.
    + destruct Fcase as (_ & _ & _ & Ho). rewrite Hnth in Ho. injection Ho as ->. exact I.
  - intros h Hnth. specialize (Fcase h).
    destruct (phase_of h (f_ev s)) as [|bs|bs| |]; [reflexivity| | | |contradiction].
    + destruct Fcase as (rest & js & [] & _).
    + destruct Fcase as (_ & _ & _ & js & Hjs & _). congruence.
    + destruct Fcase as (_ & _ & _ & Ho). congruence.
Qed.

(* ------------------------------------------------------------------ *)
(* the two drivers agree, whatever their schedules and worker counts    *)
(* ------------------------------------------------------------------ *)
Definition same_outcome (p q : phase) : Prop :=
  match p, q with
  | PFinal a, PFinal b => Permutation a b
  | PInline, PInline => True
  | PNone, PNone => True
  | _, _ => False
  end.

Theorem drivers_agree W Q W' ops sb sf :
  reachable W Q ops sb -> final sb = true -> freachable W' ops sf -> ffinal sf = true ->
  forall h, same_outcome (phase_of h (b_ev sb)) (phase_of h (f_ev sf)).
Proof.
  intros Hb Hbf Hf Hff h.
  destruct (parblock_any_schedule W Q ops sb Hb Hbf) as [B1 B2].
  destruct (parfile_any_schedule W' ops sf Hf Hff) as [F1 F2].
  destruct (nth_error ops h) as [o|] eqn:En.
  - specialize (B1 h o En). specialize (F1 h o En).
    destruct o as [js|]; destruct (phase_of h (b_ev sb)); try contradiction;
      destruct (phase_of h (f_ev sf)); try contradiction; cbn [same_outcome outcome_ok] in *; [|exact I].
    eapply Permutation_trans; [exact B1|apply Permutation_sym; exact F1].
  - rewrite (B2 h En), (F2 h En). exact I.
Qed.

(* executable outcome check = the propositional one *)
Lemma insert_sorted_perm x l : Permutation (insert_sorted x l) (x :: l).
Proof.
  induction l as [|y l IH]; [apply Permutation_refl|]. cbn [insert_sorted].
  destruct (x <=? y); [apply Permutation_refl|]. eapply Permutation_trans; [apply perm_skip; exact IH|apply perm_swap].
Qed.
Lemma sort_nat_perm l : Permutation (sort_nat l) l.
Proof.
  induction l as [|x l IH]; [constructor|]. cbn [sort_nat fold_right].
  eapply Permutation_trans; [apply insert_sorted_perm|]. now constructor.
Qed.
Lemma list_eqb_eq a : forall b, list_eqb a b = true -> a = b.
Proof.
  induction a as [|x a IH]; intros [|y b] H; cbn [list_eqb] in H; try discriminate; [reflexivity|].
  apply andb_true_iff in H. destruct H as [H1 H2]. apply Nat.eqb_eq in H1. f_equal; auto.
Qed.
Theorem outcome_okb_sound o p : outcome_okb o p = true -> outcome_ok o p.
Proof.
  destruct o as [js|], p as [|bs|bs| |]; cbn [outcome_okb outcome_ok]; try discriminate; [|trivial].
  intros H. apply list_eqb_eq in H. eapply Permutation_trans; [apply Permutation_sym, sort_nat_perm|].
  rewrite H. apply sort_nat_perm.
Qed.

(* ------------------------------------------------------------------ *)
(* the shape of one file's history                                      *)
(* ------------------------------------------------------------------ *)
Lemma events_of_cons h e ev :
  events_of h (e :: ev) = events_of h ev ++ (if Nat.eqb (ev_handle e) h then [e] else []).
Proof. unfold events_of. cbn [rev]. rewrite filter_app. cbn [filter]. destruct (Nat.eqb (ev_handle e) h); reflexivity. Qed.

Theorem phase_shape h ev :
  match phase_of h ev with
  | PNone => events_of h ev = []
  | POpen bs => events_of h ev = EOpen h :: map (EWrite h) (rev bs)
  | PFinal bs => events_of h ev = EOpen h :: map (EWrite h) (rev bs) ++ [EFinal h]
  | PInline => events_of h ev = [EInline h]
  | PBad => True
  end.
Proof.
  induction ev as [|e ev IH]; [reflexivity|]. rewrite events_of_cons. cbn [phase_of].
  destruct (Nat.eqb_spec (ev_handle e) h) as [He|He]; [|rewrite app_nil_r; exact IH].
  destruct (phase_of h ev) as [|bs|bs| |]; destruct e as [h'|h' b|h'|h']; cbn [phase_step ev_handle] in *; subst; try exact I.
  - rewrite IH. reflexivity.
  - rewrite IH. reflexivity.
  - rewrite IH. cbn [rev app]. rewrite map_app. cbn [map]. now rewrite app_comm_cons.
  - rewrite IH. now rewrite app_comm_cons.
Qed.

(* ------------------------------------------------------------------ *)
(* C12: nothing happens to a file before the walker has sent it        *)
(* (the walker announces Size(h) in the step that sends h, so in every  *)
(* prefix of every schedule the Copied updates of h come after Size(h)) *)
(* ------------------------------------------------------------------ *)
Theorem events_after_walk W Q ops s : reachable W Q ops s ->
  forall e, In e (b_ev s) -> ev_handle e < b_next s.
Proof.
  induction 1 as [|s l s' Hr IH Hs]; [intros e []|].
  pose proof (inv_reachable W Q ops s Hr) as HI. inv_fields HI.
  destruct s as [todo next wdone fq disp pq run open ev]. red_st.
  cbn [b_todo b_next b_wdone b_fq b_disp b_pq b_run b_open b_ev] in *.
  unfold step in Hs. cbn [b_todo b_next b_wdone b_fq b_disp b_pq b_run b_open b_ev] in Hs.
  destruct l as [| | |k].
  - destruct todo as [|o r].
    + destruct wdone; [discriminate|]. injection Hs as <-. exact IH.
    + injection Hs as <-. cbn [b_ev b_next]. intros e He. specialize (IH e He). lia.
  - destruct disp as [|h0 [|b rest]| |]; cbn [disp_holds] in *.
    + destruct fq as [|[h0 [js|]] r]; cbn [map fst] in *.
      * destruct wdone; [|discriminate]. injection Hs as <-. exact IH.
      * injection Hs as <-. cbn [b_ev b_next]. intros e [<-|He]; [cbn; apply Ifqlt; now left|now apply IH].
      * injection Hs as <-. cbn [b_ev b_next]. intros e [<-|He]; [cbn; apply Ifqlt; now left|now apply IH].
    + assert (h0 < next) as Hlt by (apply Ilive; rewrite Nat.eqb_refl; lia).
      destruct (Nat.eqb_spec (count_h h0 pq + count_h h0 run) 0) as [E0|E0]; injection Hs as <-; cbn [b_ev b_next];
        [intros e [<-|He]; [exact Hlt|now apply IH]|exact IH].
    + destruct (Nat.ltb_spec (length pq) Q); [|discriminate]. injection Hs as <-. exact IH.
    + destruct pq; [|discriminate]. destruct run; [|discriminate]. injection Hs as <-. exact IH.
    + discriminate.
  - destruct pq as [|j r]; [discriminate|]. destruct (Nat.ltb_spec (length run) W); [|discriminate].
    injection Hs as <-. exact IH.
  - destruct (nth_error run k) as [[h0 b]|] eqn:En; [|discriminate].
    pose proof (fun x => count_h_remove_nth run k h0 b x En) as Hc.
    assert (h0 < next) as Hlt by (apply Ilive; specialize (Hc h0); rewrite Nat.eqb_refl in Hc; lia).
    destruct ((count_h h0 pq + count_h h0 (remove_nth k run) =? 0) && negb (disp_holds disp h0)); injection Hs as <-;
      cbn [b_ev b_next]; intros e He.
    + destruct He as [<-|[<-|He]]; [exact Hlt|exact Hlt|now apply IH].
    + destruct He as [<-|He]; [exact Hlt|now apply IH].
Qed.

(* ------------------------------------------------------------------ *)
(* from protocol events to system calls: under EVERY schedule the calls  *)
(* issued on one copied file are Ops.copy_actions for SOME completion    *)
(* order of its blocks                                                   *)
(* ------------------------------------------------------------------ *)
From XcpModel Require Import Backup Walker Meta Ops.

Section Expand.
  Variable fc : fin_cfg.
  Variable src dst : rel.
  Variable e0 : copy_env.                 (* everything but the order of the writes *)
  Variable blk : nat -> N * N.            (* (offset, bytes) of block b: Blocks.range_jobs *)

  Definition open_actions : list sysact :=
    ([AOpenRO (KSrc src); AStat (KSrc src)] ++ (if ce_dst_exists e0 then [AStat (KDst dst)] else [])) ++
    match ce_backup e0 with Some n => [AReaddir (KDst dst); ARename (KDst dst) (KBak dst n)] | None => [] end ++
    [ACreateTrunc (KDst dst); AFtruncate (KDst dst) (ce_len e0)] ++
    (if ce_clone_issued e0 then [AClone (KDst dst)] else []).

  Definition final_actions : list sysact :=
    (if c_ownership fc then [AChown (KDst dst)] else []) ++
    (if c_no_perms fc then [] else repeat (ASetxattr (KDst dst)) (ce_nxattr e0) ++ [AChmod (KDst dst)]) ++
    (if c_no_timestamps fc then [] else [AUtimens (KDst dst)]) ++
    (if c_fsync fc then [AFsync (KDst dst)] else []).

  Definition ev_actions (x : bev) : list sysact :=
    match x with
    | EOpen _ => open_actions
    | EWrite _ b => [ARead (KSrc src) (fst (blk b)) (snd (blk b)); AWrite (KDst dst) (fst (blk b)) (snd (blk b))]
    | EFinal _ => final_actions
    | EInline _ => []
    end.

  Definition with_writes (ws : list (N * N)) : copy_env :=
    mkEnv (ce_dst_exists e0) (ce_same_file e0) (ce_backup e0) (ce_len e0) (ce_cloned e0) (ce_clone_issued e0) ws (ce_nxattr e0).

  Lemma flat_map_map {A B C} (f : B -> list C) (g : A -> B) l : flat_map f (map g l) = flat_map (fun x => f (g x)) l.
  Proof. induction l as [|x l IH]; [reflexivity|]. cbn [map flat_map]. now rewrite IH. Qed.

  Theorem history_is_copy_actions h ev bs :
    phase_of h ev = PFinal bs -> ce_dst_exists e0 && ce_same_file e0 = false -> ce_cloned e0 = false ->
    flat_map ev_actions (events_of h ev) = fst (copy_actions fc src dst (with_writes (map blk (rev bs)))) /\
    snd (copy_actions fc src dst (with_writes (map blk (rev bs)))) = true.
  Proof.
    intros Hph Hsame Hcl. pose proof (phase_shape h ev) as Hs. rewrite Hph in Hs. rewrite Hs.
    unfold copy_actions, with_writes. cbn [ce_dst_exists ce_same_file ce_backup ce_len ce_cloned ce_clone_issued ce_writes ce_nxattr].
    rewrite Hsame, Hcl. cbn [fst snd]. split; [|reflexivity].
    cbn [flat_map ev_actions]. rewrite flat_map_app. cbn [flat_map ev_actions]. rewrite app_nil_r.
    rewrite !flat_map_map. cbn [ev_actions]. unfold open_actions, final_actions.
    rewrite <- !app_assoc. reflexivity.
  Qed.
End Expand.

(* ------------------------------------------------------------------ *)
(* any two complete schedules give every file the same outcome          *)
(* ------------------------------------------------------------------ *)
From Coq Require Import Sorted.

Lemma insert_sorted_sorted x l : Sorted le l -> Sorted le (insert_sorted x l).
Proof.
  induction l as [|y l IH]; intros Hs; cbn [insert_sorted]; [repeat constructor|].
  destruct (Nat.leb_spec x y) as [Hxy|Hxy].
  - constructor; [exact Hs|constructor; exact Hxy].
  - inversion Hs as [|? ? Hs' Hhd]; subst. constructor; [apply IH; exact Hs'|].
    destruct l as [|z l]; cbn [insert_sorted]; [constructor; lia|].
    destruct (Nat.leb_spec x z); constructor; try lia. inversion Hhd; subst. assumption.
Qed.

Lemma sort_nat_sorted l : Sorted le (sort_nat l).
Proof. induction l as [|x l IH]; [constructor|]. cbn [sort_nat fold_right]. now apply insert_sorted_sorted. Qed.

Lemma sorted_perm_eq : forall a b : list nat, Sorted le a -> Sorted le b -> Permutation a b -> a = b.
Proof.
  induction a as [|x a IH]; intros b Ha Hb Hp.
  - apply Permutation_nil in Hp. now subst.
  - destruct b as [|y b]; [apply Permutation_sym, Permutation_nil in Hp; discriminate|].
    assert (StronglySorted le (x :: a)) as Sa by (apply Sorted_StronglySorted; [intros ? ? ?; lia|exact Ha]).
    assert (StronglySorted le (y :: b)) as Sb by (apply Sorted_StronglySorted; [intros ? ? ?; lia|exact Hb]).
    inversion Sa as [|? ? Sa' Fa]; subst. inversion Sb as [|? ? Sb' Fb]; subst.
    assert (x = y) as ->.
    { assert (In x (y :: b)) as Hx by (eapply Permutation_in; [exact Hp|now left]).
      assert (In y (x :: a)) as Hy by (eapply Permutation_in; [apply Permutation_sym; exact Hp|now left]).
      rewrite Forall_forall in Fa, Fb.
      destruct Hx as [->|Hx]; [reflexivity|]. destruct Hy as [->|Hy]; [reflexivity|].
      specialize (Fa _ Hy). specialize (Fb _ Hx). lia. }
    f_equal. apply IH.
    + now inversion Ha.
    + now inversion Hb.
    + eapply Permutation_cons_inv; exact Hp.
Qed.

Lemma sort_nat_perm_eq a b : Permutation a b -> sort_nat a = sort_nat b.
Proof.
  intros Hp. apply sorted_perm_eq; try apply sort_nat_sorted.
  eapply Permutation_trans; [apply sort_nat_perm|]. eapply Permutation_trans; [exact Hp|apply Permutation_sym, sort_nat_perm].
Qed.

Theorem parblock_two_schedules_same_outcome W1 Q1 W2 Q2 ops s1 s2 :
  reachable W1 Q1 ops s1 -> final s1 = true -> reachable W2 Q2 ops s2 -> final s2 = true ->
  forall h, norm_phase (phase_of h (b_ev s1)) = norm_phase (phase_of h (b_ev s2)).
Proof.
  intros H1 F1 H2 F2 h.
  destruct (parblock_any_schedule W1 Q1 ops s1 H1 F1) as [A1 B1].
  destruct (parblock_any_schedule W2 Q2 ops s2 H2 F2) as [A2 B2].
  destruct (nth_error ops h) as [o|] eqn:En.
  - specialize (A1 h o En). specialize (A2 h o En).
    destruct o as [js|]; destruct (phase_of h (b_ev s1)); try contradiction; destruct (phase_of h (b_ev s2)); try contradiction;
      cbn [norm_phase outcome_ok] in *; [|reflexivity].
    f_equal. apply sort_nat_perm_eq. eapply Permutation_trans; [exact A1|apply Permutation_sym; exact A2].
  - now rewrite (B1 h En), (B2 h En).
Qed.

Theorem drivers_same_outcome W Q W' ops sb sf :
  reachable W Q ops sb -> final sb = true -> freachable W' ops sf -> ffinal sf = true ->
  forall h, norm_phase (phase_of h (b_ev sb)) = norm_phase (phase_of h (f_ev sf)).
Proof.
  intros Hb Fb Hf Ff h. pose proof (drivers_agree W Q W' ops sb sf Hb Fb Hf Ff h) as H.
  destruct (phase_of h (b_ev sb)), (phase_of h (f_ev sf)); cbn [same_outcome norm_phase] in *; try contradiction; try reflexivity.
  f_equal. now apply sort_nat_perm_eq.
Qed.
