(* XReflink.v — part of the translator tie (see ExtractedOk.v): reflink(): unsupported errnos; CopyHandle::try_reflink.
   One file per group of translated definitions, so that a property depends only on the pieces it cites. *)
From XcpModel Require Import Base Extents Blocks Sparse CopyLoop FileCopy Updater Meta Backup Extracted.
From Coq Require Import String.
From Coq Require Import Lia.
Ltac errno_cases e :=
  repeat match goal with |- context [N.eqb e ?k] => destruct (N.eqb_spec e k) end; subst; try reflexivity; try discriminate; try lia.

Theorem x_reflink_unsupported_ok : forall e, e <> 0 ->
  existsb (N.eqb e) x_reflink_unsupported_errnos = match classify_clone e with ClUnsup => true | _ => false end.
Proof.
  intros e He. unfold x_reflink_unsupported_errnos, classify_clone, EOPNOTSUPP, EINVAL, EXDEV, ETXTBSY. cbn [existsb].
  destruct (N.eqb_spec e 0); [contradiction|]. errno_cases e.
Qed.

(* ---- CopyHandle::try_reflink: the decision table ---- *)
Definition rl_code (o : rl_out) : N := match o with RlCloned => 1 | RlCopy => 0 | RlFail _ => 2 end.
Definition mode_of_code (m : N) : reflink_mode := if m =? 0 then RfAuto else if m =? 1 then RfAlways else RfNever.

Theorem x_try_reflink_ok : forall m, m < 3 ->
  fst (try_reflink (mode_of_code m) ClOk) = x_try_reflink_issues_clone m /\
  rl_code (snd (try_reflink (mode_of_code m) ClOk)) = x_try_reflink m true /\
  rl_code (snd (try_reflink (mode_of_code m) ClUnsup)) = x_try_reflink m false /\
  (forall e, rl_code (snd (try_reflink (mode_of_code m) (ClErr e))) = if x_try_reflink_issues_clone m then 2 else 0).
Proof.
  intros m Hm. assert (m = 0 \/ m = 1 \/ m = 2) as H by lia.
  destruct H as [H|[H|H]]; subst m; repeat split; reflexivity.
Qed.

