(* XBackup.v — part of the translator tie (see ExtractedOk.v): backup numbering and the needs_backup table.
   One file per group of translated definitions, so that a property depends only on the pieces it cites. *)
From XcpModel Require Import Base Extents Blocks Sparse CopyLoop FileCopy Updater Meta Backup Extracted.
From Coq Require Import String.
From Coq Require Import Lia.
(* ---- backup.rs: the next number is the largest existing one plus one (0 when none) ---- *)
Theorem x_next_backup_ok : forall base entries,
  next_backup_num base entries =
  (let n := x_next_backup_from_max (fold_right N.max x_backup_max_default (backup_nums base entries)) in
   if n <? U64 then Some n else None).
Proof. reflexivity. Qed.
(* ... and the successor is CHECKED in the source (`checked_add`, an error when it does not fit): the `None` of the model is
   a failed step in every build — an unchecked `+ 1` panics in a debug build but wraps to 0 in a release build, where the
   rename then replaces an existing `name.~0~` (defect found in round 7, repaired) *)
Theorem x_next_backup_checked_ok : x_next_backup_checked = true.
Proof. reflexivity. Qed.

Theorem x_backup_pattern_ok : x_backup_pattern = "^\~(\d+)\~$"%string.
Proof. reflexivity. Qed.

(* ---- needs_backup: the decision table ---- *)
Theorem x_needs_backup_ok : forall mode ex base entries, mode < 3 ->
  needs_backup mode ex base entries = x_needs_backup mode ex (has_backup base entries).
Proof.
  intros mode ex base entries Hm. assert (mode = 0 \/ mode = 1 \/ mode = 2) as H by lia.
  destruct H as [H|[H|H]]; subst mode; unfold needs_backup, x_needs_backup;
    repeat match goal with |- context [N.eqb ?a ?b] => let v := eval vm_compute in (N.eqb a b) in change (N.eqb a b) with v end;
    cbn [andb]; destruct ex; reflexivity.
Qed.

