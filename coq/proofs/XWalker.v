(* XWalker.v — part of the translator tie (see ExtractedOk.v): tree_walker dispatch and shape.
   One file per group of translated definitions, so that a property depends only on the pieces it cites. *)
From XcpModel Require Import Base Extents Blocks Sparse CopyLoop FileCopy Updater Meta Backup Extracted.
From Coq Require Import String.
From Coq Require Import Lia.
From XcpModel Require Import Walker Ops.
From XcpModel Require Import Uspace.
From XcpModel Require Import Paths.
(* ---- operations::tree_walker ---- *)
Definition wact_code (a : wact) : N :=
  match a with WSize _ => 0 | WCopy _ _ => 1 | WLink _ _ => 2 | WMkdir _ => 3 | WSpecial _ _ => 4 | WErr _ _ => 5 end.
Definition kind_of_ft (ft : N) : ekind :=
  if ft =? 0 then EFile 0 else if ft =? 1 then EDir else if ft =? 2 then ELink [] else if ft <=? 5 then ESpecial ft else EOther ft.

(* the per-entry dispatch of the walker (which operations / updates each file type produces, and in which order:
   Size BEFORE the Copy operation is queued) is the model's act_of *)
Theorem x_walker_dispatch_ok :
  Forall (fun p => map wact_code (fst (act_of (mkW false false) (fun _ => false) ([], kind_of_ft (fst p), false))) = snd p)
         x_walker_dispatch /\
  map fst x_walker_dispatch = [0; 1; 2; 3; 4; 5; 6; 7].
Proof. split; [vm_compute; repeat constructor|reflexivity]. Qed.

(* the no-clobber check runs before the dispatch, stops the walk, and probes the target WITHOUT following links;
   the walk follows links exactly when dereferencing and prunes with the ignore filter; `from` is the canonical path
   exactly when dereferencing; the kind is taken from lstat(from); the target is target_base joined with the path
   relative to the source.  (This is the text Walker.v was written against; an edit shows up here.) *)
Theorem x_walker_shape_ok :
  x_walker_noclobber_stops_before_dispatch = true /\
  x_walker_noclobber_condition = "config.no_clobber&&target.symlink_metadata().is_ok()"%string /\
  x_walker_iterator = (["WalkDir::new(&source)";
   "follow_links(config.dereference)";
   "follow_root_links(config.dereference)";
   "into_iter()";
   "filter_entry(|e|ignore_filter(e,&gitignore))"])%string /\
  x_walker_entry_prelude = (["letepath=entry?.into_path();";
   "letfrom=ifconfig.dereference{letcpath=canonicalize(&epath)?;debug!(""Dereferencing{:?}into{:?}"",epath,cpath);cpath}else{epath.clone()};";
   "letmeta=from.symlink_metadata()?;";
   "letpath=epath.strip_prefix(&source)?;";
   "lettarget=if!empty_path(path){target_base.join(path)}else{target_base.clone()};";
   "letft=FileType::from(meta.file_type());"])%string /\
  x_walker_source_prelude = (["letsourcedir=source.components().next_back().ok_or(XcpError::InvalidSource(""Failedtofindsourcedirectoryname.""))?;";
   "lettarget_base=ifdest.exists()&&dest.is_dir()&&!config.no_target_directory&&sourcedir!=Component::ParentDir{dest.join(sourcedir)}else{dest.to_path_buf()};";
   "letgitignore=parse_ignore(&source,config)?;"])%string.
Proof. repeat split; reflexivity. Qed.


(* ---- ignore_filter, translated: the ONE query it puts to the matcher is about the walked entry's own path and the walked
   entry's own type (walkdir's file_type: the link itself unless the iterator follows links, which by x_walker_shape_ok it does
   exactly under --dereference) — the flag Walker.tree_is_dir models; and the only entry it lets through unasked is the
   source root ---- *)
Theorem x_ignore_filter_query_ok :
  x_ignore_filter_query = ("entry.path()", "entry.file_type().is_dir()")%string /\
  x_ignore_filter_unasked = ["entry.depth()==0"]%string.
Proof. split; reflexivity. Qed.
