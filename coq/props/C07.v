(* C07 — xcp always terminates: no deadlock, no spin, with or without errors.

   ConcFault.v models every thread of a run (main's update loop, the driver
   thread's joins, walker, dispatcher, bounded pool queue, pool workers /
   parfile workers) with FAILURES as labels, so the theorems quantify over every
   interleaving and every number and placement of failing steps, any W >= 1
   workers and any pool queue bound Q >= 1.  Termination = (a) no reachable
   state is stuck before main has exited, and (b) every step strictly decreases
   a measure that is bounded by the size of the workload, so every execution is
   finite.  (c) bounds the kernel-call loops inside one operation.
   Outside the theorems: that each system call returns, OS scheduler fairness,
   and the crossbeam / thread-pool primitives themselves. *)
From XcpModel Require Import Base Sparse ConcBlock ConcFile ConcFault CopyLoop Uspace.
From XcpProofs Require Import ConcBlockProofs ConcFileProofs ConcFaultProofs CopyLoopProofs UspaceProofs XLoops XConfig.
From Coq Require Import Lia.
From XcpModel Require Import Extracted.
From XcpProofs Require Import PinnedSource.
From XcpPins Require Import Pin_feedback_new Pin_parfile_copy Pin_parblock_copy Pin_main_main Pin_paths_parse_ignore
  Pin_parblock_queue_file_range.

(* (a) parblock and parfile, with failures: some thread can always move *)
Theorem C07_parblock_no_deadlock : forall W Q ops s, (1 <= W)%nat -> (1 <= Q)%nat ->
  xreachable W Q ops s -> x_main s = MLoop -> exists l s', xstep W Q s l = Some s'.
Proof. intros W Q ops s HW HQ Hr. apply x_no_deadlock; try assumption. eapply xinv_reachable; eauto. Qed.

Theorem C07_parfile_no_deadlock : forall W ops s,
  yreachable W ops s -> y_main s = MLoop -> exists l s', ystep s l = Some s'.
Proof. intros W ops s Hr. apply (y_no_deadlock W). eapply yinv_reachable; eauto. Qed.

(* (b) no spin: every execution from the initial state has at most
   xmeasure (xinit ops) steps, a number that depends on the workload only *)
Theorem C07_parblock_bounded : forall W Q ops ls s',
  xrun W Q (xinit ops) ls = Some s' -> (length ls <= xmeasure (xinit ops))%nat.
Proof. intros W Q ops ls s' H. pose proof (xbounded W Q ls _ _ H). lia. Qed.

Theorem C07_parfile_bounded : forall W ops ls s',
  yrun (yinit W ops) ls = Some s' -> (length ls <= ymeasure (yinit W ops))%nat.
Proof. intros W ops ls s' H. pose proof (ybounded W ls _ _ (yinv_init W ops) H). lia. Qed.

(* once main has exited nothing moves any more (the process is gone) *)
Theorem C07_exit_is_final : forall W Q s l ok, x_main s = MExit ok -> xstep W Q s l = None.
Proof. intros W Q s l ok H. unfold xstep. now rewrite H. Qed.

(* the fault-free protocol with per-file detail: no deadlock, exactly
   measure(init) steps, and at the end every handle is closed *)
Theorem C07_parblock_detail_no_deadlock : forall W Q ops s, (1 <= W)%nat -> (1 <= Q)%nat ->
  reachable W Q ops s -> final s = false -> exists l s', step W Q s l = Some s'.
Proof. intros W Q ops s HW HQ Hr. apply no_deadlock; try assumption. eapply inv_reachable; eauto. Qed.

Theorem C07_parblock_detail_steps : forall W Q ls s s',
  run_labels W Q s ls = Some s' -> (length ls + measure s' = measure s)%nat.
Proof. exact bounded_steps. Qed.

Theorem C07_parfile_detail_no_deadlock : forall W ops s, (1 <= W)%nat ->
  freachable W ops s -> ffinal s = false -> exists l s', fstep W s l = Some s'.
Proof. intros W ops s HW Hr. apply parfile_no_deadlock; [exact HW|]. eapply parfile_open_bound; eauto. Qed.

(* (c) the cursor loop issues at most len - w kernel requests for EVERY answer
   sequence (a zero-byte answer is an error since `fix: copy_bytes fails
   instead of spinning`), and a block job never runs out of fuel *)
Theorem C07_copy_bytes_bounded : forall fuel bs len w cur ans,
  (N.of_nat (length (o_trace (copy_bytes fuel bs len w cur ans))) <= len - w)%N.
Proof. exact copy_bytes_steps. Qed.

Theorem C07_copy_bytes_fuel : forall fuel bs len w cur ans,
  (length ans < fuel)%nat -> o_st (copy_bytes fuel bs len w cur ans) <> StOutOfFuel.
Proof. exact copy_bytes_fuel. Qed.

Theorem C07_block_job_fuel : forall fuel flen off bytes done ans,
  (length ans < fuel)%nat -> o_st (block_job fuel flen off bytes done ans) <> StOutOfFuel.
Proof. exact block_job_fuel. Qed.

(* the number of kernel requests of a block job is bounded by its block, whatever the kernel answers *)
Theorem C07_block_job_bounded : forall fuel flen off bytes done ans,
  (N.of_nat (length (o_trace (block_job fuel flen off bytes done ans))) <= (bytes - done) + 1)%N.
Proof. exact block_job_steps. Qed.

(* the sparse walk (parfile, sparse source) needs at most len - pos rounds for ANY answers of lseek / fstat / the
   copy calls — including those a source that shrinks while it is copied produces (repair 61ae7c3) ... *)
Theorem C07_copy_sparse_terminates : forall fuel bs len pos sd sh ans,
  (N.to_nat (len - pos) < fuel)%nat -> o_st (copy_sparse fuel bs len pos sd sh ans) <> StOutOfFuel.
Proof. exact copy_sparse_fuel. Qed.

(* ... which the walk as it was before that repair did not: it spins on the answers of a shrunken source *)
Theorem C07_copy_sparse_before_repair_refuted : exists bs len sd sh, forall fuel,
  o_st (copy_sparse_pinned fuel bs len 0 sd sh []) = StOutOfFuel.
Proof. exact copy_sparse_pinned_spins. Qed.

(* the user-space fallbacks: at most two calls per outstanding byte (a zero-byte read is an error, not a retry);
   EINTR retries of the cursor variant are std's and are not counted *)
Theorem C07_copy_range_uspace_bounded : forall fuel nbytes off w ans,
  (N.of_nat (length (u_trace (copy_range_uspace fuel nbytes off w ans))) <= 2 * (nbytes - w))%N.
Proof. exact copy_range_uspace_steps. Qed.

Theorem C07_copy_bytes_uspace_bounded : forall fuel nbytes rpos wpos w ans,
  uans_bounded (u_trace (copy_bytes_uspace fuel nbytes rpos wpos w ans)) ->
  (N.of_nat (length (effective (u_trace (copy_bytes_uspace fuel nbytes rpos wpos w ans)))) <= 2 * (nbytes - w))%N.
Proof. exact copy_bytes_uspace_steps. Qed.

(* ---- the loops above ARE the repository's: each is translated from the current source by xlate/ and proved equal
   to the model, so deleting a zero-progress arm or guard re-opens the obligation ---- *)
Theorem C07_src_copy_bytes_loop : forall fuel bs len cur ans,
  x_copy_bytes fuel len bs cur ans = copy_bytes fuel bs len 0 cur ans.
Proof. exact x_copy_bytes_ok. Qed.
Theorem C07_src_copy_sparse_loop : forall fuel sd sh flen bs ans,
  x_copy_sparse fuel sd sh flen bs ans = copy_sparse fuel bs flen 0 sd sh ans.
Proof. exact x_copy_sparse_ok. Qed.
Theorem C07_src_copy_range_uspace_loop : forall fuel nbytes off ans,
  x_copy_range_uspace fuel nbytes off ans = copy_range_uspace fuel nbytes off 0 ans.
Proof. exact x_copy_range_uspace_ok. Qed.
Theorem C07_src_copy_bytes_uspace_loop : forall fuel nbytes rpos wpos ans,
  x_copy_bytes_uspace fuel nbytes rpos wpos ans = copy_bytes_uspace fuel nbytes rpos wpos 0 ans.
Proof. exact x_copy_bytes_uspace_ok. Qed.

(* non-vacuity: a run in which the dispatcher fails on the second file while a
   job of the first is still queued, and a job fails: main still exits, with
   status 1 *)
Example C07_nonvacuous :
  exists s, xrun 2 1 (xinit [OCopy [0%nat; 1%nat]; OCopy [0%nat]; OInline])
    [XWalk; XWalk; XDisp; XDisp; XTake; XDisp; XDisp; XDispFail false; XWalk; XJobDone true; XTake; XJobDone false;
     XDrv; XMain] = Some s /\ x_main s = MExit false.
Proof. eexists. split; [vm_compute; reflexivity|reflexivity]. Qed.

(* ---- the glue functions this property's hand-written model mirrors are, token for token, the ones it was
   validated against (an edit re-opens the obligation; harness/repin.py re-pins after re-validation) ---- *)
Theorem C07_src_pin_feedback_new : pin_unchanged name_feedback_new.
Proof. exact pin_feedback_new. Qed.
Theorem C07_src_pin_parfile_copy : pin_unchanged name_parfile_copy.
Proof. exact pin_parfile_copy. Qed.
Theorem C07_src_pin_parblock_copy : pin_unchanged name_parblock_copy.
Proof. exact pin_parblock_copy. Qed.
Theorem C07_src_pin_main_main : pin_unchanged name_main_main.
Proof. exact pin_main_main. Qed.
(* parse_ignore only ever opens a REGULAR .gitignore (repair ed780e1: a FIFO of that name blocked the open forever) *)
Theorem C07_src_pin_paths_parse_ignore : pin_unchanged name_paths_parse_ignore.
Proof. exact pin_paths_parse_ignore. Qed.
(* the block-job closure (its zero-progress arms) *)
Theorem C07_src_pin_parblock_queue_file_range : pin_unchanged name_parblock_queue_file_range.
Proof. exact pin_parblock_queue_file_range. Qed.

Print Assumptions C07_parblock_no_deadlock.
Print Assumptions C07_parfile_no_deadlock.
Print Assumptions C07_parblock_bounded.
Print Assumptions C07_parfile_bounded.
Print Assumptions C07_exit_is_final.
Print Assumptions C07_parblock_detail_no_deadlock.
Print Assumptions C07_parblock_detail_steps.
Print Assumptions C07_parfile_detail_no_deadlock.
Print Assumptions C07_copy_bytes_bounded.
Print Assumptions C07_copy_bytes_fuel.
Print Assumptions C07_block_job_fuel.
Print Assumptions C07_src_pin_feedback_new.
Print Assumptions C07_src_pin_parfile_copy.
Print Assumptions C07_src_pin_parblock_copy.
Print Assumptions C07_src_pin_main_main.
Print Assumptions C07_block_job_bounded.
Print Assumptions C07_copy_sparse_terminates.
Print Assumptions C07_copy_sparse_before_repair_refuted.
Print Assumptions C07_copy_range_uspace_bounded.
Print Assumptions C07_copy_bytes_uspace_bounded.
Print Assumptions C07_src_copy_bytes_loop.
Print Assumptions C07_src_copy_sparse_loop.
Print Assumptions C07_src_copy_range_uspace_loop.
Print Assumptions C07_src_copy_bytes_uspace_loop.
Print Assumptions C07_src_pin_paths_parse_ignore.
Print Assumptions C07_src_pin_parblock_queue_file_range.

(* ---- further glue on this property's path, pinned token for token (an edit re-opens the obligation; the run then
   looks for a failing input) ---- *)
From XcpPins Require Import Pin_parfile_copy_worker Pin_parblock_dispatch_worker.
Theorem C07_src_pin_parfile_copy_worker : pin_unchanged name_parfile_copy_worker.
Proof. exact pin_parfile_copy_worker. Qed.
Theorem C07_src_pin_parblock_dispatch_worker : pin_unchanged name_parblock_dispatch_worker.
Proof. exact pin_parblock_dispatch_worker. Qed.
(* the worker count both drivers start with is >= 1 whatever -w says (0 = one per CPU; a machine has >= 1): the
   hypothesis `1 <= W` of the driver theorems, from the two translated definitions *)
Theorem C07_src_workers_at_least_one : forall w ncpus, (1 <= ncpus)%N -> (1 <= x_num_workers (x_config_workers w ncpus) ncpus)%N.
Proof. exact x_workers_at_least_one. Qed.
Print Assumptions C07_src_workers_at_least_one.
Print Assumptions C07_src_pin_parfile_copy_worker.
Print Assumptions C07_src_pin_parblock_dispatch_worker.

(* ---- Driver::copy, translated (the joins): the call returns Ok exactly when the walker and EVERY worker (parfile) /
   the walker and the dispatcher (parblock) returned Ok: no thread's error is dropped, whichever thread it is ---- *)
From XcpProofs Require Import XDrivers.
Theorem C07_src_parfile_copy_reports_every_thread : forall walk workers,
  x_parfile_copy_result walk workers = None <-> walk = None /\ List.Forall (fun r => r = None) workers.
Proof. exact x_parfile_copy_ok_iff. Qed.
Theorem C07_src_parblock_copy_reports_every_thread : forall walk disp,
  x_parblock_copy_result walk disp = None <-> walk = None /\ disp = None.
Proof. exact x_parblock_copy_ok_iff. Qed.
Print Assumptions C07_src_parfile_copy_reports_every_thread.
Print Assumptions C07_src_parblock_copy_reports_every_thread.

(* ---- main(), translated (the update loop and the join): an Error update anywhere in the stream makes the exit status
   non-zero whatever the driver thread returns — the only report of a failed block job of parblock ---- *)
Theorem C07_src_error_update_reaches_exit : forall s1 e s2 handle,
  x_main_collect (s1 ++ XuError e :: s2) handle <> None.
Proof. exact x_error_update_reaches_exit. Qed.
Theorem C07_src_exit_status : forall stats handle,
  x_main_collect stats handle = None <-> has_error stats = false /\ handle = None.
Proof. exact x_main_collect_ok_iff. Qed.
Print Assumptions C07_src_error_update_reaches_exit.
Print Assumptions C07_src_exit_status.

(* ---- the XMain and XDrv steps of the protocol model (ConcFault.v) compute what the translated main() and
   Driver::copy compute: the model's exit status IS the code's ---- *)
Theorem C07_src_model_main_step_is_translated_main : forall (errs : nat) (r : bool) stats handle,
  has_error stats = Nat.ltb 0 errs -> (handle = None <-> r = true) ->
  (x_main_collect stats handle = None <-> (if Nat.ltb 0 errs then false else r) = true).
Proof. exact model_main_step_is_translated_main. Qed.
Theorem C07_src_model_driver_step_is_translated_copy : forall (walk_ok : bool) (workers_ok : list bool) walk workers,
  (walk = None <-> walk_ok = true) -> List.Forall2 (fun r b => r = None <-> b = true) workers workers_ok ->
  (x_parfile_copy_result walk workers = None <-> walk_ok && List.forallb (fun b => b) workers_ok = true).
Proof. exact model_driver_step_is_translated_copy. Qed.
Print Assumptions C07_src_model_main_step_is_translated_main.
Print Assumptions C07_src_model_driver_step_is_translated_copy.

(* ---- what xcp does with what it finds at the mapped destination (DestMatrix.v; every cell compared with the binary
   on every run) ---- *)
From XcpModel Require Import DestMatrix.
From XcpProofs Require Import DestMatrixProofs.
Theorem C07_only_a_fifo_at_the_destination_can_make_it_wait : forall s d o,
  dest_outcome s d o = Blocks -> s = SFile /\ d = DSpecial /\ o = ONone.
Proof. exact blocks_only_file_onto_fifo. Qed.
Print Assumptions C07_only_a_fifo_at_the_destination_can_make_it_wait.

(* ---- every function on the path of a copy that contains a LOOP or a retry, or decides whether one is entered (the per-file
   constructors, the block queueing, the backup-name search over a directory), pinned token for token as validated: a new
   loop, retry or probe in any of them re-opens this obligation, and the run then looks for an input on which it does not end ---- *)
From XcpPins Require Import Pin_parblock_queue_file_blocks Pin_backup_get_backup_path Pin_backup_next_backup_num Pin_backup_ls_file_dir Pin_backup_has_backup Pin_backup_needs_backup Pin_operations_new Pin_operations_copy_file Pin_operations_tree_walker.
Theorem C07_src_pin_parblock_queue_file_blocks : pin_unchanged name_parblock_queue_file_blocks.
Proof. exact pin_parblock_queue_file_blocks. Qed.
Theorem C07_src_pin_backup_get_backup_path : pin_unchanged name_backup_get_backup_path.
Proof. exact pin_backup_get_backup_path. Qed.
Theorem C07_src_pin_backup_next_backup_num : pin_unchanged name_backup_next_backup_num.
Proof. exact pin_backup_next_backup_num. Qed.
Theorem C07_src_pin_backup_ls_file_dir : pin_unchanged name_backup_ls_file_dir.
Proof. exact pin_backup_ls_file_dir. Qed.
Theorem C07_src_pin_backup_has_backup : pin_unchanged name_backup_has_backup.
Proof. exact pin_backup_has_backup. Qed.
Theorem C07_src_pin_backup_needs_backup : pin_unchanged name_backup_needs_backup.
Proof. exact pin_backup_needs_backup. Qed.
Theorem C07_src_pin_operations_new : pin_unchanged name_operations_new.
Proof. exact pin_operations_new. Qed.
Theorem C07_src_pin_operations_copy_file : pin_unchanged name_operations_copy_file.
Proof. exact pin_operations_copy_file. Qed.
Theorem C07_src_pin_operations_tree_walker : pin_unchanged name_operations_tree_walker.
Proof. exact pin_operations_tree_walker. Qed.
Print Assumptions C07_src_pin_parblock_queue_file_blocks.
Print Assumptions C07_src_pin_backup_get_backup_path.
Print Assumptions C07_src_pin_backup_next_backup_num.
Print Assumptions C07_src_pin_backup_ls_file_dir.
Print Assumptions C07_src_pin_backup_has_backup.
Print Assumptions C07_src_pin_backup_needs_backup.
Print Assumptions C07_src_pin_operations_new.
Print Assumptions C07_src_pin_operations_copy_file.
Print Assumptions C07_src_pin_operations_tree_walker.

(* ---- further functions on this property's path, pinned token for token as validated (dependency review after rounds 5 and 6:
   each missed change had edited a pinned function that this property did not cite) ---- *)
From XcpPins Require Import Pin_backup_is_num_backup Pin_common_allocate_file Pin_common_copy_owner Pin_common_copy_permissions Pin_common_copy_timestamps Pin_common_copy_xattr Pin_common_is_same_file Pin_common_sync Pin_feedback_send Pin_linux_copy_file_bytes Pin_linux_copy_file_offset Pin_linux_copy_node Pin_linux_lseek Pin_linux_reflink Pin_linux_try_copy_file_range Pin_main_expand_globs Pin_main_expand_sources Pin_main_opts_check Pin_mod_load_driver Pin_operations_drop Pin_operations_finalise_copy Pin_parblock_new Pin_parfile_new Pin_paths_ignore_filter.
Theorem C07_src_pin_backup_is_num_backup : pin_unchanged name_backup_is_num_backup.
Proof. exact pin_backup_is_num_backup. Qed.
Theorem C07_src_pin_common_allocate_file : pin_unchanged name_common_allocate_file.
Proof. exact pin_common_allocate_file. Qed.
Theorem C07_src_pin_common_copy_owner : pin_unchanged name_common_copy_owner.
Proof. exact pin_common_copy_owner. Qed.
Theorem C07_src_pin_common_copy_permissions : pin_unchanged name_common_copy_permissions.
Proof. exact pin_common_copy_permissions. Qed.
Theorem C07_src_pin_common_copy_timestamps : pin_unchanged name_common_copy_timestamps.
Proof. exact pin_common_copy_timestamps. Qed.
Theorem C07_src_pin_common_copy_xattr : pin_unchanged name_common_copy_xattr.
Proof. exact pin_common_copy_xattr. Qed.
Theorem C07_src_pin_common_is_same_file : pin_unchanged name_common_is_same_file.
Proof. exact pin_common_is_same_file. Qed.
Theorem C07_src_pin_common_sync : pin_unchanged name_common_sync.
Proof. exact pin_common_sync. Qed.
Theorem C07_src_pin_feedback_send : pin_unchanged name_feedback_send.
Proof. exact pin_feedback_send. Qed.
Theorem C07_src_pin_linux_copy_file_bytes : pin_unchanged name_linux_copy_file_bytes.
Proof. exact pin_linux_copy_file_bytes. Qed.
Theorem C07_src_pin_linux_copy_file_offset : pin_unchanged name_linux_copy_file_offset.
Proof. exact pin_linux_copy_file_offset. Qed.
Theorem C07_src_pin_linux_copy_node : pin_unchanged name_linux_copy_node.
Proof. exact pin_linux_copy_node. Qed.
Theorem C07_src_pin_linux_lseek : pin_unchanged name_linux_lseek.
Proof. exact pin_linux_lseek. Qed.
Theorem C07_src_pin_linux_reflink : pin_unchanged name_linux_reflink.
Proof. exact pin_linux_reflink. Qed.
Theorem C07_src_pin_linux_try_copy_file_range : pin_unchanged name_linux_try_copy_file_range.
Proof. exact pin_linux_try_copy_file_range. Qed.
Theorem C07_src_pin_main_expand_globs : pin_unchanged name_main_expand_globs.
Proof. exact pin_main_expand_globs. Qed.
Theorem C07_src_pin_main_expand_sources : pin_unchanged name_main_expand_sources.
Proof. exact pin_main_expand_sources. Qed.
Theorem C07_src_pin_main_opts_check : pin_unchanged name_main_opts_check.
Proof. exact pin_main_opts_check. Qed.
Theorem C07_src_pin_mod_load_driver : pin_unchanged name_mod_load_driver.
Proof. exact pin_mod_load_driver. Qed.
Theorem C07_src_pin_operations_drop : pin_unchanged name_operations_drop.
Proof. exact pin_operations_drop. Qed.
Theorem C07_src_pin_operations_finalise_copy : pin_unchanged name_operations_finalise_copy.
Proof. exact pin_operations_finalise_copy. Qed.
Theorem C07_src_pin_parblock_new : pin_unchanged name_parblock_new.
Proof. exact pin_parblock_new. Qed.
Theorem C07_src_pin_parfile_new : pin_unchanged name_parfile_new.
Proof. exact pin_parfile_new. Qed.
Theorem C07_src_pin_paths_ignore_filter : pin_unchanged name_paths_ignore_filter.
Proof. exact pin_paths_ignore_filter. Qed.
Print Assumptions C07_src_pin_backup_is_num_backup.
Print Assumptions C07_src_pin_common_allocate_file.
Print Assumptions C07_src_pin_common_copy_owner.
Print Assumptions C07_src_pin_common_copy_permissions.
Print Assumptions C07_src_pin_common_copy_timestamps.
Print Assumptions C07_src_pin_common_copy_xattr.
Print Assumptions C07_src_pin_common_is_same_file.
Print Assumptions C07_src_pin_common_sync.
Print Assumptions C07_src_pin_feedback_send.
Print Assumptions C07_src_pin_linux_copy_file_bytes.
Print Assumptions C07_src_pin_linux_copy_file_offset.
Print Assumptions C07_src_pin_linux_copy_node.
Print Assumptions C07_src_pin_linux_lseek.
Print Assumptions C07_src_pin_linux_reflink.
Print Assumptions C07_src_pin_linux_try_copy_file_range.
Print Assumptions C07_src_pin_main_expand_globs.
Print Assumptions C07_src_pin_main_expand_sources.
Print Assumptions C07_src_pin_main_opts_check.
Print Assumptions C07_src_pin_mod_load_driver.
Print Assumptions C07_src_pin_operations_drop.
Print Assumptions C07_src_pin_operations_finalise_copy.
Print Assumptions C07_src_pin_parblock_new.
Print Assumptions C07_src_pin_parfile_new.
Print Assumptions C07_src_pin_paths_ignore_filter.
