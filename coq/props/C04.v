(* C04 — no silent failure.  The model of error propagation per operation:
   every action of CopyHandle::new and of the copy propagates with `?`; the
   finalisation runs in Drop.  Stated at full strength the property is false on
   this tree in ONE class (recorded in known_findings.jsonl, F-04): a failing
   fchmod / futimens / fsync of the finalisation is logged but does not change
   the exit status.  A second recorded class (F-04b) is outside this per-
   operation model: a failed stat inside Path::exists()/is_dir() probes reads
   as `absent`. *)
From XcpModel Require Import Base Backup Walker Meta Ops.
From XcpProofs Require Import OpsProofs.

(* a failing step outside the known class is always reported (error exit);
   xattr and ownership failures are the documented tolerated warnings *)
Theorem C04_fault_sound : forall l i a,
  nth_error l i = Some a -> known_class_04 a = false ->
  match a with ASetxattr _ | AChown _ => True | _ => snd (with_fault l i) = false end.
Proof. exact fault_outside_known_class_is_reported. Qed.

(* equivalently: exit status 0 after a fault means the failing action was a
   tolerated one or lies in the known class *)
Theorem C04_exit_ok_classified : forall l i,
  snd (with_fault l i) = true ->
  nth_error l i = None \/
  exists a, nth_error l i = Some a /\ (fault_effect_of a = FxTolerated \/ known_class_04 a = true).
Proof. exact fault_exit_ok_classified. Qed.

(* a tolerated failure does not skip the permission / timestamp / fsync steps *)
Theorem C04_tolerated_fault_continues : forall l i a b,
  nth_error l i = Some a -> fault_effect_of a = FxTolerated ->
  In b (skipn (S i) l) -> (match b with ASetxattr _ => False | _ => True end) ->
  In b (fst (with_fault l i)).
Proof. exact tolerated_fault_continues. Qed.

(* the known class is genuinely violated (witness replayed on the real binary
   with an injected EIO on fsync: exit 0) *)
Check fault_in_finalisation_refuted.

Print Assumptions C04_fault_sound.
Print Assumptions C04_exit_ok_classified.
Print Assumptions C04_tolerated_fault_continues.
