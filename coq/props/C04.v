(* C04 — no silent failure.  The model of error propagation per operation:
   every action of CopyHandle::new and of the copy propagates with `?`; the
   finalisation runs in Drop.  Stated at full strength the property is false on
   this tree in ONE class (recorded in known_findings.jsonl, F-04): a failing
   fchmod / futimens / fsync of the finalisation is logged but does not change
   the exit status.  A second recorded class (F-04b) is outside this per-
   operation model: a failed stat inside Path::exists()/is_dir() probes reads
   as `absent`. *)
From XcpModel Require Import Base Backup Walker Meta Ops.
From XcpProofs Require Import OpsProofs.
From XcpModel Require Import ConcBlock ConcFault.
From XcpProofs Require Import ConcFaultProofs.
From XcpModel Require Import Extracted.
From XcpProofs Require Import PinnedSource.
From XcpPins Require Import Pin_parfile_copy Pin_parblock_copy Pin_common_allocate_file Pin_parfile_copy_worker Pin_parblock_dispatch_worker Pin_main_main.

(* a failing step outside the known class is always reported (error exit);
   xattr and ownership failures are the documented tolerated warnings *)
Theorem C04_fault_sound : forall l i a,
  nth_error l i = Some a -> known_class_04 a = false ->
  match a with ASetxattr _ | AChown _ => True | _ => snd (with_fault l i) = false end.
Proof. exact fault_outside_known_class_is_reported. Qed.

(* equivalently: exit status 0 after a fault means the failing action was a
   tolerated one or lies in the known class *)
Theorem C04_exit_ok_classified : forall l i,
  snd (with_fault l i) = true ->
  nth_error l i = None \/
  exists a, nth_error l i = Some a /\ (fault_effect_of a = FxTolerated \/ known_class_04 a = true).
Proof. exact fault_exit_ok_classified. Qed.

(* a tolerated failure does not skip the permission / timestamp / fsync steps *)
Theorem C04_tolerated_fault_continues : forall l i a b,
  nth_error l i = Some a -> fault_effect_of a = FxTolerated ->
  In b (skipn (S i) l) -> (match b with ASetxattr _ => False | _ => True end) ->
  In b (fst (with_fault l i)).
Proof. exact tolerated_fault_continues. Qed.

(* at the level of the whole run (ConcFault.v: every thread of both drivers, failures as labels): for
   EVERY interleaving and every number and placement of failing steps — in the walker, the dispatcher, an
   operation taken by a worker, a block job — the process exits with status 0 only if NO step failed, and
   then all the work has been done: nothing is left unwalked, queued or running.  (A failure is visible
   to main either as an Error update, which it acts on before it can see the channel close, or through
   the Err that the driver thread returns from its joins.) *)
Theorem C04_parblock_exit0_means_no_failure_and_complete : forall W Q ops s,
  xreachable W Q ops s -> x_main s = MExit true ->
  x_failed s = false /\ x_todo s = [] /\ x_fq s = [] /\ x_pq s = 0%nat /\ x_run s = 0%nat /\ x_disp s = XDone.
Proof. exact x_exit_ok_sound. Qed.

Theorem C04_parfile_exit0_means_no_failure_and_complete : forall W ops s,
  yreachable W ops s -> y_main s = MExit true ->
  y_failed s = false /\ y_todo s = [] /\ y_busy s = [] /\ ((1 <= W)%nat -> y_fq s = []).
Proof. exact y_exit_ok_sound. Qed.

(* the known class is genuinely violated (witness replayed on the real binary
   with an injected EIO on fsync: exit 0) *)
Check fault_in_finalisation_refuted.

(* ---- the glue functions this property's hand-written model mirrors are, token for token, the ones it was
   validated against (an edit re-opens the obligation; harness/repin.py re-pins after re-validation) ---- *)
Theorem C04_src_pin_parfile_copy : pin_unchanged name_parfile_copy.
Proof. exact pin_parfile_copy. Qed.
Theorem C04_src_pin_parblock_copy : pin_unchanged name_parblock_copy.
Proof. exact pin_parblock_copy. Qed.
Theorem C04_src_pin_common_allocate_file : pin_unchanged name_common_allocate_file.
Proof. exact pin_common_allocate_file. Qed.
Theorem C04_src_pin_parfile_copy_worker : pin_unchanged name_parfile_copy_worker.
Proof. exact pin_parfile_copy_worker. Qed.
Theorem C04_src_pin_parblock_dispatch_worker : pin_unchanged name_parblock_dispatch_worker.
Proof. exact pin_parblock_dispatch_worker. Qed.
Theorem C04_src_pin_main_main : pin_unchanged name_main_main.
Proof. exact pin_main_main. Qed.

Print Assumptions C04_fault_sound.
Print Assumptions C04_exit_ok_classified.
Print Assumptions C04_tolerated_fault_continues.
Print Assumptions C04_parblock_exit0_means_no_failure_and_complete.
Print Assumptions C04_parfile_exit0_means_no_failure_and_complete.
Print Assumptions C04_src_pin_parfile_copy.
Print Assumptions C04_src_pin_parblock_copy.
Print Assumptions C04_src_pin_common_allocate_file.
Print Assumptions C04_src_pin_parfile_copy_worker.
Print Assumptions C04_src_pin_parblock_dispatch_worker.
Print Assumptions C04_src_pin_main_main.

(* ---- further glue on this property's path, pinned token for token (an edit re-opens the obligation; the run then
   looks for a failing input) ---- *)
From XcpPins Require Import Pin_mod_load_driver Pin_parblock_new Pin_parfile_new.
Theorem C04_src_pin_mod_load_driver : pin_unchanged name_mod_load_driver.
Proof. exact pin_mod_load_driver. Qed.
Theorem C04_src_pin_parblock_new : pin_unchanged name_parblock_new.
Proof. exact pin_parblock_new. Qed.
Theorem C04_src_pin_parfile_new : pin_unchanged name_parfile_new.
Proof. exact pin_parfile_new. Qed.
Print Assumptions C04_src_pin_mod_load_driver.
Print Assumptions C04_src_pin_parblock_new.
Print Assumptions C04_src_pin_parfile_new.

(* ---- Driver::copy, translated (the joins): the call returns Ok exactly when the walker and EVERY worker (parfile) /
   the walker and the dispatcher (parblock) returned Ok: no thread's error is dropped, whichever thread it is ---- *)
From XcpProofs Require Import XDrivers.
Theorem C04_src_parfile_copy_reports_every_thread : forall walk workers,
  x_parfile_copy_result walk workers = None <-> walk = None /\ List.Forall (fun r => r = None) workers.
Proof. exact x_parfile_copy_ok_iff. Qed.
Theorem C04_src_parblock_copy_reports_every_thread : forall walk disp,
  x_parblock_copy_result walk disp = None <-> walk = None /\ disp = None.
Proof. exact x_parblock_copy_ok_iff. Qed.
Print Assumptions C04_src_parfile_copy_reports_every_thread.
Print Assumptions C04_src_parblock_copy_reports_every_thread.

(* ---- the worker loops, translated: every kind of operation returns its failure from the worker (Copy and Link also send
   an Error update; a special file's only report is the worker's result), and nothing else happens on a failure path ---- *)
Theorem C04_src_every_failure_is_returned :
  forall routes, List.In routes [x_parfile_error_routes; x_parblock_error_routes] ->
  List.map fst routes = [0; 1; 2]%N /\ forall k r, List.In (k, r) routes -> List.In 2%N r /\ ~ List.In 99%N r.
Proof. exact x_every_failure_is_returned. Qed.
Print Assumptions C04_src_every_failure_is_returned.
(* ---- main(), translated (the update loop and the join): an Error update anywhere in the stream makes the exit status
   non-zero whatever the driver thread returns — the only report of a failed block job of parblock ---- *)
Theorem C04_src_error_update_reaches_exit : forall s1 e s2 handle,
  x_main_collect (s1 ++ XuError e :: s2) handle <> None.
Proof. exact x_error_update_reaches_exit. Qed.
Theorem C04_src_exit_status : forall stats handle,
  x_main_collect stats handle = None <-> has_error stats = false /\ handle = None.
Proof. exact x_main_collect_ok_iff. Qed.
Print Assumptions C04_src_error_update_reaches_exit.
Print Assumptions C04_src_exit_status.
(* ---- end to end, from the translated pieces: a worker that returned an error — first, last or in between — makes
   the process exit status non-zero, whatever the updates ---- *)
Theorem C04_src_parfile_worker_error_reaches_exit : forall stats walk ws1 e ws2,
  x_main_collect stats (x_parfile_copy_result walk (ws1 ++ Some e :: ws2)) <> None.
Proof. exact x_parfile_worker_error_reaches_exit. Qed.
Print Assumptions C04_src_parfile_worker_error_reaches_exit.

(* ---- the block job of parblock, translated: a failing kernel copy and a premature end of the source each send an Error
   update (the job's only report), which the translated main() turns into a non-zero exit status ---- *)
From Coq Require Import String.
Theorem C04_src_block_job_reports_failure :
  x_block_job_arms = [("Ok(0)ifoff+done>=harc.metadata.len()", 0); ("Ok(0)", 1); ("Ok(copied)", 2); ("Err(e)", 1)]%string%N.
Proof. exact x_block_job_arms_ok. Qed.
Print Assumptions C04_src_block_job_reports_failure.

(* ---- a block job that PANICS reports nothing (the pool respawns its thread, the dispatcher returns Ok): the user-space
   fall-back, the one place of the data path that slices a buffer, never slices out of range — the buffer the translated
   function allocates holds every read the translated loop issues, for every block size and every kernel answer ---- *)
From XcpModel Require Import CopyLoop Uspace.
From XcpProofs Require Import UspaceProofs XLoops.
Theorem C04_src_fallback_buffer_holds_every_read : forall fuel nbytes off ans,
  reads_fit (x_copy_range_uspace_buf_len nbytes off) (u_trace (x_copy_range_uspace fuel nbytes off ans)).
Proof. exact x_range_buffer_holds_every_read. Qed.
Theorem C04_src_fallback_stream_buffer_holds_every_read : forall fuel nbytes rpos wpos ans,
  reads_fit (x_copy_bytes_uspace_buf_len nbytes) (u_trace (x_copy_bytes_uspace fuel nbytes rpos wpos ans)).
Proof. exact x_bytes_buffer_holds_every_read. Qed.
Example C04_fallback_reads_nonvacuous :
  u_trace (x_copy_range_uspace 5 300000 0 [XOk 200000; XOk 200000; XOk 100000; XOk 100000]) =
    [(URead 0 300000, XOk 200000); (UWrite 0 0 200000, XOk 200000); (URead 200000 100000, XOk 100000); (UWrite 200000 200000 100000, XOk 100000)]%N.
Proof. vm_compute. reflexivity. Qed.
Theorem C04_src_fallback_buffer_holds_every_write : forall fuel nbytes off ans,
  uans_bounded (u_trace (x_copy_range_uspace fuel nbytes off ans)) ->
  writes_fit (x_copy_range_uspace_buf_len nbytes off) (u_trace (x_copy_range_uspace fuel nbytes off ans)).
Proof. exact x_range_buffer_holds_every_write. Qed.
(* the inventory of panic sites in everything a pool job runs is closed: the job's own panic! under a failed send, and the
   two slices just shown to be in range *)
Theorem C04_src_pool_job_panic_sites :
  x_pool_job_panic_sites = [("parblock::queue_file_range(job)", "panic! under letErr(e)=stat_result");
                            ("common::copy_range_uspace", "buf[..next]"); ("common::copy_range_uspace", "buf[..rlen]")]%string.
Proof. exact x_pool_job_panic_sites_ok. Qed.
Print Assumptions C04_src_fallback_buffer_holds_every_write.
Print Assumptions C04_src_pool_job_panic_sites.
Print Assumptions C04_src_fallback_buffer_holds_every_read.
Print Assumptions C04_src_fallback_stream_buffer_holds_every_read.

(* ---- more glue on this property's path, pinned token for token ---- *)
From XcpPins Require Import Pin_main_expand_globs Pin_main_expand_sources Pin_operations_tree_walker Pin_operations_new.
Theorem C04_src_pin_main_expand_globs : pin_unchanged name_main_expand_globs.
Proof. exact pin_main_expand_globs. Qed.
Theorem C04_src_pin_main_expand_sources : pin_unchanged name_main_expand_sources.
Proof. exact pin_main_expand_sources. Qed.
Theorem C04_src_pin_operations_tree_walker : pin_unchanged name_operations_tree_walker.
Proof. exact pin_operations_tree_walker. Qed.
Theorem C04_src_pin_operations_new : pin_unchanged name_operations_new.
Proof. exact pin_operations_new. Qed.
Print Assumptions C04_src_pin_main_expand_globs.
Print Assumptions C04_src_pin_main_expand_sources.
Print Assumptions C04_src_pin_operations_tree_walker.
Print Assumptions C04_src_pin_operations_new.

(* ---- further functions on this property's path, pinned token for token as validated (dependency review after rounds 5 and 6:
   each missed change had edited a pinned function that this property did not cite) ---- *)
From XcpPins Require Import Pin_backup_get_backup_path Pin_backup_has_backup Pin_backup_is_num_backup Pin_backup_ls_file_dir Pin_backup_needs_backup Pin_backup_next_backup_num Pin_common_copy_owner Pin_common_copy_permissions Pin_common_copy_timestamps Pin_common_copy_xattr Pin_common_is_same_file Pin_common_sync Pin_feedback_new Pin_feedback_send Pin_linux_copy_file_bytes Pin_linux_copy_file_offset Pin_linux_copy_node Pin_linux_lseek Pin_linux_reflink Pin_linux_try_copy_file_range Pin_main_opts_check Pin_operations_copy_file Pin_operations_drop Pin_operations_finalise_copy Pin_parblock_queue_file_blocks Pin_parblock_queue_file_range Pin_paths_ignore_filter Pin_paths_parse_ignore.
Theorem C04_src_pin_backup_get_backup_path : pin_unchanged name_backup_get_backup_path.
Proof. exact pin_backup_get_backup_path. Qed.
Theorem C04_src_pin_backup_has_backup : pin_unchanged name_backup_has_backup.
Proof. exact pin_backup_has_backup. Qed.
Theorem C04_src_pin_backup_is_num_backup : pin_unchanged name_backup_is_num_backup.
Proof. exact pin_backup_is_num_backup. Qed.
Theorem C04_src_pin_backup_ls_file_dir : pin_unchanged name_backup_ls_file_dir.
Proof. exact pin_backup_ls_file_dir. Qed.
Theorem C04_src_pin_backup_needs_backup : pin_unchanged name_backup_needs_backup.
Proof. exact pin_backup_needs_backup. Qed.
Theorem C04_src_pin_backup_next_backup_num : pin_unchanged name_backup_next_backup_num.
Proof. exact pin_backup_next_backup_num. Qed.
Theorem C04_src_pin_common_copy_owner : pin_unchanged name_common_copy_owner.
Proof. exact pin_common_copy_owner. Qed.
Theorem C04_src_pin_common_copy_permissions : pin_unchanged name_common_copy_permissions.
Proof. exact pin_common_copy_permissions. Qed.
Theorem C04_src_pin_common_copy_timestamps : pin_unchanged name_common_copy_timestamps.
Proof. exact pin_common_copy_timestamps. Qed.
Theorem C04_src_pin_common_copy_xattr : pin_unchanged name_common_copy_xattr.
Proof. exact pin_common_copy_xattr. Qed.
Theorem C04_src_pin_common_is_same_file : pin_unchanged name_common_is_same_file.
Proof. exact pin_common_is_same_file. Qed.
Theorem C04_src_pin_common_sync : pin_unchanged name_common_sync.
Proof. exact pin_common_sync. Qed.
Theorem C04_src_pin_feedback_new : pin_unchanged name_feedback_new.
Proof. exact pin_feedback_new. Qed.
Theorem C04_src_pin_feedback_send : pin_unchanged name_feedback_send.
Proof. exact pin_feedback_send. Qed.
Theorem C04_src_pin_linux_copy_file_bytes : pin_unchanged name_linux_copy_file_bytes.
Proof. exact pin_linux_copy_file_bytes. Qed.
Theorem C04_src_pin_linux_copy_file_offset : pin_unchanged name_linux_copy_file_offset.
Proof. exact pin_linux_copy_file_offset. Qed.
Theorem C04_src_pin_linux_copy_node : pin_unchanged name_linux_copy_node.
Proof. exact pin_linux_copy_node. Qed.
Theorem C04_src_pin_linux_lseek : pin_unchanged name_linux_lseek.
Proof. exact pin_linux_lseek. Qed.
Theorem C04_src_pin_linux_reflink : pin_unchanged name_linux_reflink.
Proof. exact pin_linux_reflink. Qed.
Theorem C04_src_pin_linux_try_copy_file_range : pin_unchanged name_linux_try_copy_file_range.
Proof. exact pin_linux_try_copy_file_range. Qed.
Theorem C04_src_pin_main_opts_check : pin_unchanged name_main_opts_check.
Proof. exact pin_main_opts_check. Qed.
Theorem C04_src_pin_operations_copy_file : pin_unchanged name_operations_copy_file.
Proof. exact pin_operations_copy_file. Qed.
Theorem C04_src_pin_operations_drop : pin_unchanged name_operations_drop.
Proof. exact pin_operations_drop. Qed.
Theorem C04_src_pin_operations_finalise_copy : pin_unchanged name_operations_finalise_copy.
Proof. exact pin_operations_finalise_copy. Qed.
Theorem C04_src_pin_parblock_queue_file_blocks : pin_unchanged name_parblock_queue_file_blocks.
Proof. exact pin_parblock_queue_file_blocks. Qed.
Theorem C04_src_pin_parblock_queue_file_range : pin_unchanged name_parblock_queue_file_range.
Proof. exact pin_parblock_queue_file_range. Qed.
Theorem C04_src_pin_paths_ignore_filter : pin_unchanged name_paths_ignore_filter.
Proof. exact pin_paths_ignore_filter. Qed.
Theorem C04_src_pin_paths_parse_ignore : pin_unchanged name_paths_parse_ignore.
Proof. exact pin_paths_parse_ignore. Qed.
Print Assumptions C04_src_pin_backup_get_backup_path.
Print Assumptions C04_src_pin_backup_has_backup.
Print Assumptions C04_src_pin_backup_is_num_backup.
Print Assumptions C04_src_pin_backup_ls_file_dir.
Print Assumptions C04_src_pin_backup_needs_backup.
Print Assumptions C04_src_pin_backup_next_backup_num.
Print Assumptions C04_src_pin_common_copy_owner.
Print Assumptions C04_src_pin_common_copy_permissions.
Print Assumptions C04_src_pin_common_copy_timestamps.
Print Assumptions C04_src_pin_common_copy_xattr.
Print Assumptions C04_src_pin_common_is_same_file.
Print Assumptions C04_src_pin_common_sync.
Print Assumptions C04_src_pin_feedback_new.
Print Assumptions C04_src_pin_feedback_send.
Print Assumptions C04_src_pin_linux_copy_file_bytes.
Print Assumptions C04_src_pin_linux_copy_file_offset.
Print Assumptions C04_src_pin_linux_copy_node.
Print Assumptions C04_src_pin_linux_lseek.
Print Assumptions C04_src_pin_linux_reflink.
Print Assumptions C04_src_pin_linux_try_copy_file_range.
Print Assumptions C04_src_pin_main_opts_check.
Print Assumptions C04_src_pin_operations_copy_file.
Print Assumptions C04_src_pin_operations_drop.
Print Assumptions C04_src_pin_operations_finalise_copy.
Print Assumptions C04_src_pin_parblock_queue_file_blocks.
Print Assumptions C04_src_pin_parblock_queue_file_range.
Print Assumptions C04_src_pin_paths_ignore_filter.
Print Assumptions C04_src_pin_paths_parse_ignore.
