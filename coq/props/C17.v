(* C17 — --gitignore copies exactly the entries the root .gitignore does not
   exclude.  The walker theorem holds for EVERY matcher `keep` (the `ignore`
   crate's verdicts enter as a parameter): per-entry matching plus pruning at
   ignored directories implements "an excluded directory excludes everything
   beneath it, and nothing beneath it can be re-included".  That the crate's
   verdicts equal git's pattern semantics is validated differentially against
   `git check-ignore`, not proved. *)
From XcpModel Require Import Base Backup Paths Walker.
From XcpProofs Require Import WalkerProofs.
From XcpModel Require Import Extracted.
From XcpProofs Require Import XConfig.
From Coq Require Import String.
From XcpProofs Require Import PinnedSource.
From XcpPins Require Import Pin_paths_parse_ignore Pin_paths_ignore_filter.

(* the walk = process the selected entries, in order, until the first failure *)
Theorem C17_walk_is_process_of_selected : forall cfg keep dex t r,
  walk cfg keep dex r t = process cfg dex (sel_entries keep (w_deref cfg) r t).
Proof. intros. apply walk_process. Qed.

(* selected = the entries none of whose ancestors-or-self (from the source root
   down) is ignored; order preserved *)
Theorem C17_pruned_walk_spec : forall keep deref t r,
  sel_entries keep deref r t = filter (kept_from keep r) (entries deref r t).
Proof. intros. apply sel_entries_filter. Qed.

(* in particular, from the source root: entry at path s (is_dir d) is copied iff
   keep accepts every proper ancestor (as a directory) and the entry itself *)
Theorem C17_selected_iff_no_ignored_ancestor : forall keep deref t q k d,
  In (q, k, d) (sel_entries keep deref [] t) <->
  In (q, k, d) (entries deref [] t) /\ kept_suffix keep [] q d = true.
Proof.
  intros. rewrite sel_entries_filter, filter_In. unfold kept_from. cbn [length skipn]. reflexivity.
Qed.

(* without the option nothing is filtered *)
Theorem C17_no_flag_no_filter : forall deref t r,
  sel_entries (fun _ _ => true) deref r t = entries deref r t.
Proof.
  intros. rewrite sel_entries_filter.
  assert (forall l, filter (kept_from (fun _ _ => true) r) l = l) as H.
  { induction l as [|[[q k] d] l IH]; [reflexivity|]. cbn [filter]. rewrite IH.
    assert (forall s r0, kept_suffix (fun _ _ => true) r0 s d = true) as K
        by (induction s; intros; cbn; auto).
    unfold kept_from. now rewrite K. }
  apply H.
Qed.

(* the source root itself is never filtered: whatever the matcher says about
   the root's own name, the root entry is selected (so a source whose name
   matches one of its own patterns is still copied) *)
Theorem C17_root_never_filtered : forall keep deref t,
  exists k d rest, sel_entries (root_kept keep) deref [] t = ([], k, d) :: rest.
Proof.
  intros keep deref t. destruct t as [len|cs|txt res|ft|ft]; cbn [sel_entries root_kept negb tree_is_dir]; eauto.
  destruct deref; [|eauto]. destruct res as [| |[len|cs|txt' res'|ft|ft]]; eauto.
Qed.

Example C17_nonvacuous :
  let t := TDir [([97], TFile 3); ([98], TDir [([99], TFile 5); ([100], TFile 7)]); ([101], TFile 9)] in
  (* ignore directory b: c and d vanish with it even though the matcher would accept d *)
  let keep := fun (q : rel) (_ : bool) => negb (rel_eqb q [[98]]) in
  map (fun e => fst (fst e)) (sel_entries keep false [] t) = [[]; [[97]]; [[101]]].
Proof. vm_compute. reflexivity. Qed.

(* the `is_dir` flag the filter hands to the matcher is the type of the entry AS WALKED: without --dereference a symbolic link
   is never a directory for it, whatever it designates (git: a pattern `name/` matches a directory, never a symbolic link);
   with --dereference a link that resolves to a directory is walked, and filtered, as that directory (defect e0053b4) *)
Theorem C17_link_is_not_a_directory_for_the_filter : forall text res, tree_is_dir false (TLink text res) = false.
Proof. intros text [| |[len|cs|t r|ft|ft]]; reflexivity. Qed.
Theorem C17_followed_link_is_what_it_resolves_to : forall text res,
  tree_is_dir true (TLink text res) = match res with LTarget (TDir _) => true | _ => false end.
Proof. intros text [| |[len|cs|t r|ft|ft]]; reflexivity. Qed.

(* ... and the source asks the matcher exactly that: the walked entry's path and the walked entry's type; only the root passes unasked *)
Theorem C17_src_filter_asks_about_the_entry_as_walked :
  x_ignore_filter_query = ("entry.path()", "entry.file_type().is_dir()")%string /\
  x_ignore_filter_unasked = ["entry.depth()==0"]%string.
Proof. split; reflexivity. Qed.

(* ---- tie to the current source (translator): the matcher is built per source and prunes the walk ---- *)
Theorem C17_src_filter_and_per_source_matcher :
  nth 4 x_walker_iterator ""%string = "filter_entry(|e|ignore_filter(e,&gitignore))"%string /\
  nth 2 x_walker_source_prelude ""%string = "letgitignore=parse_ignore(&source,config)?;"%string.
Proof. split; reflexivity. Qed.

(* ---- the glue functions this property's hand-written model mirrors are, token for token, the ones it was
   validated against (an edit re-opens the obligation; harness/repin.py re-pins after re-validation) ---- *)
Theorem C17_src_pin_paths_parse_ignore : pin_unchanged name_paths_parse_ignore.
Proof. exact pin_paths_parse_ignore. Qed.
Theorem C17_src_pin_paths_ignore_filter : pin_unchanged name_paths_ignore_filter.
Proof. exact pin_paths_ignore_filter. Qed.

Print Assumptions C17_walk_is_process_of_selected.
Print Assumptions C17_pruned_walk_spec.
Print Assumptions C17_selected_iff_no_ignored_ancestor.
Print Assumptions C17_no_flag_no_filter.
Print Assumptions C17_root_never_filtered.
Print Assumptions C17_src_filter_and_per_source_matcher.
Print Assumptions C17_src_pin_paths_parse_ignore.
Print Assumptions C17_src_pin_paths_ignore_filter.

(* ---- further glue on this property's path, pinned token for token (an edit re-opens the obligation; the run then
   looks for a failing input) ---- *)
From XcpPins Require Import Pin_main_main Pin_main_expand_sources.
Theorem C17_src_pin_main_main : pin_unchanged name_main_main.
Proof. exact pin_main_main. Qed.
Theorem C17_src_pin_main_expand_sources : pin_unchanged name_main_expand_sources.
Proof. exact pin_main_expand_sources. Qed.
(* Config::from(&Opts) is one struct literal with no `..default` tail, and every option other than the worker count
   and the block size reaches the library unchanged under its own name *)
Theorem C17_src_options_reach_config : forall f e, List.In (f, e) x_config_fields ->
  f <> "workers"%string -> f <> "block_size"%string -> e = ("opts." ++ f)%string.
Proof. exact x_config_fields_plain. Qed.
Print Assumptions C17_src_options_reach_config.
Print Assumptions C17_src_pin_main_main.
Print Assumptions C17_src_pin_main_expand_sources.

(* ---- more glue on this property's path, pinned token for token ---- *)
From XcpPins Require Import Pin_operations_tree_walker.
Theorem C17_src_pin_operations_tree_walker : pin_unchanged name_operations_tree_walker.
Proof. exact pin_operations_tree_walker. Qed.
Print Assumptions C17_src_pin_operations_tree_walker.
Print Assumptions C17_link_is_not_a_directory_for_the_filter.
Print Assumptions C17_followed_link_is_what_it_resolves_to.
Print Assumptions C17_src_filter_asks_about_the_entry_as_walked.

(* ---- further functions on this property's path, pinned token for token as validated (dependency review after rounds 5 and 6:
   each missed change had edited a pinned function that this property did not cite) ---- *)
From XcpPins Require Import Pin_main_expand_globs Pin_operations_new.
Theorem C17_src_pin_main_expand_globs : pin_unchanged name_main_expand_globs.
Proof. exact pin_main_expand_globs. Qed.
Theorem C17_src_pin_operations_new : pin_unchanged name_operations_new.
Proof. exact pin_operations_new. Qed.
Print Assumptions C17_src_pin_main_expand_globs.
Print Assumptions C17_src_pin_operations_new.
