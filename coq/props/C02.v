(* C02 — exit 0 implies the destination tree mirrors the selected source tree.
   Per source: the walk (model of tree_walker, validated against the real one
   and against std::path) and the sequential effect of its operations on the
   destination map; content of regular files is C01, independence of the
   schedule C06.  Hypotheses kept visible: sibling names are unique (a directory
   listing), a selected directory's target is absent or a directory (C16's
   validation covers the top level), no symlinked directories on mapped
   destination paths. *)
From XcpModel Require Import Base Backup Paths Walker.
From XcpProofs Require Import WalkerProofs.
From XcpModel Require Import Extracted.
From XcpProofs Require Import XWalker XConfig.
From XcpProofs Require Import PinnedSource.
From XcpPins Require Import Pin_parfile_copy_worker Pin_parblock_dispatch_worker.

(* cp's mapping rule: every entry maps to target_base ++ its relative path;
   distinct entries map to distinct targets; a child maps below its parent *)
Theorem C02_target_injective : forall tb r1 r2,
  target_of tb r1 = target_of tb r2 -> r1 = r2.
Proof.
  intros tb r1 r2 H. unfold target_of in H. apply app_inv_head in H.
  revert r2 H. induction r1 as [|x r1 IH]; intros [|y r2] H; cbn in H; try discriminate; [reflexivity|].
  injection H as -> H. f_equal. now apply IH.
Qed.

Theorem C02_child_below_parent : forall tb r n,
  target_of tb (r ++ [n]) = target_of tb r ++ [CNormal n].
Proof. intros. unfold target_of. now rewrite map_app, app_assoc. Qed.

(* the base itself: into an existing directory -> dest/<last component>,
   otherwise (or with no-target-directory) -> dest *)
(* a source whose last component is `..` (dir/.., ..) is copied into the destination ITSELF, as cp does: dest/.. would be the
   destination's parent — entries created outside the destination (defect found in round 7, repaired) *)
Theorem C02_dotdot_source_maps_onto_the_destination : forall dest source dd ntd,
  last_comp source = Some CParent -> target_base dest source dd ntd = Some dest.
Proof. intros dest source dd ntd H. unfold target_base. rewrite H. cbn [comp_eqb negb]. rewrite andb_false_r. reflexivity. Qed.
Theorem C02_target_base_rule : forall dest source n,
  last_comp source = Some (CNormal n) ->
  target_base dest source true false = Some (join dest [CNormal n]) /\
  target_base dest source false false = Some dest /\
  target_base dest source true true = Some dest.
Proof. intros dest source n H. unfold target_base. rewrite H. repeat split. Qed.

(* distinct selected entries have distinct relative paths *)
Theorem C02_entries_distinct : forall keep deref t r,
  tree_wf t = true -> NoDup (rels (sel_entries keep deref r t)).
Proof. intros. now apply sel_entries_nodup. Qed.

(* MIRROR + FRAME: after a successful walk, every selected entry's target holds
   an entry of the same kind (file of the same length, directory, link with
   the identical text, node of the same type), and every path that is neither
   a selected entry's target nor an ancestor of one is exactly as before *)
Theorem C02_mirror_on_success : forall cfg keep dex t (d : dmap) acts,
  walk cfg keep dex [] t = (acts, true) -> tree_wf t = true ->
  (forall e, In e (sel_entries keep (w_deref cfg) [] t) -> dir_ok d e) ->
  (forall e, In e (sel_entries keep (w_deref cfg) [] t) ->
     apply_walk d acts (e_rel e) = expect_kind (e_kind e)) /\
  (forall q, (forall e, In e (sel_entries keep (w_deref cfg) [] t) ->
                existsb (rel_eqb q) (prefixes (e_rel e)) = false) ->
     apply_walk d acts q = d q).
Proof. exact walk_mirror. Qed.

(* the Size updates of a successful walk sum to the selected regular files (C12) *)
Theorem C02_sizes_sum : forall cfg keep dex r t acts,
  walk cfg keep dex r t = (acts, true) ->
  sumN (map size_of_act acts) = sumN (map file_len (sel_entries keep (w_deref cfg) r t)).
Proof. exact walk_sizes_sum. Qed.

Example C02_nonvacuous :
  let t := TDir [([97], TFile 3); ([98], TDir [([99], TLink [120] LDangling)]); ([100], TSpecial 4)] in
  let r := walk (mkW false false) (fun _ _ => true) (fun _ => false) [] t in
  snd r = true /\ tree_wf t = true /\
  apply_walk (fun _ => None) (fst r) [[98]; [99]] = Some (DLink [120]).
Proof. vm_compute. repeat split. Qed.

(* ---- tie to the current source (translator): the walker's per-entry dispatch table ---- *)
Theorem C02_src_walker_dispatch :
  Forall (fun p => map wact_code (fst (act_of (mkW false false) (fun _ => false) ([], kind_of_ft (fst p), false))) = snd p)
         x_walker_dispatch /\
  map fst x_walker_dispatch = [0; 1; 2; 3; 4; 5; 6; 7]%N.
Proof. exact x_walker_dispatch_ok. Qed.

(* ---- the glue functions this property's hand-written model mirrors are, token for token, the ones it was
   validated against (an edit re-opens the obligation; harness/repin.py re-pins after re-validation) ---- *)
Theorem C02_src_pin_parfile_copy_worker : pin_unchanged name_parfile_copy_worker.
Proof. exact pin_parfile_copy_worker. Qed.
Theorem C02_src_pin_parblock_dispatch_worker : pin_unchanged name_parblock_dispatch_worker.
Proof. exact pin_parblock_dispatch_worker. Qed.

Print Assumptions C02_target_injective.
Print Assumptions C02_child_below_parent.
Print Assumptions C02_target_base_rule.
Print Assumptions C02_dotdot_source_maps_onto_the_destination.
Print Assumptions C02_entries_distinct.
Print Assumptions C02_mirror_on_success.
Print Assumptions C02_sizes_sum.
Print Assumptions C02_src_walker_dispatch.
Print Assumptions C02_src_pin_parfile_copy_worker.
Print Assumptions C02_src_pin_parblock_dispatch_worker.

(* ---- further glue on this property's path, pinned token for token (an edit re-opens the obligation; the run then
   looks for a failing input) ---- *)
From XcpPins Require Import Pin_main_expand_sources Pin_main_expand_globs Pin_mod_load_driver Pin_parfile_new Pin_parblock_new Pin_main_main.
Theorem C02_src_pin_main_expand_sources : pin_unchanged name_main_expand_sources.
Proof. exact pin_main_expand_sources. Qed.
Theorem C02_src_pin_main_expand_globs : pin_unchanged name_main_expand_globs.
Proof. exact pin_main_expand_globs. Qed.
Theorem C02_src_pin_mod_load_driver : pin_unchanged name_mod_load_driver.
Proof. exact pin_mod_load_driver. Qed.
Theorem C02_src_pin_parfile_new : pin_unchanged name_parfile_new.
Proof. exact pin_parfile_new. Qed.
Theorem C02_src_pin_parblock_new : pin_unchanged name_parblock_new.
Proof. exact pin_parblock_new. Qed.
Theorem C02_src_pin_main_main : pin_unchanged name_main_main.
Proof. exact pin_main_main. Qed.
(* `selected`: the filter every walked entry passes through, and the matcher it asks *)
From XcpPins Require Import Pin_paths_ignore_filter Pin_paths_parse_ignore.
Theorem C02_src_pin_paths_ignore_filter : pin_unchanged name_paths_ignore_filter.
Proof. exact pin_paths_ignore_filter. Qed.
Theorem C02_src_pin_paths_parse_ignore : pin_unchanged name_paths_parse_ignore.
Proof. exact pin_paths_parse_ignore. Qed.
(* the worker count both drivers start with is >= 1 whatever -w says (0 = one per CPU; a machine has >= 1): the
   hypothesis `1 <= W` of the driver theorems, from the two translated definitions *)
Theorem C02_src_workers_at_least_one : forall w ncpus, (1 <= ncpus)%N -> (1 <= x_num_workers (x_config_workers w ncpus) ncpus)%N.
Proof. exact x_workers_at_least_one. Qed.
From Coq Require Import String.
(* Config::from(&Opts) is one struct literal with no `..default` tail, and every option other than the worker count
   and the block size reaches the library unchanged under its own name *)
Theorem C02_src_options_reach_config : forall f e, List.In (f, e) x_config_fields ->
  f <> "workers"%string -> f <> "block_size"%string -> e = ("opts." ++ f)%string.
Proof. exact x_config_fields_plain. Qed.
Print Assumptions C02_src_workers_at_least_one.
Print Assumptions C02_src_options_reach_config.
Print Assumptions C02_src_pin_main_expand_sources.
Print Assumptions C02_src_pin_main_expand_globs.
Print Assumptions C02_src_pin_mod_load_driver.
Print Assumptions C02_src_pin_parfile_new.
Print Assumptions C02_src_pin_parblock_new.
Print Assumptions C02_src_pin_main_main.

(* "nothing is created outside the destination": a dangling symbolic link found where a regular file is to be copied is
   refused before any mutating action (the file would otherwise appear wherever the link points) — repair a3911ca *)
From XcpModel Require Import Ops.
From XcpProofs Require Import OpsProofs.
Theorem C02_no_write_through_dangling_link : forall fc src dst e,
  ce_dst_exists e = false ->
  snd (copy_actions_d true fc src dst e) = false /\
  forall a, List.In a (fst (copy_actions_d true fc src dst e)) -> mutated a = nil.
Proof. exact copy_dangling_refused. Qed.
Print Assumptions C02_no_write_through_dangling_link.

(* ---- more glue on this property's path, pinned token for token ---- *)
From XcpPins Require Import Pin_operations_tree_walker.
Theorem C02_src_pin_operations_tree_walker : pin_unchanged name_operations_tree_walker.
Proof. exact pin_operations_tree_walker. Qed.
Print Assumptions C02_src_pin_operations_tree_walker.

(* ---- what xcp does with what it finds at the mapped destination (DestMatrix.v; every cell compared with the binary
   on every run) ---- *)
From XcpModel Require Import DestMatrix.
From XcpProofs Require Import DestMatrixProofs.
Theorem C02_absent_is_created : forall s o, dest_outcome s DAbsent o = Created.
Proof. exact absent_is_created. Qed.
Theorem C02_dangling_is_never_written_through : forall s o, dest_outcome s DDangling o = Refused.
Proof. exact dangling_is_never_written_through. Qed.
(* frame: a directory found at the path is merged into or kept, never replaced or renamed away *)
Theorem C02_directory_is_merged_or_kept : forall s d o, is_real_dir d = true ->
  dest_outcome s d o = Merged \/ dest_outcome s d o = Refused.
Proof. exact directory_is_merged_or_kept. Qed.
Print Assumptions C02_absent_is_created.
Print Assumptions C02_dangling_is_never_written_through.
Print Assumptions C02_directory_is_merged_or_kept.

(* a directory found where a regular file is to be written is refused before any mutating action (with backups it used to be
   renamed away wholesale, taking along entries no source maps onto) *)
Theorem C02_no_file_over_a_directory : forall dg fc src dst e,
  ce_dst_exists e = true -> ce_same_file e = false ->
  snd (copy_actions_dd dg true fc src dst e) = false /\
  forall a, List.In a (fst (copy_actions_dd dg true fc src dst e)) -> mutated a = nil.
Proof. exact copy_onto_directory_refused. Qed.
Print Assumptions C02_no_file_over_a_directory.

(* the regular-file row of the table follows from the model of CopyHandle::new: whenever Ops.copy_actions_dd refuses (same
   file apart), the cell is Refused; and a live non-directory entry is renamed to a backup when backups are on *)
From XcpModel Require Import Ops.
Theorem C02_file_row_refusals_agree : forall d o fc src dst e,
  o <> ONoClobber -> ce_dst_exists e = exists_follow d -> ce_same_file e = false ->
  snd (copy_actions_dd (lexists d && negb (exists_follow d)) (is_real_dir d) fc src dst e) = false ->
  dest_outcome SFile d o = Refused.
Proof. exact file_row_refusals_agree. Qed.
Print Assumptions C02_file_row_refusals_agree.

(* ---- an operand that is a symbolic link (no --dereference) is re-created as a link and NOT descended into: the walk is
   that one action (model), and the iterator follows a root link exactly when dereferencing (translated source) — what
   lies where the fresh link points, inside the destination or anywhere else, is never written through it ---- *)
From XcpProofs Require Import WalkerProofs XWalker.
From Coq Require Import String.
Theorem C02_link_operand_is_one_action : forall cfg keep dexists text res,
  w_deref cfg = false -> keep [] (tree_is_dir false (TLink text res)) = true ->
  walk cfg keep dexists [] (TLink text res) =
    if w_no_clobber cfg && dexists [] then ([WErr 1 []], false) else ([WLink [] text], true).
Proof. exact link_operand_is_one_action. Qed.
Theorem C02_src_root_link_followed_iff_deref :
  List.nth 2 x_walker_iterator ""%string = "follow_root_links(config.dereference)"%string.
Proof. destruct x_walker_shape_ok as (_ & _ & Hi & _). rewrite Hi. reflexivity. Qed.
Print Assumptions C02_link_operand_is_one_action.
Print Assumptions C02_src_root_link_followed_iff_deref.
Print Assumptions C02_src_pin_paths_ignore_filter.
Print Assumptions C02_src_pin_paths_parse_ignore.

(* ---- the destination's parent directory is missing: refused for every source kind whose creating call cannot make the
   ancestors (a failed step, never `the source vanished`); compared with the binary on every run ---- *)
Theorem C02_parent_missing_refused_unless_directory : forall s, s <> SDir -> parent_missing_outcome s = Refused.
Proof. exact parent_missing_refused_unless_directory. Qed.
Print Assumptions C02_parent_missing_refused_unless_directory.

(* ---- further functions on this property's path, pinned token for token as validated (dependency review after rounds 5 and 6:
   each missed change had edited a pinned function that this property did not cite) ---- *)
From XcpPins Require Import Pin_operations_new Pin_linux_copy_node Pin_parfile_copy Pin_parblock_copy Pin_operations_copy_file.
Theorem C02_src_pin_operations_new : pin_unchanged name_operations_new.
Proof. exact pin_operations_new. Qed.
Theorem C02_src_pin_linux_copy_node : pin_unchanged name_linux_copy_node.
Proof. exact pin_linux_copy_node. Qed.
Theorem C02_src_pin_parfile_copy : pin_unchanged name_parfile_copy.
Proof. exact pin_parfile_copy. Qed.
Theorem C02_src_pin_parblock_copy : pin_unchanged name_parblock_copy.
Proof. exact pin_parblock_copy. Qed.
Theorem C02_src_pin_operations_copy_file : pin_unchanged name_operations_copy_file.
Proof. exact pin_operations_copy_file. Qed.
Print Assumptions C02_src_pin_operations_new.
Print Assumptions C02_src_pin_linux_copy_node.
Print Assumptions C02_src_pin_parfile_copy.
Print Assumptions C02_src_pin_parblock_copy.
Print Assumptions C02_src_pin_operations_copy_file.

(* ---- with backups enabled an existing destination entry is RENAMED: the name it gets must be new, or an entry that no source
   maps onto is replaced — the functions that choose that name, pinned as validated ---- *)
From XcpPins Require Import Pin_backup_get_backup_path Pin_backup_next_backup_num Pin_backup_needs_backup Pin_backup_ls_file_dir Pin_backup_is_num_backup Pin_backup_has_backup.
Theorem C02_src_pin_backup_get_backup_path : pin_unchanged name_backup_get_backup_path.
Proof. exact pin_backup_get_backup_path. Qed.
Theorem C02_src_pin_backup_next_backup_num : pin_unchanged name_backup_next_backup_num.
Proof. exact pin_backup_next_backup_num. Qed.
Theorem C02_src_pin_backup_needs_backup : pin_unchanged name_backup_needs_backup.
Proof. exact pin_backup_needs_backup. Qed.
Theorem C02_src_pin_backup_ls_file_dir : pin_unchanged name_backup_ls_file_dir.
Proof. exact pin_backup_ls_file_dir. Qed.
Theorem C02_src_pin_backup_is_num_backup : pin_unchanged name_backup_is_num_backup.
Proof. exact pin_backup_is_num_backup. Qed.
Theorem C02_src_pin_backup_has_backup : pin_unchanged name_backup_has_backup.
Proof. exact pin_backup_has_backup. Qed.
Print Assumptions C02_src_pin_backup_get_backup_path.
Print Assumptions C02_src_pin_backup_next_backup_num.
Print Assumptions C02_src_pin_backup_needs_backup.
Print Assumptions C02_src_pin_backup_ls_file_dir.
Print Assumptions C02_src_pin_backup_is_num_backup.
Print Assumptions C02_src_pin_backup_has_backup.
