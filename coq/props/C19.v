(* C19 — libfs sparse maps never hide data.
   Property theorems only; proofs are in XcpProofs.{ExtentsProofs,SparseProofs}. *)
From XcpModel Require Import Base Extents Sparse.
From XcpProofs Require Import ExtentsProofs SparseProofs.
From XcpModel Require Import Extracted.
From XcpProofs Require Import XExtents XLoops.

(* --- merging never drops coverage (all lists of well-formed extents,
       sorted or not, any length) --- *)
Theorem C19_merge_covers : forall l i,
  Forall ext_wf l -> covered l i -> covered (merge_extents l) i.
Proof. exact merge_covers. Qed.

(* --- merged ranges begin and end at input boundaries --- *)
Theorem C19_merge_boundaries : forall l x,
  In x (merge_extents l) ->
  (exists a, In a l /\ e_start x = e_start a) /\
  (exists b, In b l /\ e_end x = e_end b).
Proof. exact merge_boundaries. Qed.

(* --- merging adds nothing but the one-byte gap between two consecutive
       inputs it deems adjacent (e.start = p.end + 1) --- *)
Theorem C19_merge_adds_only_gaps : forall l i,
  covered (merge_extents l) i ->
  covered l i \/
  exists l1 p e l2, l = l1 ++ p :: e :: l2 /\ e_start e = e_end p + 1 /\ i = e_end p.
Proof.
  intros l i H. destruct (merge_adds_only_gaps l i H) as [Hc|Hg]; [now left|right].
  now apply gap_bytes_spec.
Qed.

(* --- ordered and non-overlapping is preserved --- *)
Theorem C19_merge_sorted : forall l, sorted_disjoint l -> sorted_disjoint (merge_extents l).
Proof. exact merge_sorted. Qed.

(* --- FIEMAP paging: for ANY number of extents, the loop returns exactly the
       file's extent list (none lost or duplicated at page boundaries) --- *)
Theorem C19_map_extents_complete : forall L fuel,
  fexts_ok 0 L -> (length L < fuel)%nat ->
  map_extents fuel (kernel_fiemap L) = MxSome (map to_ext L).
Proof. exact map_extents_complete. Qed.

Theorem C19_map_extents_sorted_and_exact : forall L,
  fexts_ok 0 L ->
  sorted_disjoint (map to_ext L) /\
  forall i, covered (map to_ext L) i <-> fexts_cover L i.
Proof.
  intros L H. split; [now apply to_ext_sorted|intros i; apply to_ext_covers].
Qed.

(* --- extents, merged: still cover every extent byte --- *)
Theorem C19_merged_map_covers : forall L fuel i,
  fexts_ok 0 L -> (length L < fuel)%nat -> fexts_cover L i ->
  exists l, map_extents fuel (kernel_fiemap L) = MxSome l /\ covered (merge_extents l) i.
Proof.
  intros L fuel i HL Hf Hi. exists (map to_ext L). split; [now apply map_extents_complete|].
  apply merge_covers; [|now apply to_ext_covers].
  apply sorted_from_wf with (lo := 0). now apply to_ext_sorted.
Qed.

(* --- SEEK_DATA/SEEK_HOLE walk: for every layout, the segments reported are
       ordered, non-overlapping, inside the file, and their union is exactly
       the data set --- *)
Theorem C19_segments_cover_data : forall L len fuel,
  layout_ok 0 len L -> (length L + 1 < fuel)%nat ->
  exists segs,
    segments fuel (k_seek_data L len) (k_seek_hole L len) len = SegOk segs /\
    segs_sorted 0 segs /\
    (forall d h, In (d, h) segs -> h <= len) /\
    (forall i, seg_covers segs i <-> in_data L i).
Proof.
  intros L len fuel HL Hf. exists (expect_segs len 0 L).
  split; [now apply segments_spec|]. split; [now apply expect_segs_sorted|].
  split; [intros d h; now apply expect_segs_within|].
  intros i. now apply expect_segs_cover.
Qed.

(* non-vacuity: the hypotheses are met by concrete non-trivial inputs *)
Example C19_fexts_ok_example :
  fexts_ok 0 [mkFext 0 4096 false false; mkFext 8192 4096 false true; mkFext 1048576 12288 true false].
Proof. cbn. unfold fext_end; cbn. repeat split; try lia; try discriminate; auto. Qed.

Example C19_layout_ok_example : layout_ok 0 20480 [(0, 4096); (8192, 12288); (16384, 20480)].
Proof. cbn. repeat split; lia. Qed.

(* sensitivity (kept next to the theorems so they are never quietly weakened) *)
Check merge_covers_needs_wf : exists l i, covered l i /\ ~ covered (merge_extents l) i.
Check merge_gap_is_added :
  exists l i, Forall ext_wf l /\ sorted_disjoint l /\ ~ covered l i /\ covered (merge_extents l) i.

(* ---- tie to the current source (translator): the model's definitions used above are
   EQUAL to what /verif/xlate extracts from the repository on this run ---- *)
Theorem C19_src_merge_extents : forall l, x_merge_extents l = merge_extents l.
Proof. exact x_merge_extents_ok. Qed.
(* the translated request: it starts at byte 0 with no flags and its length reaches past every offset a file can have, for
   the first page and for every later one — so `cover every byte that is not a hole` is not cut short by the request *)
Theorem C19_src_fiemap_request_covers_the_file : forall start off,
  x_fiemap_req_start <= start -> start <= off -> off < 2 ^ 63 -> off < start + x_fiemap_req_length.
Proof. exact x_fiemap_request_covers_the_rest_of_the_file. Qed.
Theorem C19_src_fiemap_request_from_zero : x_fiemap_req_start = 0 /\ x_fiemap_req_flags = 0.
Proof. exact x_fiemap_request_starts_at_zero_unflagged. Qed.
Theorem C19_src_fiemap_page_and_eof : x_fiemap_page_size = N.of_nat FIEMAP_PAGE_SIZE /\ x_lseek_eof_errnos = [ENXIO].
Proof. split; [exact x_fiemap_page_size_ok|exact x_lseek_eof_ok]. Qed.

Theorem C19_src_next_sparse_segments : forall sd sh len pos, x_next_segment sd sh len pos = next_segment sd sh len pos.
Proof. exact x_next_segment_ok. Qed.

(* the FIEMAP paging loop of libfs::map_extents, translated from the current source (shape validated statement by
   statement: early `return Ok(None)`, the two `break`s, the per-extent record, the restart offset), is the model's loop *)
Theorem C19_src_map_extents_loop : forall fuel fiemap, x_map_extents fuel fiemap = map_extents fuel fiemap.
Proof. exact x_map_extents_ok. Qed.

Print Assumptions C19_merge_covers.
Print Assumptions C19_merge_boundaries.
Print Assumptions C19_merge_adds_only_gaps.
Print Assumptions C19_merge_sorted.
Print Assumptions C19_map_extents_complete.
Print Assumptions C19_map_extents_sorted_and_exact.
Print Assumptions C19_merged_map_covers.
Print Assumptions C19_segments_cover_data.
Print Assumptions C19_src_merge_extents.
Print Assumptions C19_src_fiemap_page_and_eof.
Print Assumptions C19_src_next_sparse_segments.
Print Assumptions C19_src_map_extents_loop.

(* ---- further glue on this property's path, pinned token for token (an edit re-opens the obligation; the run then
   looks for a failing input) ---- *)
From XcpPins Require Import Pin_linux_lseek.
From XcpProofs Require Import PinnedSource.
Theorem C19_src_pin_linux_lseek : pin_unchanged name_linux_lseek.
Proof. exact pin_linux_lseek. Qed.
Print Assumptions C19_src_pin_linux_lseek.

(* ---- more glue on this property's path, pinned token for token ---- *)
From XcpPins Require Import Pin_parblock_queue_file_blocks.
Theorem C19_src_pin_parblock_queue_file_blocks : pin_unchanged name_parblock_queue_file_blocks.
Proof. exact pin_parblock_queue_file_blocks. Qed.
Print Assumptions C19_src_pin_parblock_queue_file_blocks.
Print Assumptions C19_src_fiemap_request_covers_the_file.
Print Assumptions C19_src_fiemap_request_from_zero.

(* ---- further functions on this property's path, pinned token for token as validated (dependency review after rounds 5 and 6:
   each missed change had edited a pinned function that this property did not cite) ---- *)
From XcpPins Require Import Pin_linux_copy_file_offset Pin_linux_try_copy_file_range.
Theorem C19_src_pin_linux_copy_file_offset : pin_unchanged name_linux_copy_file_offset.
Proof. exact pin_linux_copy_file_offset. Qed.
Theorem C19_src_pin_linux_try_copy_file_range : pin_unchanged name_linux_try_copy_file_range.
Proof. exact pin_linux_try_copy_file_range. Qed.
Print Assumptions C19_src_pin_linux_copy_file_offset.
Print Assumptions C19_src_pin_linux_try_copy_file_range.
