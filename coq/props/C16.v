(* C16 — invalid invocations are rejected with no side effects.
   The validation block issues only stat-like queries (the oracles exists_,
   is_dir, same_file are functions of the initial file system), and the driver
   is started only when it returns None; so "no side effects" for a rejected
   invocation is the statement that the action list is empty, checked on the
   real binary by a byte-for-byte snapshot comparison.  clap's own usage errors
   (unknown enum value, exit 2) are outside the model and exercised by the
   correspondence only. *)
From XcpModel Require Import Base Backup Paths Walker Main.
From XcpProofs Require Import MainProofs.
From XcpProofs Require Import XMain.
From XcpModel Require Import Extracted.
From XcpProofs Require Import PinnedSource.
From XcpPins Require Import Pin_main_main Pin_main_expand_globs Pin_main_opts_check Pin_common_is_same_file.

(* every class of invalid invocation is rejected by the validation block, for
   every position of the offending source among valid ones and every
   destination state (all oracles) *)
Theorem C16_invalid_rejected : forall exists_ is_dir same_file o sources dest,
  Invalid exists_ is_dir same_file o sources dest ->
  validate exists_ is_dir same_file o sources dest <> None.
Proof. exact invalid_rejected. Qed.

(* what passing validation guarantees *)
Theorem C16_validated_sound : forall exists_ is_dir same_file o sources dest,
  validate exists_ is_dir same_file o sources dest = None ->
  sources <> [] /\
  (forall s, In s sources -> exists_ s = true /\ (is_dir s = true -> o_recursive o = true)) /\
  ((1 < length sources)%nat -> is_dir dest = true).
Proof. exact validate_none_sound. Qed.

(* contradictory options are rejected before anything else *)
Theorem C16_force_noclobber_conflict : forall exists_ is_dir same_file o paths oracle,
  o_no_clobber o = true -> o_force o = true ->
  front exists_ is_dir same_file o paths oracle = (Some E_CONFLICT, [], []).
Proof. exact front_conflict. Qed.

(* a malformed glob, or a pattern (or plain name) selecting nothing, at any
   position among valid ones rejects the whole invocation *)
Theorem C16_glob_rejects : forall pats oracle,
  (In None oracle \/ In (Some []) oracle) -> exists e, expand_sources true pats oracle = inr e.
Proof. exact expand_globs_rejects. Qed.

(* rejected => the driver is never started: `front` hands over no sources *)
Theorem C16_reject_no_actions : forall exists_ is_dir same_file o paths oracle e srcs dest,
  front exists_ is_dir same_file o paths oracle = (Some e, srcs, dest) ->
  srcs = [] \/ validate exists_ is_dir same_file o srcs dest = Some e.
Proof.
  intros ex isd same o paths oracle e srcs dest H. unfold front in H.
  destruct (o_no_clobber o && o_force o); [injection H as <- <- <-; now left|].
  destruct (match o_target_directory o with Some d => Some (d, paths) | None => _ end) as [[d pats]|];
    [|injection H as <- <- <-; now left].
  destruct (expand_sources (o_glob o) pats oracle) as [[sources|]|e'];
    try (injection H as <- <- <-; now left).
  injection H as H1 <- <-. now right.
Qed.

Example C16_nonvacuous :
  let ex := fun p => path_eqb p (parse_path [97]) || path_eqb p (parse_path [100]) in   (* a, d exist *)
  let isd := fun p => path_eqb p (parse_path [100]) in                                  (* d is a directory *)
  validate ex isd (fun _ _ => false) (mkOpts true false false false false None)
           [parse_path [97]; parse_path [109]] (parse_path [100]) = Some E_MISSING.     (* xcp -r a m d *)
Proof. vm_compute. reflexivity. Qed.

(* ---- the glue functions this property's hand-written model mirrors are, token for token, the ones it was
   validated against (an edit re-opens the obligation; harness/repin.py re-pins after re-validation) ---- *)
Theorem C16_src_pin_main_main : pin_unchanged name_main_main.
Proof. exact pin_main_main. Qed.
Theorem C16_src_pin_main_expand_globs : pin_unchanged name_main_expand_globs.
Proof. exact pin_main_expand_globs. Qed.
Theorem C16_src_pin_main_opts_check : pin_unchanged name_main_opts_check.
Proof. exact pin_main_opts_check. Qed.
Theorem C16_src_pin_common_is_same_file : pin_unchanged name_common_is_same_file.
Proof. exact pin_common_is_same_file. Qed.

(* ---- tie to the current source (translator): the validation block of main() — every `return Err` between the
   expansion of the sources and the start of the driver, the per-source loop with its `targets` vector — translated
   statement by statement, IS the model's `validate`, for all oracles, options, sources and destinations ---- *)
Theorem C16_src_main_validation_block : forall exists_ is_dir same_file o sources dest,
  x_validate exists_ is_dir same_file o sources dest = validate exists_ is_dir same_file o sources dest.
Proof. exact x_validate_ok. Qed.

Print Assumptions C16_invalid_rejected.
Print Assumptions C16_validated_sound.
Print Assumptions C16_force_noclobber_conflict.
Print Assumptions C16_glob_rejects.
Print Assumptions C16_reject_no_actions.
Print Assumptions C16_src_pin_main_main.
Print Assumptions C16_src_pin_main_expand_globs.
Print Assumptions C16_src_pin_main_opts_check.
Print Assumptions C16_src_pin_common_is_same_file.
Print Assumptions C16_src_main_validation_block.

(* ---- further glue on this property's path, pinned token for token (an edit re-opens the obligation; the run then
   looks for a failing input) ---- *)
From XcpPins Require Import Pin_main_expand_sources.
Theorem C16_src_pin_main_expand_sources : pin_unchanged name_main_expand_sources.
Proof. exact pin_main_expand_sources. Qed.
Print Assumptions C16_src_pin_main_expand_sources.

(* ---- more glue on this property's path, pinned token for token ---- *)
From XcpPins Require Import Pin_operations_tree_walker.
Theorem C16_src_pin_operations_tree_walker : pin_unchanged name_operations_tree_walker.
Proof. exact pin_operations_tree_walker. Qed.
Print Assumptions C16_src_pin_operations_tree_walker.

(* ---- further functions on this property's path, pinned token for token as validated (dependency review after rounds 5 and 6:
   each missed change had edited a pinned function that this property did not cite) ---- *)
From XcpPins Require Import Pin_operations_new Pin_mod_load_driver Pin_parfile_new Pin_parblock_new.
Theorem C16_src_pin_operations_new : pin_unchanged name_operations_new.
Proof. exact pin_operations_new. Qed.
Theorem C16_src_pin_mod_load_driver : pin_unchanged name_mod_load_driver.
Proof. exact pin_mod_load_driver. Qed.
Theorem C16_src_pin_parfile_new : pin_unchanged name_parfile_new.
Proof. exact pin_parfile_new. Qed.
Theorem C16_src_pin_parblock_new : pin_unchanged name_parblock_new.
Proof. exact pin_parblock_new. Qed.
Print Assumptions C16_src_pin_operations_new.
Print Assumptions C16_src_pin_mod_load_driver.
Print Assumptions C16_src_pin_parfile_new.
Print Assumptions C16_src_pin_parblock_new.
