(* C15 — reflink modes keep their contract. *)
From XcpModel Require Import Base Extents Sparse Blocks CopyLoop FileCopy.
From XcpProofs Require Import ExtentsProofs SparseProofs BlocksProofs CopyLoopProofs FileCopyProofs.
From XcpModel Require Import Extracted.
From XcpProofs Require Import XReflink XOps.

(* never: no clone request, in either driver, whatever the kernel would answer *)
Theorem C15_never_no_clone : forall fuel bs len sparse clone sd sh mx ans,
  f_clone_issued (parfile_copy_file fuel bs RfNever len sparse clone sd sh ans) = false /\
  f_clone_issued (parblock_copy_file bs RfNever len sparse clone mx ans) = false.
Proof.
  intros. unfold parfile_copy_file, parblock_copy_file. cbn [try_reflink]. split; [reflexivity|].
  destruct (pb_ranges len sparse mx) as [[| | |] ?]; reflexivity.
Qed.

(* always: success iff the clone succeeded; and then no data is copied *)
Theorem C15_always_ok_iff_cloned : forall fuel bs len sparse clone sd sh mx ans,
  let pf := parfile_copy_file fuel bs RfAlways len sparse clone sd sh ans in
  let pb := parblock_copy_file bs RfAlways len sparse clone mx ans in
  (f_st pf = StOk <-> clone = ClOk) /\ (f_st pb = StOk <-> clone = ClOk) /\
  (f_st pf = StOk -> f_cloned pf = true /\ f_trace pf = []) /\
  (f_st pb = StOk -> f_cloned pb = true /\ f_trace pb = []).
Proof.
  intros. unfold pf, pb, parfile_copy_file, parblock_copy_file.
  destruct clone; cbn; repeat split; intros; try discriminate; try reflexivity; congruence.
Qed.

Theorem C15_always_unsupported_fails : forall fuel bs len sparse sd sh mx ans e,
  classify_clone e = ClUnsup ->
  f_st (parfile_copy_file fuel bs RfAlways len sparse (classify_clone e) sd sh ans) <> StOk /\
  f_st (parblock_copy_file bs RfAlways len sparse (classify_clone e) mx ans) <> StOk.
Proof.
  intros ? ? ? ? ? ? ? ? e H. rewrite H. unfold parfile_copy_file, parblock_copy_file. cbn. split; discriminate.
Qed.

(* auto and always issue the clone request, and issue it before any data
   transfer: a successful clone leaves the transfer list empty *)
Theorem C15_auto_clone_first : forall fuel bs len sparse sd sh mx ans,
  let pf := parfile_copy_file fuel bs RfAuto len sparse ClOk sd sh ans in
  let pb := parblock_copy_file bs RfAuto len sparse ClOk mx ans in
  f_clone_issued pf = true /\ f_cloned pf = true /\ f_trace pf = [] /\ f_st pf = StOk /\
  f_clone_issued pb = true /\ f_cloned pb = true /\ f_trace pb = [] /\ f_st pb = StOk.
Proof. intros. cbn. repeat split. Qed.

(* auto with an 'unsupported' answer behaves exactly like never (so C01's
   byte-exactness applies and the status is that of the plain copy) *)
Theorem C15_auto_fallback_is_plain_copy : forall fuel bs len sparse sd sh mx ans,
  let pfa := parfile_copy_file fuel bs RfAuto len sparse ClUnsup sd sh ans in
  let pfn := parfile_copy_file fuel bs RfNever len sparse ClUnsup sd sh ans in
  let pba := parblock_copy_file bs RfAuto len sparse ClUnsup mx ans in
  let pbn := parblock_copy_file bs RfNever len sparse ClUnsup mx ans in
  f_st pfa = f_st pfn /\ f_trace pfa = f_trace pfn /\ f_cloned pfa = false /\
  f_st pba = f_st pbn /\ f_trace pba = f_trace pbn /\ f_cloned pba = false.
Proof.
  intros. unfold pfa, pfn, pba, pbn, parfile_copy_file, parblock_copy_file. cbn [try_reflink].
  repeat split; try reflexivity; destruct (pb_ranges len sparse mx) as [[| | |] ?]; reflexivity.
Qed.

(* a hard clone error is fatal in auto and always *)
Theorem C15_hard_error_fatal : forall fuel bs len sparse sd sh mx ans e m,
  m <> RfNever ->
  f_st (parfile_copy_file fuel bs m len sparse (ClErr e) sd sh ans) = StErr e /\
  f_st (parblock_copy_file bs m len sparse (ClErr e) mx ans) = StErr e.
Proof.
  intros ? ? ? ? ? ? ? ? e m Hm. destruct m; [| |congruence]; split; reflexivity.
Qed.

Theorem C15_clone_unsupported_errnos : forall e,
  classify_clone e = ClUnsup <-> e = EOPNOTSUPP \/ e = EINVAL \/ e = EXDEV \/ e = ETXTBSY.
Proof. exact classify_clone_unsup. Qed.

(* ---- tie to the current source (translator): the model's definitions used above are
   EQUAL to what /verif/xlate extracts from the repository on this run ---- *)
Theorem C15_src_reflink_unsupported_errnos : forall e, e <> 0%N ->
  existsb (N.eqb e) x_reflink_unsupported_errnos = match classify_clone e with ClUnsup => true | _ => false end.
Proof. exact x_reflink_unsupported_ok. Qed.

Theorem C15_src_try_reflink_table : forall m, m < 3 ->
  fst (try_reflink (mode_of_code m) ClOk) = x_try_reflink_issues_clone m /\
  rl_code (snd (try_reflink (mode_of_code m) ClOk)) = x_try_reflink m true /\
  rl_code (snd (try_reflink (mode_of_code m) ClUnsup)) = x_try_reflink m false /\
  (forall e, rl_code (snd (try_reflink (mode_of_code m) (ClErr e))) = if x_try_reflink_issues_clone m then 2 else 0).
Proof. exact x_try_reflink_ok. Qed.

Theorem C15_src_clone_attempt_first : x_copy_file_steps = [4; 98; 30; 31; 32]%N /\ x_queue_file_blocks_steps = [40; 4; 98; 41; 97; 30; 42; 43; 44; 45; 45]%N.
Proof. split; [exact x_copy_file_steps_ok|exact x_queue_file_blocks_steps_ok]. Qed.

Print Assumptions C15_never_no_clone.
Print Assumptions C15_always_ok_iff_cloned.
Print Assumptions C15_always_unsupported_fails.
Print Assumptions C15_auto_clone_first.
Print Assumptions C15_auto_fallback_is_plain_copy.
Print Assumptions C15_hard_error_fatal.
Print Assumptions C15_clone_unsupported_errnos.
Print Assumptions C15_src_reflink_unsupported_errnos.
Print Assumptions C15_src_try_reflink_table.
Print Assumptions C15_src_clone_attempt_first.

(* ---- further glue on this property's path, pinned token for token (an edit re-opens the obligation; the run then
   looks for a failing input) ---- *)
From XcpPins Require Import Pin_linux_reflink.
From XcpProofs Require Import PinnedSource.
Theorem C15_src_pin_linux_reflink : pin_unchanged name_linux_reflink.
Proof. exact pin_linux_reflink. Qed.
Print Assumptions C15_src_pin_linux_reflink.

(* ---- nothing is carried from one file of a run to the next: the inventory of process-wide state (statics,
   thread-locals, umask calls) of the current source, regenerated by the translator on every run ---- *)
From XcpProofs Require Import XState.
From Coq Require Import String.
Theorem C15_src_no_state_carried_between_files :
  x_static_items = ["libxcp/src/backup.rs::BAK_REGEX"; "libxcp/src/operations.rs::BACKUP_STEP"]%string /\ x_thread_locals = [] /\ x_umask_calls = 0%N.
Proof. exact x_process_wide_state_ok. Qed.
Print Assumptions C15_src_no_state_carried_between_files.

(* ---- more glue on this property's path, pinned token for token ---- *)
From XcpPins Require Import Pin_operations_new Pin_operations_copy_file.
Theorem C15_src_pin_operations_new : pin_unchanged name_operations_new.
Proof. exact pin_operations_new. Qed.
Theorem C15_src_pin_operations_copy_file : pin_unchanged name_operations_copy_file.
Proof. exact pin_operations_copy_file. Qed.
Print Assumptions C15_src_pin_operations_new.
Print Assumptions C15_src_pin_operations_copy_file.

(* ---- further functions on this property's path, pinned token for token as validated (dependency review after rounds 5 and 6:
   each missed change had edited a pinned function that this property did not cite) ---- *)
From XcpPins Require Import Pin_operations_tree_walker Pin_parblock_dispatch_worker Pin_parfile_copy_worker Pin_linux_try_copy_file_range Pin_linux_copy_file_bytes Pin_linux_copy_file_offset.
Theorem C15_src_pin_operations_tree_walker : pin_unchanged name_operations_tree_walker.
Proof. exact pin_operations_tree_walker. Qed.
Theorem C15_src_pin_parblock_dispatch_worker : pin_unchanged name_parblock_dispatch_worker.
Proof. exact pin_parblock_dispatch_worker. Qed.
Theorem C15_src_pin_parfile_copy_worker : pin_unchanged name_parfile_copy_worker.
Proof. exact pin_parfile_copy_worker. Qed.
Theorem C15_src_pin_linux_try_copy_file_range : pin_unchanged name_linux_try_copy_file_range.
Proof. exact pin_linux_try_copy_file_range. Qed.
Theorem C15_src_pin_linux_copy_file_bytes : pin_unchanged name_linux_copy_file_bytes.
Proof. exact pin_linux_copy_file_bytes. Qed.
Theorem C15_src_pin_linux_copy_file_offset : pin_unchanged name_linux_copy_file_offset.
Proof. exact pin_linux_copy_file_offset. Qed.
Print Assumptions C15_src_pin_operations_tree_walker.
Print Assumptions C15_src_pin_parblock_dispatch_worker.
Print Assumptions C15_src_pin_parfile_copy_worker.
Print Assumptions C15_src_pin_linux_try_copy_file_range.
Print Assumptions C15_src_pin_linux_copy_file_bytes.
Print Assumptions C15_src_pin_linux_copy_file_offset.
