(* C06 — outcome independent of thread interleaving, worker count and driver.

   The protocol models (ConcBlock.v: walker / dispatcher / bounded pool queue /
   W pool workers / Arc reference count; ConcFile.v: walker / W workers) are
   labelled transition systems whose `reachable` relation contains EVERY
   interleaving.  The per-file automaton `phase_of` (ConcOutcome.v) judges a
   history; the same executable function judges the projected supervisor
   traces of the real xcp in harness/props/c06.py. *)
From XcpModel Require Import Base ConcBlock ConcFile ConcOutcome.
From XcpProofs Require Import ConcBlockProofs ConcFileProofs ConcOutcomeProofs.
From XcpModel Require Import Paths Walker.
From XcpProofs Require Import WalkerProofs.
From XcpModel Require Import Extracted.
From XcpProofs Require Import XLoops XConfig.
From Coq Require Import Permutation.
From XcpProofs Require Import PinnedSource.
From XcpPins Require Import Pin_parblock_queue_file_range Pin_operations_drop.
Local Open Scope nat_scope.

(* parblock: for all W, Q, all operation lists, all schedules: at the end every
   copied file was opened once, received each of its blocks exactly once in
   some order, was finalised once after all of them, and nothing else
   happened to it; every inline operation happened exactly once; no event
   concerns anything that is not an operation *)
Theorem C06_parblock_any_schedule : forall W Q ops s,
  reachable W Q ops s -> final s = true ->
  (forall h o, nth_error ops h = Some o -> outcome_ok o (phase_of h (b_ev s))) /\
  (forall h, nth_error ops h = None -> phase_of h (b_ev s) = PNone).
Proof. exact parblock_any_schedule. Qed.

Theorem C06_parfile_any_schedule : forall W ops s,
  freachable W ops s -> ffinal s = true ->
  (forall h o, nth_error ops h = Some o -> outcome_ok o (phase_of h (f_ev s))) /\
  (forall h, nth_error ops h = None -> phase_of h (f_ev s) = PNone).
Proof. exact parfile_any_schedule. Qed.

(* the two drivers agree with each other for any worker counts and schedules *)
Theorem C06_drivers_agree : forall W Q W' ops sb sf,
  reachable W Q ops sb -> final sb = true -> freachable W' ops sf -> ffinal sf = true ->
  forall h, same_outcome (phase_of h (b_ev sb)) (phase_of h (f_ev sf)).
Proof. exact drivers_agree. Qed.

(* ... stated as an equation: ANY two complete runs of the same workload — different worker counts, queue bounds,
   interleavings, and either driver — give every file the same outcome once the completion order of its blocks is
   forgotten (block writes are aligned and disjoint, C01, so that order does not matter for the bytes) *)
Theorem C06_two_schedules_same_outcome : forall W1 Q1 W2 Q2 ops s1 s2,
  reachable W1 Q1 ops s1 -> final s1 = true -> reachable W2 Q2 ops s2 -> final s2 = true ->
  forall h, norm_phase (phase_of h (b_ev s1)) = norm_phase (phase_of h (b_ev s2)).
Proof. exact parblock_two_schedules_same_outcome. Qed.

Theorem C06_drivers_same_outcome : forall W Q W' ops sb sf,
  reachable W Q ops sb -> final sb = true -> freachable W' ops sf -> ffinal sf = true ->
  forall h, norm_phase (phase_of h (b_ev sb)) = norm_phase (phase_of h (f_ev sf)).
Proof. exact drivers_same_outcome. Qed.

(* what PFinal means, concretely: the events of the file, oldest first *)
Theorem C06_history_shape : forall h ev,
  match phase_of h ev with
  | PNone => events_of h ev = []
  | POpen bs => events_of h ev = EOpen h :: map (EWrite h) (rev bs)
  | PFinal bs => events_of h ev = EOpen h :: map (EWrite h) (rev bs) ++ [EFinal h]
  | PInline => events_of h ev = [EInline h]
  | PBad => True
  end.
Proof. exact phase_shape. Qed.

(* a file's metadata is applied only after its last byte has been written:
   at EVERY reachable state (every prefix of every schedule), nothing of h is
   newer than its finalisation *)
Theorem C06_metadata_after_last_write : forall W Q ops s, reachable W Q ops s ->
  forall newer h older, b_ev s = newer ++ EFinal h :: older ->
  (forall b, ~ In (EWrite h b) newer) /\ ~ In (EOpen h) newer /\ ~ In (EFinal h) newer.
Proof. exact finalise_after_last_write. Qed.

(* every block job runs exactly once under every schedule *)
Theorem C06_blocks_exactly_once : forall W Q ops s, reachable W Q ops s -> final s = true ->
  Permutation (todo_pairs 0 ops) (written (b_ev s)).
Proof. exact final_writes_complete. Qed.

(* the executable judgement used on real traces is sound for the proposition *)
Theorem C06_trace_judgement_sound : forall o p, outcome_okb o p = true -> outcome_ok o p.
Proof. exact outcome_okb_sound. Qed.

(* a directory always exists before anything is created inside it: the walker
   reaches every directory (and creates it itself, synchronously, before it
   sends any later operation) before every entry below it — for every tree,
   ignore filter and dereference setting.  With C12_size_before_copied-style
   causality (an operation is executed only after the walker has sent it)
   this orders mkdir(parent) before every creation below it in EVERY schedule;
   the supervisor traces are checked for exactly that. *)
Theorem C06_directory_before_children : forall keep deref t A q k d B,
  sel_entries keep deref [] t = A ++ (q, k, d) :: B -> q <> [] ->
  exists d', In (removelast q, EDir, d') (A ++ [(q, k, d)]).
Proof.
  intros keep deref t A q k d B E Hq.
  pose proof (sel_parents_first keep deref t [] [[]] ltac:(now left)) as Hp.
  destruct (parents_first_spec _ _ _ _ _ _ _ Hp E) as [[H0|[]]|[d' Hin]].
  - (* the parent is the source root: the root entry is the first selected entry and is a directory *)
    destruct A as [|[[q0 k0] d0] A'].
    + (* q itself would be the first entry, i.e. the root *)
      exfalso. rewrite sel_entries_eq in E. destruct (negb (keep [] _)); [discriminate|].
      cbn [app] in E. injection E as E1 _. destruct t as [len|cs|text res|ft|ft]; cbn in E1;
        try (injection E1 as <- _ _; now apply Hq).
      destruct deref; [destruct res as [| |[len|cs|text' res'|ft|ft]]|]; cbn in E1; injection E1 as <- _ _; now apply Hq.
    + rewrite sel_entries_eq in E. destruct (negb (keep [] _)); [discriminate|].
      cbn [app] in E. injection E as E1 E2.
      assert (q0 = [] /\ (k0 = EDir \/ match snd (node_entry deref [] t) with Some _ => False | None => True end)) as [-> Hk].
      { destruct t as [len|cs|text res|ft|ft]; cbn in E1 |- *; try (injection E1 as <- <- _; split; [reflexivity|now right]).
        - injection E1 as <- <- _. split; [reflexivity|now left].
        - destruct deref; [destruct res as [| |[len|cs|text' res'|ft|ft]]|]; cbn in E1 |- *; injection E1 as <- <- _;
            split; try reflexivity; try (now right); now left. }
      destruct Hk as [->|Hk].
      * exists d0. left. rewrite <- H0. reflexivity.
      * (* the root is not a directory: it has no children, so there is no second entry *)
        destruct (snd (node_entry deref [] t)); [contradiction|]. destruct A'; discriminate.
  - exists d'. apply in_or_app. now left.
Qed.

(* tie to the current source (translator): block jobs of one file run concurrently on the SAME two descriptors;
   their user-space fallback must therefore be positional (pread/pwrite), which is what makes block writes commute *)
Theorem C06_src_block_fallback_is_positional : x_read_bytes_steps = [50%N] /\ x_write_bytes_steps = [51%N].
Proof. exact x_positional_io_ok. Qed.

(* non-vacuity: a concrete schedule of a two-file, three-block workload with
   W = 2, Q = 1 reaches a final state, blocks completing out of order *)
Example C06_nonvacuous :
  let ops := [OCopy [0; 1]; OInline; OCopy [0]] in
  let s := run_sched 2 1 (init ops)
    [LWalk; LWalk; LWalk; LWalk; LDisp; LDisp; LTake; LDisp; LTake; LDone 0; LDisp; LDisp; LDisp; LDisp;
     LDone 0; LTake; LDisp; LDone 0; LDisp; LDisp] in
  final s = true /\ history_ok ops (b_ev s) = true /\
  phase_of 0 (b_ev s) = PFinal [0; 1].
Proof. vm_compute. repeat split. Qed.

(* ---- the glue functions this property's hand-written model mirrors are, token for token, the ones it was
   validated against (an edit re-opens the obligation; harness/repin.py re-pins after re-validation) ---- *)
Theorem C06_src_pin_parblock_queue_file_range : pin_unchanged name_parblock_queue_file_range.
Proof. exact pin_parblock_queue_file_range. Qed.
Theorem C06_src_pin_operations_drop : pin_unchanged name_operations_drop.
Proof. exact pin_operations_drop. Qed.

Print Assumptions C06_parblock_any_schedule.
Print Assumptions C06_parfile_any_schedule.
Print Assumptions C06_drivers_agree.
Print Assumptions C06_history_shape.
Print Assumptions C06_metadata_after_last_write.
Print Assumptions C06_blocks_exactly_once.
Print Assumptions C06_trace_judgement_sound.
Print Assumptions C06_directory_before_children.
Print Assumptions C06_src_block_fallback_is_positional.
Print Assumptions C06_src_pin_parblock_queue_file_range.
Print Assumptions C06_src_pin_operations_drop.
Print Assumptions C06_two_schedules_same_outcome.
Print Assumptions C06_drivers_same_outcome.

(* ---- further glue on this property's path, pinned token for token (an edit re-opens the obligation; the run then
   looks for a failing input) ---- *)
From XcpPins Require Import Pin_parblock_dispatch_worker Pin_parfile_copy_worker.
Theorem C06_src_pin_parblock_dispatch_worker : pin_unchanged name_parblock_dispatch_worker.
Proof. exact pin_parblock_dispatch_worker. Qed.
Theorem C06_src_pin_parfile_copy_worker : pin_unchanged name_parfile_copy_worker.
Proof. exact pin_parfile_copy_worker. Qed.
(* the worker count both drivers start with is >= 1 whatever -w says (0 = one per CPU; a machine has >= 1): the
   hypothesis `1 <= W` of the driver theorems, from the two translated definitions *)
Theorem C06_src_workers_at_least_one : forall w ncpus, (1 <= ncpus)%N -> (1 <= x_num_workers (x_config_workers w ncpus) ncpus)%N.
Proof. exact x_workers_at_least_one. Qed.
Print Assumptions C06_src_workers_at_least_one.
Print Assumptions C06_src_pin_parblock_dispatch_worker.
Print Assumptions C06_src_pin_parfile_copy_worker.

(* ---- nothing is carried from one file of a run to the next: the inventory of process-wide state (statics,
   thread-locals, umask calls) of the current source, regenerated by the translator on every run ---- *)
From XcpProofs Require Import XState.
From Coq Require Import String.
Theorem C06_src_no_state_carried_between_files :
  x_static_items = ["libxcp/src/backup.rs::BAK_REGEX"; "libxcp/src/operations.rs::BACKUP_STEP"]%string /\ x_thread_locals = [] /\ x_umask_calls = 0%N.
Proof. exact x_process_wide_state_ok. Qed.
Print Assumptions C06_src_no_state_carried_between_files.

(* ---- more glue on this property's path, pinned token for token ---- *)
From XcpPins Require Import Pin_backup_get_backup_path Pin_operations_new.
Theorem C06_src_pin_backup_get_backup_path : pin_unchanged name_backup_get_backup_path.
Proof. exact pin_backup_get_backup_path. Qed.
Theorem C06_src_pin_operations_new : pin_unchanged name_operations_new.
Proof. exact pin_operations_new. Qed.
Print Assumptions C06_src_pin_backup_get_backup_path.
Print Assumptions C06_src_pin_operations_new.

(* ---- two workers of one run overwriting f and f.~1~ with numbered backups (BackupRace.v): with the backup step
   serialised (repair a649b3d; step codes 27/28 of CopyHandle::new) both orders end in the same directory with every
   old version preserved; without it, a scan falling into the other worker's gap loses a version ---- *)
From XcpModel Require Import BackupRace.
From XcpProofs Require Import BackupRaceProofs.
Theorem C06_backup_step_orders_agree : forall oldf oldb newf newb,
  snapshot (run newf newb (d_init oldf oldb) sched_AB) = snapshot (run newf newb (d_init oldf oldb) sched_BA) /\
  snapshot (run newf newb (d_init oldf oldb) sched_AB) = [Some newf; Some newb; Some oldf; None; Some oldb; None].
Proof. exact locked_overwrites_commute. Qed.
Theorem C06_backup_step_unserialised_refuted : exists oldf oldb newf newb,
  snapshot (run newf newb (d_init oldf oldb) sched_gap) <> snapshot (run newf newb (d_init oldf oldb) sched_AB).
Proof. exact unlocked_outcome_depends_on_schedule. Qed.
Print Assumptions C06_backup_step_orders_agree.
Print Assumptions C06_backup_step_unserialised_refuted.

(* ---- further functions on this property's path, pinned token for token as validated (dependency review after rounds 5 and 6:
   each missed change had edited a pinned function that this property did not cite) ---- *)
From XcpPins Require Import Pin_operations_copy_file Pin_operations_finalise_copy Pin_parblock_queue_file_blocks Pin_operations_tree_walker Pin_linux_copy_node Pin_backup_needs_backup Pin_backup_next_backup_num Pin_backup_ls_file_dir Pin_parfile_copy Pin_parblock_copy.
Theorem C06_src_pin_operations_copy_file : pin_unchanged name_operations_copy_file.
Proof. exact pin_operations_copy_file. Qed.
Theorem C06_src_pin_operations_finalise_copy : pin_unchanged name_operations_finalise_copy.
Proof. exact pin_operations_finalise_copy. Qed.
Theorem C06_src_pin_parblock_queue_file_blocks : pin_unchanged name_parblock_queue_file_blocks.
Proof. exact pin_parblock_queue_file_blocks. Qed.
Theorem C06_src_pin_operations_tree_walker : pin_unchanged name_operations_tree_walker.
Proof. exact pin_operations_tree_walker. Qed.
Theorem C06_src_pin_linux_copy_node : pin_unchanged name_linux_copy_node.
Proof. exact pin_linux_copy_node. Qed.
Theorem C06_src_pin_backup_needs_backup : pin_unchanged name_backup_needs_backup.
Proof. exact pin_backup_needs_backup. Qed.
Theorem C06_src_pin_backup_next_backup_num : pin_unchanged name_backup_next_backup_num.
Proof. exact pin_backup_next_backup_num. Qed.
Theorem C06_src_pin_backup_ls_file_dir : pin_unchanged name_backup_ls_file_dir.
Proof. exact pin_backup_ls_file_dir. Qed.
Theorem C06_src_pin_parfile_copy : pin_unchanged name_parfile_copy.
Proof. exact pin_parfile_copy. Qed.
Theorem C06_src_pin_parblock_copy : pin_unchanged name_parblock_copy.
Proof. exact pin_parblock_copy. Qed.
Print Assumptions C06_src_pin_operations_copy_file.
Print Assumptions C06_src_pin_operations_finalise_copy.
Print Assumptions C06_src_pin_parblock_queue_file_blocks.
Print Assumptions C06_src_pin_operations_tree_walker.
Print Assumptions C06_src_pin_linux_copy_node.
Print Assumptions C06_src_pin_backup_needs_backup.
Print Assumptions C06_src_pin_backup_next_backup_num.
Print Assumptions C06_src_pin_backup_ls_file_dir.
Print Assumptions C06_src_pin_parfile_copy.
Print Assumptions C06_src_pin_parblock_copy.
