(* C18 — --fsync flushes every destination file after its last write.

   Two layers.  (1) Within one copy operation (Ops.copy_actions: the system
   calls of CopyHandle::new, the data transfers and finalise_copy) fsync —
   exactly one when requested, none otherwise — is the very last action, after
   every sizing, clone and data action.  (2) Under EVERY interleaving of the
   parblock protocol (blocks of one file completing in any order on any
   worker) finalise_copy runs exactly once per copied file, after every block
   write of that file, and before the run reaches its final state (the pool
   join / worker joins that copy() returns after). *)
From XcpModel Require Import Base Meta Walker Ops ConcBlock ConcFile ConcOutcome.
From XcpProofs Require Import OpsProofs ConcBlockProofs ConcFileProofs ConcOutcomeProofs.
From XcpModel Require Import Extracted.
(* (translator tie: per-topic files, see below) *)
From Coq Require Import Permutation.
From XcpProofs Require Import PinnedSource.
From XcpPins Require Import Pin_operations_finalise_copy Pin_operations_drop Pin_common_sync.
Local Open Scope nat_scope.

Theorem C18_fsync_is_last_action : forall fc src dst e l,
  copy_actions fc src dst e = (l, true) ->
  exists A F, l = A ++ F /\
    existsb is_meta A = false /\ existsb data_or_sizing F = false /\
    (c_fsync fc = true -> exists F', F = F' ++ [AFsync (KDst dst)] /\ existsb is_fsync (A ++ F') = false) /\
    (c_fsync fc = false -> existsb is_fsync l = false).
Proof. exact copy_actions_order. Qed.

(* in every reachable state of parblock, nothing of a file is newer than its
   finalisation: no block write, no second finalisation *)
Theorem C18_finalise_after_every_write : forall W Q ops s, reachable W Q ops s ->
  forall newer h older, b_ev s = newer ++ EFinal h :: older ->
  (forall b, ~ In (EWrite h b) newer) /\ ~ In (EOpen h) newer /\ ~ In (EFinal h) newer.
Proof. exact finalise_after_last_write. Qed.

(* ... and it does happen, exactly once, for every copied file (zero-length
   and cloned files included: a file with no block jobs is finalised when the
   dispatcher drops its reference), before the final state *)
Theorem C18_every_file_finalised_once_parblock : forall W Q ops s h js,
  reachable W Q ops s -> final s = true -> nth_error ops h = Some (OCopy js) ->
  exists bs, events_of h (b_ev s) = EOpen h :: map (EWrite h) (rev bs) ++ [EFinal h].
Proof.
  intros W Q ops s h js Hr Hf Hn. destruct (parblock_any_schedule W Q ops s Hr Hf) as [H _].
  specialize (H h _ Hn). pose proof (phase_shape h (b_ev s)) as Hs.
  destruct (phase_of h (b_ev s)) as [|bs|bs| |]; try contradiction. exists bs. exact Hs.
Qed.

Theorem C18_every_file_finalised_once_parfile : forall W ops s h js,
  freachable W ops s -> ffinal s = true -> nth_error ops h = Some (OCopy js) ->
  exists bs, events_of h (f_ev s) = EOpen h :: map (EWrite h) (rev bs) ++ [EFinal h].
Proof.
  intros W ops s h js Hr Hf Hn. destruct (parfile_any_schedule W ops s Hr Hf) as [H _].
  specialize (H h _ Hn). pose proof (phase_shape h (f_ev s)) as Hs.
  destruct (phase_of h (f_ev s)) as [|bs|bs| |]; try contradiction. exists bs. exact Hs.
Qed.

(* nothing is left open at the end: every handle was dropped, so every
   finalisation (and its fsync) has been issued before copy() returns *)
Theorem C18_no_handle_survives : forall W Q ops s, reachable W Q ops s -> final s = true -> b_open s = [].
Proof. intros W Q ops s Hr Hf. eapply final_state_closed; eauto. eapply inv_reachable; eauto. Qed.

(* both layers together: under EVERY schedule of parblock (any W, Q), the system calls issued on a
   copied file h are exactly Ops.copy_actions for SOME completion order bs of its blocks; hence with
   --fsync the last of them is the fsync, nothing before it is one, and every sizing / clone / data
   call lies before the finalisation part *)
Theorem C18_fsync_last_in_every_schedule : forall W Q ops s h js fc src dst e0 blk,
  reachable W Q ops s -> final s = true -> nth_error ops h = Some (OCopy js) ->
  ce_dst_exists e0 && ce_same_file e0 = false -> ce_cloned e0 = false -> c_fsync fc = true ->
  exists bs A F',
    Permutation bs js /\
    flat_map (ev_actions fc src dst e0 blk) (events_of h (b_ev s)) = (A ++ F') ++ [AFsync (KDst dst)] /\
    existsb is_fsync (A ++ F') = false /\ existsb is_meta A = false /\ existsb data_or_sizing F' = false.
Proof.
  intros W Q ops s h js fc src dst e0 blk Hr Hf Hn Hsame Hcl Hfs.
  destruct (parblock_any_schedule W Q ops s Hr Hf) as [H _]. specialize (H h _ Hn).
  destruct (phase_of h (b_ev s)) as [|bs0|bs| |] eqn:Eph; try contradiction. cbn [outcome_ok] in H.
  destruct (history_is_copy_actions fc src dst e0 blk h (b_ev s) bs Eph Hsame Hcl) as [Hacts Hok].
  destruct (copy_actions fc src dst (with_writes e0 (map blk (rev bs)))) as [l ok] eqn:Ec. cbn [fst snd] in *. subst ok.
  destruct (copy_actions_order fc src dst _ l Ec) as (A & F & Hl & HA & HF & Hfsync & _).
  destruct (Hfsync Hfs) as (F' & HF' & Hno).
  exists bs, A, F'. split; [exact H|]. rewrite Hacts, Hl, HF', app_assoc. split; [reflexivity|]. split; [exact Hno|].
  split; [exact HA|]. rewrite HF', existsb_app in HF. apply Bool.orb_false_iff in HF. tauto.
Qed.

Example C18_nonvacuous :
  exists l, copy_actions (mkFin false false false true) [] [] (mkEnv false false None 10 false true [(0, 4); (4, 6)]%N 0) = (l, true) /\
            last l (AStat (KSrc [])) = AFsync (KDst []).
Proof. eexists. split; [vm_compute; reflexivity|reflexivity]. Qed.

(* ---- tie to the current source (translator): the model's definitions used above are
   EQUAL to what /verif/xlate extracts from the repository on this run ---- *)
Theorem C18_src_fsync_is_last_step : exists pre, x_finalise_order = pre ++ [(10%N, false)] /\ forallb (fun s => negb (N.eqb (fst s) 10)) pre = true.
Proof. exists (removelast x_finalise_order). split; vm_compute; reflexivity. Qed.

(* ---- the glue functions this property's hand-written model mirrors are, token for token, the ones it was
   validated against (an edit re-opens the obligation; harness/repin.py re-pins after re-validation) ---- *)
Theorem C18_src_pin_operations_finalise_copy : pin_unchanged name_operations_finalise_copy.
Proof. exact pin_operations_finalise_copy. Qed.
Theorem C18_src_pin_operations_drop : pin_unchanged name_operations_drop.
Proof. exact pin_operations_drop. Qed.
Theorem C18_src_pin_common_sync : pin_unchanged name_common_sync.
Proof. exact pin_common_sync. Qed.

Print Assumptions C18_fsync_is_last_action.
Print Assumptions C18_finalise_after_every_write.
Print Assumptions C18_every_file_finalised_once_parblock.
Print Assumptions C18_every_file_finalised_once_parfile.
Print Assumptions C18_no_handle_survives.
Print Assumptions C18_src_fsync_is_last_step.
Print Assumptions C18_fsync_last_in_every_schedule.
Print Assumptions C18_src_pin_operations_finalise_copy.
Print Assumptions C18_src_pin_operations_drop.
Print Assumptions C18_src_pin_common_sync.

(* ---- further glue on this property's path, pinned token for token (an edit re-opens the obligation; the run then
   looks for a failing input) ---- *)
From XcpPins Require Import Pin_common_copy_permissions Pin_common_copy_xattr.
Theorem C18_src_pin_common_copy_permissions : pin_unchanged name_common_copy_permissions.
Proof. exact pin_common_copy_permissions. Qed.
Theorem C18_src_pin_common_copy_xattr : pin_unchanged name_common_copy_xattr.
Proof. exact pin_common_copy_xattr. Qed.
Print Assumptions C18_src_pin_common_copy_permissions.
Print Assumptions C18_src_pin_common_copy_xattr.

(* ---- nothing is carried from one file of a run to the next: the inventory of process-wide state (statics,
   thread-locals, umask calls) of the current source, regenerated by the translator on every run ---- *)
From XcpProofs Require Import XState.
From Coq Require Import String.
Theorem C18_src_no_state_carried_between_files :
  x_static_items = ["libxcp/src/backup.rs::BAK_REGEX"; "libxcp/src/operations.rs::BACKUP_STEP"]%string /\ x_thread_locals = [] /\ x_umask_calls = 0%N.
Proof. exact x_process_wide_state_ok. Qed.
Print Assumptions C18_src_no_state_carried_between_files.

(* ---- more glue on this property's path, pinned token for token ---- *)
From XcpPins Require Import Pin_operations_new Pin_operations_tree_walker.
Theorem C18_src_pin_operations_new : pin_unchanged name_operations_new.
Proof. exact pin_operations_new. Qed.
Theorem C18_src_pin_operations_tree_walker : pin_unchanged name_operations_tree_walker.
Proof. exact pin_operations_tree_walker. Qed.
Print Assumptions C18_src_pin_operations_new.
Print Assumptions C18_src_pin_operations_tree_walker.

(* ---- the steps finalise_copy runs BEFORE the flush (owner, permissions, xattrs, timestamps): each is a `?` in front of
   sync(), so a step that fails for some input costs that file its fsync.  They are pinned token for token as validated:
   on the validated text none of them fails for any mode, owner, xattr set or timestamp a file system can hold (the run
   covers modes with every bit, sources before 1970 and beyond 2100, refused xattrs) ---- *)
From XcpPins Require Import Pin_common_copy_timestamps Pin_common_copy_owner.
Theorem C18_src_pin_common_copy_timestamps : pin_unchanged name_common_copy_timestamps.
Proof. exact pin_common_copy_timestamps. Qed.
Theorem C18_src_pin_common_copy_owner : pin_unchanged name_common_copy_owner.
Proof. exact pin_common_copy_owner. Qed.
Print Assumptions C18_src_pin_common_copy_timestamps.
Print Assumptions C18_src_pin_common_copy_owner.

(* ---- further functions on this property's path, pinned token for token as validated (dependency review after rounds 5 and 6:
   each missed change had edited a pinned function that this property did not cite) ---- *)
From XcpPins Require Import Pin_parfile_copy_worker Pin_parblock_dispatch_worker Pin_parblock_queue_file_blocks Pin_parblock_queue_file_range Pin_operations_copy_file Pin_parblock_copy Pin_parfile_copy Pin_main_main.
Theorem C18_src_pin_parfile_copy_worker : pin_unchanged name_parfile_copy_worker.
Proof. exact pin_parfile_copy_worker. Qed.
Theorem C18_src_pin_parblock_dispatch_worker : pin_unchanged name_parblock_dispatch_worker.
Proof. exact pin_parblock_dispatch_worker. Qed.
Theorem C18_src_pin_parblock_queue_file_blocks : pin_unchanged name_parblock_queue_file_blocks.
Proof. exact pin_parblock_queue_file_blocks. Qed.
Theorem C18_src_pin_parblock_queue_file_range : pin_unchanged name_parblock_queue_file_range.
Proof. exact pin_parblock_queue_file_range. Qed.
Theorem C18_src_pin_operations_copy_file : pin_unchanged name_operations_copy_file.
Proof. exact pin_operations_copy_file. Qed.
Theorem C18_src_pin_parblock_copy : pin_unchanged name_parblock_copy.
Proof. exact pin_parblock_copy. Qed.
Theorem C18_src_pin_parfile_copy : pin_unchanged name_parfile_copy.
Proof. exact pin_parfile_copy. Qed.
Theorem C18_src_pin_main_main : pin_unchanged name_main_main.
Proof. exact pin_main_main. Qed.
Print Assumptions C18_src_pin_parfile_copy_worker.
Print Assumptions C18_src_pin_parblock_dispatch_worker.
Print Assumptions C18_src_pin_parblock_queue_file_blocks.
Print Assumptions C18_src_pin_parblock_queue_file_range.
Print Assumptions C18_src_pin_operations_copy_file.
Print Assumptions C18_src_pin_parblock_copy.
Print Assumptions C18_src_pin_parfile_copy.
Print Assumptions C18_src_pin_main_main.
