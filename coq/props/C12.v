(* C12 — progress updates are truthful, never exceed 100%, and the stream ends.
   (That the channel closes once copy() has returned is C07's
   `final_state_closed`; sizes summing to the selected files is the walker's
   theorem in C02.) *)
From XcpModel Require Import Base Sparse CopyLoop Updater.
From XcpProofs Require Import CopyLoopProofs UpdaterProofs.
From XcpModel Require Import ConcBlock.
From XcpProofs Require Import ConcBlockProofs ConcOutcomeProofs.
From XcpModel Require Import Extracted.
From XcpProofs Require Import XUpdater.
From XcpProofs Require Import PinnedSource.
From XcpPins Require Import Pin_feedback_send.

(* batching (ChannelUpdater): for EVERY send order and block size, what is
   delivered never reports more copied bytes than were passed to send; Size and
   Error updates are never dropped *)
Theorem C12_batching_sound : forall bs sends sent,
  sum_copied (chan_deliver bs sent sends) <= sum_copied sends /\
  sum_size (chan_deliver bs sent sends) = sum_size sends /\
  has_error (chan_deliver bs sent sends) = has_error sends.
Proof. exact chan_deliver_bounds. Qed.

(* ... and what the client has seen after any prefix of the sends is a prefix
   of the final stream *)
Theorem C12_delivery_is_prefix_monotone : forall bs a b sent,
  exists sent', chan_deliver bs sent (a ++ b) = chan_deliver bs sent a ++ chan_deliver bs sent' b.
Proof. exact chan_deliver_app. Qed.

(* Copied values are exactly the kernel's return values, sent after the call:
   a loop never reports more than it was asked to copy, whatever its outcome
   (success, error, oracle of any shape within `never more than asked`) *)
Theorem C12_copy_bytes_reports_le_len : forall fuel bs len cur ans,
  let tr := o_trace (copy_bytes fuel bs len 0 cur ans) in
  ans_bounded tr -> sumN (copied_updates tr) = total_moved tr /\ total_moved tr <= len.
Proof.
  intros fuel bs len cur ans tr Hb. split; [apply copied_updates_total|].
  pose proof (copy_bytes_total_le fuel bs len 0 cur ans ltac:(lia) Hb). fold tr in H. lia.
Qed.

Theorem C12_block_job_reports_le_block : forall fuel flen off bytes ans,
  let tr := o_trace (block_job fuel flen off bytes 0 ans) in
  ans_bounded tr -> sumN (copied_updates tr) = total_moved tr /\ total_moved tr <= bytes.
Proof.
  intros fuel flen off bytes ans tr Hb. split; [apply copied_updates_total|].
  pose proof (block_job_total_le fuel flen off bytes 0 ans ltac:(lia) Hb). fold tr in H. lia.
Qed.

(* never above the announced total, at every prefix of every interleaving:
   if per file the reported bytes stay within the announced size in every
   prefix (the protocol fact: Size is sent before the operation is queued and a
   file's transfers total at most its length), then globally
   sum(Copied) <= sum(Size) at every prefix — for any number of files/threads *)
Theorem C12_prefix_bound : forall l, log_ok l ->
  forall p s, l = p ++ s -> g_copied p <= g_size p.
Proof. exact log_prefix_bound. Qed.

(* ... and after batching *)
Corollary C12_prefix_bound_delivered : forall bs l, log_ok l ->
  forall p s, l = p ++ s ->
  sum_copied (chan_deliver bs 0 (map gev_update p)) <= sum_size (chan_deliver bs 0 (map gev_update p)).
Proof.
  intros bs l Hok p s E. destruct (chan_deliver_bounds bs (map gev_update p) 0) as (A & B & _).
  pose proof (log_prefix_bound l Hok p s E) as H. unfold g_copied, g_size in H. lia.
Qed.

(* the protocol fact behind `log_ok`, for EVERY interleaving of parblock: no event of a file (open,
   block written = Copied update, finalise) occurs before the walker's step that announced its Size
   and sent it (handles are numbered in the walker's send order; b_next counts the sends) *)
Theorem C12_size_before_copied : forall W Q ops s, reachable W Q ops s ->
  forall e, In e (b_ev s) -> (ev_handle e < b_next s)%nat.
Proof. exact events_after_walk. Qed.

Example C12_nonvacuous :
  chan_deliver 100 0 [USize 250; UCopied 60; UCopied 60; UCopied 60; UError; UCopied 70]
  = [USize 250; UCopied 60; UError; UCopied 70].
Proof. vm_compute. reflexivity. Qed.

(* ---- tie to the current source (translator): the model's definitions used above are
   EQUAL to what /verif/xlate extracts from the repository on this run ---- *)
Theorem C12_src_send_condition : forall bs sent b,
  chan_send bs sent (UCopied b) = (sent + b, if x_send_cond sent b bs then [UCopied b] else []).
Proof. exact x_send_cond_ok. Qed.

(* a zero-byte kernel answer ends a block job successfully only at/after the end of the source, measured from the
   CURRENT position (off + done), not from the end of the requested block: anything earlier sends an Error update *)
Theorem C12_src_premature_end_is_error : forall flen off done,
  x_block_job_zero_is_end flen off done = (flen <=? off + done).
Proof. reflexivity. Qed.

Theorem C12_src_size_before_copy_is_queued :
  In (0, [0; 1]) x_walker_dispatch.
Proof. vm_compute. now left. Qed.

(* ---- the glue functions this property's hand-written model mirrors are, token for token, the ones it was
   validated against (an edit re-opens the obligation; harness/repin.py re-pins after re-validation) ---- *)
Theorem C12_src_pin_feedback_send : pin_unchanged name_feedback_send.
Proof. exact pin_feedback_send. Qed.

Print Assumptions C12_batching_sound.
Print Assumptions C12_delivery_is_prefix_monotone.
Print Assumptions C12_copy_bytes_reports_le_len.
Print Assumptions C12_block_job_reports_le_block.
Print Assumptions C12_prefix_bound.
Print Assumptions C12_prefix_bound_delivered.
Print Assumptions C12_src_send_condition.
Print Assumptions C12_size_before_copied.
Print Assumptions C12_src_premature_end_is_error.
Print Assumptions C12_src_size_before_copy_is_queued.
Print Assumptions C12_src_pin_feedback_send.

(* ---- further glue on this property's path, pinned token for token (an edit re-opens the obligation; the run then
   looks for a failing input) ---- *)
From XcpPins Require Import Pin_parfile_copy Pin_parblock_copy Pin_parfile_copy_worker Pin_parblock_queue_file_range Pin_feedback_new.
Theorem C12_src_pin_parfile_copy : pin_unchanged name_parfile_copy.
Proof. exact pin_parfile_copy. Qed.
Theorem C12_src_pin_parblock_copy : pin_unchanged name_parblock_copy.
Proof. exact pin_parblock_copy. Qed.
Theorem C12_src_pin_parfile_copy_worker : pin_unchanged name_parfile_copy_worker.
Proof. exact pin_parfile_copy_worker. Qed.
Theorem C12_src_pin_parblock_queue_file_range : pin_unchanged name_parblock_queue_file_range.
Proof. exact pin_parblock_queue_file_range. Qed.
Theorem C12_src_pin_feedback_new : pin_unchanged name_feedback_new.
Proof. exact pin_feedback_new. Qed.
Print Assumptions C12_src_pin_parfile_copy.
Print Assumptions C12_src_pin_parblock_copy.
Print Assumptions C12_src_pin_parfile_copy_worker.
Print Assumptions C12_src_pin_parblock_queue_file_range.
Print Assumptions C12_src_pin_feedback_new.

(* ---- nothing is carried from one file of a run to the next: the inventory of process-wide state (statics,
   thread-locals, umask calls) of the current source, regenerated by the translator on every run ---- *)
From XcpProofs Require Import XState.
From Coq Require Import String.
Theorem C12_src_no_state_carried_between_files :
  x_static_items = ["libxcp/src/backup.rs::BAK_REGEX"; "libxcp/src/operations.rs::BACKUP_STEP"]%string /\ x_thread_locals = [] /\ x_umask_calls = 0%N.
Proof. exact x_process_wide_state_ok. Qed.
Print Assumptions C12_src_no_state_carried_between_files.

(* ---- CopyHandle::copy_file, translated: ONE pass over the data — a clone attempt, else the sparse walk or the plain
   loop, whose error is returned (`?`), never retried (a second pass would report the same bytes twice) ---- *)
From XcpModel Require Import Ops.
From XcpProofs Require Import XOps.
Theorem C12_src_copy_file_single_pass : x_copy_file_steps = copy_file_steps.
Proof. exact x_copy_file_steps_ok. Qed.
Print Assumptions C12_src_copy_file_single_pass.

(* ---- Driver::copy, translated (the joins): the call returns Ok exactly when the walker and EVERY worker (parfile) /
   the walker and the dispatcher (parblock) returned Ok: no thread's error is dropped, whichever thread it is ---- *)
From XcpProofs Require Import XDrivers.
Theorem C12_src_parfile_copy_reports_every_thread : forall walk workers,
  x_parfile_copy_result walk workers = None <-> walk = None /\ List.Forall (fun r => r = None) workers.
Proof. exact x_parfile_copy_ok_iff. Qed.
Theorem C12_src_parblock_copy_reports_every_thread : forall walk disp,
  x_parblock_copy_result walk disp = None <-> walk = None /\ disp = None.
Proof. exact x_parblock_copy_ok_iff. Qed.
Print Assumptions C12_src_parfile_copy_reports_every_thread.
Print Assumptions C12_src_parblock_copy_reports_every_thread.

(* ---- the worker loops, translated: every kind of operation returns its failure from the worker (Copy and Link also send
   an Error update; a special file's only report is the worker's result), and nothing else happens on a failure path ---- *)
Theorem C12_src_every_failure_is_returned :
  forall routes, List.In routes [x_parfile_error_routes; x_parblock_error_routes] ->
  List.map fst routes = [0; 1; 2]%N /\ forall k r, List.In (k, r) routes -> List.In 2%N r /\ ~ List.In 99%N r.
Proof. exact x_every_failure_is_returned. Qed.
Print Assumptions C12_src_every_failure_is_returned.

(* ---- more glue on this property's path, pinned token for token ---- *)
From XcpPins Require Import Pin_operations_new Pin_operations_copy_file Pin_operations_tree_walker.
Theorem C12_src_pin_operations_new : pin_unchanged name_operations_new.
Proof. exact pin_operations_new. Qed.
Theorem C12_src_pin_operations_copy_file : pin_unchanged name_operations_copy_file.
Proof. exact pin_operations_copy_file. Qed.
Theorem C12_src_pin_operations_tree_walker : pin_unchanged name_operations_tree_walker.
Proof. exact pin_operations_tree_walker. Qed.
Print Assumptions C12_src_pin_operations_new.
Print Assumptions C12_src_pin_operations_copy_file.
Print Assumptions C12_src_pin_operations_tree_walker.

(* ---- further functions on this property's path, pinned token for token as validated (dependency review after rounds 5 and 6:
   each missed change had edited a pinned function that this property did not cite) ---- *)
From XcpPins Require Import Pin_parblock_dispatch_worker Pin_parblock_queue_file_blocks Pin_operations_drop Pin_parfile_new Pin_parblock_new.
Theorem C12_src_pin_parblock_dispatch_worker : pin_unchanged name_parblock_dispatch_worker.
Proof. exact pin_parblock_dispatch_worker. Qed.
Theorem C12_src_pin_parblock_queue_file_blocks : pin_unchanged name_parblock_queue_file_blocks.
Proof. exact pin_parblock_queue_file_blocks. Qed.
Theorem C12_src_pin_operations_drop : pin_unchanged name_operations_drop.
Proof. exact pin_operations_drop. Qed.
Theorem C12_src_pin_parfile_new : pin_unchanged name_parfile_new.
Proof. exact pin_parfile_new. Qed.
Theorem C12_src_pin_parblock_new : pin_unchanged name_parblock_new.
Proof. exact pin_parblock_new. Qed.
Print Assumptions C12_src_pin_parblock_dispatch_worker.
Print Assumptions C12_src_pin_parblock_queue_file_blocks.
Print Assumptions C12_src_pin_operations_drop.
Print Assumptions C12_src_pin_parfile_new.
Print Assumptions C12_src_pin_parblock_new.
