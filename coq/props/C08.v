(* C08 — --no-clobber never alters anything that already exists.
   Model after `fix: --no-clobber treats a dangling symlink as existing`
   (`dexists` is lstat-existence of the mapped target). *)
From XcpModel Require Import Base Backup Paths Walker Meta.
From XcpProofs Require Import WalkerProofs MetaProofs.
From XcpModel Require Import Extracted.
From XcpProofs Require Import XWalker XConfig.
From Coq Require Import String.

(* no operation (copy, link, mkdir, mknod) is ever emitted for a target that
   exists — in successful AND failing walks, for every tree and matcher *)
Theorem C08_noclobber_no_op_on_existing : forall cfg keep dex r t acts ok a q,
  w_no_clobber cfg = true -> walk cfg keep dex r t = (acts, ok) ->
  In a acts -> is_err a = false -> act_rel a = Some q -> dex q = false.
Proof. exact walk_noclobber_untouched. Qed.

(* a source entry mapping onto an existing destination entry makes the walk fail *)
Theorem C08_noclobber_collision_fails : forall cfg keep dex r t e,
  w_no_clobber cfg = true -> In e (sel_entries keep (w_deref cfg) r t) -> dex (e_rel e) = true ->
  snd (walk cfg keep dex r t) = false.
Proof. exact walk_noclobber_collision_fails. Qed.

(* frame: applying the emitted operations leaves every existing entry exactly
   as it was (directories may gain children) *)
Theorem C08_noclobber_frame : forall cfg keep r t acts ok (d : dmap),
  w_no_clobber cfg = true ->
  walk cfg keep (fun q => match d q with Some _ => true | None => false end) r t = (acts, ok) ->
  forall q k, d q = Some k -> apply_walk d acts q = Some k.
Proof. exact walk_noclobber_frame. Qed.

(* the worker-side check for special files *)
Theorem C08_special_worker_refuses : forall same umask src,
  special_worker true true same umask src = None.
Proof. reflexivity. Qed.

(* ---- tie to the current source (translator): the no-clobber check precedes the dispatch, ends the walk, and
   probes the target with lstat (a dangling link counts as existing) ---- *)
Theorem C08_src_noclobber_check :
  x_walker_noclobber_stops_before_dispatch = true /\
  x_walker_noclobber_condition = "config.no_clobber&&target.symlink_metadata().is_ok()"%string.
Proof. split; [apply x_walker_shape_ok|apply (proj1 (proj2 x_walker_shape_ok))]. Qed.

Print Assumptions C08_noclobber_no_op_on_existing.
Print Assumptions C08_noclobber_collision_fails.
Print Assumptions C08_noclobber_frame.
Print Assumptions C08_special_worker_refuses.
Print Assumptions C08_src_noclobber_check.

(* ---- further glue on this property's path, pinned token for token (an edit re-opens the obligation; the run then
   looks for a failing input) ---- *)
From XcpPins Require Import Pin_parblock_new Pin_parfile_new Pin_mod_load_driver Pin_operations_new Pin_parfile_copy_worker Pin_parblock_dispatch_worker.
From XcpProofs Require Import PinnedSource.
Theorem C08_src_pin_parblock_new : pin_unchanged name_parblock_new.
Proof. exact pin_parblock_new. Qed.
Theorem C08_src_pin_parfile_new : pin_unchanged name_parfile_new.
Proof. exact pin_parfile_new. Qed.
Theorem C08_src_pin_mod_load_driver : pin_unchanged name_mod_load_driver.
Proof. exact pin_mod_load_driver. Qed.
Theorem C08_src_pin_operations_new : pin_unchanged name_operations_new.
Proof. exact pin_operations_new. Qed.
Theorem C08_src_pin_parfile_copy_worker : pin_unchanged name_parfile_copy_worker.
Proof. exact pin_parfile_copy_worker. Qed.
Theorem C08_src_pin_parblock_dispatch_worker : pin_unchanged name_parblock_dispatch_worker.
Proof. exact pin_parblock_dispatch_worker. Qed.
(* Config::from(&Opts) is one struct literal with no `..default` tail, and every option other than the worker count
   and the block size reaches the library unchanged under its own name *)
Theorem C08_src_options_reach_config : forall f e, List.In (f, e) x_config_fields ->
  f <> "workers"%string -> f <> "block_size"%string -> e = ("opts." ++ f)%string.
Proof. exact x_config_fields_plain. Qed.
Print Assumptions C08_src_options_reach_config.
Print Assumptions C08_src_pin_parblock_new.
Print Assumptions C08_src_pin_parfile_new.
Print Assumptions C08_src_pin_mod_load_driver.
Print Assumptions C08_src_pin_operations_new.
Print Assumptions C08_src_pin_parfile_copy_worker.
Print Assumptions C08_src_pin_parblock_dispatch_worker.

(* ---- more glue on this property's path, pinned token for token ---- *)
From XcpPins Require Import Pin_operations_tree_walker.
Theorem C08_src_pin_operations_tree_walker : pin_unchanged name_operations_tree_walker.
Proof. exact pin_operations_tree_walker. Qed.
Print Assumptions C08_src_pin_operations_tree_walker.

(* ---- what xcp does with what it finds at the mapped destination (DestMatrix.v; every cell compared with the binary
   on every run) ---- *)
From XcpModel Require Import DestMatrix.
From XcpProofs Require Import DestMatrixProofs.
Theorem C08_whatever_exists_is_refused : forall s d, d <> DAbsent -> dest_outcome s d ONoClobber = Refused.
Proof. exact noclobber_refuses_everything_existing. Qed.
Print Assumptions C08_whatever_exists_is_refused.

(* ---- an operand that is a symbolic link (no --dereference) is re-created as a link and NOT descended into: the walk is
   that one action (model), and the iterator follows a root link exactly when dereferencing (translated source) — what
   lies where the fresh link points, inside the destination or anywhere else, is never written through it ---- *)
From XcpProofs Require Import WalkerProofs XWalker.
From Coq Require Import String.
Theorem C08_link_operand_is_one_action : forall cfg keep dexists text res,
  w_deref cfg = false -> keep [] (tree_is_dir false (TLink text res)) = true ->
  walk cfg keep dexists [] (TLink text res) =
    if w_no_clobber cfg && dexists [] then ([WErr 1 []], false) else ([WLink [] text], true).
Proof. exact link_operand_is_one_action. Qed.
Theorem C08_src_root_link_followed_iff_deref :
  List.nth 2 x_walker_iterator ""%string = "follow_root_links(config.dereference)"%string.
Proof. destruct x_walker_shape_ok as (_ & _ & Hi & _). rewrite Hi. reflexivity. Qed.
Print Assumptions C08_link_operand_is_one_action.
Print Assumptions C08_src_root_link_followed_iff_deref.

(* ---- further functions on this property's path, pinned token for token as validated (dependency review after rounds 5 and 6:
   each missed change had edited a pinned function that this property did not cite) ---- *)
From XcpPins Require Import Pin_main_main Pin_backup_needs_backup Pin_operations_copy_file Pin_parblock_queue_file_blocks Pin_linux_copy_node Pin_common_is_same_file.
Theorem C08_src_pin_main_main : pin_unchanged name_main_main.
Proof. exact pin_main_main. Qed.
Theorem C08_src_pin_backup_needs_backup : pin_unchanged name_backup_needs_backup.
Proof. exact pin_backup_needs_backup. Qed.
Theorem C08_src_pin_operations_copy_file : pin_unchanged name_operations_copy_file.
Proof. exact pin_operations_copy_file. Qed.
Theorem C08_src_pin_parblock_queue_file_blocks : pin_unchanged name_parblock_queue_file_blocks.
Proof. exact pin_parblock_queue_file_blocks. Qed.
Theorem C08_src_pin_linux_copy_node : pin_unchanged name_linux_copy_node.
Proof. exact pin_linux_copy_node. Qed.
Theorem C08_src_pin_common_is_same_file : pin_unchanged name_common_is_same_file.
Proof. exact pin_common_is_same_file. Qed.
Print Assumptions C08_src_pin_main_main.
Print Assumptions C08_src_pin_backup_needs_backup.
Print Assumptions C08_src_pin_operations_copy_file.
Print Assumptions C08_src_pin_parblock_queue_file_blocks.
Print Assumptions C08_src_pin_linux_copy_node.
Print Assumptions C08_src_pin_common_is_same_file.
