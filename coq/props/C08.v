(* C08 — --no-clobber never alters anything that already exists.
   Model after `fix: --no-clobber treats a dangling symlink as existing`
   (`dexists` is lstat-existence of the mapped target). *)
From XcpModel Require Import Base Backup Paths Walker Meta.
From XcpProofs Require Import WalkerProofs MetaProofs.
From XcpModel Require Import Extracted.
From XcpProofs Require Import ExtractedOk.
From Coq Require Import String.

(* no operation (copy, link, mkdir, mknod) is ever emitted for a target that
   exists — in successful AND failing walks, for every tree and matcher *)
Theorem C08_noclobber_no_op_on_existing : forall cfg keep dex r t acts ok a q,
  w_no_clobber cfg = true -> walk cfg keep dex r t = (acts, ok) ->
  In a acts -> is_err a = false -> act_rel a = Some q -> dex q = false.
Proof. exact walk_noclobber_untouched. Qed.

(* a source entry mapping onto an existing destination entry makes the walk fail *)
Theorem C08_noclobber_collision_fails : forall cfg keep dex r t e,
  w_no_clobber cfg = true -> In e (sel_entries keep (w_deref cfg) r t) -> dex (e_rel e) = true ->
  snd (walk cfg keep dex r t) = false.
Proof. exact walk_noclobber_collision_fails. Qed.

(* frame: applying the emitted operations leaves every existing entry exactly
   as it was (directories may gain children) *)
Theorem C08_noclobber_frame : forall cfg keep r t acts ok (d : dmap),
  w_no_clobber cfg = true ->
  walk cfg keep (fun q => match d q with Some _ => true | None => false end) r t = (acts, ok) ->
  forall q k, d q = Some k -> apply_walk d acts q = Some k.
Proof. exact walk_noclobber_frame. Qed.

(* the worker-side check for special files *)
Theorem C08_special_worker_refuses : forall umask src,
  special_worker true true umask src = None.
Proof. reflexivity. Qed.

(* ---- tie to the current source (translator): the no-clobber check precedes the dispatch, ends the walk, and
   probes the target with lstat (a dangling link counts as existing) ---- *)
Theorem C08_src_noclobber_check :
  x_walker_noclobber_stops_before_dispatch = true /\
  x_walker_noclobber_condition = "config.no_clobber&&target.symlink_metadata().is_ok()"%string.
Proof. split; [apply x_walker_shape_ok|apply (proj1 (proj2 x_walker_shape_ok))]. Qed.

Print Assumptions C08_noclobber_no_op_on_existing.
Print Assumptions C08_noclobber_collision_fails.
Print Assumptions C08_noclobber_frame.
Print Assumptions C08_special_worker_refuses.
Print Assumptions C08_src_noclobber_check.
