(* C14 — FIFOs, sockets and character devices are recreated as identical nodes. *)
From XcpModel Require Import Base Meta.
From XcpProofs Require Import MetaProofs.
From XcpModel Require Import Extracted.
From XcpProofs Require Import XMeta.

(* same type, permission bits limited by the umask, same device number, for
   all kinds, modes, umasks, majors and minors *)
Theorem C14_node_identical : forall umask src,
  n_type (copy_node umask src) = n_type src /\
  n_mode (copy_node umask src) = N.land (N.land (n_mode src) PERM_MASK) (PERM_MASK - N.land umask PERM_MASK) /\
  (n_type src = 5 -> n_rdev (copy_node umask src) = n_rdev src).
Proof. exact copy_node_spec. Qed.

(* sockets, FIFOs and character devices go to mknod (never opened); block
   devices and unknown kinds are errors *)
Theorem C14_classification : forall ft,
  (classify ft = OpSpecial <-> ft = 3 \/ ft = 4 \/ ft = 5) /\
  (ft = 6 \/ 7 <= ft -> classify ft = OpErrUnsupported).
Proof. exact classify_spec. Qed.

(* an existing entry is replaced unless no-clobber is set, in which case the
   worker fails without touching it *)
Theorem C14_replace_unless_noclobber : forall nc ex same umask src,
  (ex = true -> nc = true -> special_worker nc ex same umask src = None) /\
  (ex = true -> nc = false -> same = true -> special_worker nc ex same umask src = None) /\
  (ex = true -> nc = false -> same = false -> special_worker nc ex same umask src = Some [SpUnlink; SpMknod (copy_node umask src)]) /\
  (ex = false -> special_worker nc ex same umask src = Some [SpMknod (copy_node umask src)]).
Proof. exact special_worker_spec. Qed.

Example C14_nonvacuous : copy_node 18 (mkNode 5 420 (300 * 1048576 + 70000)) = mkNode 5 420 (300 * 1048576 + 70000).
Proof. vm_compute. reflexivity. Qed.

(* ---- tie to the current source (translator): the model's definitions used above are
   EQUAL to what /verif/xlate extracts from the repository on this run ---- *)
Theorem C14_src_device_number_is_rdev : x_copy_node_uses_rdev = 1%N.
Proof. exact x_copy_node_uses_rdev_ok. Qed.

Theorem C14_src_special_arms : forall nc ex same umask src,
  special_code (special_worker nc ex same umask src) = x_parfile_special nc ex same /\
  special_code (special_worker nc ex same umask src) = x_parblock_special nc ex same.
Proof. exact x_special_ok. Qed.

Print Assumptions C14_node_identical.
Print Assumptions C14_classification.
Print Assumptions C14_replace_unless_noclobber.
Print Assumptions C14_src_device_number_is_rdev.
Print Assumptions C14_src_special_arms.

(* ---- further glue on this property's path, pinned token for token (an edit re-opens the obligation; the run then
   looks for a failing input) ---- *)
From XcpPins Require Import Pin_linux_copy_node Pin_common_is_same_file Pin_parfile_copy_worker Pin_parblock_dispatch_worker Pin_main_main.
From XcpProofs Require Import PinnedSource.
Theorem C14_src_pin_linux_copy_node : pin_unchanged name_linux_copy_node.
Proof. exact pin_linux_copy_node. Qed.
Theorem C14_src_pin_common_is_same_file : pin_unchanged name_common_is_same_file.
Proof. exact pin_common_is_same_file. Qed.
Theorem C14_src_pin_parfile_copy_worker : pin_unchanged name_parfile_copy_worker.
Proof. exact pin_parfile_copy_worker. Qed.
Theorem C14_src_pin_parblock_dispatch_worker : pin_unchanged name_parblock_dispatch_worker.
Proof. exact pin_parblock_dispatch_worker. Qed.
Theorem C14_src_pin_main_main : pin_unchanged name_main_main.
Proof. exact pin_main_main. Qed.
Print Assumptions C14_src_pin_linux_copy_node.
Print Assumptions C14_src_pin_common_is_same_file.
Print Assumptions C14_src_pin_parfile_copy_worker.
Print Assumptions C14_src_pin_parblock_dispatch_worker.
Print Assumptions C14_src_pin_main_main.

(* a special file is never replaced by itself: when the existing target is the source node (an alias through a
   symlinked directory) the worker performs no action at all — repair 53f6ade *)
From XcpProofs Require Import MetaProofs.
Theorem C14_never_unlinks_its_source : forall nc umask src, special_worker nc true true umask src = None.
Proof. exact special_worker_never_unlinks_source. Qed.
Print Assumptions C14_never_unlinks_its_source.
