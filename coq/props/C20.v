(* C20 — open descriptors stay bounded regardless of how many files are copied.

   A handle (two descriptors: source and destination) is open from
   CopyHandle::new until its last reference is dropped.  In parblock the
   holders of references are the jobs in the pool's bounded queue (at most Q,
   128 in the source), the jobs running on the W pool workers, and the
   dispatcher itself; in parfile each of the W workers holds at most one.
   Neither bound mentions the number of files. *)
From XcpModel Require Import Base ConcBlock ConcFile.
From XcpProofs Require Import ConcBlockProofs ConcFileProofs.
From XcpModel Require Import Extracted.
From XcpProofs Require Import XBlocks XConfig.
From Coq Require Import Lia.
From XcpProofs Require Import PinnedSource.
From XcpPins Require Import Pin_parfile_copy_worker Pin_parblock_queue_file_range Pin_parblock_dispatch_worker.
Local Open Scope nat_scope.

Theorem C20_parblock_open_bound : forall W Q ops s, reachable W Q ops s -> length (b_open s) <= Q + W + 1.
Proof. exact reachable_open_bound. Qed.

Theorem C20_parfile_open_bound : forall W ops s, freachable W ops s -> length (f_run s) <= W.
Proof. exact parfile_open_bound. Qed.

(* with the source's queue length and at most 64 workers, two descriptors per
   handle, walkdir's (at most 10) directory handles and 16 descriptors of slack
   for stdio, the log and the progress bar stay below the default limit of 1024 *)
Theorem C20_default_limit : forall W ops s, W <= 64 -> reachable W 128 ops s ->
  2 * length (b_open s) + 10 + 16 <= 1024.
Proof. intros W ops s HW Hr. pose proof (reachable_open_bound W 128 ops s Hr). lia. Qed.

(* the bound is attained (so the measured peak in the correspondence check must
   EQUAL 2*(Q+W+1) when the workers are held): W = 1, Q = 1, three one-block files *)
Example C20_bound_attained :
  let s := run_sched 1 1 (init [OCopy [0]; OCopy [0]; OCopy [0]])
    [LWalk; LWalk; LWalk; LWalk; LDisp; LDisp; LTake; LDisp; LDisp; LDisp; LDisp; LDisp] in
  length (b_open s) = 3.
Proof. vm_compute. reflexivity. Qed.

(* ---- tie to the current source (translator): the model's definitions used above are
   EQUAL to what /verif/xlate extracts from the repository on this run ---- *)
Theorem C20_src_pool_queue_len : x_pool_queue_len = 128%N.
Proof. exact x_pool_queue_len_ok. Qed.

(* ---- the glue functions this property's hand-written model mirrors are, token for token, the ones it was
   validated against (an edit re-opens the obligation; harness/repin.py re-pins after re-validation) ---- *)
Theorem C20_src_pin_parfile_copy_worker : pin_unchanged name_parfile_copy_worker.
Proof. exact pin_parfile_copy_worker. Qed.
Theorem C20_src_pin_parblock_queue_file_range : pin_unchanged name_parblock_queue_file_range.
Proof. exact pin_parblock_queue_file_range. Qed.
Theorem C20_src_pin_parblock_dispatch_worker : pin_unchanged name_parblock_dispatch_worker.
Proof. exact pin_parblock_dispatch_worker. Qed.

Print Assumptions C20_parblock_open_bound.
Print Assumptions C20_parfile_open_bound.
Print Assumptions C20_default_limit.
Print Assumptions C20_src_pool_queue_len.
Print Assumptions C20_src_pin_parfile_copy_worker.
Print Assumptions C20_src_pin_parblock_queue_file_range.
Print Assumptions C20_src_pin_parblock_dispatch_worker.

(* ---- further glue on this property's path, pinned token for token (an edit re-opens the obligation; the run then
   looks for a failing input) ---- *)
From XcpPins Require Import Pin_operations_finalise_copy Pin_operations_drop Pin_parfile_copy Pin_parblock_copy.
Theorem C20_src_pin_operations_finalise_copy : pin_unchanged name_operations_finalise_copy.
Proof. exact pin_operations_finalise_copy. Qed.
Theorem C20_src_pin_operations_drop : pin_unchanged name_operations_drop.
Proof. exact pin_operations_drop. Qed.
Theorem C20_src_pin_parfile_copy : pin_unchanged name_parfile_copy.
Proof. exact pin_parfile_copy. Qed.
Theorem C20_src_pin_parblock_copy : pin_unchanged name_parblock_copy.
Proof. exact pin_parblock_copy. Qed.
(* the worker count both drivers start with is >= 1 whatever -w says (0 = one per CPU; a machine has >= 1): the
   hypothesis `1 <= W` of the driver theorems, from the two translated definitions *)
Theorem C20_src_workers_at_least_one : forall w ncpus, (1 <= ncpus)%N -> (1 <= x_num_workers (x_config_workers w ncpus) ncpus)%N.
Proof. exact x_workers_at_least_one. Qed.
Print Assumptions C20_src_workers_at_least_one.
Print Assumptions C20_src_pin_operations_finalise_copy.
Print Assumptions C20_src_pin_operations_drop.
Print Assumptions C20_src_pin_parfile_copy.
Print Assumptions C20_src_pin_parblock_copy.
