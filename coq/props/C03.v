(* C03 — sources and bystander files are never modified, even by self-copies or
   kills.  Model after `fix: refuse to copy a file onto itself through an
   alias` (CopyHandle::new) and the inode check in main's validation. *)
From XcpModel Require Import Base Backup Walker Meta Ops.
From XcpProofs Require Import OpsProofs.
From XcpModel Require Import Extracted.
From XcpProofs Require Import XOps.
From XcpProofs Require Import PinnedSource.
From XcpPins Require Import Pin_operations_new Pin_common_is_same_file.

(* every key a copy operation can change — in any prefix of its execution,
   i.e. wherever it is killed or fails — is its own target or that target's
   numbered backup; never a source, never another entry *)
Theorem C03_writes_only_mapped : forall fc src dst e n a k,
  In a (firstn n (fst (copy_actions fc src dst e))) -> In k (mutated a) -> owned dst k.
Proof. exact copy_prefix_mutations_owned. Qed.

Theorem C03_source_only_read : forall fc src dst e a k,
  In a (fst (copy_actions fc src dst e)) -> In k (mutated a) -> is_src k = false.
Proof. exact copy_never_mutates_source. Qed.

(* links and special files: same *)
Theorem C03_link_special_only_mapped :
  (forall dst text a k, In a (link_actions dst text) -> In k (mutated a) -> owned dst k) /\
  (forall nc src dst ex same a k, In a (fst (special_actions nc src dst ex same)) -> In k (mutated a) -> owned dst k).
Proof. exact link_special_mutations_owned. Qed.

(* ... and a special file whose existing target IS the source node (reached through a symlinked directory) is refused
   before any mutating action — it used to be unlinked (repair in round 3) *)
Theorem C03_special_no_self_unlink : forall nc src dst,
  snd (special_actions nc src dst true true) = false /\
  forall a, In a (fst (special_actions nc src dst true true)) -> mutated a = [].
Proof. exact special_alias_refused. Qed.

(* nothing is created THROUGH a dangling symbolic link found at the destination (the file would appear wherever the
   link points — a bystander location): refused before any mutating action *)
Theorem C03_no_write_through_dangling_link : forall fc src dst e,
  ce_dst_exists e = false ->
  snd (copy_actions_d true fc src dst e) = false /\
  forall a, In a (fst (copy_actions_d true fc src dst e)) -> mutated a = [].
Proof. exact copy_dangling_refused. Qed.

(* an operation whose target denotes the source itself (same device+inode,
   however it is spelled: ./f, d/../f, symlink, hard link) is refused before
   ANY mutating action: nothing is truncated, renamed or created *)
Theorem C03_no_self_overwrite : forall fc src dst e,
  ce_dst_exists e = true -> ce_same_file e = true ->
  snd (copy_actions fc src dst e) = false /\
  forall a, In a (fst (copy_actions fc src dst e)) -> mutated a = [].
Proof. exact copy_alias_refused. Qed.

(* the pinned order (create+truncate before any identity check) zeroed the
   source: in the pinned action list ACreateTrunc on the alias came first *)
Example C03_nonvacuous :
  let e := mkEnv true false (Some 3) 10 false true [(0, 10)] 1 in
  snd (copy_actions (mkFin false false true true) [[97]] [[98]] e) = true /\
  length (fst (copy_actions (mkFin false false true true) [[97]] [[98]] e)) = 15%nat.
Proof. vm_compute. split; reflexivity. Qed.

(* ---- tie to the current source (translator): the order of the steps of CopyHandle::new — in particular the
   same-file check (23) and the dangling-link check (26: lstat of a destination the probe called absent) come after
   the probe of the destination (22) and BEFORE the first mutating step (rename 1, create+truncate 2, size 3) ---- *)
Theorem C03_src_copy_new_order : x_copy_new_steps = [20; 21; 22; 23; 98; 26; 98; 26; 29; 98; 27; 97; 24; 25; 1; 2; 28; 3]%N.
Proof. exact x_copy_new_steps_ok. Qed.

(* ---- the glue functions this property's hand-written model mirrors are, token for token, the ones it was
   validated against (an edit re-opens the obligation; harness/repin.py re-pins after re-validation) ---- *)
Theorem C03_src_pin_operations_new : pin_unchanged name_operations_new.
Proof. exact pin_operations_new. Qed.
Theorem C03_src_pin_common_is_same_file : pin_unchanged name_common_is_same_file.
Proof. exact pin_common_is_same_file. Qed.

Print Assumptions C03_writes_only_mapped.
Print Assumptions C03_source_only_read.
Print Assumptions C03_link_special_only_mapped.
Print Assumptions C03_no_self_overwrite.
Print Assumptions C03_src_copy_new_order.
Print Assumptions C03_src_pin_operations_new.
Print Assumptions C03_src_pin_common_is_same_file.

(* ---- further glue on this property's path, pinned token for token (an edit re-opens the obligation; the run then
   looks for a failing input) ---- *)
From XcpPins Require Import Pin_parfile_copy_worker Pin_parblock_dispatch_worker.
Theorem C03_src_pin_parfile_copy_worker : pin_unchanged name_parfile_copy_worker.
Proof. exact pin_parfile_copy_worker. Qed.
Theorem C03_src_pin_parblock_dispatch_worker : pin_unchanged name_parblock_dispatch_worker.
Proof. exact pin_parblock_dispatch_worker. Qed.
Print Assumptions C03_src_pin_parfile_copy_worker.
Print Assumptions C03_src_pin_parblock_dispatch_worker.
Print Assumptions C03_special_no_self_unlink.
Print Assumptions C03_no_write_through_dangling_link.

(* ---- more glue on this property's path, pinned token for token ---- *)
From XcpPins Require Import Pin_operations_tree_walker.
Theorem C03_src_pin_operations_tree_walker : pin_unchanged name_operations_tree_walker.
Proof. exact pin_operations_tree_walker. Qed.
Print Assumptions C03_src_pin_operations_tree_walker.

(* ---- further functions on this property's path, pinned token for token as validated (dependency review after rounds 5 and 6:
   each missed change had edited a pinned function that this property did not cite) ---- *)
From XcpPins Require Import Pin_main_main Pin_main_expand_sources Pin_linux_copy_node Pin_backup_get_backup_path Pin_operations_finalise_copy Pin_operations_drop Pin_operations_copy_file Pin_parblock_queue_file_blocks.
Theorem C03_src_pin_main_main : pin_unchanged name_main_main.
Proof. exact pin_main_main. Qed.
Theorem C03_src_pin_main_expand_sources : pin_unchanged name_main_expand_sources.
Proof. exact pin_main_expand_sources. Qed.
Theorem C03_src_pin_linux_copy_node : pin_unchanged name_linux_copy_node.
Proof. exact pin_linux_copy_node. Qed.
Theorem C03_src_pin_backup_get_backup_path : pin_unchanged name_backup_get_backup_path.
Proof. exact pin_backup_get_backup_path. Qed.
Theorem C03_src_pin_operations_finalise_copy : pin_unchanged name_operations_finalise_copy.
Proof. exact pin_operations_finalise_copy. Qed.
Theorem C03_src_pin_operations_drop : pin_unchanged name_operations_drop.
Proof. exact pin_operations_drop. Qed.
Theorem C03_src_pin_operations_copy_file : pin_unchanged name_operations_copy_file.
Proof. exact pin_operations_copy_file. Qed.
Theorem C03_src_pin_parblock_queue_file_blocks : pin_unchanged name_parblock_queue_file_blocks.
Proof. exact pin_parblock_queue_file_blocks. Qed.
Print Assumptions C03_src_pin_main_main.
Print Assumptions C03_src_pin_main_expand_sources.
Print Assumptions C03_src_pin_linux_copy_node.
Print Assumptions C03_src_pin_backup_get_backup_path.
Print Assumptions C03_src_pin_operations_finalise_copy.
Print Assumptions C03_src_pin_operations_drop.
Print Assumptions C03_src_pin_operations_copy_file.
Print Assumptions C03_src_pin_parblock_queue_file_blocks.
