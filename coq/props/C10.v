(* C10 — permissions, timestamps, xattrs and ownership are preserved as requested.
   Finalisation runs after the file's last write in every schedule: that is
   C06/C18's `finalise_after_last_write`. *)
From XcpModel Require Import Base Meta.
From XcpProofs Require Import MetaProofs.
From XcpModel Require Import Extracted.
From XcpProofs Require Import XMeta.
From XcpModel Require Import Walker Ops ConcBlock ConcOutcome.
From XcpProofs Require Import OpsProofs ConcBlockProofs ConcOutcomeProofs.
From Coq Require Import Permutation.
From XcpProofs Require Import PinnedSource.
From XcpPins Require Import Pin_common_copy_owner Pin_common_copy_permissions Pin_common_copy_timestamps Pin_operations_finalise_copy.

(* for ALL modes (0..07777 and beyond: masked), times, xattr sets, uid/gid and
   flag combinations, and any previous destination metadata *)
Theorem C10_meta_preserved : forall c src dst,
  let d' := finalise c src dst in
  (c_no_perms c = false -> m_mode d' = N.land (m_mode src) PERM_MASK) /\
  (c_no_perms c = false -> forall k v, last_binding (m_xattr src) k = Some v -> xattr_get (m_xattr d') k = Some v) /\
  (c_no_timestamps c = false -> m_mtime d' = m_mtime src /\ m_atime d' = m_atime src) /\
  (c_ownership c = true -> m_uid d' = m_uid src /\ m_gid d' = m_gid src) /\
  (c_no_perms c = true -> c_ownership c = false -> m_mode d' = m_mode dst) /\
  (c_no_perms c = true -> m_xattr d' = m_xattr dst) /\
  (c_no_timestamps c = true -> m_mtime d' = m_mtime dst /\ m_atime d' = m_atime dst) /\
  (c_ownership c = false -> m_uid d' = m_uid dst /\ m_gid d' = m_gid dst).
Proof. exact finalise_preserves. Qed.

(* in particular: ownership no longer costs a permission bit *)
Theorem C10_ownership_keeps_setid : forall src dst nt fs,
  m_mode (finalise (mkFin false nt true fs) src dst) = N.land (m_mode src) PERM_MASK.
Proof. intros. now apply (finalise_preserves (mkFin false nt true fs) src dst). Qed.

(* no-perms / no-timestamps issue no corresponding action at all *)
Theorem C10_flags_suppress_actions : forall c src,
  (c_no_perms c = true -> forall a, In a (finalise_actions c src) ->
     match a with FChmod _ | FSetxattr _ _ => False | _ => True end) /\
  (c_no_timestamps c = true -> forall a, In a (finalise_actions c src) ->
     match a with FUtimens _ _ => False | _ => True end) /\
  (c_ownership c = false -> forall a, In a (finalise_actions c src) ->
     match a with FChown _ _ => False | _ => True end).
Proof.
  intros [np nt ow fs] src. unfold finalise_actions. cbn [c_no_perms c_no_timestamps c_ownership c_fsync].
  repeat split; intros -> a Hin; repeat (apply in_app_or in Hin; destruct Hin as [Hin|Hin]);
    try (destruct ow; [destruct Hin as [<-|[]]|destruct Hin]; exact I);
    try (destruct nt; [destruct Hin|destruct Hin as [<-|[]]]; exact I);
    try (destruct fs; [destruct Hin as [<-|[]]|destruct Hin]; exact I);
    try (destruct Hin; fail);
    try (destruct np; [destruct Hin|]; apply in_app_or in Hin; destruct Hin as [Hin|[<-|[]]];
         [apply in_map_iff in Hin; destruct Hin as (? & <- & _)|]; exact I).
Qed.

(* a fresh destination under --no-perms has the creation default, an existing one keeps its mode *)
Theorem C10_create_mode : forall umask m,
  k_create_mode umask (Some m) = m /\
  k_create_mode umask None = N.land 438 (PERM_MASK - N.land umask PERM_MASK).
Proof. intros; split; reflexivity. Qed.

(* the pinned tree violated the ownership clause (repaired; known_findings.jsonl) *)
Check ownership_clears_suid_refuted.

Example C10_nonvacuous :
  m_mode (finalise (mkFin false false true true) (mkMeta 3565 1000 100 5 6 [(1, 9)]) (mkMeta 420 0 0 0 0 [])) = 3565.
Proof. vm_compute. reflexivity. Qed.

(* ---- tie to the current source (translator): the model's definitions used above are
   EQUAL to what /verif/xlate extracts from the repository on this run ---- *)
Theorem C10_src_finalise_order : forall c src,
  finalise_actions c src =
  flat_map (fun s => if step_enabled c s then actions_of_step (fst s) src else []) x_finalise_order.
Proof. exact x_finalise_order_ok. Qed.

(* a file's metadata is applied only after its last byte has been written, in EVERY schedule of parblock:
   the calls on file h are [open .. sizing .. clone .. every block's data] ++ [ownership, xattrs, mode, times, fsync] *)
Theorem C10_metadata_after_data_in_every_schedule : forall W Q ops s h js fc src dst e0 blk,
  reachable W Q ops s -> final s = true -> nth_error ops h = Some (OCopy js) ->
  ce_dst_exists e0 && ce_same_file e0 = false -> ce_cloned e0 = false ->
  exists bs A F,
    Permutation bs js /\
    flat_map (ev_actions fc src dst e0 blk) (events_of h (b_ev s)) = A ++ F /\
    existsb is_meta A = false /\ existsb data_or_sizing F = false.
Proof.
  intros W Q ops s h js fc src dst e0 blk Hr Hf Hn Hsame Hcl.
  destruct (parblock_any_schedule W Q ops s Hr Hf) as [H _]. specialize (H h _ Hn).
  destruct (phase_of h (b_ev s)) as [|bs0|bs| |] eqn:Eph; try contradiction. cbn [outcome_ok] in H.
  destruct (history_is_copy_actions fc src dst e0 blk h (b_ev s) bs Eph Hsame Hcl) as [Hacts Hok].
  destruct (copy_actions fc src dst (with_writes e0 (map blk (rev bs)))) as [l ok] eqn:Ec. cbn [fst snd] in *. subst ok.
  destruct (copy_actions_order fc src dst _ l Ec) as (A & F & Hl & HA & HF & _).
  exists bs, A, F. rewrite Hacts, Hl. auto.
Qed.

(* ---- the glue functions this property's hand-written model mirrors are, token for token, the ones it was
   validated against (an edit re-opens the obligation; harness/repin.py re-pins after re-validation) ---- *)
Theorem C10_src_pin_common_copy_owner : pin_unchanged name_common_copy_owner.
Proof. exact pin_common_copy_owner. Qed.
Theorem C10_src_pin_common_copy_permissions : pin_unchanged name_common_copy_permissions.
Proof. exact pin_common_copy_permissions. Qed.
Theorem C10_src_pin_common_copy_timestamps : pin_unchanged name_common_copy_timestamps.
Proof. exact pin_common_copy_timestamps. Qed.
Theorem C10_src_pin_operations_finalise_copy : pin_unchanged name_operations_finalise_copy.
Proof. exact pin_operations_finalise_copy. Qed.

Print Assumptions C10_meta_preserved.
Print Assumptions C10_ownership_keeps_setid.
Print Assumptions C10_flags_suppress_actions.
Print Assumptions C10_create_mode.
Print Assumptions C10_src_finalise_order.
Print Assumptions C10_metadata_after_data_in_every_schedule.
Print Assumptions C10_src_pin_common_copy_owner.
Print Assumptions C10_src_pin_common_copy_permissions.
Print Assumptions C10_src_pin_common_copy_timestamps.
Print Assumptions C10_src_pin_operations_finalise_copy.

(* ---- further glue on this property's path, pinned token for token (an edit re-opens the obligation; the run then
   looks for a failing input) ---- *)
From XcpPins Require Import Pin_common_copy_xattr Pin_operations_new.
Theorem C10_src_pin_common_copy_xattr : pin_unchanged name_common_copy_xattr.
Proof. exact pin_common_copy_xattr. Qed.
Theorem C10_src_pin_operations_new : pin_unchanged name_operations_new.
Proof. exact pin_operations_new. Qed.
Print Assumptions C10_src_pin_common_copy_xattr.
Print Assumptions C10_src_pin_operations_new.

(* ---- nothing is carried from one file of a run to the next: the inventory of process-wide state (statics,
   thread-locals, umask calls) of the current source, regenerated by the translator on every run ---- *)
From XcpProofs Require Import XState.
From Coq Require Import String.
Theorem C10_src_no_state_carried_between_files :
  x_static_items = ["libxcp/src/backup.rs::BAK_REGEX"; "libxcp/src/operations.rs::BACKUP_STEP"]%string /\ x_thread_locals = [] /\ x_umask_calls = 0%N.
Proof. exact x_process_wide_state_ok. Qed.
Print Assumptions C10_src_no_state_carried_between_files.

(* ---- more glue on this property's path, pinned token for token ---- *)
From XcpPins Require Import Pin_operations_drop.
Theorem C10_src_pin_operations_drop : pin_unchanged name_operations_drop.
Proof. exact pin_operations_drop. Qed.
Print Assumptions C10_src_pin_operations_drop.

(* ---- further functions on this property's path, pinned token for token as validated (dependency review after rounds 5 and 6:
   each missed change had edited a pinned function that this property did not cite) ---- *)
From XcpPins Require Import Pin_parfile_copy_worker Pin_parblock_dispatch_worker Pin_parblock_queue_file_blocks Pin_operations_copy_file.
Theorem C10_src_pin_parfile_copy_worker : pin_unchanged name_parfile_copy_worker.
Proof. exact pin_parfile_copy_worker. Qed.
Theorem C10_src_pin_parblock_dispatch_worker : pin_unchanged name_parblock_dispatch_worker.
Proof. exact pin_parblock_dispatch_worker. Qed.
Theorem C10_src_pin_parblock_queue_file_blocks : pin_unchanged name_parblock_queue_file_blocks.
Proof. exact pin_parblock_queue_file_blocks. Qed.
Theorem C10_src_pin_operations_copy_file : pin_unchanged name_operations_copy_file.
Proof. exact pin_operations_copy_file. Qed.
Print Assumptions C10_src_pin_parfile_copy_worker.
Print Assumptions C10_src_pin_parblock_dispatch_worker.
Print Assumptions C10_src_pin_parblock_queue_file_blocks.
Print Assumptions C10_src_pin_operations_copy_file.
