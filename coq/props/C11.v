(* C11 — holes stay holes.  What is provable: WHICH byte ranges xcp writes.
   How ext4 allocates blocks for those writes is runtime behaviour, observed by
   the correspondence check (st_blocks), not proved. *)
From XcpModel Require Import Base Extents Sparse Blocks CopyLoop FileCopy.
From XcpProofs Require Import ExtentsProofs SparseProofs BlocksProofs CopyLoopProofs FileCopyProofs.
From XcpModel Require Import Extracted.
From XcpProofs Require Import XExtents XLoops.
From Coq Require Import Permutation.

(* parfile, sparse source: exactly the data segments are written — no byte of a
   hole is ever written, for every layout and block size *)
Theorem C11_parfile_writes_only_data : forall fuel bs m len clone L ans i,
  layout_ok 0 len L ->
  let o := parfile_copy_file fuel bs m len true clone (k_seek_data L len) (k_seek_hole L len) ans in
  f_st o = StOk -> f_cloned o = false -> ans_bounded (f_trace o) ->
  ~ in_data L i -> src_of (f_trace o) i = None.
Proof.
  intros fuel bs m len clone L ans i HL o Hst Hc Hb Hn.
  destruct (parfile_file_exact fuel bs m len true clone L ans HL Hst Hc Hb i) as [_ Hs].
  now apply (proj2 (Hs eq_refl)).
Qed.

(* parblock, sparse source with an extent map: only extent bytes and the
   one-byte adjacency gaps merge_extents adds are written, in every completion
   order — independent of hole sizes *)
Theorem C11_parblock_writes_only_extents : forall bs m len clone l ans i,
  0 < bs ->
  let o := parblock_copy_file bs m len true clone (MxSome l) ans in
  f_st o = StOk -> f_cloned o = false -> ans_bounded (f_trace o) ->
  forall tr', Permutation (f_trace o) tr' ->
  ~ covered l i -> ~ In i (gap_bytes l) -> src_of tr' i = None.
Proof.
  intros bs m len clone l ans i Hbs o Hst Hc Hb tr' Hp Hn Hg.
  destruct (parblock_file_exact bs m len true clone (MxSome l) ans Hbs Hst Hc Hb) as (ranges & Hr & Hx).
  apply (proj2 (Hx tr' Hp i)). intros Hin.
  destruct (pb_ranges_extents_only _ _ _ _ Hr Hin); contradiction.
Qed.

(* entirely empty file: nothing is written at all *)
Theorem C11_entirely_empty_parfile : forall fuel bs m len clone ans,
  let o := parfile_copy_file fuel bs m len true clone (k_seek_data [] len) (k_seek_hole [] len) ans in
  f_st o = StOk -> f_cloned o = false -> ans_bounded (f_trace o) ->
  forall i, src_of (f_trace o) i = None.
Proof.
  intros fuel bs m len clone ans o Hst Hc Hb i.
  assert (layout_ok 0 len []) as HL by exact I.
  destruct (parfile_file_exact fuel bs m len true clone [] ans HL Hst Hc Hb i) as [_ Hs].
  apply (proj2 (Hs eq_refl)). intros (s & e & [] & _).
Qed.

Theorem C11_entirely_empty_parblock : forall bs m len clone ans,
  f_trace (parblock_copy_file bs m len true clone (MxSome []) ans) = [].
Proof.
  intros bs m len clone ans. unfold parblock_copy_file.
  destruct (try_reflink m clone) as [iss [| |e]]; reflexivity.
Qed.

(* overwrite: the pre-existing allocation is released before sizing
   (O_TRUNC to length 0, then ftruncate(len)): every byte is a hole again *)
Theorem C11_overwrite_starts_empty : forall old len i,
  fc_byte (handle_new_dest old len) i = 0 /\ fc_len (open_trunc old) = 0.
Proof.
  intros old len i. unfold handle_new_dest, ftruncate_to, open_trunc. cbn. split; [|reflexivity].
  destruct (i <? N.min 0 len); reflexivity.
Qed.

(* the sparseness heuristic *)
Theorem C11_probably_sparse_spec : forall blocks size,
  probably_sparse blocks size = true <-> blocks < size / 512.
Proof. intros. unfold probably_sparse. apply N.ltb_lt. Qed.

Example C11_nonvacuous :
  let L := [(4096, 8192); (1052672, 1056768)] in
  let o := parfile_copy_file 5 65536 RfNever 2097152 true ClUnsup (k_seek_data L 2097152) (k_seek_hole L 2097152)
                             [XOk 4096; XOk 4096] in
  f_st o = StOk /\ length (f_trace o) = 2%nat /\ layout_okb 0 2097152 L = true.
Proof. vm_compute. repeat split. Qed.

(* ---- tie to the current source (translator): the model's definitions used above are
   EQUAL to what /verif/xlate extracts from the repository on this run ---- *)
Theorem C11_src_probably_sparse : forall blocks size, x_probably_sparse blocks size = probably_sparse blocks size.
Proof. exact x_probably_sparse_ok. Qed.

(* CopyHandle::copy_sparse, translated from the current source (next_sparse_segments and copy_bytes being the
   modelled helpers), is the model's sparse walk — for all fuel, lengths, block sizes, seek oracles and answers *)
Theorem C11_src_copy_sparse_loop : forall fuel sd sh flen bs ans,
  x_copy_sparse fuel sd sh flen bs ans = copy_sparse fuel bs flen 0 sd sh ans.
Proof. exact x_copy_sparse_ok. Qed.

Print Assumptions C11_parfile_writes_only_data.
Print Assumptions C11_parblock_writes_only_extents.
Print Assumptions C11_entirely_empty_parfile.
Print Assumptions C11_entirely_empty_parblock.
Print Assumptions C11_overwrite_starts_empty.
Print Assumptions C11_probably_sparse_spec.
Print Assumptions C11_src_probably_sparse.
Print Assumptions C11_src_copy_sparse_loop.

(* ---- further glue on this property's path, pinned token for token (an edit re-opens the obligation; the run then
   looks for a failing input) ---- *)
From XcpPins Require Import Pin_parblock_dispatch_worker Pin_common_allocate_file.
From XcpProofs Require Import PinnedSource.
Theorem C11_src_pin_parblock_dispatch_worker : pin_unchanged name_parblock_dispatch_worker.
Proof. exact pin_parblock_dispatch_worker. Qed.
Theorem C11_src_pin_common_allocate_file : pin_unchanged name_common_allocate_file.
Proof. exact pin_common_allocate_file. Qed.
Print Assumptions C11_src_pin_parblock_dispatch_worker.
Print Assumptions C11_src_pin_common_allocate_file.

(* ---- parblock::queue_file_blocks, translated: a sparse-looking file is queued range by range from the merged extent map (30 sparseness test, 42, 43, 44), the whole file otherwise (45) ---- *)
From XcpModel Require Import Ops.
From XcpProofs Require Import XOps.
Theorem C11_src_queue_file_blocks_steps : x_queue_file_blocks_steps = queue_file_blocks_steps.
Proof. exact x_queue_file_blocks_steps_ok. Qed.
Print Assumptions C11_src_queue_file_blocks_steps.

(* ---- nothing is carried from one file of a run to the next: the inventory of process-wide state (statics,
   thread-locals, umask calls) of the current source, regenerated by the translator on every run ---- *)
From XcpProofs Require Import XState.
From Coq Require Import String.
Theorem C11_src_no_state_carried_between_files :
  x_static_items = ["libxcp/src/backup.rs::BAK_REGEX"; "libxcp/src/operations.rs::BACKUP_STEP"]%string /\ x_thread_locals = [] /\ x_umask_calls = 0%N.
Proof. exact x_process_wide_state_ok. Qed.
Print Assumptions C11_src_no_state_carried_between_files.

(* ---- more glue on this property's path, pinned token for token ---- *)
From XcpPins Require Import Pin_operations_new Pin_parblock_queue_file_blocks Pin_operations_copy_file.
Theorem C11_src_pin_operations_new : pin_unchanged name_operations_new.
Proof. exact pin_operations_new. Qed.
Theorem C11_src_pin_parblock_queue_file_blocks : pin_unchanged name_parblock_queue_file_blocks.
Proof. exact pin_parblock_queue_file_blocks. Qed.
Theorem C11_src_pin_operations_copy_file : pin_unchanged name_operations_copy_file.
Proof. exact pin_operations_copy_file. Qed.
Print Assumptions C11_src_pin_operations_new.
Print Assumptions C11_src_pin_parblock_queue_file_blocks.
Print Assumptions C11_src_pin_operations_copy_file.

(* ---- further functions on this property's path, pinned token for token as validated (dependency review after rounds 5 and 6:
   each missed change had edited a pinned function that this property did not cite) ---- *)
From XcpPins Require Import Pin_linux_lseek Pin_linux_copy_file_offset Pin_linux_copy_file_bytes Pin_linux_try_copy_file_range Pin_parblock_queue_file_range Pin_operations_finalise_copy.
Theorem C11_src_pin_linux_lseek : pin_unchanged name_linux_lseek.
Proof. exact pin_linux_lseek. Qed.
Theorem C11_src_pin_linux_copy_file_offset : pin_unchanged name_linux_copy_file_offset.
Proof. exact pin_linux_copy_file_offset. Qed.
Theorem C11_src_pin_linux_copy_file_bytes : pin_unchanged name_linux_copy_file_bytes.
Proof. exact pin_linux_copy_file_bytes. Qed.
Theorem C11_src_pin_linux_try_copy_file_range : pin_unchanged name_linux_try_copy_file_range.
Proof. exact pin_linux_try_copy_file_range. Qed.
Theorem C11_src_pin_parblock_queue_file_range : pin_unchanged name_parblock_queue_file_range.
Proof. exact pin_parblock_queue_file_range. Qed.
Theorem C11_src_pin_operations_finalise_copy : pin_unchanged name_operations_finalise_copy.
Proof. exact pin_operations_finalise_copy. Qed.
Print Assumptions C11_src_pin_linux_lseek.
Print Assumptions C11_src_pin_linux_copy_file_offset.
Print Assumptions C11_src_pin_linux_copy_file_bytes.
Print Assumptions C11_src_pin_linux_try_copy_file_range.
Print Assumptions C11_src_pin_parblock_queue_file_range.
Print Assumptions C11_src_pin_operations_finalise_copy.
