(* C09 — numbered backups never lose a version, for any name and history.
   Names are arbitrary byte strings (including non-UTF-8). *)
From XcpModel Require Import Base Backup.
From XcpProofs Require Import BackupProofs.
From XcpModel Require Import Extracted.
From XcpProofs Require Import XBackup.
From Coq Require Import String.
From XcpProofs Require Import PinnedSource.
From XcpPins Require Import Pin_backup_get_backup_path Pin_backup_has_backup Pin_backup_is_num_backup Pin_operations_new.

(* the number chosen exceeds every backup number present for that name, and
   the chosen backup name does not exist yet (so rename never replaces one) *)
Theorem C09_backup_number_fresh : forall base entries n,
  base <> [] -> next_backup_num base entries = Some n ->
  1 <= n /\
  (forall c k, In c entries -> is_num_backup base c = Some k -> k < n) /\
  ~ In (backup_name base n) entries.
Proof.
  intros base entries n Hb H. split; [eapply next_backup_num_pos; eauto|]. split.
  - intros c k Hc Hk. eapply next_backup_num_above; eauto.
  - now apply next_backup_num_fresh.
Qed.

(* what counts as a backup of `base`: exactly `base.~<ASCII digits>~` with a
   u64 value — never a prefix-related or look-alike name — and every name xcp
   itself generates is recognised (for ALL byte strings) *)
Theorem C09_backup_names_exact : forall base,
  (forall cand k, is_num_backup base cand = Some k ->
     exists ds, cand = base ++ [DOT; TILDE] ++ ds ++ [TILDE] /\ parse_u64 ds = Some k /\ k < U64) /\
  (base <> [] -> forall n, n < U64 -> is_num_backup base (backup_name base n) = Some n).
Proof.
  intros base. split.
  - intros cand k. apply is_num_backup_exact.
  - intros Hb n Hn. now apply backup_name_recognised.
Qed.

(* one overwrite: the new content is in place, the old version is preserved
   intact under a fresh, larger number, and NO other entry changes *)
Theorem C09_overwrite_preserves : forall mode d base c d' old,
  base <> [] -> overwrite mode d base c = Some d' -> dir_get d base = Some old ->
  dir_get d' base = Some c /\
  (forall m, m <> base -> forall v, dir_get d m = Some v -> dir_get d' m = Some v) /\
  (needs_backup mode true base (dir_names d) = true ->
     exists n, next_backup_num base (dir_names d) = Some n /\
               dir_get d (backup_name base n) = None /\
               dir_get d' (backup_name base n) = Some old /\
               (forall e k, In e (dir_names d) -> is_num_backup base e = Some k -> k < n) /\
               (forall m, m <> base -> m <> backup_name base n -> dir_get d' m = dir_get d m)) /\
  (needs_backup mode true base (dir_names d) = false ->
     forall m, m <> base -> dir_get d' m = dir_get d m).
Proof. exact overwrite_preserves. Qed.

(* any history of overwrites (any modes, any contents): every entry other
   than the destination that ever existed keeps its content forever — in
   particular every backup, once made, is never modified or replaced *)
Theorem C09_history_never_touches_existing : forall base (hist : list (N * N)) d d',
  base <> [] ->
  fold_left (fun od mc => match od with Some x => overwrite (fst mc) x base (snd mc) | None => None end)
            hist (Some d) = Some d' ->
  forall m v, m <> base -> dir_get d m = Some v -> dir_get d' m = Some v.
Proof.
  intros base hist. induction hist as [|[mode c] h IH]; intros d d' Hb Hf m v Hm Hv.
  - cbn in Hf. now injection Hf as <-.
  - cbn [fold_left fst snd] in Hf.
    destruct (overwrite mode d base c) as [d1|] eqn:Eo.
    + apply (IH d1 d' Hb Hf m v Hm).
      destruct (dir_get d base) as [old|] eqn:Eold.
      * destruct (overwrite_preserves mode d base c d1 old Hb Eo Eold) as (_ & H2 & _). now apply H2.
      * (* destination absent: plain creation *)
        unfold overwrite in Eo. rewrite Eold in Eo.
        assert (needs_backup mode false base (dir_names d) = false) as Hn.
        { unfold needs_backup. destruct (mode =? 0); [reflexivity|]. destruct (mode =? 1); reflexivity. }
        rewrite Hn in Eo. injection Eo as <-. rewrite dir_get_set_other by congruence. exact Hv.
    + exfalso. clear -Hf. induction h as [|x h IHh]; [discriminate|]. cbn [fold_left] in Hf. auto.
Qed.

(* auto mode: a backup is made exactly when a backup of THAT name exists *)
Theorem C09_auto_iff_backup_exists : forall base entries,
  needs_backup 1 true base entries = true <-> exists c k, In c entries /\ is_num_backup base c = Some k.
Proof. exact auto_iff_backup_exists. Qed.

(* kill at any instant of an overwrite: the old content is under the original
   or under the backup name *)
Theorem C09_kill_keeps_old : forall mode d base c steps old,
  base <> [] -> overwrite_steps mode d base c = Some steps -> dir_get d base = Some old ->
  needs_backup mode true base (dir_names d) = true ->
  exists n, next_backup_num base (dir_names d) = Some n /\
  forall s, In s steps -> dir_get s base = Some old \/ dir_get s (backup_name base n) = Some old.
Proof. exact overwrite_steps_keep_old. Qed.

(* guard kept visible: the only way to lose the number is u64 overflow *)
Theorem C09_no_overflow_below_max : forall base entries,
  (forall c k, In c entries -> is_num_backup base c = Some k -> k < U64MAX) ->
  exists n, next_backup_num base entries = Some n.
Proof. exact next_backup_num_defined. Qed.

(* non-vacuity, with a non-UTF-8 name and look-alikes around it *)
Example C09_nonvacuous :
  let base := [102; 255; 46; 116] in   (* f \xff . t *)
  let d := [(base, 1); (backup_name base 3, 2); (base ++ [98; 46; 126; 57; 126], 3)] in   (* f\xff.tb.~9~ is NOT a backup *)
  next_backup_num base (dir_names d) = Some 4 /\
  match overwrite 2 d base 7 with
  | Some d' => dir_get d' (backup_name base 4) = Some 1 /\ dir_get d' base = Some 7
  | None => False
  end.
Proof. vm_compute. repeat split. Qed.

(* ---- tie to the current source (translator) ---- *)
Theorem C09_src_next_number : forall base entries,
  next_backup_num base entries =
  (let n := x_next_backup_from_max (fold_right N.max x_backup_max_default (backup_nums base entries)) in
   if n <? U64 then Some n else None).
Proof. exact x_next_backup_ok. Qed.
(* the successor is checked in the source: at the largest number a u64 holds the step FAILS in every build (an unchecked
   `+ 1` wraps to 0 in a release build and the rename replaces `name.~0~`: defect 381a1cc, found in round 7, repaired) *)
Theorem C09_src_next_number_is_checked : x_next_backup_checked = true.
Proof. exact x_next_backup_checked_ok. Qed.
Theorem C09_src_suffix_pattern : x_backup_pattern = "^\~(\d+)\~$"%string.
Proof. exact x_backup_pattern_ok. Qed.

Theorem C09_src_needs_backup_table : forall mode ex base entries, mode < 3 ->
  needs_backup mode ex base entries = x_needs_backup mode ex (has_backup base entries).
Proof. exact x_needs_backup_ok. Qed.

(* ---- the glue functions this property's hand-written model mirrors are, token for token, the ones it was
   validated against (an edit re-opens the obligation; harness/repin.py re-pins after re-validation) ---- *)
Theorem C09_src_pin_backup_get_backup_path : pin_unchanged name_backup_get_backup_path.
Proof. exact pin_backup_get_backup_path. Qed.
Theorem C09_src_pin_backup_has_backup : pin_unchanged name_backup_has_backup.
Proof. exact pin_backup_has_backup. Qed.
Theorem C09_src_pin_backup_is_num_backup : pin_unchanged name_backup_is_num_backup.
Proof. exact pin_backup_is_num_backup. Qed.
Theorem C09_src_pin_operations_new : pin_unchanged name_operations_new.
Proof. exact pin_operations_new. Qed.

Print Assumptions C09_backup_number_fresh.
Print Assumptions C09_backup_names_exact.
Print Assumptions C09_overwrite_preserves.
Print Assumptions C09_history_never_touches_existing.
Print Assumptions C09_auto_iff_backup_exists.
Print Assumptions C09_kill_keeps_old.
Print Assumptions C09_no_overflow_below_max.
Print Assumptions C09_src_next_number.
Print Assumptions C09_src_next_number_is_checked.
Print Assumptions C09_src_suffix_pattern.
Print Assumptions C09_src_needs_backup_table.
Print Assumptions C09_src_pin_backup_get_backup_path.
Print Assumptions C09_src_pin_backup_has_backup.
Print Assumptions C09_src_pin_backup_is_num_backup.
Print Assumptions C09_src_pin_operations_new.

(* ---- nothing is carried from one file of a run to the next: the inventory of process-wide state (statics,
   thread-locals, umask calls) of the current source, regenerated by the translator on every run ---- *)
From XcpProofs Require Import XState.
From Coq Require Import String.
Theorem C09_src_no_state_carried_between_files :
  x_static_items = ["libxcp/src/backup.rs::BAK_REGEX"; "libxcp/src/operations.rs::BACKUP_STEP"]%string /\ x_thread_locals = [] /\ x_umask_calls = 0%N.
Proof. exact x_process_wide_state_ok. Qed.
Print Assumptions C09_src_no_state_carried_between_files.

(* ---- more glue on this property's path, pinned token for token ---- *)
From XcpPins Require Import Pin_backup_ls_file_dir Pin_backup_next_backup_num Pin_backup_needs_backup Pin_operations_tree_walker.
Theorem C09_src_pin_backup_ls_file_dir : pin_unchanged name_backup_ls_file_dir.
Proof. exact pin_backup_ls_file_dir. Qed.
Theorem C09_src_pin_backup_next_backup_num : pin_unchanged name_backup_next_backup_num.
Proof. exact pin_backup_next_backup_num. Qed.
Theorem C09_src_pin_backup_needs_backup : pin_unchanged name_backup_needs_backup.
Proof. exact pin_backup_needs_backup. Qed.
Theorem C09_src_pin_operations_tree_walker : pin_unchanged name_operations_tree_walker.
Proof. exact pin_operations_tree_walker. Qed.
Print Assumptions C09_src_pin_backup_ls_file_dir.
Print Assumptions C09_src_pin_backup_next_backup_num.
Print Assumptions C09_src_pin_backup_needs_backup.
Print Assumptions C09_src_pin_operations_tree_walker.

(* ---- two workers of one run overwriting f and f.~1~ with numbered backups (BackupRace.v): with the backup step
   serialised (repair a649b3d; step codes 27/28 of CopyHandle::new) both orders end in the same directory with every
   old version preserved; without it, a scan falling into the other worker's gap loses a version ---- *)
From XcpModel Require Import BackupRace.
From XcpProofs Require Import BackupRaceProofs.
Theorem C09_backup_step_orders_agree : forall oldf oldb newf newb,
  snapshot (run newf newb (d_init oldf oldb) sched_AB) = snapshot (run newf newb (d_init oldf oldb) sched_BA) /\
  snapshot (run newf newb (d_init oldf oldb) sched_AB) = [Some newf; Some newb; Some oldf; None; Some oldb; None].
Proof. exact locked_overwrites_commute. Qed.
Theorem C09_backup_step_unserialised_refuted : exists oldf oldb newf newb,
  snapshot (run newf newb (d_init oldf oldb) sched_gap) <> snapshot (run newf newb (d_init oldf oldb) sched_AB).
Proof. exact unlocked_outcome_depends_on_schedule. Qed.
Print Assumptions C09_backup_step_orders_agree.
Print Assumptions C09_backup_step_unserialised_refuted.

(* ---- what xcp does with what it finds at the mapped destination (DestMatrix.v; every cell compared with the binary
   on every run) ---- *)
From XcpModel Require Import DestMatrix.
From XcpProofs Require Import DestMatrixProofs.
Theorem C09_backup_preserves_what_a_file_replaces : forall d, d <> DAbsent ->
  dest_outcome SFile d OBackup = CreatedBackedUp \/ dest_outcome SFile d OBackup = Refused.
Proof. exact backup_preserves_what_a_file_replaces. Qed.
Print Assumptions C09_backup_preserves_what_a_file_replaces.

(* ---- what happens to a destination AFTER its backup was made: the arms of both worker loops that run (and clean up after) a
   copy, and the finalisation run by the drop of the handle — pinned as validated: nothing there removes or renames an entry ---- *)
From XcpPins Require Import Pin_parfile_copy_worker Pin_parblock_dispatch_worker Pin_operations_drop Pin_operations_finalise_copy.
Theorem C09_src_pin_parfile_copy_worker : pin_unchanged name_parfile_copy_worker.
Proof. exact pin_parfile_copy_worker. Qed.
Theorem C09_src_pin_parblock_dispatch_worker : pin_unchanged name_parblock_dispatch_worker.
Proof. exact pin_parblock_dispatch_worker. Qed.
Theorem C09_src_pin_operations_drop : pin_unchanged name_operations_drop.
Proof. exact pin_operations_drop. Qed.
Theorem C09_src_pin_operations_finalise_copy : pin_unchanged name_operations_finalise_copy.
Proof. exact pin_operations_finalise_copy. Qed.
Print Assumptions C09_src_pin_parfile_copy_worker.
Print Assumptions C09_src_pin_parblock_dispatch_worker.
Print Assumptions C09_src_pin_operations_drop.
Print Assumptions C09_src_pin_operations_finalise_copy.

(* ---- further functions on this property's path, pinned token for token as validated (dependency review after rounds 5 and 6:
   each missed change had edited a pinned function that this property did not cite) ---- *)
From XcpPins Require Import Pin_operations_copy_file Pin_parblock_queue_file_blocks Pin_common_is_same_file.
Theorem C09_src_pin_operations_copy_file : pin_unchanged name_operations_copy_file.
Proof. exact pin_operations_copy_file. Qed.
Theorem C09_src_pin_parblock_queue_file_blocks : pin_unchanged name_parblock_queue_file_blocks.
Proof. exact pin_parblock_queue_file_blocks. Qed.
Theorem C09_src_pin_common_is_same_file : pin_unchanged name_common_is_same_file.
Proof. exact pin_common_is_same_file. Qed.
Print Assumptions C09_src_pin_operations_copy_file.
Print Assumptions C09_src_pin_parblock_queue_file_blocks.
Print Assumptions C09_src_pin_common_is_same_file.
