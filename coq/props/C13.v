(* C13 — --dereference copies what links point to, or fails.
   Model after `fix: --dereference descends into symlinked directories`.
   A link carries what the kernel resolves it to (any chain length: the
   resolution is the kernel's, bounded by its own limit of 40). *)
From XcpModel Require Import Base Backup Paths Walker.
From XcpProofs Require Import WalkerProofs.
From XcpModel Require Import Extracted.
From XcpProofs Require Import XConfig.
From Coq Require Import String.

(* no link operation is ever emitted when dereferencing *)
Theorem C13_deref_no_links : forall keep dex nc r t acts ok a,
  walk (mkW nc true) keep dex r t = (acts, ok) -> In a acts -> forall q text, a <> WLink q text.
Proof. exact walk_deref_no_links. Qed.

(* a dangling or cyclic link that is reached makes the walk fail *)
Theorem C13_deref_dangling_cyclic_fail : forall cfg keep dex r t q c d,
  In (q, EBroken c, d) (sel_entries keep (w_deref cfg) r t) -> snd (walk cfg keep dex r t) = false.
Proof. exact walk_deref_broken_fails. Qed.

(* what is selected under dereference is the image of the resolved tree: a
   link to a file is a file entry with the target's length, a link to a
   directory is a directory entry followed by the entries of the target's
   contents under the link's own path *)
Theorem C13_deref_image : forall keep r text,
  (forall len, sel_entries keep true r (TLink text (LTarget (TFile len))) =
               if keep r false then [(r, EFile len, false)] else []) /\
  (forall cs, sel_entries keep true r (TLink text (LTarget (TDir cs))) = sel_entries keep true r (TDir cs)) /\
  sel_entries keep true r (TLink text LDangling) = (if keep r false then [(r, EBroken 3, false)] else []) /\
  sel_entries keep true r (TLink text LLoop) = (if keep r false then [(r, EBroken 4, false)] else []).
Proof.
  intros. repeat split; intros; rewrite !sel_entries_eq; cbn [tree_is_dir node_entry fst snd];
    try (destruct (keep r false); reflexivity); try reflexivity.
Qed.

(* and that image is what gets processed (success => every entry handled) *)
Theorem C13_walk_processes_image : forall cfg keep dex t r acts,
  walk cfg keep dex r t = (acts, true) ->
  acts = flat_map (fun e => fst (act_of cfg dex e)) (sel_entries keep (w_deref cfg) r t).
Proof.
  intros cfg keep dex t r acts H. rewrite walk_process in H. now apply (process_ok cfg dex _ acts H).
Qed.

Example C13_nonvacuous :
  let sub := TDir [([102], TFile 4)] in
  let t := TDir [([108], TLink [115] (LTarget sub)); ([109], TLink [120] (LTarget (TFile 9)))] in
  walk (mkW false true) (fun _ _ => true) (fun _ => false) [] t =
  ([WMkdir []; WMkdir [[108]]; WSize 4; WCopy [[108]; [102]] 4; WSize 9; WCopy [[109]] 9], true).
Proof. vm_compute. reflexivity. Qed.

(* ---- tie to the current source (translator): the walk follows links exactly when dereferencing ---- *)
Theorem C13_src_walk_follows_links_iff_deref : nth 1 x_walker_iterator ""%string = "follow_links(config.dereference)"%string.
Proof. reflexivity. Qed.

Print Assumptions C13_deref_no_links.
Print Assumptions C13_deref_dangling_cyclic_fail.
Print Assumptions C13_deref_image.
Print Assumptions C13_walk_processes_image.
Print Assumptions C13_src_walk_follows_links_iff_deref.

(* ---- further glue on this property's path, pinned token for token (an edit re-opens the obligation; the run then
   looks for a failing input) ---- *)
From XcpPins Require Import Pin_main_expand_sources Pin_main_main.
From XcpProofs Require Import PinnedSource.
Theorem C13_src_pin_main_expand_sources : pin_unchanged name_main_expand_sources.
Proof. exact pin_main_expand_sources. Qed.
Theorem C13_src_pin_main_main : pin_unchanged name_main_main.
Proof. exact pin_main_main. Qed.
(* Config::from(&Opts) is one struct literal with no `..default` tail, and every option other than the worker count
   and the block size reaches the library unchanged under its own name *)
Theorem C13_src_options_reach_config : forall f e, List.In (f, e) x_config_fields ->
  f <> "workers"%string -> f <> "block_size"%string -> e = ("opts." ++ f)%string.
Proof. exact x_config_fields_plain. Qed.
Print Assumptions C13_src_options_reach_config.
Print Assumptions C13_src_pin_main_expand_sources.
Print Assumptions C13_src_pin_main_main.

(* ---- the walker's per-entry prelude, translated: with --dereference `from` is the CANONICAL path of the entry and a
   failure to resolve it ends the walk (`canonicalize(&epath)?`), the kind is then taken from lstat(from) — so no
   entry is ever classified as a link under --dereference; the iterator follows links exactly when dereferencing ---- *)
From XcpProofs Require Import XWalker.
Theorem C13_src_walker_resolves_or_fails :
  nth 1 x_walker_entry_prelude ""%string =
    "letfrom=ifconfig.dereference{letcpath=canonicalize(&epath)?;debug!(""Dereferencing{:?}into{:?}"",epath,cpath);cpath}else{epath.clone()};"%string /\
  nth 2 x_walker_entry_prelude ""%string = "letmeta=from.symlink_metadata()?;"%string /\
  nth 1 x_walker_iterator ""%string = "follow_links(config.dereference)"%string.
Proof.
  destruct x_walker_shape_ok as (_ & _ & Hi & He & _). rewrite Hi, He. repeat split; reflexivity.
Qed.
Print Assumptions C13_src_walker_resolves_or_fails.

(* ---- more glue on this property's path, pinned token for token ---- *)
From XcpPins Require Import Pin_operations_tree_walker.
Theorem C13_src_pin_operations_tree_walker : pin_unchanged name_operations_tree_walker.
Proof. exact pin_operations_tree_walker. Qed.
Print Assumptions C13_src_pin_operations_tree_walker.

(* ---- further functions on this property's path, pinned token for token as validated (dependency review after rounds 5 and 6:
   each missed change had edited a pinned function that this property did not cite) ---- *)
From XcpPins Require Import Pin_operations_new Pin_parfile_copy_worker Pin_parblock_dispatch_worker Pin_main_expand_globs Pin_operations_copy_file.
Theorem C13_src_pin_operations_new : pin_unchanged name_operations_new.
Proof. exact pin_operations_new. Qed.
Theorem C13_src_pin_parfile_copy_worker : pin_unchanged name_parfile_copy_worker.
Proof. exact pin_parfile_copy_worker. Qed.
Theorem C13_src_pin_parblock_dispatch_worker : pin_unchanged name_parblock_dispatch_worker.
Proof. exact pin_parblock_dispatch_worker. Qed.
Theorem C13_src_pin_main_expand_globs : pin_unchanged name_main_expand_globs.
Proof. exact pin_main_expand_globs. Qed.
Theorem C13_src_pin_operations_copy_file : pin_unchanged name_operations_copy_file.
Proof. exact pin_operations_copy_file. Qed.
Print Assumptions C13_src_pin_operations_new.
Print Assumptions C13_src_pin_parfile_copy_worker.
Print Assumptions C13_src_pin_parblock_dispatch_worker.
Print Assumptions C13_src_pin_main_expand_globs.
Print Assumptions C13_src_pin_operations_copy_file.
