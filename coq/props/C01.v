(* C01 — exit 0 implies every copied regular file is byte-identical.
   Per-file theorems over the model of both drivers; the lift to whole runs
   (every selected file gets exactly one such copy) is C02/C06. *)
From XcpModel Require Import Base Extents Sparse Blocks CopyLoop FileCopy.
From XcpProofs Require Import ExtentsProofs SparseProofs BlocksProofs CopyLoopProofs FileCopyProofs.
From XcpModel Require Import Extracted.
From XcpProofs Require Import XBlocks XLoops XOps.
From XcpModel Require Import ConcBlock ConcOutcome.
From XcpProofs Require Import ConcBlockProofs ConcOutcomeProofs.
From XcpModel Require Import Walker Ops.
From Coq Require Import Permutation.
From Coq Require Import Permutation.

(* nothing of a previous destination survives: after CopyHandle::new the
   destination has the source's length and reads zero everywhere, whatever was
   there before (absent, shorter, longer, any content) *)
Theorem C01_dest_fresh_after_new : forall old len i,
  fc_len (handle_new_dest old len) = len /\ fc_byte (handle_new_dest old len) i = 0.
Proof.
  intros old len i. unfold handle_new_dest, ftruncate_to, open_trunc. cbn. split; [reflexivity|].
  destruct (i <? N.min 0 len); reflexivity.
Qed.

(* parblock's partition of a byte range into block jobs: for all range starts,
   lengths and block sizes >= 1 (including usize::MAX): blocks are non-empty, at
   most bs long, inside the range, cover it, are pairwise disjoint, and no u64
   intermediate overflows *)
Theorem C01_blocks_partition : forall start len bs,
  0 < bs ->
  (forall k, k < nblocks len bs ->
     1 <= blk_bytes len bs k <= bs /\
     start <= blk_off start bs k /\ blk_off start bs k + blk_bytes len bs k <= start + len) /\
  (forall i, start <= i < start + len ->
     exists k, k < nblocks len bs /\ blk_off start bs k <= i < blk_off start bs k + blk_bytes len bs k) /\
  (forall k1 k2 i, k1 < nblocks len bs -> k2 < nblocks len bs ->
     blk_off start bs k1 <= i < blk_off start bs k1 + blk_bytes len bs k1 ->
     blk_off start bs k2 <= i < blk_off start bs k2 + blk_bytes len bs k2 -> k1 = k2) /\
  (bs < U64 -> start + len < U64 -> forall k, k < nblocks len bs ->
     Forall (fun v => v < U64) (blk_intermediates start len bs k)).
Proof.
  intros start len bs Hbs. repeat split.
  - now apply blk_within.
  - now apply blk_within.
  - now apply (blk_within start len bs k).
  - now apply (blk_within start len bs k).
  - intros i Hi. now apply blk_cover.
  - intros k1 k2 i. now apply blk_disjoint.
  - intros Hb Hr k Hk. now apply blk_no_overflow.
Qed.

(* the cursor loop of parfile: success with a kernel that never moves more than
   asked (any mix of full and short counts) means exactly [cur, cur+len) was
   transferred, aligned *)
Theorem C01_copy_bytes_exact : forall fuel bs len cur ans,
  let o := copy_bytes fuel bs len 0 cur ans in
  o_st o = StOk -> ans_bounded (o_trace o) ->
  total_moved (o_trace o) = len /\
  forall i, src_of (o_trace o) i = if (cur <=? i) && (i <? cur + len) then Some i else None.
Proof.
  intros fuel bs len cur ans o Hst Hb.
  destruct (copy_bytes_exact fuel bs len 0 cur ans ltac:(lia) Hst Hb) as (A1 & A2 & A3).
  split; [fold o in A2; lia|]. intros i. destruct (src_of_aligned _ i A1) as [S1 S2]. fold o in S1, S2, A3.
  destruct (N.leb_spec cur i); destruct (N.ltb_spec i (cur + len)); cbn [andb];
    first [apply S1; apply A3; lia | apply S2; rewrite A3; lia].
Qed.

(* parfile, one file: all sizes, block sizes, layouts, reflink auto/never/always
   when not cloned, every answer sequence within contract *)
Theorem C01_parfile_file : forall fuel bs m len sparse clone L ans src,
  layout_ok 0 len L -> (forall i, i < len -> ~ in_data L i -> src i = 0) ->
  let o := parfile_copy_file fuel bs m len sparse clone (k_seek_data L len) (k_seek_hole L len) ans in
  f_st o = StOk -> f_cloned o = false -> ans_bounded (f_trace o) ->
  forall i, i < len -> dst_byte (f_trace o) src i = src i.
Proof. exact parfile_file_bytes. Qed.

(* parblock, one file: additionally for every completion order of the jobs *)
Theorem C01_parblock_file : forall bs m len sparse clone mx ans src,
  0 < bs ->
  (sparse = false \/ mx = MxNone \/
   exists l, mx = MxSome l /\ Forall ext_wf l /\ forall i, i < len -> ~ covered l i -> src i = 0) ->
  let o := parblock_copy_file bs m len sparse clone mx ans in
  f_st o = StOk -> f_cloned o = false -> ans_bounded (f_trace o) ->
  forall tr', Permutation (f_trace o) tr' ->
  forall i, i < len -> dst_byte tr' src i = src i.
Proof. exact parblock_file_bytes. Qed.

(* nothing is written at or beyond the source length by parfile; parblock
   writes only inside queued ranges (C11 uses this) *)
Theorem C01_parfile_nothing_beyond : forall fuel bs m len clone L ans i,
  layout_ok 0 len L ->
  let o := parfile_copy_file fuel bs m len false clone (k_seek_data L len) (k_seek_hole L len) ans in
  f_st o = StOk -> f_cloned o = false -> ans_bounded (f_trace o) ->
  len <= i -> src_of (f_trace o) i = None.
Proof.
  intros fuel bs m len clone L ans i HL o Hst Hc Hb Hi.
  destruct (parfile_file_exact fuel bs m len false clone L ans HL Hst Hc Hb i) as [Hd _].
  now apply (proj2 (Hd eq_refl)).
Qed.

(* non-vacuity: a concrete three-block copy with a short count succeeds *)
Example C01_nonvacuous :
  let o := parblock_copy_file 4096 RfNever 10000 false ClUnsup MxNone [XOk 4096; XOk 1000; XOk 3096; XOk 1808] in
  f_st o = StOk /\ f_cloned o = false /\ ans_boundedb (f_trace o) = true.
Proof. vm_compute. repeat split. Qed.

(* why the repair of the parblock block job was needed (pinned behaviour) *)
Check block_job_pinned_short_refuted.

(* ---- tie to the current source (translator): the model's definitions used above are
   EQUAL to what /verif/xlate extracts from the repository on this run ---- *)
Theorem C01_src_block_partition : forall s e bs,
  range_jobs s (e - s) bs =
  map (fun k => (x_qfr_off s e bs (N.of_nat k), x_qfr_bytes s e bs (N.of_nat k))) (seq 0 (N.to_nat (x_qfr_blocks s e bs))).
Proof. exact x_qfr_jobs_ok. Qed.
Theorem C01_src_copy_bytes_loop : forall written len bs,
  x_copy_bytes_continue written len = negb (len <=? written) /\ x_copy_bytes_request written len bs = N.min (len - written) bs.
Proof. intros. split; [apply x_copy_bytes_continue_ok|apply x_copy_bytes_request_ok]. Qed.

Theorem C01_src_noprogress_block_size : forall bs,
  x_config_block_size true bs = U64MAX /\ x_config_block_size false bs = bs.
Proof. exact x_config_block_size_ok. Qed.

(* the lift to every interleaving of parblock: in EVERY schedule (any W, Q) that reaches the end, the
   blocks written for file h are pairwise distinct and every byte below `len` lies in exactly one of
   them — the per-block exactness above (C01_parblock_file) then gives the bytes *)
Theorem C01_every_schedule_every_byte_once : forall W Q ops s h len bsz,
  reachable W Q ops s -> final s = true -> 0 < bsz ->
  nth_error ops h = Some (OCopy (seq 0 (N.to_nat (nblocks len bsz)))) ->
  NoDup (blocks_of h (b_ev s)) /\
  forall i, i < len ->
    exists b, In b (blocks_of h (b_ev s)) /\
      blk_off 0 bsz (N.of_nat b) <= i < blk_off 0 bsz (N.of_nat b) + blk_bytes len bsz (N.of_nat b) /\
      forall b', In b' (blocks_of h (b_ev s)) ->
        blk_off 0 bsz (N.of_nat b') <= i < blk_off 0 bsz (N.of_nat b') + blk_bytes len bsz (N.of_nat b') -> b' = b.
Proof.
  intros W Q ops s h len bsz Hr Hf Hbs Hn.
  destruct (parblock_any_schedule W Q ops s Hr Hf) as [H _]. specialize (H h _ Hn).
  destruct (phase_of h (b_ev s)) as [|bs0|bs| |] eqn:Eph; try contradiction. cbn [outcome_ok] in H.
  rewrite <- (phase_blocks h (b_ev s) bs (or_intror Eph)).
  assert (forall b, In b bs <-> (b < N.to_nat (nblocks len bsz))%nat) as Hin.
  { intros b. split; intros Hb.
    - apply (Permutation_in _ H) in Hb. apply in_seq in Hb. lia.
    - apply (Permutation_in _ (Permutation_sym H)). apply in_seq. lia. }
  split.
  - apply (Permutation_NoDup (Permutation_sym H)). apply seq_NoDup.
  - intros i Hi. destruct (blk_cover 0 len bsz i Hbs ltac:(lia)) as (k & Hk & Hc).
    exists (N.to_nat k). rewrite N2Nat.id. split; [apply Hin; lia|]. split; [exact Hc|].
    intros b' Hb' Hc'. apply Hin in Hb'.
    assert (N.of_nat b' = k) as <-.
    { apply (blk_disjoint 0 len bsz (N.of_nat b') k i Hbs); try assumption. lia. }
    now rewrite Nat2N.id.
Qed.

Theorem C01_src_new_and_copy_file_order :
  x_copy_new_steps = copy_new_steps /\ x_copy_file_steps = copy_file_steps /\ x_queue_file_blocks_steps = queue_file_blocks_steps.
Proof. split; [exact x_copy_new_steps_ok|split; [exact x_copy_file_steps_ok|exact x_queue_file_blocks_steps_ok]]. Qed.

(* CopyHandle::copy_bytes (the parfile cursor loop), translated from the current source, is the model's loop *)
Theorem C01_src_copy_bytes_whole_loop : forall fuel bs len cur ans,
  x_copy_bytes fuel len bs cur ans = copy_bytes fuel bs len 0 cur ans.
Proof. exact x_copy_bytes_ok. Qed.

Print Assumptions C01_dest_fresh_after_new.
Print Assumptions C01_blocks_partition.
Print Assumptions C01_copy_bytes_exact.
Print Assumptions C01_parfile_file.
Print Assumptions C01_parblock_file.
Print Assumptions C01_parfile_nothing_beyond.
Print Assumptions C01_src_block_partition.
Print Assumptions C01_src_copy_bytes_loop.
Print Assumptions C01_src_noprogress_block_size.
Print Assumptions C01_every_schedule_every_byte_once.
Print Assumptions C01_src_new_and_copy_file_order.
Print Assumptions C01_src_copy_bytes_whole_loop.

(* ---- further glue on this property's path, pinned token for token (an edit re-opens the obligation; the run then
   looks for a failing input) ---- *)
From XcpPins Require Import Pin_main_main Pin_parblock_new Pin_parfile_new Pin_mod_load_driver Pin_linux_copy_file_bytes Pin_linux_copy_file_offset Pin_linux_try_copy_file_range.
From XcpProofs Require Import PinnedSource.
Theorem C01_src_pin_main_main : pin_unchanged name_main_main.
Proof. exact pin_main_main. Qed.
Theorem C01_src_pin_parblock_new : pin_unchanged name_parblock_new.
Proof. exact pin_parblock_new. Qed.
Theorem C01_src_pin_parfile_new : pin_unchanged name_parfile_new.
Proof. exact pin_parfile_new. Qed.
Theorem C01_src_pin_mod_load_driver : pin_unchanged name_mod_load_driver.
Proof. exact pin_mod_load_driver. Qed.
Theorem C01_src_pin_linux_copy_file_bytes : pin_unchanged name_linux_copy_file_bytes.
Proof. exact pin_linux_copy_file_bytes. Qed.
Theorem C01_src_pin_linux_copy_file_offset : pin_unchanged name_linux_copy_file_offset.
Proof. exact pin_linux_copy_file_offset. Qed.
Theorem C01_src_pin_linux_try_copy_file_range : pin_unchanged name_linux_try_copy_file_range.
Proof. exact pin_linux_try_copy_file_range. Qed.
Print Assumptions C01_src_pin_main_main.
Print Assumptions C01_src_pin_parblock_new.
Print Assumptions C01_src_pin_parfile_new.
Print Assumptions C01_src_pin_mod_load_driver.
Print Assumptions C01_src_pin_linux_copy_file_bytes.
Print Assumptions C01_src_pin_linux_copy_file_offset.
Print Assumptions C01_src_pin_linux_try_copy_file_range.

From XcpProofs Require Import XDrivers.
(* ---- main(), translated (the update loop and the join): an Error update anywhere in the stream makes the exit status
   non-zero whatever the driver thread returns — the only report of a failed block job of parblock ---- *)
Theorem C01_src_error_update_reaches_exit : forall s1 e s2 handle,
  x_main_collect (s1 ++ XuError e :: s2) handle <> None.
Proof. exact x_error_update_reaches_exit. Qed.
Theorem C01_src_exit_status : forall stats handle,
  x_main_collect stats handle = None <-> has_error stats = false /\ handle = None.
Proof. exact x_main_collect_ok_iff. Qed.
Print Assumptions C01_src_error_update_reaches_exit.
Print Assumptions C01_src_exit_status.

(* ---- the block job of parblock, translated: a failing kernel copy and a premature end of the source each send an Error
   update (the job's only report), which the translated main() turns into a non-zero exit status ---- *)
From Coq Require Import String.
Theorem C01_src_block_job_reports_failure :
  x_block_job_arms = [("Ok(0)ifoff+done>=harc.metadata.len()", 0); ("Ok(0)", 1); ("Ok(copied)", 2); ("Err(e)", 1)]%string%N.
Proof. exact x_block_job_arms_ok. Qed.
Print Assumptions C01_src_block_job_reports_failure.

(* ---- more glue on this property's path, pinned token for token ---- *)
From XcpPins Require Import Pin_operations_copy_file Pin_parblock_queue_file_blocks Pin_operations_new.
Theorem C01_src_pin_operations_copy_file : pin_unchanged name_operations_copy_file.
Proof. exact pin_operations_copy_file. Qed.
Theorem C01_src_pin_parblock_queue_file_blocks : pin_unchanged name_parblock_queue_file_blocks.
Proof. exact pin_parblock_queue_file_blocks. Qed.
Theorem C01_src_pin_operations_new : pin_unchanged name_operations_new.
Proof. exact pin_operations_new. Qed.
Print Assumptions C01_src_pin_operations_copy_file.
Print Assumptions C01_src_pin_parblock_queue_file_blocks.
Print Assumptions C01_src_pin_operations_new.

(* ---- libfs::map_extents, translated: EVERY extent the kernel reports becomes a range to copy (none is filtered by its
   flags) — parblock copies exactly the merged ranges of a sparse-looking file ---- *)
From XcpModel Require Import Sparse.
From XcpProofs Require Import XExtents.
Theorem C01_src_map_extents_loop : forall fuel fiemap, x_map_extents fuel fiemap = map_extents fuel fiemap.
Proof. exact x_map_extents_ok. Qed.
Print Assumptions C01_src_map_extents_loop.

(* ---- the destination's parent directory is missing: refused for every source kind whose creating call cannot make the
   ancestors (a failed step, never `the source vanished`); compared with the binary on every run ---- *)
From XcpModel Require Import DestMatrix.
From XcpProofs Require Import DestMatrixProofs.
Theorem C01_parent_missing_refused_unless_directory : forall s, s <> SDir -> parent_missing_outcome s = Refused.
Proof. exact parent_missing_refused_unless_directory. Qed.
Print Assumptions C01_parent_missing_refused_unless_directory.

(* ---- further functions on this property's path, pinned token for token as validated (dependency review after rounds 5 and 6:
   each missed change had edited a pinned function that this property did not cite) ---- *)
From XcpPins Require Import Pin_parfile_copy_worker Pin_parblock_dispatch_worker Pin_parblock_queue_file_range Pin_parfile_copy Pin_parblock_copy Pin_common_allocate_file Pin_linux_lseek Pin_linux_reflink Pin_operations_tree_walker.
Theorem C01_src_pin_parfile_copy_worker : pin_unchanged name_parfile_copy_worker.
Proof. exact pin_parfile_copy_worker. Qed.
Theorem C01_src_pin_parblock_dispatch_worker : pin_unchanged name_parblock_dispatch_worker.
Proof. exact pin_parblock_dispatch_worker. Qed.
Theorem C01_src_pin_parblock_queue_file_range : pin_unchanged name_parblock_queue_file_range.
Proof. exact pin_parblock_queue_file_range. Qed.
Theorem C01_src_pin_parfile_copy : pin_unchanged name_parfile_copy.
Proof. exact pin_parfile_copy. Qed.
Theorem C01_src_pin_parblock_copy : pin_unchanged name_parblock_copy.
Proof. exact pin_parblock_copy. Qed.
Theorem C01_src_pin_common_allocate_file : pin_unchanged name_common_allocate_file.
Proof. exact pin_common_allocate_file. Qed.
Theorem C01_src_pin_linux_lseek : pin_unchanged name_linux_lseek.
Proof. exact pin_linux_lseek. Qed.
Theorem C01_src_pin_linux_reflink : pin_unchanged name_linux_reflink.
Proof. exact pin_linux_reflink. Qed.
Theorem C01_src_pin_operations_tree_walker : pin_unchanged name_operations_tree_walker.
Proof. exact pin_operations_tree_walker. Qed.
Print Assumptions C01_src_pin_parfile_copy_worker.
Print Assumptions C01_src_pin_parblock_dispatch_worker.
Print Assumptions C01_src_pin_parblock_queue_file_range.
Print Assumptions C01_src_pin_parfile_copy.
Print Assumptions C01_src_pin_parblock_copy.
Print Assumptions C01_src_pin_common_allocate_file.
Print Assumptions C01_src_pin_linux_lseek.
Print Assumptions C01_src_pin_linux_reflink.
Print Assumptions C01_src_pin_operations_tree_walker.
