(* C05 — correct under short I/O counts and absent kernel copy/clone/extent
   support.  The data-path theorems quantify over EVERY answer sequence
   (`ans : list xans`): any mix of full counts, short counts (down to 1 byte),
   zero counts, errors and fall-backs. *)
From XcpModel Require Import Base Extents Sparse Blocks CopyLoop Uspace FileCopy.
From XcpProofs Require Import ExtentsProofs SparseProofs BlocksProofs CopyLoopProofs UspaceProofs FileCopyProofs.
From XcpModel Require Import Extracted.
From XcpProofs Require Import XExtents XBlocks XLoops.
From XcpModel Require Import Uspace.
From Coq Require Import Permutation.

(* user-space pread/pwrite loop: Ok means the whole range was moved, aligned;
   (a short write or premature EOF is an error by the definition of the loop) *)
Theorem C05_uspace_range_exact : forall fuel nbytes off ans,
  let o := copy_range_uspace fuel nbytes off 0 ans in
  u_st o = StOk -> uans_bounded (u_trace o) ->
  u_ret o = nbytes /\ aligned (moves (u_trace o)) /\
  forall i, covered_by (moves (u_trace o)) i <-> off <= i < off + nbytes.
Proof.
  intros fuel nbytes off ans o Hst Hb.
  destruct (copy_range_uspace_exact fuel nbytes off 0 ans ltac:(lia) Hst Hb) as (A1 & A2 & A3).
  fold o in A1, A2, A3. split; [lia|]. split; [assumption|]. intros i. rewrite A3. lia.
Qed.

(* user-space read/write_all loop, with EINTR retries and short reads/writes *)
Theorem C05_uspace_bytes_exact : forall fuel nbytes cur ans,
  let o := copy_bytes_uspace fuel nbytes cur cur 0 ans in
  u_st o = StOk -> uans_bounded (u_trace o) ->
  u_ret o = nbytes /\ aligned (moves (u_trace o)) /\
  forall i, covered_by (moves (u_trace o)) i <-> cur <= i < cur + nbytes.
Proof.
  intros fuel nbytes cur ans o Hst Hb.
  destruct (copy_bytes_uspace_exact fuel nbytes cur 0 ans ltac:(lia) Hst Hb) as (A1 & A2 & A3).
  fold o in A1, A2, A3. split; [lia|]. split; [assumption|]. intros i. rewrite A3. lia.
Qed.

(* parfile under any answer sequence: exit-0 status implies byte-exact; bytes
   are never duplicated or misplaced (every written byte i holds source byte i) *)
Theorem C05_parfile : forall fuel bs m len sparse clone L ans,
  layout_ok 0 len L ->
  let o := parfile_copy_file fuel bs m len sparse clone (k_seek_data L len) (k_seek_hole L len) ans in
  f_st o = StOk -> f_cloned o = false -> ans_bounded (f_trace o) ->
  forall i,
    (sparse = false -> (i < len -> src_of (f_trace o) i = Some i) /\ (len <= i -> src_of (f_trace o) i = None)) /\
    (sparse = true -> (in_data L i -> src_of (f_trace o) i = Some i) /\ (~ in_data L i -> src_of (f_trace o) i = None)).
Proof. exact parfile_file_exact. Qed.

(* parblock (after the repair of the block job): same, for every completion order *)
Theorem C05_parblock : forall bs m len sparse clone mx ans,
  0 < bs ->
  let o := parblock_copy_file bs m len sparse clone mx ans in
  f_st o = StOk -> f_cloned o = false -> ans_bounded (f_trace o) ->
  exists ranges, pb_ranges len sparse mx = (StOk, ranges) /\
  forall tr', Permutation (f_trace o) tr' ->
  forall i,
    (in_ranges ranges i -> i < len -> src_of tr' i = Some i) /\
    (~ in_ranges ranges i -> src_of tr' i = None).
Proof. exact parblock_file_exact. Qed.

(* a block job never reports success with bytes of its block missing *)
Theorem C05_block_job_complete : forall fuel flen off bytes ans,
  let o := block_job fuel flen off bytes 0 ans in
  o_st o = StOk -> ans_bounded (o_trace o) ->
  forall i, off <= i < off + bytes -> i < flen -> covered_by (o_trace o) i.
Proof.
  intros fuel flen off bytes ans o Hst Hb i Hi Hlt.
  destruct (block_job_exact fuel flen off bytes 0 ans ltac:(lia) Hst Hb) as (_ & _ & A3).
  apply A3; lia.
Qed.

(* extent map unsupported -> whole file is queued *)
Theorem C05_fiemap_unsupported_whole_file : forall len sparse,
  pb_ranges len sparse MxNone = (StOk, [(0, len)]).
Proof. intros len [|]; reflexivity. Qed.

(* errno classifications (try_copy_file_range, reflink) *)
Theorem C05_cfr_fallback_errnos : forall e,
  cfr_falls_back e = true <-> e = ENOSYS \/ e = EPERM \/ e = EXDEV.
Proof.
  intros e. unfold cfr_falls_back. rewrite !orb_true_iff, !N.eqb_eq. tauto.
Qed.

Theorem C05_clone_unsupported_errnos : forall e,
  classify_clone e = ClUnsup <-> e = EOPNOTSUPP \/ e = EINVAL \/ e = EXDEV \/ e = ETXTBSY.
Proof. exact classify_clone_unsup. Qed.

(* non-vacuity: short counts, an EINTR and a short write in one user-space copy *)
Example C05_nonvacuous :
  let o := copy_bytes_uspace 20 10 0 0 0 [XOk 4; XOk 3; XOk 1; XErr EINTR; XOk 6; XErr EINTR; XOk 6] in
  u_st o = StOk /\ u_ret o = 10.
Proof. vm_compute. split; reflexivity. Qed.

(* the pinned tree violated the property (replayed on the real binary; repaired
   by the commit recorded in known_findings.jsonl) *)
Check block_job_pinned_short_refuted.

(* ---- tie to the current source (translator): the model's definitions used above are
   EQUAL to what /verif/xlate extracts from the repository on this run ---- *)
Theorem C05_src_cfr_fallback_errnos : forall e, existsb (N.eqb e) x_cfr_fallback_errnos = cfr_falls_back e.
Proof. exact x_cfr_fallback_ok. Qed.
Theorem C05_src_fiemap_unsupported : x_fiemap_unsupported_errnos = [EOPNOTSUPP].
Proof. exact x_fiemap_unsupported_ok. Qed.

Theorem C05_src_block_job_step : forall f flen off bytes done k rest,
  block_job (S f) flen off bytes done (XOk k :: rest) =
  let req := mkReq (x_block_job_offset off done) (x_block_job_offset off done) (x_block_job_request bytes done) in
  if k =? 0 then mkOut (if x_block_job_zero_is_end flen off done then StOk else StErr EPREMATURE) [(req, XOk 0)] rest
  else if x_block_job_complete (done + k) bytes then mkOut StOk [(req, XOk k)] rest
  else out_cons (req, XOk k) (block_job f flen off bytes (done + k) rest).
Proof. exact x_block_job_ok. Qed.

(* the two user-space copy loops of libfs, TRANSLATED from the current source (while loop -> fuelled fixpoint, each
   pread/pwrite/read/write consumes one kernel answer and logs one event, `return Err` / `continue` as written),
   are equal to the models every theorem above is about — for all fuel, sizes, offsets and answer sequences *)
Theorem C05_src_copy_range_uspace_loop : forall fuel nbytes off ans,
  x_copy_range_uspace fuel nbytes off ans = copy_range_uspace fuel nbytes off 0 ans.
Proof. exact x_copy_range_uspace_ok. Qed.
Theorem C05_src_copy_bytes_uspace_loop : forall fuel nbytes rpos wpos ans,
  x_copy_bytes_uspace fuel nbytes rpos wpos ans = copy_bytes_uspace fuel nbytes rpos wpos 0 ans.
Proof. exact x_copy_bytes_uspace_ok. Qed.

Print Assumptions C05_uspace_range_exact.
Print Assumptions C05_uspace_bytes_exact.
Print Assumptions C05_parfile.
Print Assumptions C05_parblock.
Print Assumptions C05_block_job_complete.
Print Assumptions C05_fiemap_unsupported_whole_file.
Print Assumptions C05_cfr_fallback_errnos.
Print Assumptions C05_clone_unsupported_errnos.
Print Assumptions C05_src_cfr_fallback_errnos.
Print Assumptions C05_src_fiemap_unsupported.
Print Assumptions C05_src_block_job_step.
Print Assumptions C05_src_copy_range_uspace_loop.
Print Assumptions C05_src_copy_bytes_uspace_loop.

(* ---- further glue on this property's path, pinned token for token (an edit re-opens the obligation; the run then
   looks for a failing input) ---- *)
From XcpPins Require Import Pin_linux_try_copy_file_range Pin_linux_copy_file_bytes Pin_linux_copy_file_offset Pin_linux_reflink Pin_main_main.
From XcpProofs Require Import PinnedSource.
Theorem C05_src_pin_linux_try_copy_file_range : pin_unchanged name_linux_try_copy_file_range.
Proof. exact pin_linux_try_copy_file_range. Qed.
Theorem C05_src_pin_linux_copy_file_bytes : pin_unchanged name_linux_copy_file_bytes.
Proof. exact pin_linux_copy_file_bytes. Qed.
Theorem C05_src_pin_linux_copy_file_offset : pin_unchanged name_linux_copy_file_offset.
Proof. exact pin_linux_copy_file_offset. Qed.
Theorem C05_src_pin_linux_reflink : pin_unchanged name_linux_reflink.
Proof. exact pin_linux_reflink. Qed.
Theorem C05_src_pin_main_main : pin_unchanged name_main_main.
Proof. exact pin_main_main. Qed.
Print Assumptions C05_src_pin_linux_try_copy_file_range.
Print Assumptions C05_src_pin_linux_copy_file_bytes.
Print Assumptions C05_src_pin_linux_copy_file_offset.
Print Assumptions C05_src_pin_linux_reflink.
Print Assumptions C05_src_pin_main_main.

(* ---- parblock::queue_file_blocks, translated: the fallback when the extent map is unsupported (42 extent map, 43 merge, 44 queue a range, 45 queue the whole file) ---- *)
From XcpModel Require Import Ops.
From XcpProofs Require Import XOps.
Theorem C05_src_queue_file_blocks_steps : x_queue_file_blocks_steps = queue_file_blocks_steps.
Proof. exact x_queue_file_blocks_steps_ok. Qed.
Print Assumptions C05_src_queue_file_blocks_steps.

From XcpProofs Require Import XDrivers.
(* ---- main(), translated (the update loop and the join): an Error update anywhere in the stream makes the exit status
   non-zero whatever the driver thread returns — the only report of a failed block job of parblock ---- *)
Theorem C05_src_error_update_reaches_exit : forall s1 e s2 handle,
  x_main_collect (s1 ++ XuError e :: s2) handle <> None.
Proof. exact x_error_update_reaches_exit. Qed.
Theorem C05_src_exit_status : forall stats handle,
  x_main_collect stats handle = None <-> has_error stats = false /\ handle = None.
Proof. exact x_main_collect_ok_iff. Qed.
Print Assumptions C05_src_error_update_reaches_exit.
Print Assumptions C05_src_exit_status.

(* ---- the block job of parblock, translated: a failing kernel copy and a premature end of the source each send an Error
   update (the job's only report), which the translated main() turns into a non-zero exit status ---- *)
From Coq Require Import String.
Theorem C05_src_block_job_reports_failure :
  x_block_job_arms = [("Ok(0)ifoff+done>=harc.metadata.len()", 0); ("Ok(0)", 1); ("Ok(copied)", 2); ("Err(e)", 1)]%string%N.
Proof. exact x_block_job_arms_ok. Qed.
Print Assumptions C05_src_block_job_reports_failure.

(* ---- more glue on this property's path, pinned token for token ---- *)
From XcpPins Require Import Pin_parblock_queue_file_blocks Pin_operations_copy_file.
Theorem C05_src_pin_parblock_queue_file_blocks : pin_unchanged name_parblock_queue_file_blocks.
Proof. exact pin_parblock_queue_file_blocks. Qed.
Theorem C05_src_pin_operations_copy_file : pin_unchanged name_operations_copy_file.
Proof. exact pin_operations_copy_file. Qed.
Print Assumptions C05_src_pin_parblock_queue_file_blocks.
Print Assumptions C05_src_pin_operations_copy_file.

(* ---- further functions on this property's path, pinned token for token as validated (dependency review after rounds 5 and 6:
   each missed change had edited a pinned function that this property did not cite) ---- *)
From XcpPins Require Import Pin_parblock_queue_file_range Pin_linux_lseek Pin_operations_new Pin_common_allocate_file Pin_parblock_dispatch_worker Pin_parfile_copy_worker.
Theorem C05_src_pin_parblock_queue_file_range : pin_unchanged name_parblock_queue_file_range.
Proof. exact pin_parblock_queue_file_range. Qed.
Theorem C05_src_pin_linux_lseek : pin_unchanged name_linux_lseek.
Proof. exact pin_linux_lseek. Qed.
Theorem C05_src_pin_operations_new : pin_unchanged name_operations_new.
Proof. exact pin_operations_new. Qed.
Theorem C05_src_pin_common_allocate_file : pin_unchanged name_common_allocate_file.
Proof. exact pin_common_allocate_file. Qed.
Theorem C05_src_pin_parblock_dispatch_worker : pin_unchanged name_parblock_dispatch_worker.
Proof. exact pin_parblock_dispatch_worker. Qed.
Theorem C05_src_pin_parfile_copy_worker : pin_unchanged name_parfile_copy_worker.
Proof. exact pin_parfile_copy_worker. Qed.
Print Assumptions C05_src_pin_parblock_queue_file_range.
Print Assumptions C05_src_pin_linux_lseek.
Print Assumptions C05_src_pin_operations_new.
Print Assumptions C05_src_pin_common_allocate_file.
Print Assumptions C05_src_pin_parblock_dispatch_worker.
Print Assumptions C05_src_pin_parfile_copy_worker.
