(* Backup.v — libxcp/src/backup.rs (after `fix: recognise numbered backups by
   exact raw name`): names are raw byte strings (OsStr), `list N` with every
   element < 256.

     is_num_backup(base, candidate): candidate.file_stem() == base,
        candidate.extension() is valid UTF-8 and matches ^~(\d+)~$, the digits
        parse as u64.  (`\d` is Unicode-aware in the regex crate, but
        str::parse::<u64> accepts ASCII digits only, so the result is Some
        exactly for ASCII digit strings whose value fits u64.)
     next_backup_num = max over the directory + 1   (u64: panics/wraps at MAX)
     get_backup_path = name ++ ".~N~"                                        *)
From XcpModel Require Import Base.

Definition DOT : N := 46.     (* '.' *)
Definition TILDE : N := 126.  (* '~' *)
Definition name := list N.

Fixpoint name_eqb (a b : name) : bool :=
  match a, b with
  | [], [] => true
  | x :: a', y :: b' => (x =? y) && name_eqb a' b'
  | _, _ => false
  end.

(* Rust's Path::file_stem / Path::extension on a file name (rsplit_file_at_dot):
   ".." has no extension; split at the LAST dot; a name whose only dot is the
   leading one has no extension.  Returns (stem, Some ext) or (name, None). *)
Fixpoint rsplit_dot_go (l : name) : option (name * name) :=
  (* Some (before, after) split at the last DOT of l, None if l has no DOT *)
  match l with
  | [] => None
  | x :: r =>
      match rsplit_dot_go r with
      | Some (b, a) => Some (x :: b, a)
      | None => if x =? DOT then Some ([], r) else None
      end
  end.

Definition split_ext (n : name) : name * option name :=
  if name_eqb n [DOT; DOT] then (n, None) else
  match rsplit_dot_go n with
  | None => (n, None)
  | Some ([], _) => (n, None)
  | Some (b, a) => (b, Some a)
  end.

Definition is_digit (c : N) : bool := (48 <=? c) && (c <=? 57).

(* value of an ASCII digit string, None when some char is not a digit *)
Fixpoint parse_dec_go (acc : N) (l : name) : option N :=
  match l with
  | [] => Some acc
  | c :: r => if is_digit c then parse_dec_go (acc * 10 + (c - 48)) r else None
  end.

(* str::parse::<u64> restricted to what the regex lets through: non-empty,
   digits only, value <= u64::MAX *)
Definition parse_u64 (l : name) : option N :=
  match l with
  | [] => None
  | _ => match parse_dec_go 0 l with
         | Some v => if v <? U64 then Some v else None
         | None => None
         end
  end.

(* ext = "~" digits "~" *)
Definition parse_tilde_num (ext : name) : option N :=
  match ext with
  | c :: r =>
      if c =? TILDE then
        match rev r with
        | c' :: mid => if c' =? TILDE then parse_u64 (rev mid) else None
        | [] => None
        end
      else None
  | [] => None
  end.

Definition is_num_backup (base cand : name) : option N :=
  match split_ext cand with
  | (stem, Some ext) => if name_eqb stem base then parse_tilde_num ext else None
  | (_, None) => None
  end.

(* the scan of the destination's directory *)
Definition backup_nums (base : name) (entries : list name) : list N :=
  flat_map (fun c => match is_num_backup base c with Some k => [k] | None => [] end) entries.

Definition has_backup (base : name) (entries : list name) : bool :=
  match backup_nums base entries with [] => false | _ => true end.

Definition max_list (l : list N) : N := fold_right N.max 0 l.

(* None = u64 overflow of `current + 1` (debug: panic, release: wrap to 0) *)
Definition next_backup_num (base : name) (entries : list name) : option N :=
  let n := max_list (backup_nums base entries) + 1 in
  if n <? U64 then Some n else None.

(* format!("{}", n) *)
Fixpoint print_dec_go (fuel : nat) (n : N) : name :=
  match fuel with
  | O => []
  | S f => if n <? 10 then [48 + n] else print_dec_go f (n / 10) ++ [48 + n mod 10]
  end.
Definition print_dec (n : N) : name := print_dec_go 21 n.

Definition backup_name (base : name) (n : N) : name := base ++ [DOT; TILDE] ++ print_dec n ++ [TILDE].

(* needs_backup: mode 0 none, 1 auto, 2 numbered; `exists` is file.exists() *)
Definition needs_backup (mode : N) (exists_ : bool) (base : name) (entries : list name) : bool :=
  if mode =? 0 then false
  else if mode =? 1 then exists_ && has_backup base entries
  else exists_.

(* ---- a directory as a finite map name -> content id, and one overwrite ---- *)
Definition dir := list (name * N).
Definition dir_names (d : dir) : list name := map fst d.
Fixpoint dir_get (d : dir) (n : name) : option N :=
  match d with
  | [] => None
  | (k, v) :: r => if name_eqb k n then Some v else dir_get r n
  end.
Fixpoint dir_remove (d : dir) (n : name) : dir :=
  match d with
  | [] => []
  | (k, v) :: r => if name_eqb k n then dir_remove r n else (k, v) :: dir_remove r n
  end.
Definition dir_set (d : dir) (n : name) (v : N) : dir := (n, v) :: dir_remove d n.

(* rename(2): atomically replaces the target *)
Definition dir_rename (d : dir) (from to : name) : dir :=
  match dir_get d from with
  | Some v => dir_set (dir_remove d from) to v
  | None => d
  end.

(* CopyHandle::new for destination `base` with new content id c:
   [needs_backup -> rename(base, backup)]; create/truncate base.
   Returns None on the u64 overflow. *)
Definition overwrite (mode : N) (d : dir) (base : name) (c : N) : option dir :=
  let ex := match dir_get d base with Some _ => true | None => false end in
  if needs_backup mode ex base (dir_names d) then
    match next_backup_num base (dir_names d) with
    | Some n => Some (dir_set (dir_rename d base (backup_name base n)) base c)
    | None => None
    end
  else Some (dir_set d base c).

(* the two mutating steps separately, for kill points *)
Definition overwrite_steps (mode : N) (d : dir) (base : name) (c : N) : option (list dir) :=
  let ex := match dir_get d base with Some _ => true | None => false end in
  if needs_backup mode ex base (dir_names d) then
    match next_backup_num base (dir_names d) with
    | Some n => let d1 := dir_rename d base (backup_name base n) in
                Some [d; d1; dir_set d1 base c]
    | None => None
    end
  else Some [d; dir_set d base c].

Definition valid_name (n : name) : Prop := n <> [] /\ Forall (fun c => c < 256 /\ c <> 47 /\ c <> 0) n.
