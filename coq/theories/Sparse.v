(* Sparse.v — libfs sparse-map functions (libfs/src/linux.rs):
     map_extents          :169-201  FIEMAP paging loop, page = 32
     lseek / next_sparse_segments :91-97, 206-220
     probably_sparse      :78-83
   and the kernel oracles they talk to.  The kernel is never axiomatised: it
   is a function argument; `kernel_fiemap` / `k_seek_data` / `k_seek_hole`
   below are the *contract* instances the theorems quantify over (all extent
   lists / all layouts), and the correspondence check compares them with what
   the real kernel answers. *)
From XcpModel Require Import Base Extents.

(* ------------------------------------------------------------------ *)
(* FIEMAP                                                              *)
(* ------------------------------------------------------------------ *)
Definition FIEMAP_PAGE_SIZE : nat := 32.

Record fext := mkFext { fe_logical : N; fe_length : N; fe_last : bool; fe_shared : bool }.

Inductive fiemap_ans :=
| FmUnsupported                 (* ioctl fails with EOPNOTSUPP -> Ok(false) *)
| FmErr (errno : N)             (* any other errno -> Err *)
| FmPage (pg : list fext).      (* fm_mapped_extents = length pg *)

Inductive mx_result :=
| MxSome (l : list extent)      (* Ok(Some(extents)) *)
| MxNone                        (* Ok(None): extents unsupported *)
| MxErr (errno : N)
| MxOutOfFuel.

Definition to_ext (e : fext) : extent :=
  mkExt (fe_logical e) (fe_logical e + fe_length e) (fe_shared e).

Definition fext_end (e : fext) : N := fe_logical e + fe_length e.

(* the `loop` of map_extents; `start` is req.fm_start, `acc` is `extents` *)
Fixpoint map_extents_go (fuel : nat) (fiemap : N -> fiemap_ans) (start : N)
         (acc : list extent) : mx_result :=
  match fuel with
  | O => MxOutOfFuel
  | S f =>
      match fiemap start with
      | FmUnsupported => MxNone
      | FmErr e => MxErr e
      | FmPage pg =>
          match pg with
          | [] => MxSome acc                                  (* fm_mapped_extents == 0 *)
          | x :: _ =>
              let acc' := acc ++ map to_ext pg in
              let lst := last pg x in
              if fe_last lst then MxSome acc'
              else map_extents_go f fiemap (fext_end lst) acc'
          end
      end
  end.

Definition map_extents (fuel : nat) (fiemap : N -> fiemap_ans) : mx_result :=
  map_extents_go fuel fiemap 0 [].

(* Kernel contract: a file has an extent list L; a request with fm_start = s,
   fm_length = u64::MAX, fm_extent_count = 32 returns the first 32 extents
   whose end lies beyond s (extents intersecting [s, inf)). *)
Fixpoint drop_before (s : N) (L : list fext) : list fext :=
  match L with
  | [] => []
  | e :: r => if fext_end e <=? s then drop_before s r else L
  end.

Definition kernel_fiemap (L : list fext) (s : N) : fiemap_ans :=
  FmPage (firstn FIEMAP_PAGE_SIZE (drop_before s L)).

(* L is a legal extent list: sorted by logical start, positive lengths,
   non-overlapping, and the LAST flag sits on the final extent at most. *)
Fixpoint fexts_ok (lo : N) (L : list fext) : Prop :=
  match L with
  | [] => True
  | e :: r => lo <= fe_logical e /\ 0 < fe_length e /\
              (fe_last e = true -> r = []) /\ fexts_ok (fext_end e) r
  end.

Fixpoint fexts_okb (lo : N) (L : list fext) : bool :=
  match L with
  | [] => true
  | e :: r => (lo <=? fe_logical e) && (0 <? fe_length e) &&
              (negb (fe_last e) || match r with [] => true | _ => false end) &&
              fexts_okb (fext_end e) r
  end.

(* ------------------------------------------------------------------ *)
(* SEEK_DATA / SEEK_HOLE                                               *)
(* ------------------------------------------------------------------ *)
Inductive seek_ans := SkOff (off : N) | SkEOF (* ENXIO *) | SkErr (errno : N).

Inductive seg_result :=
| SegOk (segs : list (N * N))
| SegErr (errno : N)
| SegOutOfFuel.

(* next_sparse_segments: (next_data, next_hole); ENXIO -> file length.
   The two trailing lseek(SEEK_SET) calls only move cursors and are modelled
   in CopyLoop. *)
Definition next_segment (seek_data seek_hole : N -> seek_ans) (len pos : N)
  : N * N + N :=
  match seek_data pos with
  | SkErr e => inr e
  | a =>
      let next_data := match a with SkOff o => o | _ => len end in
      match seek_hole next_data with
      | SkErr e => inr e
      | b =>
          let next_hole := match b with SkOff o => o | _ => len end in
          inl (next_data, next_hole)
      end
  end.

(* the `while pos < len` walk of copy_sparse (operations.rs:81-93 and
   linux.rs:224-236), collecting the segments it would copy *)
Fixpoint segments_go (fuel : nat) (seek_data seek_hole : N -> seek_ans)
         (len pos : N) : seg_result :=
  if len <=? pos then SegOk [] else
  match fuel with
  | O => SegOutOfFuel
  | S f =>
      match next_segment seek_data seek_hole len pos with
      | inr e => SegErr e
      | inl (d, h) =>
          match segments_go f seek_data seek_hole len h with
          | SegOk r => SegOk ((d, h) :: r)
          | x => x
          end
      end
  end.

Definition segments (fuel : nat) (sd sh : N -> seek_ans) (len : N) : seg_result :=
  segments_go fuel sd sh len 0.

(* Kernel contract: a layout is a list of data intervals [s,e), sorted,
   non-empty, separated by non-empty holes, all inside [0,len). *)
Definition layout := list (N * N).

Fixpoint layout_ok (lo len : N) (L : layout) : Prop :=
  match L with
  | [] => True
  | (s, e) :: r => lo <= s /\ s < e /\ e <= len /\
                   match r with [] => True | (s', _) :: _ => e < s' end /\
                   layout_ok e len r
  end.

Fixpoint layout_okb (lo len : N) (L : layout) : bool :=
  match L with
  | [] => true
  | (s, e) :: r => (lo <=? s) && (s <? e) && (e <=? len) &&
                   match r with [] => true | (s', _) :: _ => e <? s' end &&
                   layout_okb e len r
  end.

Definition in_data (L : layout) (i : N) : Prop :=
  exists s e, In (s, e) L /\ s <= i /\ i < e.
Definition in_datab (L : layout) (i : N) : bool :=
  existsb (fun se => (fst se <=? i) && (i <? snd se)) L.

(* lseek(fd, pos, SEEK_DATA): smallest offset >= pos that is data; ENXIO if
   none or pos >= len *)
Fixpoint k_seek_data (L : layout) (len pos : N) : seek_ans :=
  if len <=? pos then SkEOF else
  match L with
  | [] => SkEOF
  | (s, e) :: r => if pos <? e then SkOff (N.max pos s) else k_seek_data r len pos
  end.

(* lseek(fd, pos, SEEK_HOLE): smallest offset >= pos that is a hole; the end
   of file counts as a hole; ENXIO if pos >= len *)
Fixpoint k_seek_hole (L : layout) (len pos : N) : seek_ans :=
  if len <=? pos then SkEOF else
  match L with
  | [] => SkOff pos
  | (s, e) :: r => if pos <? s then SkOff pos
                   else if pos <? e then SkOff e
                   else k_seek_hole r len pos
  end.

(* probably_sparse: st_blocks < st_size / 512 *)
Definition probably_sparse (st_blocks st_size : N) : bool := st_blocks <? st_size / 512.

(* ------------------------------------------------------------------ *)
(* flat encodings for the harness                                      *)
(* ------------------------------------------------------------------ *)
Fixpoint decode_fexts (l : list N) : list fext :=
  match l with
  | lg :: ln :: la :: sh :: r => mkFext lg ln (negb (la =? 0)) (negb (sh =? 0)) :: decode_fexts r
  | _ => []
  end.

Fixpoint decode_layout (l : list N) : layout :=
  match l with
  | s :: e :: r => (s, e) :: decode_layout r
  | _ => []
  end.

Fixpoint encode_segs (l : list (N * N)) : list N :=
  match l with [] => [] | (a, b) :: r => a :: b :: encode_segs r end.

(* result encodings: first element is a tag *)
Definition encode_mx (r : mx_result) : list N :=
  match r with
  | MxSome l => 0 :: encode_exts l
  | MxNone => [1]
  | MxErr e => [2; e]
  | MxOutOfFuel => [3]
  end.

Definition encode_seg (r : seg_result) : list N :=
  match r with
  | SegOk l => 0 :: encode_segs l
  | SegErr e => [2; e]
  | SegOutOfFuel => [3]
  end.
