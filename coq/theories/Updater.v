(* Updater.v — libxcp/src/feedback.rs: StatusUpdate, ChannelUpdater::send
   (batching of Copied updates), NoopUpdater; and the global update log of a
   run as an interleaving of per-file update sequences. *)
From XcpModel Require Import Base.

Inductive update := USize (n : N) | UCopied (n : N) | UError.

(* ChannelUpdater::send, with `sent` the AtomicU64 (fetch_add is atomic, so a
   concurrent run is some sequential order of sends — the `send order`):
     let prev = sent.fetch_add(bytes);
     if (prev + bytes) / bsize > prev / bsize { chan.send(update) }
   returns (new sent, delivered?) ; bs = 0 panics (division by zero) *)
Definition chan_send (bs sent : N) (u : update) : N * list update :=
  match u with
  | UCopied b => (sent + b, if sent / bs <? (sent + b) / bs then [u] else [])
  | _ => (sent, [u])
  end.

Fixpoint chan_deliver (bs sent : N) (sends : list update) : list update :=
  match sends with
  | [] => []
  | u :: r => let '(s', d) := chan_send bs sent u in d ++ chan_deliver bs s' r
  end.

Definition noop_deliver (sends : list update) : list update := [].

Definition copied_of (u : update) : N := match u with UCopied n => n | _ => 0 end.
Definition size_of (u : update) : N := match u with USize n => n | _ => 0 end.
Definition sum_copied (l : list update) : N := sumN (map copied_of l).
Definition sum_size (l : list update) : N := sumN (map size_of l).
Definition has_error (l : list update) : bool := existsb (fun u => match u with UError => true | _ => false end) l.

(* ---- the global send log of a run: events tagged with the file they belong to ---- *)
Inductive gev := GSize (f : nat) (n : N) | GCopied (f : nat) (n : N) | GError.

Definition gev_update (e : gev) : update :=
  match e with GSize _ n => USize n | GCopied _ n => UCopied n | GError => UError end.

(* per-file accounting over a log *)
Definition copied_for (f : nat) (l : list gev) : N :=
  sumN (map (fun e => match e with GCopied g n => if Nat.eqb f g then n else 0 | _ => 0 end) l).
Definition size_for (f : nat) (l : list gev) : N :=
  sumN (map (fun e => match e with GSize g n => if Nat.eqb f g then n else 0 | _ => 0 end) l).

(* The protocol facts (proved for the drivers' models elsewhere, checked on
   traces by the correspondence): for every file f and every prefix p of the
   log, the bytes reported copied for f never exceed the size announced for f
   in p (Size is sent before the operation is queued; a file's transfers never
   total more than its length). *)
Definition log_ok (l : list gev) : Prop :=
  forall p s, l = p ++ s -> forall f, copied_for f p <= size_for f p.

(* flat encodings *)
Fixpoint decode_updates (l : list N) : list update :=
  match l with
  | k :: v :: r => (if k =? 0 then USize v else if k =? 1 then UCopied v else UError) :: decode_updates r
  | _ => []
  end.
Fixpoint encode_updates (l : list update) : list N :=
  match l with
  | [] => []
  | USize v :: r => 0 :: v :: encode_updates r
  | UCopied v :: r => 1 :: v :: encode_updates r
  | UError :: r => 2 :: 0 :: encode_updates r
  end.
