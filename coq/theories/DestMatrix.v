(* DestMatrix.v — what xcp does with what it FINDS at the mapped destination of a top-level operand: one table, source kind x
   state of the destination entry x option, derived from the pieces modelled elsewhere (Main.validate: a directory onto a
   non-directory is refused up front; Walker: the no-clobber test is an lstat; Ops.copy_actions_d: same-file, directory
   and dangling-link refusals, backup rename, create+truncate THROUGH a link; Meta.special_worker: unlink + mknod;
   symlink(2): EEXIST).  Every cell is compared with the real binary on every run (harness/destmatrix.py). *)
From Coq Require Import NArith List Bool.
Import ListNotations.
Open Scope N_scope.

Inductive skind := SFile | SDir | SLink | SSpecial.
Inductive dstate := DAbsent | DFile | DDirEmpty | DDirFull | DLinkFile | DLinkDir | DDangling | DSpecial.
Inductive dopt := ONone | ONoClobber | OBackup.      (* --backup numbered *)

Inductive outcome :=
| Created            (* an entry of the source's kind is now at the path; a previous entry there is gone *)
| CreatedBackedUp    (* the previous entry was renamed to <name>.~N~ first *)
| WrittenThrough     (* regular file onto a link to a file: the link stays, its target receives the bytes (as cp) *)
| Merged             (* directory onto a directory, or onto a link to one: the contents go inside *)
| Refused            (* non-zero exit; nothing at or below the path, and no bystander, changed *)
| Blocks.            (* regular file onto a FIFO: opened for writing, waits for a reader (as cp) *)

Definition exists_follow (d : dstate) : bool :=      (* Path::exists(): follows links *)
  match d with DAbsent | DDangling => false | _ => true end.
Definition lexists (d : dstate) : bool := match d with DAbsent => false | _ => true end.
Definition is_real_dir (d : dstate) : bool := match d with DDirEmpty | DDirFull => true | _ => false end.
Definition is_dir_follow (d : dstate) : bool := match d with DDirEmpty | DDirFull | DLinkDir => true | _ => false end.

Definition dest_outcome (s : skind) (d : dstate) (o : dopt) : outcome :=
  match o, lexists d with
  | ONoClobber, true => Refused                          (* the walker's lstat test, whatever the kinds *)
  | _, _ =>
    match s with
    | SFile =>
        if negb (lexists d) then Created
        else if negb (exists_follow d) then Refused      (* dangling link: never written through *)
        else if is_real_dir d then Refused               (* never a file where a directory is, backups or not *)
        else match o with
             | OBackup => CreatedBackedUp                (* the entry itself (file, link, node) is renamed away *)
             | _ => match d with
                    | DFile => Created
                    | DLinkFile => WrittenThrough
                    | DLinkDir => Refused                (* open for writing of a directory: EISDIR *)
                    | DSpecial => Blocks
                    | _ => Refused
                    end
             end
    | SDir =>
        if negb (lexists d) then Created
        else if is_dir_follow d then Merged
        else Refused                                     (* validation: a directory onto a non-directory *)
    | SLink => if lexists d then Refused else Created    (* symlink(2): EEXIST *)
    | SSpecial =>
        if negb (lexists d) then Created
        else if negb (exists_follow d) then Refused      (* Path::exists() says absent, mknod says EEXIST *)
        else if is_real_dir d then Refused               (* unlink of a directory: EISDIR *)
        else Created                                     (* unlink (never a backup), then mknod *)
    end
  end.

Definition s_of (n : N) : skind := match n with 0 => SFile | 1 => SDir | 2 => SLink | _ => SSpecial end.
Definition d_of (n : N) : dstate :=
  match n with 0 => DAbsent | 1 => DFile | 2 => DDirEmpty | 3 => DDirFull | 4 => DLinkFile | 5 => DLinkDir | 6 => DDangling | _ => DSpecial end.
Definition o_of (n : N) : dopt := match n with 0 => ONone | 1 => ONoClobber | _ => OBackup end.
Definition outcome_code (r : outcome) : N :=
  match r with Created => 0 | CreatedBackedUp => 1 | WrittenThrough => 2 | Merged => 3 | Refused => 4 | Blocks => 5 end.

Definition all_skind := [SFile; SDir; SLink; SSpecial].
Definition all_dstate := [DAbsent; DFile; DDirEmpty; DDirFull; DLinkFile; DLinkDir; DDangling; DSpecial].
Definition all_dopt := [ONone; ONoClobber; OBackup].

(* ---- one more state of the destination, outside the table above because no entry is FOUND: the PARENT directory of the
   mapped destination does not exist (`xcp f nodir/f`).  A directory source creates the missing ancestors itself
   (create_dir_all); for every other kind the creating call — open(O_CREAT), symlink, mknod — answers ENOENT, which is a
   failed step like any other: refused, nothing created.  It is never `the source vanished`. *)
Definition parent_missing_outcome (s : skind) : outcome :=
  match s with SDir => Created | _ => Refused end.
