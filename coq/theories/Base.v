(* Base.v — shared conventions of the xcp model.
   Numbers are N (Rust u64/usize modelled unbounded, with explicit bounds
   where wrap/panic matters).  No proofs here: models stay runnable when a
   proof breaks. *)
From Coq Require Export List NArith Bool Lia.
Export ListNotations.
Open Scope N_scope.

Arguments N.add : simpl never.
Arguments N.sub : simpl never.
Arguments N.mul : simpl never.
Arguments N.div : simpl never.
Arguments N.modulo : simpl never.
Arguments N.eqb : simpl never.
Arguments N.ltb : simpl never.
Arguments N.leb : simpl never.
Arguments N.min : simpl never.
Arguments N.max : simpl never.

(* u64 bound *)
Definition U64 : N := 18446744073709551616.   (* 2^64 *)
Definition U64MAX : N := 18446744073709551615.

(* errno values that the model distinguishes (Linux x86-64 numbering) *)
Definition EPERM : N := 1.
Definition ENOENT : N := 2.
Definition EINTR : N := 4.
Definition EIO : N := 5.
Definition ENXIO : N := 6.
Definition EACCES : N := 13.
Definition EEXIST : N := 17.
Definition EXDEV : N := 18.
Definition EINVAL : N := 22.
Definition EMFILE : N := 24.
Definition ETXTBSY : N := 26.
Definition ENOSPC : N := 28.
Definition EROFS : N := 30.
Definition ENOSYS : N := 38.
Definition EOPNOTSUPP : N := 95.

(* half-open byte interval [lo, hi) *)
Definition in_range (lo hi i : N) : Prop := lo <= i /\ i < hi.
Definition in_rangeb (lo hi i : N) : bool := (lo <=? i) && (i <? hi).

(* sum of a list of N *)
Fixpoint sumN (l : list N) : N :=
  match l with [] => 0 | x :: r => x + sumN r end.

Definition b2n (b : bool) : N := if b then 1 else 0.
