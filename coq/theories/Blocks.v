(* Blocks.v — the block arithmetic of parblock::queue_file_range
   (libxcp/src/drivers/parblock.rs:113-148):

     let len = range.end - range.start;
     let blocks = (len / bsize) + (if len % bsize > 0 { 1 } else { 0 });
     for blkn in 0..blocks {
         let bytes = cmp::min(len - (blkn * bsize), bsize);
         let off = range.start + (blkn * bsize);
*)
From XcpModel Require Import Base.

Definition nblocks (len bs : N) : N := len / bs + (if 0 <? len mod bs then 1 else 0).
Definition blk_bytes (len bs k : N) : N := N.min (len - k * bs) bs.
Definition blk_off (start bs k : N) : N := start + k * bs.

(* the jobs of one range, in queueing order *)
Definition range_jobs (start len bs : N) : list (N * N) :=
  map (fun k => let k := N.of_nat k in (blk_off start bs k, blk_bytes len bs k))
      (seq 0 (N.to_nat (nblocks len bs))).

(* every u64 intermediate of the Rust code for block k *)
Definition blk_intermediates (start len bs k : N) : list N :=
  [len / bs; len mod bs; nblocks len bs; k * bs; len - k * bs; blk_bytes len bs k; blk_off start bs k].
