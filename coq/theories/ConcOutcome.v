(* ConcOutcome.v — what a history of the parblock / parfile protocol does to
   ONE destination file, as a small automaton over the events of that file.

   A history is schedule-independent in its effect when, for every handle h,
   the events of h spell   EOpen h ; EWrite h b (each block of h once, in any
   order) ; EFinal h   and nothing else — or, for an inline operation, the
   single event EInline h.  `phase_of h ev` runs that automaton; it is
   executable, so the same function judges (a) every reachable history of the
   protocol models (theorems in ConcOutcomeProofs.v) and (b) the projection of
   a real supervisor trace of xcp (correspondence, harness/props/c06.py). *)
From XcpModel Require Import Base ConcBlock.
From Coq Require Import Arith PeanoNat Permutation.
Local Open Scope nat_scope.

Inductive phase :=
| PNone                       (* nothing has happened to h *)
| POpen (bs : list nat)       (* descriptors open; blocks written so far, newest first *)
| PFinal (bs : list nat)      (* finalised (metadata, fsync, close) after writing bs *)
| PInline                     (* link / special node created *)
| PBad.                       (* anything else: write before open, after finalise, twice ... *)

Definition phase_step (p : phase) (e : bev) : phase :=
  match p, e with
  | PNone, EOpen _ => POpen []
  | PNone, EInline _ => PInline
  | POpen bs, EWrite _ b => POpen (b :: bs)
  | POpen bs, EFinal _ => PFinal bs
  | _, _ => PBad
  end.

(* ev is newest first, as in b_ev *)
Fixpoint phase_of (h : nat) (ev : list bev) : phase :=
  match ev with
  | [] => PNone
  | e :: older => if Nat.eqb (ev_handle e) h then phase_step (phase_of h older) e else phase_of h older
  end.

(* the outcome the operation must have, whatever the schedule *)
Definition outcome_ok (o : bop) (p : phase) : Prop :=
  match o, p with
  | OCopy js, PFinal bs => Permutation bs js
  | OInline, PInline => True
  | _, _ => False
  end.

(* blocks of h written anywhere in the history *)
Definition blocks_of (h : nat) (ev : list bev) : list nat :=
  map snd (filter (fun p => Nat.eqb (fst p) h) (written ev)).

(* ---------- executable form, used on projected traces ---------- *)
Fixpoint insert_sorted (x : nat) (l : list nat) : list nat :=
  match l with
  | [] => [x]
  | y :: r => if x <=? y then x :: l else y :: insert_sorted x r
  end.
Definition sort_nat (l : list nat) : list nat := fold_right insert_sorted [] l.

Fixpoint list_eqb (a b : list nat) : bool :=
  match a, b with
  | [], [] => true
  | x :: a', y :: b' => Nat.eqb x y && list_eqb a' b'
  | _, _ => false
  end.

Definition outcome_okb (o : bop) (p : phase) : bool :=
  match o, p with
  | OCopy js, PFinal bs => list_eqb (sort_nat bs) (sort_nat js)
  | OInline, PInline => true
  | _, _ => false
  end.

(* every operation of `ops` (handle = position) has its outcome in history ev,
   and no other handle below `bound` has any event *)
Fixpoint all_outcomes_from (h : nat) (ops : list bop) (ev : list bev) : bool :=
  match ops with
  | [] => true
  | o :: r => outcome_okb o (phase_of h ev) && all_outcomes_from (S h) r ev
  end.
Definition history_ok (ops : list bop) (ev : list bev) : bool :=
  all_outcomes_from 0 ops ev && forallb (fun e => ev_handle e <? length ops) ev.

(* the events of one handle, oldest first *)
Definition events_of (h : nat) (ev : list bev) : list bev :=
  filter (fun e => Nat.eqb (ev_handle e) h) (rev ev).

(* the outcome of one file with the completion order of its blocks forgotten *)
Definition norm_phase (p : phase) : phase :=
  match p with POpen bs => POpen (sort_nat bs) | PFinal bs => PFinal (sort_nat bs) | other => other end.
