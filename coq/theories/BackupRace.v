(* BackupRace.v — two workers of ONE run, both overwriting with numbered backups in one directory:
     A overwrites  f        (its old version must go to f.~N~, N above every number present),
     B overwrites  f.~1~    (a destination file that is itself NAMED like a backup of f; its old version goes to f.~1~.~M~).
   Each overwrite is three steps of CopyHandle::new: scan the directory for the next number, rename the old file to the
   backup name, create (truncate) the destination.  The directory is a function from the six names involved to contents. *)
From Coq Require Import NArith List Bool.
Import ListNotations.
Open Scope N_scope.

Inductive nm := F | F1 | F2 | F3 | F11 | F12.     (* f, f.~1~, f.~2~, f.~3~, f.~1~.~1~, f.~1~.~2~ *)
Definition nm_eqb (a b : nm) : bool :=
  match a, b with F, F | F1, F1 | F2, F2 | F3, F3 | F11, F11 | F12, F12 => true | _, _ => false end.
Definition dir := nm -> option N.
Definition set (d : dir) (k : nm) (v : option N) : dir := fun x => if nm_eqb x k then v else d x.
Definition present (d : dir) (k : nm) : bool := match d k with Some _ => true | None => false end.

(* next_backup_num: one more than the largest number present for that base (the names outside this universe are not
   reachable from the initial states considered; `None` marks them) *)
Definition next_for_f (d : dir) : option nm :=
  if present d F3 then None else if present d F2 then Some F3 else if present d F1 then Some F2 else Some F1.
Definition next_for_f1 (d : dir) : option nm :=
  if present d F12 then None else if present d F11 then Some F12 else Some F11.

Inductive step := A_scan | A_rename | A_create | B_scan | B_rename | B_create.
Record st := mkSt { s_dir : dir; s_an : option nm; s_bn : option nm }.   (* the numbers the two scans chose *)

Definition exec (newf newb : N) (s : st) (p : step) : st :=
  match p with
  | A_scan => mkSt (s_dir s) (next_for_f (s_dir s)) (s_bn s)
  | B_scan => mkSt (s_dir s) (s_an s) (next_for_f1 (s_dir s))
  | A_rename => match s_an s with
                | Some b => mkSt (set (set (s_dir s) b (s_dir s F)) F None) (s_an s) (s_bn s)    (* rename(f, f.~N~) replaces *)
                | None => s end
  | B_rename => match s_bn s with
                | Some b => mkSt (set (set (s_dir s) b (s_dir s F1)) F1 None) (s_an s) (s_bn s)
                | None => s end
  | A_create => mkSt (set (s_dir s) F (Some newf)) (s_an s) (s_bn s)                            (* File::create truncates *)
  | B_create => mkSt (set (s_dir s) F1 (Some newb)) (s_an s) (s_bn s)
  end.

Definition run (newf newb : N) (d0 : dir) (sched : list step) : dir := s_dir (fold_left (exec newf newb) sched (mkSt d0 None None)).
Definition snapshot (d : dir) : list (option N) := map d [F; F1; F2; F3; F11; F12].

(* the destination as a first copy left it: f and f.~1~ (the latter an ordinary file of the tree) *)
Definition d_init (oldf oldb : N) : dir := fun x => match x with F => Some oldf | F1 => Some oldb | _ => None end.

(* with the lock the three steps of one worker are not interleaved with the other's: two schedules *)
Definition sched_AB := [A_scan; A_rename; A_create; B_scan; B_rename; B_create].
Definition sched_BA := [B_scan; B_rename; B_create; A_scan; A_rename; A_create].
(* without it: e.g. A scans in the gap between B's rename and B's create *)
Definition sched_gap := [B_scan; B_rename; A_scan; A_rename; A_create; B_create].
