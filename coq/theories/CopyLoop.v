(* CopyLoop.v — the data-moving loops of xcp over an abstract transfer
   primitive.

   A *transfer request* (xreq) asks the kernel to move r_len bytes from source
   offset r_src to destination offset r_dst; the answer is XOk k (k bytes were
   moved, possibly fewer than asked, possibly 0) or XErr errno.
     - parfile:  libfs::copy_file_bytes  = copy_file_range with NULL offsets
                 (both cursors advance by k), or — when the kernel answers
                 ENOSYS/EPERM/EXDEV — copy_bytes_uspace, which moves all r_len
                 bytes or fails (Uspace.v proves that).
     - parblock: libfs::copy_file_offset = copy_file_range with explicit equal
                 offsets, or copy_range_uspace under the same fallback rule.
   Answers come from a list (the oracle), consumed one per request; the
   correspondence check feeds the answers the real kernel gave. *)
From XcpModel Require Import Base Sparse.

Inductive xans := XOk (k : N) | XErr (e : N).
Record xreq := mkReq { r_src : N; r_dst : N; r_len : N }.
Definition xtrace := list (xreq * xans).

Inductive status := StOk | StErr (e : N) | StStuck (* oracle exhausted *) | StOutOfFuel.

Definition moved (a : xans) : N := match a with XOk k => k | XErr _ => 0 end.
Definition total_moved (tr : xtrace) : N := sumN (map (fun e => moved (snd e)) tr).

(* Which source byte ends up at destination byte i after the transfers of tr
   (later transfers win); None = never written. *)
Fixpoint src_of (tr : xtrace) (i : N) : option N :=
  match tr with
  | [] => None
  | (r, a) :: t =>
      match src_of t i with
      | Some s => Some s
      | None => if (r_dst r <=? i) && (i <? r_dst r + moved a)
                then Some (r_src r + (i - r_dst r)) else None
      end
  end.

(* the StatusUpdate::Copied values sent, in order *)
Definition copied_updates (tr : xtrace) : list N :=
  flat_map (fun e => match snd e with XOk k => [k] | XErr _ => [] end) tr.

Definition EPREMATURE : N := 1000.   (* model-only code: "Source file ended prematurely" *)

Record loop_out := mkOut { o_st : status; o_trace : xtrace; o_rest : list xans }.

Definition out_cons (e : xreq * xans) (o : loop_out) : loop_out :=
  mkOut (o_st o) (e :: o_trace o) (o_rest o).
Definition out_app (tr : xtrace) (o : loop_out) : loop_out :=
  mkOut (o_st o) (tr ++ o_trace o) (o_rest o).

(* ------------------------------------------------------------------ *)
(* CopyHandle::copy_bytes (libxcp/src/operations.rs:68-78)             *)
(*   while written < len {                                             *)
(*     let bytes_to_copy = min(len - written, block_size);             *)
(*     let bytes = copy_file_bytes(in, out, bytes_to_copy)?;           *)
(*     if bytes == 0 { return Err(..) }   (after `fix: copy_bytes fails   *)
(*                                         instead of spinning`)        *)
(*     written += bytes;  updates.send(Copied(bytes))?;  }             *)
(* `cur` is the common position of the two descriptor cursors.         *)
(* ------------------------------------------------------------------ *)
Fixpoint copy_bytes (fuel : nat) (bs len written cur : N) (ans : list xans) : loop_out :=
  if len <=? written then mkOut StOk [] ans else
  match fuel with
  | O => mkOut StOutOfFuel [] ans
  | S f =>
      let req := mkReq cur cur (N.min (len - written) bs) in
      match ans with
      | [] => mkOut StStuck [] []
      | XErr e :: rest => mkOut (StErr e) [(req, XErr e)] rest
      | XOk k :: rest =>
          if k =? 0 then mkOut (StErr EPREMATURE) [(req, XOk 0)] rest     (* no progress: fail, do not spin *)
          else out_cons (req, XOk k) (copy_bytes f bs len (written + k) (cur + k) rest)
      end
  end.

(* ------------------------------------------------------------------ *)
(* CopyHandle::copy_sparse (operations.rs:81-93): for each data segment *)
(* found by next_sparse_segments, seek both cursors to its start and    *)
(* copy_bytes(next_hole - next_data).                                   *)
(* ------------------------------------------------------------------ *)
Fixpoint copy_sparse (fuel : nat) (bs len pos : N) (sd sh : N -> seek_ans) (ans : list xans)
  : loop_out :=
  if len <=? pos then mkOut StOk [] ans else
  match fuel with
  | O => mkOut StOutOfFuel [] ans
  | S f =>
      match next_segment sd sh len pos with
      | inr e => mkOut (StErr e) [] ans
      | inl (d, h) =>
          if (h <=? pos) || (h <? d) then mkOut (StErr EPREMATURE) [] ans   (* the source shrank: fail, do not spin *)
          else
          let r := copy_bytes (S (length ans)) bs (h - d) 0 d ans in
          match o_st r with
          | StOk => out_app (o_trace r) (copy_sparse f bs len h sd sh (o_rest r))
          | _ => r
          end
      end
  end.

(* As before repair 61ae7c3 (no progress guard).  The seek answers are the environment's: a source truncated to T <= pos
   while it is being copied makes SEEK_DATA answer ENXIO and the fstat that follows answer T, which next_segment turns
   into the pair (T, T) exactly as `SkOff T` would — so arbitrary answer functions cover that case.  Kept to state why
   the repair was needed (CopyLoopProofs.copy_sparse_pinned_spins). *)
Fixpoint copy_sparse_pinned (fuel : nat) (bs len pos : N) (sd sh : N -> seek_ans) (ans : list xans)
  : loop_out :=
  if len <=? pos then mkOut StOk [] ans else
  match fuel with
  | O => mkOut StOutOfFuel [] ans
  | S f =>
      match next_segment sd sh len pos with
      | inr e => mkOut (StErr e) [] ans
      | inl (d, h) =>
          let r := copy_bytes (S (length ans)) bs (h - d) 0 d ans in
          match o_st r with
          | StOk => out_app (o_trace r) (copy_sparse_pinned f bs len h sd sh (o_rest r))
          | _ => r
          end
      end
  end.

(* ------------------------------------------------------------------ *)
(* one parblock block job (parblock.rs, closure in queue_file_range).   *)
(* ------------------------------------------------------------------ *)
(* As on the pinned tree: ONE copy_file_offset call; its return value is only
   reported as progress.  Kept to state why the repair was needed. *)
Definition block_job_pinned (off bytes : N) (ans : list xans) : loop_out :=
  let req := mkReq off off bytes in
  match ans with
  | [] => mkOut StStuck [] []
  | a :: rest => mkOut (match a with XOk _ => StOk | XErr e => StErr e end) [(req, a)] rest
  end.

(* After `fix: parblock completes short block copies`: repeat until the block
   is complete; a zero-byte answer ends the job — normally at/after the end of
   the source (extent ranges are block-granular and may overhang the file),
   as an error when bytes are still missing before the end of the source. *)
Fixpoint block_job (fuel : nat) (flen off bytes done : N) (ans : list xans) : loop_out :=
  match fuel with
  | O => mkOut StOutOfFuel [] ans
  | S f =>
      let req := mkReq (off + done) (off + done) (bytes - done) in
      match ans with
      | [] => mkOut StStuck [] []
      | XErr e :: rest => mkOut (StErr e) [(req, XErr e)] rest
      | XOk k :: rest =>
          if k =? 0 then
            mkOut (if flen <=? off + done then StOk else StErr EPREMATURE) [(req, XOk 0)] rest
          else if bytes <=? done + k then mkOut StOk [(req, XOk k)] rest
          else out_cons (req, XOk k) (block_job f flen off bytes (done + k) rest)
      end
  end.

(* contract on observed answers: the kernel never moves more than asked *)
Definition ans_bounded (tr : xtrace) : Prop :=
  Forall (fun e => moved (snd e) <= r_len (fst e)) tr.
Definition ans_boundedb (tr : xtrace) : bool :=
  forallb (fun e => moved (snd e) <=? r_len (fst e)) tr.

(* progress contract: a successful answer to a non-empty request moves >= 1 byte *)
Definition ans_progress (l : list xans) : Prop :=
  Forall (fun a => match a with XOk k => 1 <= k | XErr _ => True end) l.
