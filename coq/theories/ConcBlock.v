(* ConcBlock.v — the parblock protocol (libxcp/src/drivers/parblock.rs) as a
   labelled transition system.

   Threads: the walker (tree_walker: sends operations into an unbounded
   channel, then drops the sender), the dispatcher (dispatch_worker: receives
   operations in order; for a Copy opens the handle, pushes one job per block
   into the thread pool — `execute` blocks while the pool's queue holds Q jobs —
   then drops its own reference; Link/Special are done inline; when the channel
   is closed and drained it joins the pool) and W pool workers (take a job,
   run it, drop its reference to the handle).

   The handle is an Arc: its reference count is the number of live clones, i.e.
   (jobs of h waiting in the pool queue) + (jobs of h running) + (1 while the
   dispatcher is still queueing h).  The count is therefore DERIVED from the
   state, and finalisation (CopyHandle::drop -> finalise_copy, then the
   descriptors close) is emitted by the step that removes the last reference. *)
From XcpModel Require Import Base.
From Coq Require Import Arith PeanoNat.
Local Open Scope nat_scope.

Inductive bop :=
| OCopy (jobs : list nat)     (* a regular file: its block jobs, in queueing order *)
| OInline.                    (* Link / Special: done by the dispatcher itself *)

Inductive bev :=
| EOpen (h : nat)             (* CopyHandle::new: both descriptors open *)
| EWrite (h b : nat)          (* block job b of handle h completed *)
| EFinal (h : nat)            (* last reference dropped: finalise_copy + close *)
| EInline (h : nat).

Inductive dstate := DIdle | DQueue (h : nat) (rest : list nat) | DJoin | DDone.

Record bst := mkB {
  b_todo : list bop;               (* operations the walker has not sent yet *)
  b_next : nat;                    (* id of the next operation (= handle id) *)
  b_wdone : bool;                  (* walker finished: sender dropped *)
  b_fq : list (nat * bop);         (* the unbounded operation channel *)
  b_disp : dstate;
  b_pq : list (nat * nat);         (* the pool's bounded job queue: (handle, block) *)
  b_run : list (nat * nat);        (* jobs running on pool workers *)
  b_open : list nat;               (* handles whose descriptors are open *)
  b_ev : list bev }.               (* history, newest first *)

Inductive label := LWalk | LDisp | LTake | LDone (k : nat).

Definition count_h (h : nat) (l : list (nat * nat)) : nat :=
  length (filter (fun j => Nat.eqb (fst j) h) l).

Definition disp_holds (d : dstate) (h : nat) : bool :=
  match d with DQueue h' _ => Nat.eqb h' h | _ => false end.

(* the Arc strong count of handle h *)
Definition refs (s : bst) (h : nat) : nat :=
  count_h h (b_pq s) + count_h h (b_run s) + (if disp_holds (b_disp s) h then 1 else 0).

Fixpoint remove_nth {A} (k : nat) (l : list A) : list A :=
  match k, l with
  | O, _ :: r => r
  | S k', x :: r => x :: remove_nth k' r
  | _, [] => []
  end.

Fixpoint remove_h (h : nat) (l : list nat) : list nat :=
  match l with
  | [] => []
  | x :: r => if Nat.eqb x h then remove_h h r else x :: remove_h h r
  end.

Section Step.
  Variable W Q : nat.     (* pool threads, pool queue length (128 in the source) *)

  Definition step (s : bst) (l : label) : option bst :=
    match l with
    | LWalk =>
        match b_todo s with
        | o :: r => Some (mkB r (S (b_next s)) (b_wdone s) (b_fq s ++ [(b_next s, o)]) (b_disp s)
                              (b_pq s) (b_run s) (b_open s) (b_ev s))
        | [] => if b_wdone s then None
                else Some (mkB [] (b_next s) true (b_fq s) (b_disp s) (b_pq s) (b_run s) (b_open s) (b_ev s))
        end
    | LDisp =>
        match b_disp s with
        | DIdle =>
            match b_fq s with
            | (h, OCopy js) :: r =>
                Some (mkB (b_todo s) (b_next s) (b_wdone s) r (DQueue h js) (b_pq s) (b_run s)
                          (h :: b_open s) (EOpen h :: b_ev s))
            | (h, OInline) :: r =>
                Some (mkB (b_todo s) (b_next s) (b_wdone s) r DIdle (b_pq s) (b_run s) (b_open s)
                          (EInline h :: b_ev s))
            | [] => if b_wdone s
                    then Some (mkB (b_todo s) (b_next s) true [] DJoin (b_pq s) (b_run s) (b_open s) (b_ev s))
                    else None            (* blocked in recv() *)
            end
        | DQueue h (b :: rest) =>
            if length (b_pq s) <? Q
            then Some (mkB (b_todo s) (b_next s) (b_wdone s) (b_fq s) (DQueue h rest) (b_pq s ++ [(h, b)])
                           (b_run s) (b_open s) (b_ev s))
            else None                    (* blocked in execute(): queue full *)
        | DQueue h [] =>
            (* queue_file_blocks returns: the dispatcher's Arc is dropped *)
            if (count_h h (b_pq s) + count_h h (b_run s) =? 0)%nat
            then Some (mkB (b_todo s) (b_next s) (b_wdone s) (b_fq s) DIdle (b_pq s) (b_run s)
                           (remove_h h (b_open s)) (EFinal h :: b_ev s))
            else Some (mkB (b_todo s) (b_next s) (b_wdone s) (b_fq s) DIdle (b_pq s) (b_run s) (b_open s) (b_ev s))
        | DJoin =>
            match b_pq s, b_run s with
            | [], [] => Some (mkB (b_todo s) (b_next s) (b_wdone s) (b_fq s) DDone [] [] (b_open s) (b_ev s))
            | _, _ => None               (* blocked in join() *)
            end
        | DDone => None
        end
    | LTake =>
        match b_pq s with
        | j :: r => if length (b_run s) <? W
                    then Some (mkB (b_todo s) (b_next s) (b_wdone s) (b_fq s) (b_disp s) r (j :: b_run s)
                                   (b_open s) (b_ev s))
                    else None
        | [] => None
        end
    | LDone k =>
        match nth_error (b_run s) k with
        | Some (h, b) =>
            let run' := remove_nth k (b_run s) in
            if ((count_h h (b_pq s) + count_h h run' =? 0)%nat) && negb (disp_holds (b_disp s) h)
            then Some (mkB (b_todo s) (b_next s) (b_wdone s) (b_fq s) (b_disp s) (b_pq s) run'
                           (remove_h h (b_open s)) (EFinal h :: EWrite h b :: b_ev s))
            else Some (mkB (b_todo s) (b_next s) (b_wdone s) (b_fq s) (b_disp s) (b_pq s) run'
                           (b_open s) (EWrite h b :: b_ev s))
        | None => None
        end
    end.

  Definition init (ops : list bop) : bst := mkB ops 0 false [] DIdle [] [] [] [].

  Definition final (s : bst) : bool :=
    match b_todo s, b_fq s, b_disp s, b_pq s, b_run s with
    | [], [], DDone, [], [] => b_wdone s
    | _, _, _, _, _ => false
    end.

  (* run a schedule (labels that are not enabled are skipped) *)
  Fixpoint run_sched (s : bst) (sched : list label) : bst :=
    match sched with
    | [] => s
    | l :: r => match step s l with Some s' => run_sched s' r | None => run_sched s r end
    end.

  Inductive reachable (ops : list bop) : bst -> Prop :=
  | R0 : reachable ops (init ops)
  | RS s l s' : reachable ops s -> step s l = Some s' -> reachable ops s'.
End Step.

(* work left: every enabled step decreases it by exactly one *)
Definition op_cost (o : bop) : nat := match o with OCopy js => 2 + 3 * length js | OInline => 1 end.
Definition disp_cost (d : dstate) : nat :=
  match d with DIdle => 2 | DQueue _ rest => 3 + 3 * length rest | DJoin => 1 | DDone => 0 end.
Definition measure (s : bst) : nat :=
  fold_right (fun o a => 1 + op_cost o + a) 0 (b_todo s) + (if b_wdone s then 0 else 1) +
  fold_right (fun ho a => op_cost (snd ho) + a) 0 (b_fq s) + disp_cost (b_disp s) +
  2 * length (b_pq s) + length (b_run s).

(* all (handle, block) pairs of the system, wherever they currently are *)
Fixpoint todo_pairs (next : nat) (l : list bop) : list (nat * nat) :=
  match l with
  | [] => []
  | OCopy js :: r => map (fun b => (next, b)) js ++ todo_pairs (S next) r
  | OInline :: r => todo_pairs (S next) r
  end.
Definition fq_pairs (l : list (nat * bop)) : list (nat * nat) :=
  flat_map (fun ho => match snd ho with OCopy js => map (fun b => (fst ho, b)) js | OInline => [] end) l.
Definition disp_pairs (d : dstate) : list (nat * nat) :=
  match d with DQueue h rest => map (fun b => (h, b)) rest | _ => [] end.
Definition written (ev : list bev) : list (nat * nat) :=
  flat_map (fun e => match e with EWrite h b => [(h, b)] | _ => [] end) ev.
Definition all_pairs (s : bst) : list (nat * nat) :=
  written (b_ev s) ++ b_run s ++ b_pq s ++ disp_pairs (b_disp s) ++ fq_pairs (b_fq s) ++ todo_pairs (b_next s) (b_todo s).

(* history well-formedness: nothing about h happens after EFinal h *)
Fixpoint ev_handle (e : bev) : nat := match e with EOpen h | EWrite h _ | EFinal h | EInline h => h end.
Definition is_final_of (h : nat) (e : bev) : bool := match e with EFinal h' => Nat.eqb h' h | _ => false end.
Fixpoint ev_ok (ev : list bev) : bool :=      (* ev is newest first *)
  match ev with
  | [] => true
  | e :: older =>
      (match e with
       | EFinal h => negb (existsb (is_final_of h) older)
       | EOpen h | EWrite h _ => negb (existsb (is_final_of h) older)
       | EInline _ => true
       end) && ev_ok older
  end.
