(* Uspace.v — the user-space copy loops of libfs/src/common.rs:96-141, over a
   list of system-call answers (one per read/pread/write/pwrite issued).

   copy_range_uspace(reader, writer, nbytes, off)   — pread/pwrite at explicit offsets
   copy_bytes_uspace(reader, writer, nbytes)        — read / write_all at the cursors
   (`next = min(nbytes - written, nbytes)` is nbytes - written.)             *)
From XcpModel Require Import Base CopyLoop.

Inductive ucall :=
| URead (off req : N)        (* read/pread of req bytes at source offset off *)
| UWrite (src off n : N).    (* write/pwrite at destination offset off of n bytes that were read from source offset src *)
Definition utrace := list (ucall * xans).

Record u_out := mkU { u_st : status; u_ret : N; u_trace : utrace; u_rest : list xans }.
Definition u_cons (e : ucall * xans) (o : u_out) : u_out := mkU (u_st o) (u_ret o) (e :: u_trace o) (u_rest o).
Definition u_app (t : utrace) (o : u_out) : u_out := mkU (u_st o) (u_ret o) (t ++ u_trace o) (u_rest o).

Definition EWRITESHORT : N := 1001.   (* model-only: "Failed write to file." *)
Definition EWRITEZERO : N := 1002.    (* model-only: io::ErrorKind::WriteZero *)

(* the bytes a trace moved: every successful write of k bytes *)
Definition moves (t : utrace) : xtrace :=
  flat_map (fun e => match e with
                     | (UWrite s o n, XOk k) => [(mkReq s o n, XOk (N.min k n))]
                     | _ => []
                     end) t.

Fixpoint copy_range_uspace (fuel : nat) (nbytes off written : N) (ans : list xans) : u_out :=
  if nbytes <=? written then mkU StOk written [] ans else
  match fuel with
  | O => mkU StOutOfFuel written [] ans
  | S f =>
      let next := nbytes - written in
      let noff := off + written in
      match ans with
      | [] => mkU StStuck written [] []
      | XErr e :: rest => mkU (StErr e) written [(URead noff next, XErr e)] rest
      | XOk rlen :: rest =>
          if rlen =? 0 then mkU (StErr EPREMATURE) written [(URead noff next, XOk 0)] rest
          else
            match rest with
            | [] => mkU StStuck written [(URead noff next, XOk rlen)] []
            | XErr e :: rest' =>
                mkU (StErr e) written [(URead noff next, XOk rlen); (UWrite noff noff rlen, XErr e)] rest'
            | XOk wlen :: rest' =>
                if wlen <? rlen
                then mkU (StErr EWRITESHORT) written
                         [(URead noff next, XOk rlen); (UWrite noff noff rlen, XOk wlen)] rest'
                else u_app [(URead noff next, XOk rlen); (UWrite noff noff rlen, XOk wlen)]
                           (copy_range_uspace f nbytes off (written + rlen) rest')
            end
      end
  end.

(* std's Write::write_all for a buffer of n bytes read from source offset src,
   written at cursor wpos *)
Fixpoint write_all (fuel : nat) (src wpos n : N) (ans : list xans) : u_out :=
  if n =? 0 then mkU StOk 0 [] ans else
  match fuel with
  | O => mkU StOutOfFuel 0 [] ans
  | S f =>
      match ans with
      | [] => mkU StStuck 0 [] []
      | XErr e :: rest =>
          if e =? EINTR then u_cons (UWrite src wpos n, XErr e) (write_all f src wpos n rest)
          else mkU (StErr e) 0 [(UWrite src wpos n, XErr e)] rest
      | XOk k :: rest =>
          if k =? 0 then mkU (StErr EWRITEZERO) 0 [(UWrite src wpos n, XOk 0)] rest
          else u_cons (UWrite src wpos n, XOk k)
                      (write_all f (src + N.min k n) (wpos + N.min k n) (n - k) rest)
      end
  end.

Fixpoint copy_bytes_uspace (fuel : nat) (nbytes rpos wpos written : N) (ans : list xans) : u_out :=
  if nbytes <=? written then mkU StOk written [] ans else
  match fuel with
  | O => mkU StOutOfFuel written [] ans
  | S f =>
      let next := nbytes - written in
      match ans with
      | [] => mkU StStuck written [] []
      | XErr e :: rest =>
          if e =? EINTR
          then u_cons (URead rpos next, XErr e) (copy_bytes_uspace f nbytes rpos wpos written rest)
          else mkU (StErr e) written [(URead rpos next, XErr e)] rest
      | XOk len :: rest =>
          if len =? 0 then mkU (StErr EPREMATURE) written [(URead rpos next, XOk 0)] rest
          else
            let w := write_all (S (length rest)) rpos wpos len rest in
            match u_st w with
            | StOk => u_app ((URead rpos next, XOk len) :: u_trace w)
                            (copy_bytes_uspace f nbytes (rpos + len) (wpos + len) (written + len) (u_rest w))
            | st => mkU st written ((URead rpos next, XOk len) :: u_trace w) (u_rest w)
            end
      end
  end.

(* contract on answers: reads and writes never report more than asked *)
Definition uans_bounded (t : utrace) : Prop :=
  Forall (fun e => match e with
                   | (URead _ req, XOk k) => k <= req
                   | (UWrite _ _ n, XOk k) => k <= n
                   | _ => True
                   end) t.

(* flat encoding of a utrace for the harness: kind(0 read,1 write) off req/n ret(-errno-1 for errors) *)
Fixpoint encode_utrace (t : utrace) : list N :=
  match t with
  | [] => []
  | (c, a) :: r =>
      let '(k, o, n) := match c with URead o q => (0, o, q) | UWrite _ o n => (1, o, n) end in
      let '(ok, v) := match a with XOk x => (1, x) | XErr e => (0, e) end in
      k :: o :: n :: ok :: v :: encode_utrace r
  end.

Fixpoint decode_ans (l : list N) : list xans :=
  match l with
  | ok :: v :: r => (if ok =? 0 then XErr v else XOk v) :: decode_ans r
  | _ => []
  end.

Definition encode_status (s : status) : list N :=
  match s with StOk => [0; 0] | StErr e => [1; e] | StStuck => [2; 0] | StOutOfFuel => [3; 0] end.
