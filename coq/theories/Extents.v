(* Extents.v — libfs::Extent and libfs::merge_extents
   (libfs/src/lib.rs:107-124, libfs/src/common.rs:149-178), transcribed.

   Extent { start, end, shared }.  `From<Extent> for Range<u64>` is
   start..end, i.e. END IS EXCLUSIVE, and map_extents builds
   end = fe_logical + fe_length.  merge_extents nevertheless merges when
   e.start == p.end + 1, i.e. across a one-byte gap; the model keeps that. *)
From XcpModel Require Import Base.

Record extent := mkExt { e_start : N; e_end : N; e_shared : bool }.

(* the fold body of merge_extents with `prev = Some p` *)
Fixpoint merge_go (p : extent) (l : list extent) : list extent :=
  match l with
  | [] => [p]
  | e :: r =>
      if e_start e =? e_end p + 1
      then merge_go (mkExt (e_start p) (e_end e) (e_shared p && e_shared e)) r
      else p :: merge_go e r
  end.

Definition merge_extents (l : list extent) : list extent :=
  match l with
  | [] => []
  | e :: r => merge_go e r
  end.

(* u64 arithmetic: `p.end + 1` panics (debug) / wraps (release) iff
   p.end = u64::MAX.  The guard under which the unbounded model is exact: *)
Definition ext_in_u64 (e : extent) : Prop := e_start e < U64 /\ e_end e < U64MAX.
Definition ext_in_u64b (e : extent) : bool := (e_start e <? U64) && (e_end e <? U64MAX).

(* byte coverage of the half-open range start..end *)
Definition ext_covers (e : extent) (i : N) : Prop := e_start e <= i /\ i < e_end e.
Definition covered (l : list extent) (i : N) : Prop := exists e, In e l /\ ext_covers e i.
Definition ext_coversb (e : extent) (i : N) : bool := (e_start e <=? i) && (i <? e_end e).
Definition coveredb (l : list extent) (i : N) : bool := existsb (fun e => ext_coversb e i) l.

Definition ext_wf (e : extent) : Prop := e_start e <= e_end e.
Definition ext_wfb (e : extent) : bool := e_start e <=? e_end e.

(* sorted and non-overlapping (touching allowed) *)
Fixpoint sorted_from (lo : N) (l : list extent) : Prop :=
  match l with
  | [] => True
  | e :: r => lo <= e_start e /\ e_start e <= e_end e /\ sorted_from (e_end e) r
  end.
Definition sorted_disjoint (l : list extent) : Prop := sorted_from 0 l.

(* gap bytes: positions p.end where two consecutive inputs p, e satisfy
   e.start = p.end + 1 *)
Fixpoint gap_bytes (l : list extent) : list N :=
  match l with
  | p :: ((e :: _) as r) =>
      if e_start e =? e_end p + 1 then e_end p :: gap_bytes r else gap_bytes r
  | _ => []
  end.

(* flat encoding used by the correspondence harness *)
Fixpoint encode_exts (l : list extent) : list N :=
  match l with
  | [] => []
  | e :: r => e_start e :: e_end e :: b2n (e_shared e) :: encode_exts r
  end.
Fixpoint decode_exts (l : list N) : list extent :=
  match l with
  | s :: e :: sh :: r => mkExt s e (negb (sh =? 0)) :: decode_exts r
  | _ => []
  end.
