(* Meta.v — metadata finalisation (CopyHandle::finalise_copy, after
   `fix: apply ownership before permissions`) and special-file creation
   (libfs::copy_node after `fix: copy_node ... own device number`), with the
   kernel rules they rely on written out as functions. *)
From XcpModel Require Import Base.

Record meta := mkMeta {
  m_mode : N;              (* permission bits incl. set-id/sticky: 0..07777 *)
  m_uid : N; m_gid : N;
  m_atime : N; m_mtime : N;   (* nanoseconds *)
  m_xattr : list (N * N)      (* (name id, value id) *)
}.

Definition S_ISUID : N := 2048.  (* 04000 *)
Definition S_ISGID : N := 1024.  (* 02000 *)
Definition S_IXGRP : N := 8.     (* 00010 *)
Definition PERM_MASK : N := 4095. (* 07777 *)

(* ---- kernel rules ---- *)
Definition k_fchmod (d : meta) (mode : N) : meta :=
  mkMeta (N.land mode PERM_MASK) (m_uid d) (m_gid d) (m_atime d) (m_mtime d) (m_xattr d).

(* chown(2) on a regular file: set-user-ID is always cleared, set-group-ID is
   cleared when the file is group-executable (Linux >= 2.2.13, also for root) *)
Definition clear_setid (mode : N) : N :=
  let m1 := N.land mode (PERM_MASK - S_ISUID) in
  if N.land mode S_IXGRP =? 0 then m1 else N.land m1 (PERM_MASK - S_ISGID).

Definition k_fchown (d : meta) (uid gid : N) : meta :=
  mkMeta (clear_setid (m_mode d)) uid gid (m_atime d) (m_mtime d) (m_xattr d).

Definition k_futimens (d : meta) (a m : N) : meta :=
  mkMeta (m_mode d) (m_uid d) (m_gid d) a m (m_xattr d).

Fixpoint xattr_set (l : list (N * N)) (k v : N) : list (N * N) :=
  match l with
  | [] => [(k, v)]
  | (k', v') :: r => if k' =? k then (k, v) :: r else (k', v') :: xattr_set r k v
  end.
Fixpoint xattr_get (l : list (N * N)) (k : N) : option N :=
  match l with
  | [] => None
  | (k', v) :: r => if k' =? k then Some v else xattr_get r k
  end.
Definition k_fsetxattr (d : meta) (k v : N) : meta :=
  mkMeta (m_mode d) (m_uid d) (m_gid d) (m_atime d) (m_mtime d) (xattr_set (m_xattr d) k v).

(* open(O_CREAT, 0666): fresh file gets 0666 & ~umask; an existing file keeps its mode *)
Definition k_create_mode (umask : N) (existing : option N) : N :=
  match existing with Some m => m | None => N.land 438 (PERM_MASK - N.land umask PERM_MASK) end.

Record fin_cfg := mkFin { c_no_perms : bool; c_no_timestamps : bool; c_ownership : bool; c_fsync : bool }.

Inductive fin_action :=
| FChown (uid gid : N) | FSetxattr (k v : N) | FChmod (mode : N) | FUtimens (a m : N) | FFsync.

(* finalise_copy: the actions, in order *)
Definition finalise_actions (c : fin_cfg) (src : meta) : list fin_action :=
  (if c_ownership c then [FChown (m_uid src) (m_gid src)] else []) ++
  (if c_no_perms c then [] else map (fun kv => FSetxattr (fst kv) (snd kv)) (m_xattr src) ++ [FChmod (m_mode src)]) ++
  (if c_no_timestamps c then [] else [FUtimens (m_atime src) (m_mtime src)]) ++
  (if c_fsync c then [FFsync] else []).

(* the pinned order (ownership after permissions and timestamps) *)
Definition finalise_actions_pinned (c : fin_cfg) (src : meta) : list fin_action :=
  (if c_no_perms c then [] else map (fun kv => FSetxattr (fst kv) (snd kv)) (m_xattr src) ++ [FChmod (m_mode src)]) ++
  (if c_no_timestamps c then [] else [FUtimens (m_atime src) (m_mtime src)]) ++
  (if c_ownership c then [FChown (m_uid src) (m_gid src)] else []) ++
  (if c_fsync c then [FFsync] else []).

Definition apply_action (d : meta) (a : fin_action) : meta :=
  match a with
  | FChown u g => k_fchown d u g
  | FSetxattr k v => k_fsetxattr d k v
  | FChmod m => k_fchmod d m
  | FUtimens a m => k_futimens d a m
  | FFsync => d
  end.

Definition finalise (c : fin_cfg) (src dst : meta) : meta :=
  fold_left apply_action (finalise_actions c src) dst.
Definition finalise_pinned (c : fin_cfg) (src dst : meta) : meta :=
  fold_left apply_action (finalise_actions_pinned c src) dst.

(* ---- special files ---- *)
(* FileType (libfs/src/lib.rs): 0 file 1 dir 2 symlink 3 socket 4 fifo 5 char 6 block 7 other *)
Inductive op_kind := OpCopy | OpLink | OpDir | OpSpecial | OpErrUnsupported.
Definition classify (ft : N) : op_kind :=
  if ft =? 0 then OpCopy else if ft =? 1 then OpDir else if ft =? 2 then OpLink
  else if (ft =? 3) || (ft =? 4) || (ft =? 5) then OpSpecial else OpErrUnsupported.

(* copy_node: mknodat(dest, type of source, mode & 07777, rdev of source);
   the kernel applies the process umask; rdev only matters for devices *)
Record node := mkNode { n_type : N; n_mode : N; n_rdev : N }.
Definition copy_node (umask : N) (src : node) : node :=
  mkNode (n_type src)
         (N.land (N.land (n_mode src) PERM_MASK) (PERM_MASK - N.land umask PERM_MASK))
         (if n_type src =? 5 then n_rdev src else 0).

(* the worker body for Operation::Special *)
Inductive sp_action := SpUnlink | SpMknod (n : node).
Definition special_worker (no_clobber : bool) (target_exists : bool) (same_file : bool) (umask : N) (src : node)
  : option (list sp_action) :=      (* None = error exit *)
  (* same_file = is_same_file(from, to): the existing target IS the source node reached through an alias (a symlinked
     directory on the way): it is refused, never unlinked (repair of the C03 defect found in round 3) *)
  if target_exists then
    if no_clobber then None else if same_file then None else Some [SpUnlink; SpMknod (copy_node umask src)]
  else Some [SpMknod (copy_node umask src)].
