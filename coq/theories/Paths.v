(* Paths.v — the part of Rust's std::path (Unix) that xcp relies on:
   components(), PathBuf equality (component-wise), join/push, strip_prefix,
   file_name, parent, components().next_back().  Paths are byte strings;
   the model works on component lists and `parse_path` maps bytes to them. *)
From XcpModel Require Import Base Backup.

Inductive comp := CRoot | CCur | CParent | CNormal (n : name).
Definition path := list comp.

Definition SLASH : N := 47.

Definition comp_eqb (a b : comp) : bool :=
  match a, b with
  | CRoot, CRoot | CCur, CCur | CParent, CParent => true
  | CNormal x, CNormal y => name_eqb x y
  | _, _ => false
  end.

Fixpoint path_eqb (a b : path) : bool :=
  match a, b with
  | [], [] => true
  | x :: a', y :: b' => comp_eqb x y && path_eqb a' b'
  | _, _ => false
  end.

(* split a byte string on '/' (keeps empty segments) *)
Fixpoint split_slash (cur : name) (l : name) : list name :=
  match l with
  | [] => [rev cur]
  | c :: r => if c =? SLASH then rev cur :: split_slash [] r else split_slash (c :: cur) r
  end.

Definition seg_comp (s : name) : option comp :=
  match s with
  | [] => None
  | _ => if name_eqb s [DOT] then None
         else if name_eqb s [DOT; DOT] then Some CParent else Some (CNormal s)
  end.

(* Path::components(): root, then segments; empty segments and `.` vanish,
   except a leading `.` of a relative path, which is CurDir *)
Definition parse_path (b : name) : path :=
  match b with
  | [] => []
  | c :: r =>
      if c =? SLASH then CRoot :: flat_map (fun s => match seg_comp s with Some x => [x] | None => [] end) (split_slash [] r)
      else
        let segs := split_slash [] b in
        match segs with
        | s0 :: rest =>
            (if name_eqb s0 [DOT] then [CCur] else match seg_comp s0 with Some x => [x] | None => [] end) ++
            flat_map (fun s => match seg_comp s with Some x => [x] | None => [] end) rest
        | [] => []
        end
  end.

Definition is_abs (p : path) : bool := match p with CRoot :: _ => true | _ => false end.

(* PathBuf::join / push, on components *)
Definition join (b p : path) : path :=
  if is_abs p then p
  else match b with
       | [] => p
       | _ => b ++ match p with CCur :: r => r | _ => p end
       end.

(* Path::strip_prefix *)
Fixpoint strip_prefix (p base : path) : option path :=
  match base, p with
  | [], _ => Some p
  | b :: base', x :: p' => if comp_eqb b x then strip_prefix p' base' else None
  | _ :: _, [] => None
  end.

Definition last_comp (p : path) : option comp := match rev p with c :: _ => Some c | [] => None end.

Definition file_name (p : path) : option name :=
  match last_comp p with Some (CNormal n) => Some n | _ => None end.

Definition parent (p : path) : option path :=
  match rev p with
  | [] => None
  | CRoot :: _ => None
  | _ :: r => Some (rev r)
  end.

(* encoding of a component list: 0 root, 1 cur, 2 parent, 3 len bytes... *)
Fixpoint encode_path (p : path) : list N :=
  match p with
  | [] => []
  | CRoot :: r => 0 :: encode_path r
  | CCur :: r => 1 :: encode_path r
  | CParent :: r => 2 :: encode_path r
  | CNormal n :: r => 3 :: N.of_nat (length n) :: n ++ encode_path r
  end.
