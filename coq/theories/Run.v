(* Run.v — entry points evaluated by the generated cases_*.v files of the
   correspondence check.  Everything takes and returns flat `list N`
   encodings so the harness can print and parse them without glue. *)
From XcpModel Require Import Base Extents Sparse.

(* C19 / R0: merge_extents on an encoded extent list *)
Definition run_merge (l : list N) : list N :=
  encode_exts (merge_extents (decode_exts l)).

(* C19 / R0: map_extents against the contract kernel for the raw FIEMAP list
   the harness read itself (logical, length, last, shared)* *)
Definition run_map_extents (l : list N) : list N :=
  let L := decode_fexts l in
  b2n (fexts_okb 0 L) :: encode_mx (map_extents (S (length L)) (kernel_fiemap L)).

(* C19 / R0: segment walk against the contract kernel for the layout the
   harness determined by reading the file: len :: (s, e)* *)
Definition run_segments (l : list N) : list N :=
  match l with
  | [] => [9]
  | len :: r =>
      let L := decode_layout r in
      b2n (layout_okb 0 len L) ::
      encode_seg (segments (S (S (length L))) (k_seek_data L len) (k_seek_hole L len) len)
  end.
