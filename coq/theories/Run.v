(* Run.v — entry points evaluated by the generated cases_*.v files of the
   correspondence check.  Everything takes and returns flat `list N`
   encodings so the harness can print and parse them without glue. *)
From XcpModel Require Import Base Extents Sparse.

(* C19 / R0: merge_extents on an encoded extent list *)
Definition run_merge (l : list N) : list N :=
  encode_exts (merge_extents (decode_exts l)).

(* C19 / R0: map_extents against the contract kernel for the raw FIEMAP list
   the harness read itself (logical, length, last, shared)* *)
Definition run_map_extents (l : list N) : list N :=
  let L := decode_fexts l in
  b2n (fexts_okb 0 L) :: encode_mx (map_extents (S (length L)) (kernel_fiemap L)).

(* C19 / R0: segment walk against the contract kernel for the layout the
   harness determined by reading the file: len :: (s, e)* *)
Definition run_segments (l : list N) : list N :=
  match l with
  | [] => [9]
  | len :: r =>
      let L := decode_layout r in
      b2n (layout_okb 0 len L) ::
      encode_seg (segments (S (S (length L))) (k_seek_data L len) (k_seek_hole L len) len)
  end.

(* ------------------------------------------------------------------ *)
(* data path (C01 C05 C11 C15)                                          *)
(* ------------------------------------------------------------------ *)
From XcpModel Require Import Blocks CopyLoop Uspace FileCopy.

Fixpoint take_drop {A} (n : nat) (l : list A) : list A * list A :=
  match n, l with
  | O, _ => ([], l)
  | S k, x :: r => let '(a, b) := take_drop k r in (x :: a, b)
  | S _, [] => ([], [])
  end.

Definition decode_mode (m : N) : reflink_mode :=
  if m =? 0 then RfAuto else if m =? 1 then RfAlways else RfNever.

Fixpoint encode_xtrace (t : xtrace) : list N :=
  match t with
  | [] => []
  | (r, a) :: rest =>
      let '(ok, v) := match a with XOk x => (1, x) | XErr e => (0, e) end in
      r_src r :: r_dst r :: r_len r :: ok :: v :: encode_xtrace rest
  end.

Definition encode_fout (o : f_out) : list N :=
  encode_status (f_st o) ++ [b2n (f_clone_issued o); b2n (f_cloned o); N.of_nat (length (f_rest o))]
                ++ encode_xtrace (f_trace o).

(* [bs; mode; len; sparse; clone_errno; nL; (s e)*nL; (ok v)*] *)
Definition run_parfile_file (l : list N) : list N :=
  match l with
  | bs :: m :: len :: sp :: cl :: nL :: r =>
      let '(lay, ansl) := take_drop (2 * N.to_nat nL) r in
      let L := decode_layout lay in
      let ans := decode_ans ansl in
      b2n (layout_okb 0 len L) ::
      encode_fout (parfile_copy_file (S (S (length L))) bs (decode_mode m) len (negb (sp =? 0))
                                     (classify_clone cl) (k_seek_data L len) (k_seek_hole L len) ans)
  | _ => [9]
  end.

(* [bs; mode; len; sparse; clone_errno; fiemap_supported; nE; (lg ln last sh)*nE; (ok v)*] *)
Definition run_parblock_file (l : list N) : list N :=
  match l with
  | bs :: m :: len :: sp :: cl :: sup :: nE :: r =>
      let '(ex, ansl) := take_drop (4 * N.to_nat nE) r in
      let L := decode_fexts ex in
      let ans := decode_ans ansl in
      let mx := if sup =? 0 then MxNone else map_extents (S (length L)) (kernel_fiemap L) in
      b2n (fexts_okb 0 L) ::
      encode_fout (parblock_copy_file bs (decode_mode m) len (negb (sp =? 0)) (classify_clone cl) mx ans)
  | _ => [9]
  end.

(* [which(0 range,1 bytes); nbytes; off; (ok v)*] -> status ++ [ret] ++ utrace *)
Definition run_uspace (l : list N) : list N :=
  match l with
  | which :: nbytes :: off :: ansl =>
      let ans := decode_ans ansl in
      let o := if which =? 0 then copy_range_uspace (S (length ans)) nbytes off 0 ans
               else copy_bytes_uspace (S (length ans)) nbytes off off 0 ans in
      encode_status (u_st o) ++ [u_ret o; N.of_nat (length (u_rest o))] ++ encode_utrace (u_trace o)
  | _ => [9]
  end.

(* ------------------------------------------------------------------ *)
(* backup names (C09)                                                   *)
(* ------------------------------------------------------------------ *)
From XcpModel Require Import Backup.

Definition enc_opt (o : option N) : list N := match o with Some n => [1; n] | None => [0] end.

(* [nb; base bytes (nb); candidate bytes] *)
Definition run_isnum (l : list N) : list N :=
  match l with
  | nb :: r => let '(b, c) := take_drop (N.to_nat nb) r in enc_opt (is_num_backup b c)
  | [] => [9]
  end.

(* directory scan: [nb; base; n1; name1; n2; name2; ...] -> has, next (0 = overflow), backup name *)
Fixpoint decode_names (fuel : nat) (l : list N) : list name :=
  match fuel, l with
  | S f, n :: r => let '(a, b) := take_drop (N.to_nat n) r in a :: decode_names f b
  | _, _ => []
  end.

Definition run_nextnum (l : list N) : list N :=
  match l with
  | nb :: r =>
      let '(b, rest) := take_drop (N.to_nat nb) r in
      let entries := decode_names (length rest) rest in
      match next_backup_num b entries with
      | Some n => b2n (has_backup b entries) :: n :: backup_name b n
      | None => [b2n (has_backup b entries); 0]
      end
  | [] => [9]
  end.

(* ------------------------------------------------------------------ *)
(* ChannelUpdater batching (C12): [bs; (kind v)*] -> delivered          *)
(* ------------------------------------------------------------------ *)
From XcpModel Require Import Updater.
Definition run_chan (l : list N) : list N :=
  match l with
  | bs :: r => encode_updates (chan_deliver bs 0 (decode_updates r))
  | [] => [9]
  end.

(* ------------------------------------------------------------------ *)
(* metadata / nodes (C10 C14)                                           *)
(* ------------------------------------------------------------------ *)
From XcpModel Require Import Meta.

Fixpoint decode_pairs (n : nat) (l : list N) : list (N * N) * list N :=
  match n, l with
  | S k, a :: b :: r => let '(x, rest) := decode_pairs k r in ((a, b) :: x, rest)
  | _, _ => ([], l)
  end.

Definition decode_meta (l : list N) : meta * list N :=
  match l with
  | mode :: uid :: gid :: atm :: mtm :: nx :: r =>
      let '(xs, rest) := decode_pairs (N.to_nat nx) r in (mkMeta mode uid gid atm mtm xs, rest)
  | _ => (mkMeta 0 0 0 0 0 [], [])
  end.

Definition encode_action (a : fin_action) : list N :=
  match a with
  | FChown u g => [0; u; g] | FSetxattr k v => [1; k; v] | FChmod m => [2; m; 0]
  | FUtimens a m => [3; a; m] | FFsync => [4; 0; 0]
  end.

(* [np nt ow fs] ++ meta src ++ meta dst -> [mode uid gid atime mtime] ++ actions *)
Definition run_finalise (l : list N) : list N :=
  match l with
  | np :: nt :: ow :: fs :: r =>
      let c := mkFin (negb (np =? 0)) (negb (nt =? 0)) (negb (ow =? 0)) (negb (fs =? 0)) in
      let '(src, r1) := decode_meta r in
      let '(dst, _) := decode_meta r1 in
      let d := finalise c src dst in
      [m_mode d; m_uid d; m_gid d; m_atime d; m_mtime d] ++ flat_map encode_action (finalise_actions c src)
  | _ => [9]
  end.

(* [umask; type; mode; rdev; no_clobber; exists; (same file)] -> [ok; nactions; type; mode; rdev] *)
Definition run_node (l : list N) : list N :=
  match l with
  | um :: ty :: mo :: rd :: nc :: ex :: rest =>
      let same := match rest with s :: _ => negb (s =? 0) | [] => false end in
      match special_worker (negb (nc =? 0)) (negb (ex =? 0)) same um (mkNode ty mo rd) with
      | None => [0]
      | Some acts =>
          let n := copy_node um (mkNode ty mo rd) in
          [1; N.of_nat (length acts); n_type n; n_mode n; n_rdev n]
      end
  | _ => [9]
  end.

(* ------------------------------------------------------------------ *)
(* std::path algebra (C02 C16)                                          *)
(* ------------------------------------------------------------------ *)
From XcpModel Require Import Paths.

(* [na; a bytes; b bytes] -> components a ++ [99] ++ components b ++ [99] ++ join ++ [99] ++ strip ++ [99; eq] *)
Definition run_paths (l : list N) : list N :=
  match l with
  | na :: r =>
      let '(a, b) := take_drop (N.to_nat na) r in
      let pa := parse_path a in let pb := parse_path b in
      encode_path pa ++ [99] ++ encode_path pb ++ [99] ++ encode_path (join pa pb) ++ [99] ++
      (match strip_prefix pa pb with Some s => 1 :: encode_path s | None => [0] end) ++ [99; b2n (path_eqb pa pb)] ++
      (match file_name pa with Some n => 1 :: n | None => [0] end)
  | [] => [9]
  end.

(* ------------------------------------------------------------------ *)
(* tree walker (C02 C08 C13 C16 C17)                                    *)
(* ------------------------------------------------------------------ *)
From XcpModel Require Import Walker.

(* rel encoding: [ncomp; (len; bytes)*] *)
Fixpoint decode_rel_go (n : nat) (l : list N) : rel * list N :=
  match n, l with
  | S k, len :: r => let '(nm, r1) := take_drop (N.to_nat len) r in
                     let '(rest, r2) := decode_rel_go k r1 in (nm :: rest, r2)
  | _, _ => ([], l)
  end.
Definition decode_rel (l : list N) : rel * list N :=
  match l with n :: r => decode_rel_go (N.to_nat n) r | [] => ([], []) end.

Fixpoint decode_rels (n : nat) (l : list N) : list rel * list N :=
  match n with
  | O => ([], l)
  | S k => let '(r, l1) := decode_rel l in let '(rs, l2) := decode_rels k l1 in (r :: rs, l2)
  end.

Fixpoint encode_rel (r : rel) : list N :=
  N.of_nat (length r) :: flat_map (fun n => N.of_nat (length n) :: n) r.

(* tree encoding (pre-order):
   0 len | 1 nchildren (namelen name node)* | 2 textlen text res | 3 ft | 4 ft
   res: 0 dangling | 1 loop | 2 node *)
Fixpoint decode_tree (fuel : nat) (l : list N) : option (tree * list N) :=
  match fuel with
  | O => None
  | S f =>
      match l with
      | 0 :: len :: r => Some (TFile len, r)
      | 1 :: nc :: r =>
          (fix kids (k : nat) (l : list N) (acc : list (name * tree)) : option (tree * list N) :=
             match k with
             | O => Some (TDir (rev acc), l)
             | S k' =>
                 match l with
                 | nl :: r1 =>
                     let '(nm, r2) := take_drop (N.to_nat nl) r1 in
                     match decode_tree f r2 with
                     | Some (c, r3) => kids k' r3 ((nm, c) :: acc)
                     | None => None
                     end
                 | [] => None
                 end
             end) (N.to_nat nc) r []
      | 2 :: tl :: r =>
          let '(text, r1) := take_drop (N.to_nat tl) r in
          match r1 with
          | 0 :: r2 => Some (TLink text LDangling, r2)
          | 1 :: r2 => Some (TLink text LLoop, r2)
          | 2 :: r2 => match decode_tree f r2 with
                       | Some (t, r3) => Some (TLink text (LTarget t), r3)
                       | None => None
                       end
          | _ => None
          end
      | 3 :: ft :: r => Some (TSpecial ft, r)
      | 4 :: ft :: r => Some (TOther ft, r)
      | _ => None
      end
  end.

Definition encode_wact (a : wact) : list N :=
  match a with
  | WSize n => [0; n]
  | WCopy r len => 1 :: len :: encode_rel r
  | WLink r text => 2 :: N.of_nat (length text) :: text ++ encode_rel r
  | WMkdir r => 3 :: encode_rel r
  | WSpecial r ft => 4 :: ft :: encode_rel r
  | WErr c r => 5 :: c :: encode_rel r
  end.

Definition rel_in (l : list rel) (r : rel) : bool := existsb (rel_eqb r) l.

(* [no_clobber; deref; n_ignored; rels; n_exists; rels; tree] -> [ok; wf] ++ actions *)
Definition run_walk (l : list N) : list N :=
  match l with
  | nc :: dr :: ni :: r =>
      let '(ign, r1) := decode_rels (N.to_nat ni) r in
      match r1 with
      | ne :: r2 =>
          let '(ex, r3) := decode_rels (N.to_nat ne) r2 in
          match decode_tree (length r3) r3 with
          | Some (t, _) =>
              let '(acts, ok) := walk (mkW (negb (nc =? 0)) (negb (dr =? 0)))
                                      (root_kept (fun q _ => negb (rel_in ign q))) (rel_in ex) [] t in
              b2n ok :: b2n (tree_wf t) :: flat_map encode_wact acts
          | None => [8]
          end
      | [] => [9]
      end
  | _ => [9]
  end.

(* ------------------------------------------------------------------ *)
(* main() validation (C16)                                              *)
(* ------------------------------------------------------------------ *)
From XcpModel Require Import Main.

Fixpoint decode_bstrs (n : nat) (l : list N) : list name * list N :=
  match n, l with
  | S k, len :: r => let '(b, r1) := take_drop (N.to_nat len) r in
                     let '(bs, r2) := decode_bstrs k r1 in (b :: bs, r2)
  | _, _ => ([], l)
  end.

(* table rows: len bytes exists isdir ino *)
Fixpoint decode_table (n : nat) (l : list N) : list (path * (bool * bool * N)) :=
  match n, l with
  | S k, len :: r =>
      let '(b, r1) := take_drop (N.to_nat len) r in
      match r1 with
      | ex :: d :: ino :: r2 => (parse_path b, (negb (ex =? 0), negb (d =? 0), ino)) :: decode_table k r2
      | _ => []
      end
  | _, _ => []
  end.

Fixpoint tlookup (t : list (path * (bool * bool * N))) (p : path) : bool * bool * N :=
  match t with
  | [] => (false, false, 0)
  | (q, v) :: r => if path_eqb q p then v else tlookup r p
  end.

Fixpoint decode_oracle (n : nat) (l : list N) : list glob_result * list N :=
  match n, l with
  | S k, 0 :: r => let '(o, r1) := decode_oracle k r in (None :: o, r1)
  | S k, 1 :: m :: r =>
      let '(bs, r1) := decode_bstrs (N.to_nat m) r in
      let '(o, r2) := decode_oracle k r1 in (Some (map parse_path bs) :: o, r2)
  | _, _ => ([], l)
  end.

(* [rec notd nc force glob has_td; td_len td...; npaths; paths; noracle; oracle; ntable; table] -> [code] (0 = proceed) *)
Definition run_validate (l : list N) : list N :=
  match l with
  | rc :: nt :: nc :: fc :: gl :: htd :: tdl :: r =>
      let '(td, r1) := take_drop (N.to_nat tdl) r in
      match r1 with
      | np :: r2 =>
          let '(ps, r3) := decode_bstrs (N.to_nat np) r2 in
          match r3 with
          | no :: r4 =>
              let '(orc, r5) := decode_oracle (N.to_nat no) r4 in
              match r5 with
              | ntab :: r6 =>
                  let tab := decode_table (N.to_nat ntab) r6 in
                  let ex := fun p => fst (fst (tlookup tab p)) in
                  let isd := fun p => snd (fst (tlookup tab p)) in
                  let same := fun a b => let ia := snd (tlookup tab a) in negb (ia =? 0) && (ia =? snd (tlookup tab b)) in
                  let o := mkOpts (negb (rc =? 0)) (negb (nt =? 0)) (negb (nc =? 0)) (negb (fc =? 0)) (negb (gl =? 0))
                                  (if htd =? 0 then None else Some (parse_path td)) in
                  match front ex isd same o (map parse_path ps) orc with
                  | (Some e, _, _) => [e]
                  | (None, srcs, _) => [0; N.of_nat (length srcs)]
                  end
              | [] => [9]
              end
          | [] => [9]
          end
      | [] => [9]
      end
  | _ => [9]
  end.

(* ------------------------------------------------------------------ *)
(* per-operation footprint (C03 C04 C06 C18)                            *)
(* ------------------------------------------------------------------ *)
From XcpModel Require Import Ops.

Definition act_code (a : sysact) : list N :=
  match a with
  | AOpenRO _ | AStat _ | AReaddir _ | ARead _ _ _ => []
  | ARename _ _ => [1] | ACreateTrunc _ => [2] | AFtruncate _ _ => [3] | AClone _ => [4] | AWrite _ _ _ => [5]
  | AChown _ => [6] | ASetxattr _ => [7] | AChmod _ => [8] | AUtimens _ => [9] | AFsync _ => [10]
  | ASymlink _ _ => [11] | AUnlink _ => [12] | AMknod _ => [13] | AMkdir _ => [14]
  end.

Fixpoint collapse_writes (l : list N) : list N :=
  match l with
  | 5 :: ((5 :: _) as r) => collapse_writes r
  | x :: r => x :: collapse_writes r
  | [] => []
  end.

(* [np nt ow fs; dst_exists same backup(0 | n+1) len cloned issued nwrites nxattr] -> [ok] ++ mutating action codes *)
Definition run_copy_actions (l : list N) : list N :=
  match l with
  | np :: nt :: ow :: fs :: dex :: same :: bk :: len :: cloned :: issued :: nw :: nx :: _ =>
      let fc := mkFin (negb (np =? 0)) (negb (nt =? 0)) (negb (ow =? 0)) (negb (fs =? 0)) in
      let e := mkEnv (negb (dex =? 0)) (negb (same =? 0)) (if bk =? 0 then None else Some (bk - 1)) len
                     (negb (cloned =? 0)) (negb (issued =? 0)) (repeat (0, 1) (N.to_nat nw)) (N.to_nat nx) in
      let '(acts, ok) := copy_actions fc [] [] e in
      b2n ok :: collapse_writes (flat_map act_code acts)
  | _ => [9]
  end.

(* fault effect per action kind code (C04): [code] -> [0 error | 1 tolerated | 2 swallowed] *)
Definition run_fault_effect (l : list N) : list N :=
  match l with
  | c :: _ =>
      let k := KDst [] in
      let a := if c =? 1 then ARename k k else if c =? 2 then ACreateTrunc k else if c =? 3 then AFtruncate k 0
               else if c =? 4 then AClone k else if c =? 5 then AWrite k 0 0 else if c =? 6 then AChown k
               else if c =? 7 then ASetxattr k else if c =? 8 then AChmod k else if c =? 9 then AUtimens k
               else if c =? 10 then AFsync k else if c =? 11 then ASymlink k [] else if c =? 12 then AUnlink k
               else if c =? 13 then AMknod k else if c =? 14 then AMkdir k else if c =? 20 then AOpenRO (KSrc [])
               else if c =? 21 then AStat (KSrc []) else AReaddir k in
      [match fault_effect_of a with FxError => 0 | FxTolerated => 1 | FxSwallowed => 2 end]
  | [] => [9]
  end.

(* ------------------------------------------------------------------ *)
(* C06 / C18: a projected supervisor trace judged by the per-file        *)
(* automaton of ConcOutcome.v                                            *)
(* [nops; (kind len bs)*nops; (tag h b)*]  kind 0 = inline, 1 = copy     *)
(* (jobs = the blocks of a dense file of `len` bytes, Blocks.nblocks);   *)
(* events oldest first: tag 0 open, 1 block b written, 2 finalised,      *)
(* 3 inline done                                                         *)
(* ------------------------------------------------------------------ *)
From XcpModel Require Import ConcBlock ConcOutcome.

Fixpoint decode_hops (n : nat) (l : list N) : list bop * list N :=
  match n, l with
  | S k, kind :: len :: bs :: r =>
      let '(ops, rest) := decode_hops k r in
      ((if kind =? 0 then OInline else OCopy (seq 0 (N.to_nat (nblocks len bs)))) :: ops, rest)
  | _, _ => ([], l)
  end.

Fixpoint decode_hevents (fuel : nat) (l : list N) : list bev :=
  match fuel, l with
  | S f, tag :: h :: b :: r =>
      (if tag =? 0 then EOpen (N.to_nat h) else if tag =? 1 then EWrite (N.to_nat h) (N.to_nat b)
       else if tag =? 2 then EFinal (N.to_nat h) else EInline (N.to_nat h)) :: decode_hevents f r
  | _, _ => []
  end.

Definition phase_code (p : phase) : N :=
  match p with PNone => 0 | POpen _ => 1 | PFinal _ => 2 | PInline => 3 | PBad => 4 end.

Definition run_history (l : list N) : list N :=
  match l with
  | nops :: r =>
      let '(ops, evl) := decode_hops (N.to_nat nops) r in
      let ev := rev (decode_hevents (length evl) evl) in     (* newest first, as b_ev *)
      b2n (history_ok ops ev) :: map (fun h => phase_code (phase_of h ev)) (seq 0 (length ops))
  | [] => [9]
  end.

(* C20: the number of handles open in the parblock model when no pool worker
   ever completes a job (the supervisor holds them): walker first, then the
   dispatcher and the pool's take steps until nothing moves.
   [W; Q; nfiles; blocks_per_file] -> [open handles; queued jobs; running jobs] *)
Definition run_open_peak (l : list N) : list N :=
  match l with
  | w :: q :: n :: bpf :: _ =>
      let W := N.to_nat w in let Q := N.to_nat q in let n' := N.to_nat n in
      let ops := repeat (OCopy (seq 0 (N.to_nat bpf))) n' in
      let sched := repeat LWalk (S n') ++ flat_map (fun _ => [LDisp; LTake]) (seq 0 (4 * (n' + Q + W + 2) * (1 + N.to_nat bpf))) in
      let s := run_sched W Q (init ops) sched in
      [N.of_nat (length (b_open s)); N.of_nat (length (b_pq s)); N.of_nat (length (b_run s))]
  | _ => [9]
  end.

(* ------------------------------------------------------------------ *)
(* destination matrix (C02 C07 C08 C09 C14): [source kind; destination state; option] -> [outcome code] *)
(* ------------------------------------------------------------------ *)
From XcpModel Require Import DestMatrix.
Definition run_parent_missing (l : list N) : list N :=
  match l with
  | s :: _ => [outcome_code (parent_missing_outcome (s_of s))]
  | _ => [9]
  end.
Definition run_dest_matrix (l : list N) : list N :=
  match l with
  | s :: d :: o :: _ => [outcome_code (dest_outcome (s_of s) (d_of d) (o_of o))]
  | _ => [9]
  end.
