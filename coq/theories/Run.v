(* Run.v — entry points evaluated by the generated cases_*.v files of the
   correspondence check.  Everything takes and returns flat `list N`
   encodings so the harness can print and parse them without glue. *)
From XcpModel Require Import Base Extents Sparse.

(* C19 / R0: merge_extents on an encoded extent list *)
Definition run_merge (l : list N) : list N :=
  encode_exts (merge_extents (decode_exts l)).

(* C19 / R0: map_extents against the contract kernel for the raw FIEMAP list
   the harness read itself (logical, length, last, shared)* *)
Definition run_map_extents (l : list N) : list N :=
  let L := decode_fexts l in
  b2n (fexts_okb 0 L) :: encode_mx (map_extents (S (length L)) (kernel_fiemap L)).

(* C19 / R0: segment walk against the contract kernel for the layout the
   harness determined by reading the file: len :: (s, e)* *)
Definition run_segments (l : list N) : list N :=
  match l with
  | [] => [9]
  | len :: r =>
      let L := decode_layout r in
      b2n (layout_okb 0 len L) ::
      encode_seg (segments (S (S (length L))) (k_seek_data L len) (k_seek_hole L len) len)
  end.

(* ------------------------------------------------------------------ *)
(* data path (C01 C05 C11 C15)                                          *)
(* ------------------------------------------------------------------ *)
From XcpModel Require Import Blocks CopyLoop Uspace FileCopy.

Fixpoint take_drop {A} (n : nat) (l : list A) : list A * list A :=
  match n, l with
  | O, _ => ([], l)
  | S k, x :: r => let '(a, b) := take_drop k r in (x :: a, b)
  | S _, [] => ([], [])
  end.

Definition decode_mode (m : N) : reflink_mode :=
  if m =? 0 then RfAuto else if m =? 1 then RfAlways else RfNever.

Fixpoint encode_xtrace (t : xtrace) : list N :=
  match t with
  | [] => []
  | (r, a) :: rest =>
      let '(ok, v) := match a with XOk x => (1, x) | XErr e => (0, e) end in
      r_src r :: r_dst r :: r_len r :: ok :: v :: encode_xtrace rest
  end.

Definition encode_fout (o : f_out) : list N :=
  encode_status (f_st o) ++ [b2n (f_clone_issued o); b2n (f_cloned o); N.of_nat (length (f_rest o))]
                ++ encode_xtrace (f_trace o).

(* [bs; mode; len; sparse; clone_errno; nL; (s e)*nL; (ok v)*] *)
Definition run_parfile_file (l : list N) : list N :=
  match l with
  | bs :: m :: len :: sp :: cl :: nL :: r =>
      let '(lay, ansl) := take_drop (2 * N.to_nat nL) r in
      let L := decode_layout lay in
      let ans := decode_ans ansl in
      b2n (layout_okb 0 len L) ::
      encode_fout (parfile_copy_file (S (S (length L))) bs (decode_mode m) len (negb (sp =? 0))
                                     (classify_clone cl) (k_seek_data L len) (k_seek_hole L len) ans)
  | _ => [9]
  end.

(* [bs; mode; len; sparse; clone_errno; fiemap_supported; nE; (lg ln last sh)*nE; (ok v)*] *)
Definition run_parblock_file (l : list N) : list N :=
  match l with
  | bs :: m :: len :: sp :: cl :: sup :: nE :: r =>
      let '(ex, ansl) := take_drop (4 * N.to_nat nE) r in
      let L := decode_fexts ex in
      let ans := decode_ans ansl in
      let mx := if sup =? 0 then MxNone else map_extents (S (length L)) (kernel_fiemap L) in
      b2n (fexts_okb 0 L) ::
      encode_fout (parblock_copy_file bs (decode_mode m) len (negb (sp =? 0)) (classify_clone cl) mx ans)
  | _ => [9]
  end.

(* [which(0 range,1 bytes); nbytes; off; (ok v)*] -> status ++ [ret] ++ utrace *)
Definition run_uspace (l : list N) : list N :=
  match l with
  | which :: nbytes :: off :: ansl =>
      let ans := decode_ans ansl in
      let o := if which =? 0 then copy_range_uspace (S (length ans)) nbytes off 0 ans
               else copy_bytes_uspace (S (length ans)) nbytes off off 0 ans in
      encode_status (u_st o) ++ [u_ret o; N.of_nat (length (u_rest o))] ++ encode_utrace (u_trace o)
  | _ => [9]
  end.

(* ------------------------------------------------------------------ *)
(* backup names (C09)                                                   *)
(* ------------------------------------------------------------------ *)
From XcpModel Require Import Backup.

Definition enc_opt (o : option N) : list N := match o with Some n => [1; n] | None => [0] end.

(* [nb; base bytes (nb); candidate bytes] *)
Definition run_isnum (l : list N) : list N :=
  match l with
  | nb :: r => let '(b, c) := take_drop (N.to_nat nb) r in enc_opt (is_num_backup b c)
  | [] => [9]
  end.

(* directory scan: [nb; base; n1; name1; n2; name2; ...] -> has, next (0 = overflow), backup name *)
Fixpoint decode_names (fuel : nat) (l : list N) : list name :=
  match fuel, l with
  | S f, n :: r => let '(a, b) := take_drop (N.to_nat n) r in a :: decode_names f b
  | _, _ => []
  end.

Definition run_nextnum (l : list N) : list N :=
  match l with
  | nb :: r =>
      let '(b, rest) := take_drop (N.to_nat nb) r in
      let entries := decode_names (length rest) rest in
      match next_backup_num b entries with
      | Some n => b2n (has_backup b entries) :: n :: backup_name b n
      | None => [b2n (has_backup b entries); 0]
      end
  | [] => [9]
  end.

(* ------------------------------------------------------------------ *)
(* ChannelUpdater batching (C12): [bs; (kind v)*] -> delivered          *)
(* ------------------------------------------------------------------ *)
From XcpModel Require Import Updater.
Definition run_chan (l : list N) : list N :=
  match l with
  | bs :: r => encode_updates (chan_deliver bs 0 (decode_updates r))
  | [] => [9]
  end.

(* ------------------------------------------------------------------ *)
(* metadata / nodes (C10 C14)                                           *)
(* ------------------------------------------------------------------ *)
From XcpModel Require Import Meta.

Fixpoint decode_pairs (n : nat) (l : list N) : list (N * N) * list N :=
  match n, l with
  | S k, a :: b :: r => let '(x, rest) := decode_pairs k r in ((a, b) :: x, rest)
  | _, _ => ([], l)
  end.

Definition decode_meta (l : list N) : meta * list N :=
  match l with
  | mode :: uid :: gid :: atm :: mtm :: nx :: r =>
      let '(xs, rest) := decode_pairs (N.to_nat nx) r in (mkMeta mode uid gid atm mtm xs, rest)
  | _ => (mkMeta 0 0 0 0 0 [], [])
  end.

Definition encode_action (a : fin_action) : list N :=
  match a with
  | FChown u g => [0; u; g] | FSetxattr k v => [1; k; v] | FChmod m => [2; m; 0]
  | FUtimens a m => [3; a; m] | FFsync => [4; 0; 0]
  end.

(* [np nt ow fs] ++ meta src ++ meta dst -> [mode uid gid atime mtime] ++ actions *)
Definition run_finalise (l : list N) : list N :=
  match l with
  | np :: nt :: ow :: fs :: r =>
      let c := mkFin (negb (np =? 0)) (negb (nt =? 0)) (negb (ow =? 0)) (negb (fs =? 0)) in
      let '(src, r1) := decode_meta r in
      let '(dst, _) := decode_meta r1 in
      let d := finalise c src dst in
      [m_mode d; m_uid d; m_gid d; m_atime d; m_mtime d] ++ flat_map encode_action (finalise_actions c src)
  | _ => [9]
  end.

(* [umask; type; mode; rdev; no_clobber; exists] -> [ok; nactions; type; mode; rdev] *)
Definition run_node (l : list N) : list N :=
  match l with
  | um :: ty :: mo :: rd :: nc :: ex :: _ =>
      match special_worker (negb (nc =? 0)) (negb (ex =? 0)) um (mkNode ty mo rd) with
      | None => [0]
      | Some acts =>
          let n := copy_node um (mkNode ty mo rd) in
          [1; N.of_nat (length acts); n_type n; n_mode n; n_rdev n]
      end
  | _ => [9]
  end.

(* ------------------------------------------------------------------ *)
(* std::path algebra (C02 C16)                                          *)
(* ------------------------------------------------------------------ *)
From XcpModel Require Import Paths.

(* [na; a bytes; b bytes] -> components a ++ [99] ++ components b ++ [99] ++ join ++ [99] ++ strip ++ [99; eq] *)
Definition run_paths (l : list N) : list N :=
  match l with
  | na :: r =>
      let '(a, b) := take_drop (N.to_nat na) r in
      let pa := parse_path a in let pb := parse_path b in
      encode_path pa ++ [99] ++ encode_path pb ++ [99] ++ encode_path (join pa pb) ++ [99] ++
      (match strip_prefix pa pb with Some s => 1 :: encode_path s | None => [0] end) ++ [99; b2n (path_eqb pa pb)] ++
      (match file_name pa with Some n => 1 :: n | None => [0] end)
  | [] => [9]
  end.
