(* ConcFault.v — the shutdown protocols of both drivers WITH failures, down to
   the process exit status.

   Threads of a run of xcp (src/main.rs, drivers/parblock.rs, drivers/parfile.rs):
     main      iterates over the status channel; the first Error update makes it
               return Err (exit status 1) at once; when the channel is
               disconnected (every clone of the updater has been dropped) it
               joins the driver thread and exits with its result;
     driver    `copy()`: joins the walker (`??`: a walker error returns early,
               WITHOUT joining the others), then the dispatcher (parblock) or
               every worker in turn (parfile);
     walker    sends operations into an unbounded channel; any failing step
               makes it return Err (an Error update is sent only in the
               no-clobber case); a send fails once every receiver is gone;
     parblock  dispatcher: receives in order; opening a file or an inline
               operation may fail (with or without an Error update): it
               returns Err and the pool handle is dropped — the pool threads
               still drain the queued jobs; a block job that fails sends an
               Error update and ends normally;
     parfile   W workers: each takes an operation and runs it; a failure ends
               that worker (with or without an Error update); an idle worker
               ends when the channel is closed and drained.

   Everything a thread can block on is explicit: recv on an empty open channel,
   execute on a full pool queue (Q), join, the main loop.  Failures are labels:
   the theorems quantify over every placement of every number of failures.
   Only counts are kept (which file a job belongs to is ConcBlock's business). *)
From XcpModel Require Import Base ConcBlock.
From Coq Require Import Arith PeanoNat.
Local Open Scope nat_scope.

Inductive wstate := WRun | WOk | WErr.
Inductive drvstate := DrvWalker | DrvRest | DrvRet (ok : bool).
Inductive mainstate := MLoop | MExit (ok : bool).

(* ------------------------------------------------------------------ *)
(* parblock                                                            *)
(* ------------------------------------------------------------------ *)
Inductive xdisp := XIdle | XQueue (n : nat) | XJoin | XDone | XFail.

Record xst := mkX {
  x_todo : list bop; x_w : wstate;
  x_fq : list bop;
  x_disp : xdisp;
  x_pq : nat; x_run : nat;
  x_drv : drvstate;
  x_errs : nat;              (* Error updates in the status channel *)
  x_failed : bool;           (* ghost: some step has failed *)
  x_main : mainstate }.

Inductive xlabel :=
| XWalk | XWalkFail (upd : bool)
| XDisp | XDispFail (upd : bool)
| XTake | XJobDone (fail : bool)
| XDrv | XMain.

Definition disp_alive (d : xdisp) : bool := match d with XDone | XFail => false | _ => true end.
Definition b2n (b : bool) : nat := if b then 1 else 0.

Section XStep.
  Variable W Q : nat.

  Definition xstep (s : xst) (l : xlabel) : option xst :=
    match x_main s with MExit _ => None | MLoop =>
    match l with
    | XWalk =>
        match x_w s with
        | WRun =>
            match x_todo s with
            | o :: r =>
                if disp_alive (x_disp s)
                then Some (mkX r WRun (x_fq s ++ [o]) (x_disp s) (x_pq s) (x_run s) (x_drv s) (x_errs s) (x_failed s) MLoop)
                else (* send fails: the receiver is gone *)
                     Some (mkX [] WErr (x_fq s) (x_disp s) (x_pq s) (x_run s) (x_drv s) (x_errs s) (x_failed s) MLoop)
            | [] => Some (mkX [] WOk (x_fq s) (x_disp s) (x_pq s) (x_run s) (x_drv s) (x_errs s) (x_failed s) MLoop)
            end
        | _ => None
        end
    | XWalkFail upd =>
        match x_w s with
        | WRun => Some (mkX [] WErr (x_fq s) (x_disp s) (x_pq s) (x_run s) (x_drv s) (x_errs s + b2n upd) true MLoop)
        | _ => None
        end
    | XDisp =>
        match x_disp s with
        | XIdle =>
            match x_fq s with
            | OCopy js :: r => Some (mkX (x_todo s) (x_w s) r (XQueue (length js)) (x_pq s) (x_run s) (x_drv s) (x_errs s) (x_failed s) MLoop)
            | OInline :: r => Some (mkX (x_todo s) (x_w s) r XIdle (x_pq s) (x_run s) (x_drv s) (x_errs s) (x_failed s) MLoop)
            | [] => match x_w s with
                    | WRun => None                 (* blocked in recv() *)
                    | _ => Some (mkX (x_todo s) (x_w s) [] XJoin (x_pq s) (x_run s) (x_drv s) (x_errs s) (x_failed s) MLoop)
                    end
            end
        | XQueue (S n) =>
            if x_pq s <? Q
            then Some (mkX (x_todo s) (x_w s) (x_fq s) (XQueue n) (S (x_pq s)) (x_run s) (x_drv s) (x_errs s) (x_failed s) MLoop)
            else None                              (* blocked in execute() *)
        | XQueue 0 => Some (mkX (x_todo s) (x_w s) (x_fq s) XIdle (x_pq s) (x_run s) (x_drv s) (x_errs s) (x_failed s) MLoop)
        | XJoin =>
            match x_pq s, x_run s with
            | 0, 0 => Some (mkX (x_todo s) (x_w s) (x_fq s) XDone 0 0 (x_drv s) (x_errs s) (x_failed s) MLoop)
            | _, _ => None                         (* blocked in join() *)
            end
        | XDone | XFail => None
        end
    | XDispFail upd =>
        match x_disp s, x_fq s with
        | XIdle, _ :: _ =>
            (* the operation at the head of the queue fails; the receiver and the pool handle are dropped *)
            Some (mkX (x_todo s) (x_w s) [] XFail (x_pq s) (x_run s) (x_drv s) (x_errs s + b2n upd) true MLoop)
        | _, _ => None
        end
    | XTake =>
        match x_pq s with
        | S p => if x_run s <? W
                 then Some (mkX (x_todo s) (x_w s) (x_fq s) (x_disp s) p (S (x_run s)) (x_drv s) (x_errs s) (x_failed s) MLoop)
                 else None
        | 0 => None
        end
    | XJobDone fail =>
        match x_run s with
        | S r => Some (mkX (x_todo s) (x_w s) (x_fq s) (x_disp s) (x_pq s) r (x_drv s) (x_errs s + b2n fail)
                           (x_failed s || fail) MLoop)
        | 0 => None
        end
    | XDrv =>
        match x_drv s with
        | DrvWalker =>
            match x_w s with
            | WRun => None
            | WOk => Some (mkX (x_todo s) (x_w s) (x_fq s) (x_disp s) (x_pq s) (x_run s) DrvRest (x_errs s) (x_failed s) MLoop)
            | WErr => Some (mkX (x_todo s) (x_w s) (x_fq s) (x_disp s) (x_pq s) (x_run s) (DrvRet false) (x_errs s) (x_failed s) MLoop)
            end
        | DrvRest =>
            match x_disp s with
            | XDone => Some (mkX (x_todo s) (x_w s) (x_fq s) (x_disp s) (x_pq s) (x_run s) (DrvRet true) (x_errs s) (x_failed s) MLoop)
            | XFail => Some (mkX (x_todo s) (x_w s) (x_fq s) (x_disp s) (x_pq s) (x_run s) (DrvRet false) (x_errs s) (x_failed s) MLoop)
            | _ => None
            end
        | DrvRet _ => None
        end
    | XMain =>
        if 0 <? x_errs s
        then Some (mkX (x_todo s) (x_w s) (x_fq s) (x_disp s) (x_pq s) (x_run s) (x_drv s) (x_errs s) (x_failed s) (MExit false))
        else
          (* the channel is disconnected when every clone of the updater is gone *)
          match x_w s, disp_alive (x_disp s), x_pq s, x_run s, x_drv s with
          | WRun, _, _, _, _ => None
          | _, false, 0, 0, DrvRet r =>
              Some (mkX (x_todo s) (x_w s) (x_fq s) (x_disp s) 0 0 (x_drv s) (x_errs s) (x_failed s) (MExit r))
          | _, _, _, _, _ => None
          end
    end end.

  Definition xinit (ops : list bop) : xst := mkX ops WRun [] XIdle 0 0 DrvWalker 0 false MLoop.

  Inductive xreachable (ops : list bop) : xst -> Prop :=
  | XR0 : xreachable ops (xinit ops)
  | XRS s l s' : xreachable ops s -> xstep s l = Some s' -> xreachable ops s'.
End XStep.

Definition xop_cost (o : bop) : nat := match o with OCopy js => 3 + 3 * length js | OInline => 1 end.
Definition xsum (l : list bop) : nat := fold_right (fun o a => xop_cost o + a) 0 l.
Definition xmeasure (s : xst) : nat :=
  match x_main s with MExit _ => 0 | MLoop =>
  1 + (length (x_todo s) + xsum (x_todo s)) + match x_w s with WRun => 1 | _ => 0 end +
  xsum (x_fq s) +
  match x_disp s with XIdle => 2 | XQueue n => 3 + 3 * n | XJoin => 1 | XDone | XFail => 0 end +
  2 * x_pq s + x_run s +
  match x_drv s with DrvWalker => 2 | DrvRest => 1 | DrvRet _ => 0 end
  end.

(* ------------------------------------------------------------------ *)
(* parfile                                                             *)
(* ------------------------------------------------------------------ *)
Record yst := mkY {
  y_todo : list bop; y_w : wstate;
  y_fq : list bop;
  y_live : nat;              (* worker threads that have not ended *)
  y_busy : list nat;         (* per busy worker: steps left on its file (blocks + finalise) *)
  y_werr : bool;             (* some worker returned Err *)
  y_drv : drvstate;
  y_errs : nat;
  y_failed : bool;
  y_main : mainstate }.

Inductive ylabel :=
| YWalk | YWalkFail (upd : bool)
| YTake | YTakeFail (upd : bool)
| YWork (k : nat) (fail : bool)
| YExit
| YDrv | YMain.

Definition ydrop (k : nat) (l : list nat) : list nat := firstn k l ++ skipn (S k) l.
Definition yset (k : nat) (v : nat) (l : list nat) : list nat := firstn k l ++ v :: skipn (S k) l.

Section YStep.
  Variable W : nat.

  Definition ystep (s : yst) (l : ylabel) : option yst :=
    match y_main s with MExit _ => None | MLoop =>
    match l with
    | YWalk =>
        match y_w s with
        | WRun =>
            match y_todo s with
            | o :: r =>
                if 0 <? y_live s
                then Some (mkY r WRun (y_fq s ++ [o]) (y_live s) (y_busy s) (y_werr s) (y_drv s) (y_errs s) (y_failed s) MLoop)
                else Some (mkY [] WErr (y_fq s) (y_live s) (y_busy s) (y_werr s) (y_drv s) (y_errs s) (y_failed s) MLoop)
            | [] => Some (mkY [] WOk (y_fq s) (y_live s) (y_busy s) (y_werr s) (y_drv s) (y_errs s) (y_failed s) MLoop)
            end
        | _ => None
        end
    | YWalkFail upd =>
        match y_w s with
        | WRun => Some (mkY [] WErr (y_fq s) (y_live s) (y_busy s) (y_werr s) (y_drv s) (y_errs s + b2n upd) true MLoop)
        | _ => None
        end
    | YTake =>
        match y_fq s with
        | o :: r =>
            if length (y_busy s) <? y_live s
            then match o with
                 | OCopy js => Some (mkY (y_todo s) (y_w s) r (y_live s) (S (length js) :: y_busy s) (y_werr s) (y_drv s) (y_errs s) (y_failed s) MLoop)
                 | OInline => Some (mkY (y_todo s) (y_w s) r (y_live s) (y_busy s) (y_werr s) (y_drv s) (y_errs s) (y_failed s) MLoop)
                 end
            else None
        | [] => None
        end
    | YTakeFail upd =>
        match y_fq s with
        | _ :: r =>
            if length (y_busy s) <? y_live s
            then Some (mkY (y_todo s) (y_w s) r (pred (y_live s)) (y_busy s) true (y_drv s) (y_errs s + b2n upd) true MLoop)
            else None
        | [] => None
        end
    | YWork k fail =>
        match nth_error (y_busy s) k with
        | Some n =>
            if fail
            then Some (mkY (y_todo s) (y_w s) (y_fq s) (pred (y_live s)) (ydrop k (y_busy s)) true (y_drv s) (S (y_errs s)) true MLoop)
            else match n with
                 | S (S m) => Some (mkY (y_todo s) (y_w s) (y_fq s) (y_live s) (yset k (S m) (y_busy s)) (y_werr s) (y_drv s) (y_errs s) (y_failed s) MLoop)
                 | _ => Some (mkY (y_todo s) (y_w s) (y_fq s) (y_live s) (ydrop k (y_busy s)) (y_werr s) (y_drv s) (y_errs s) (y_failed s) MLoop)
                 end
        | None => None
        end
    | YExit =>
        match y_fq s, y_w s with
        | [], WRun => None
        | [], _ => if length (y_busy s) <? y_live s
                   then Some (mkY (y_todo s) (y_w s) [] (pred (y_live s)) (y_busy s) (y_werr s) (y_drv s) (y_errs s) (y_failed s) MLoop)
                   else None
        | _, _ => None
        end
    | YDrv =>
        match y_drv s with
        | DrvWalker =>
            match y_w s with
            | WRun => None
            | WOk => Some (mkY (y_todo s) (y_w s) (y_fq s) (y_live s) (y_busy s) (y_werr s) DrvRest (y_errs s) (y_failed s) MLoop)
            | WErr => Some (mkY (y_todo s) (y_w s) (y_fq s) (y_live s) (y_busy s) (y_werr s) (DrvRet false) (y_errs s) (y_failed s) MLoop)
            end
        | DrvRest =>
            match y_live s with
            | 0 => Some (mkY (y_todo s) (y_w s) (y_fq s) 0 (y_busy s) (y_werr s) (DrvRet (negb (y_werr s))) (y_errs s) (y_failed s) MLoop)
            | _ => None
            end
        | DrvRet _ => None
        end
    | YMain =>
        if 0 <? y_errs s
        then Some (mkY (y_todo s) (y_w s) (y_fq s) (y_live s) (y_busy s) (y_werr s) (y_drv s) (y_errs s) (y_failed s) (MExit false))
        else match y_w s, y_live s, y_drv s with
             | WRun, _, _ => None
             | _, 0, DrvRet r => Some (mkY (y_todo s) (y_w s) (y_fq s) 0 (y_busy s) (y_werr s) (y_drv s) (y_errs s) (y_failed s) (MExit r))
             | _, _, _ => None
             end
    end end.

  Definition yinit (ops : list bop) : yst := mkY ops WRun [] W [] false DrvWalker 0 false MLoop.

  Inductive yreachable (ops : list bop) : yst -> Prop :=
  | YR0 : yreachable ops (yinit ops)
  | YRS s l s' : yreachable ops s -> ystep s l = Some s' -> yreachable ops s'.
End YStep.

Definition yop_cost (o : bop) : nat := match o with OCopy js => 3 + length js | OInline => 1 end.
Definition ysum (l : list bop) : nat := fold_right (fun o a => yop_cost o + a) 0 l.
Definition ymeasure (s : yst) : nat :=
  match y_main s with MExit _ => 0 | MLoop =>
  1 + (length (y_todo s) + ysum (y_todo s)) + match y_w s with WRun => 1 | _ => 0 end +
  ysum (y_fq s) + y_live s + fold_right (fun n a => S n + a) 0 (y_busy s) +
  match y_drv s with DrvWalker => 2 | DrvRest => 1 | DrvRet _ => 0 end
  end.
