(* FileCopy.v — what xcp does for ONE regular file, per driver.
     parfile : CopyHandle::copy_file            (libxcp/src/operations.rs:95-128)
     parblock: queue_file_blocks + block jobs   (libxcp/src/drivers/parblock.rs:150-189, 113-148)
   plus the errno classifications of libfs/src/linux.rs. *)
From XcpModel Require Import Base Extents Sparse Blocks CopyLoop.

(* ---- libfs::reflink errno classification (linux.rs:255-269) ---- *)
Inductive reflink_mode := RfAuto | RfAlways | RfNever.
Inductive clone_ans := ClOk | ClUnsup | ClErr (e : N).

(* ioctl(FICLONE) result: 0 = success, otherwise errno *)
Definition classify_clone (errno : N) : clone_ans :=
  if errno =? 0 then ClOk
  else if (errno =? EOPNOTSUPP) || (errno =? EINVAL) || (errno =? EXDEV) || (errno =? ETXTBSY)
       then ClUnsup else ClErr errno.

(* ---- try_copy_file_range errno classification (linux.rs:32-52) ---- *)
Definition cfr_falls_back (errno : N) : bool :=
  (errno =? ENOSYS) || (errno =? EPERM) || (errno =? EXDEV).

(* ---- CopyHandle::try_reflink (operations.rs:95-115) ---- *)
Inductive rl_out := RlCloned | RlCopy | RlFail (e : N).
Definition EREFLINKFAILED : N := 1003.   (* model-only: XcpError::ReflinkFailed *)

(* returns (was the clone ioctl issued?, outcome) *)
Definition try_reflink (m : reflink_mode) (a : clone_ans) : bool * rl_out :=
  match m with
  | RfNever => (false, RlCopy)
  | RfAuto =>
      (true, match a with ClOk => RlCloned | ClUnsup => RlCopy | ClErr e => RlFail e end)
  | RfAlways =>
      (true, match a with ClOk => RlCloned | ClUnsup => RlFail EREFLINKFAILED | ClErr e => RlFail e end)
  end.

Record f_out := mkF {
  f_st : status;
  f_clone_issued : bool;
  f_cloned : bool;
  f_trace : xtrace;          (* data transfers, in issue order *)
  f_rest : list xans }.

(* ---- parfile ---- *)
Definition parfile_copy_file (fuel : nat) (bs : N) (m : reflink_mode) (len : N) (sparse : bool)
           (clone : clone_ans) (sd sh : N -> seek_ans) (ans : list xans) : f_out :=
  match try_reflink m clone with
  | (iss, RlCloned) => mkF StOk iss true [] ans
  | (iss, RlFail e) => mkF (StErr e) iss false [] ans
  | (iss, RlCopy) =>
      let o := if sparse then copy_sparse fuel bs len 0 sd sh ans
               else copy_bytes (S (length ans)) bs len 0 0 ans in
      mkF (o_st o) iss false (o_trace o) (o_rest o)
  end.

(* ---- parblock ---- *)
(* the ranges queue_file_blocks queues: whole file, or the merged extent map
   when the file looks sparse and FIEMAP is supported *)
Definition pb_ranges (len : N) (sparse : bool) (mx : mx_result) : status * list (N * N) :=
  if sparse then
    match mx with
    | MxSome l => (StOk, map (fun e => (e_start e, e_end e)) (merge_extents l))
    | MxNone => (StOk, [(0, len)])
    | MxErr e => (StErr e, [])
    | MxOutOfFuel => (StOutOfFuel, [])
    end
  else (StOk, [(0, len)]).

Definition pb_jobs (bs : N) (ranges : list (N * N)) : list (N * N) :=
  flat_map (fun r => range_jobs (fst r) (snd r - fst r) bs) ranges.

(* run the jobs one after the other (any real schedule is a permutation of
   this trace; see src_of_perm).  A failing job does not stop the others: it
   only sends an Error update; `status` is the first failure. *)
Fixpoint run_jobs (flen : N) (jobs : list (N * N)) (ans : list xans) : loop_out :=
  match jobs with
  | [] => mkOut StOk [] ans
  | (off, bytes) :: js =>
      let j := block_job (S (length ans)) flen off bytes 0 ans in
      let r := run_jobs flen js (o_rest j) in
      mkOut (match o_st j with StOk => o_st r | st => st end) (o_trace j ++ o_trace r) (o_rest r)
  end.

Fixpoint run_jobs_pinned (jobs : list (N * N)) (ans : list xans) : loop_out :=
  match jobs with
  | [] => mkOut StOk [] ans
  | (off, bytes) :: js =>
      let j := block_job_pinned off bytes ans in
      let r := run_jobs_pinned js (o_rest j) in
      mkOut (match o_st j with StOk => o_st r | st => st end) (o_trace j ++ o_trace r) (o_rest r)
  end.

Definition parblock_copy_file (bs : N) (m : reflink_mode) (len : N) (sparse : bool)
           (clone : clone_ans) (mx : mx_result) (ans : list xans) : f_out :=
  match try_reflink m clone with
  | (iss, RlCloned) => mkF StOk iss true [] ans
  | (iss, RlFail e) => mkF (StErr e) iss false [] ans
  | (iss, RlCopy) =>
      match pb_ranges len sparse mx with
      | (StOk, ranges) =>
          let o := run_jobs len (pb_jobs bs ranges) ans in
          mkF (o_st o) iss false (o_trace o) (o_rest o)
      | (st, _) => mkF st iss false [] ans
      end
  end.

Definition in_ranges (ranges : list (N * N)) (i : N) : Prop :=
  exists s e, In (s, e) ranges /\ s <= i < e.

(* ---- the destination prologue of CopyHandle::new (operations.rs:54-55):
        File::create(to)  = open(O_WRONLY|O_CREAT|O_TRUNC)
        allocate_file     = ftruncate(len)
   File content as (length, byte function). ---- *)
Record fcontent := mkFc { fc_len : N; fc_byte : N -> N }.
Definition open_trunc (old : option fcontent) : fcontent := mkFc 0 (fun _ => 0).
Definition ftruncate_to (f : fcontent) (len : N) : fcontent :=
  mkFc len (fun i => if i <? N.min (fc_len f) len then fc_byte f i else 0).
Definition handle_new_dest (old : option fcontent) (len : N) : fcontent :=
  ftruncate_to (open_trunc old) len.

(* applying data transfers to a destination *)
Definition apply_xtrace (src : N -> N) (dst : fcontent) (tr : xtrace) : fcontent :=
  mkFc (fc_len dst)   (* transfers never extend: they stay inside [0,len) — see theorems *)
       (fun i => match src_of tr i with Some s => src s | None => fc_byte dst i end).
