(* Ops.v — the system-call level footprint of one queued operation, as the
   workers execute it (parfile::copy_worker, parblock::dispatch_worker +
   block jobs, operations::CopyHandle::{new, copy_file, finalise_copy}),
   after the repairs recorded in known_findings.jsonl.

   Every action names the KEY it touches: a source entry (only ever read), the
   operation's own target, or the numbered backup of that target. *)
From XcpModel Require Import Base Backup Walker Meta.

Inductive key :=
| KSrc (r : rel)              (* the source entry the operation reads *)
| KDst (r : rel)              (* the operation's mapped target *)
| KBak (r : rel) (n : N).     (* <target>.~n~ *)

Inductive sysact :=
(* non-mutating *)
| AOpenRO (k : key) | AStat (k : key) | AReaddir (k : key) | ARead (k : key) (off n : N)
(* mutating *)
| ARename (from to : key)
| ACreateTrunc (k : key)            (* open(O_WRONLY|O_CREAT|O_TRUNC) *)
| AFtruncate (k : key) (len : N)
| AClone (k : key)                  (* ioctl(FICLONE) on the destination *)
| AWrite (k : key) (off n : N)      (* copy_file_range / pwrite / write into k *)
| AChown (k : key) | ASetxattr (k : key) | AChmod (k : key) | AUtimens (k : key)
| AFsync (k : key)
| ASymlink (k : key) (text : name)
| AUnlink (k : key)
| AMknod (k : key)
| AMkdir (k : key).

(* the keys an action may change *)
Definition mutated (a : sysact) : list key :=
  match a with
  | AOpenRO _ | AStat _ | AReaddir _ | ARead _ _ _ => []
  | ARename f t => [f; t]
  | ACreateTrunc k | AFtruncate k _ | AClone k | AWrite k _ _ | AChown k | ASetxattr k | AChmod k
  | AUtimens k | AFsync k | ASymlink k _ | AUnlink k | AMknod k | AMkdir k => [k]
  end.

Definition is_src (k : key) : bool := match k with KSrc _ => true | _ => false end.

Record copy_env := mkEnv {
  ce_dst_exists : bool;         (* to.exists() *)
  ce_same_file : bool;          (* is_same_file(from, to): same device and inode *)
  ce_backup : option N;         (* needs_backup -> Some next number *)
  ce_len : N;
  ce_cloned : bool;             (* the clone succeeded: no data copy *)
  ce_clone_issued : bool;
  ce_writes : list (N * N);     (* (offset, bytes) of the data transfers, in some completion order *)
  ce_nxattr : nat }.

(* Operation::Copy: CopyHandle::new; copy; Drop -> finalise_copy *)
Definition copy_actions (fc : fin_cfg) (src dst : rel) (e : copy_env) : list sysact * bool :=
  let pre := [AOpenRO (KSrc src); AStat (KSrc src)] ++ (if ce_dst_exists e then [AStat (KDst dst)] else []) in
  if ce_dst_exists e && ce_same_file e then (pre, false)      (* refused: same file *)
  else
    (pre ++
     match ce_backup e with Some n => [AReaddir (KDst dst); ARename (KDst dst) (KBak dst n)] | None => [] end ++
     [ACreateTrunc (KDst dst); AFtruncate (KDst dst) (ce_len e)] ++
     (if ce_clone_issued e then [AClone (KDst dst)] else []) ++
     (if ce_cloned e then []
      else flat_map (fun w => [ARead (KSrc src) (fst w) (snd w); AWrite (KDst dst) (fst w) (snd w)]) (ce_writes e)) ++
     (* finalise_copy, in the handle's Drop *)
     (if c_ownership fc then [AChown (KDst dst)] else []) ++
     (if c_no_perms fc then [] else repeat (ASetxattr (KDst dst)) (ce_nxattr e) ++ [AChmod (KDst dst)]) ++
     (if c_no_timestamps fc then [] else [AUtimens (KDst dst)]) ++
     (if c_fsync fc then [AFsync (KDst dst)] else []),
     true).

(* Operation::Link *)
Definition link_actions (dst : rel) (text : name) : list sysact := [ASymlink (KDst dst) text].

(* Operation::Special *)
Definition special_actions (no_clobber : bool) (src dst : rel) (dst_exists same_file : bool) : list sysact * bool :=
  let pre := [AStat (KDst dst)] in
  if dst_exists then
    if no_clobber then (pre, false)
    else if same_file then (pre ++ [AStat (KSrc src)], false)      (* refused: the target is the source node itself *)
    else (pre ++ [AUnlink (KDst dst); AStat (KSrc src); AMknod (KDst dst)], true)
  else (pre ++ [AStat (KSrc src); AMknod (KDst dst)], true).

(* CopyHandle::new as a whole: a destination the (link-following) probe calls absent is looked at once more with
   lstat; a DANGLING symbolic link there is refused — creating the destination would create a file wherever the
   link happens to point, possibly outside the destination (like cp: `not writing through dangling symlink`) *)
Definition copy_actions_d (dangling : bool) (fc : fin_cfg) (src dst : rel) (e : copy_env) : list sysact * bool :=
  if negb (ce_dst_exists e) && dangling
  then ([AOpenRO (KSrc src); AStat (KSrc src); AStat (KDst dst)], false)
  else copy_actions fc src dst e.

(* ... and an existing destination entry that is a DIRECTORY (itself, not a link to one) is refused as well: with backups
   enabled the whole directory would otherwise be renamed away to make room for the file (repair in round 4) *)
Definition copy_actions_dd (dangling dst_is_dir : bool) (fc : fin_cfg) (src dst : rel) (e : copy_env) : list sysact * bool :=
  if ce_dst_exists e && negb (ce_same_file e) && dst_is_dir
  then ([AOpenRO (KSrc src); AStat (KSrc src); AStat (KDst dst); AStat (KDst dst)], false)
  else copy_actions_d dangling fc src dst e.

(* the keys an operation on target `dst` owns *)
Definition owned (dst : rel) (k : key) : Prop :=
  match k with KDst r => r = dst | KBak r _ => r = dst | KSrc _ => False end.

(* positions of interest in an action list *)
Definition data_or_sizing (a : sysact) : bool :=
  match a with AWrite _ _ _ | AFtruncate _ _ | AClone _ | ACreateTrunc _ => true | _ => false end.
Definition is_meta (a : sysact) : bool :=
  match a with AChown _ | ASetxattr _ | AChmod _ | AUtimens _ | AFsync _ => true | _ => false end.
Definition is_fsync (a : sysact) : bool := match a with AFsync _ => true | _ => false end.

(* ---- error propagation (C04): what a failing action does to the operation ----
   `?` propagates every failure of CopyHandle::new and of the copy itself to the
   worker, which sends an Error update and returns Err (exit status 1).
   finalise_copy runs in Drop: copy_xattr and copy_owner failures are tolerated
   by design (warnings); a failing fchmod / futimens / fsync makes
   finalise_copy return early and is only logged — the exit status is NOT
   affected (known finding F-04). *)
Inductive fault_effect :=
| FxError          (* operation fails: Error update + Err => exit 1 *)
| FxTolerated      (* documented warning: continue *)
| FxSwallowed.     (* finalisation aborted, exit status unaffected *)

Definition fault_effect_of (a : sysact) : fault_effect :=
  match a with
  | ASetxattr _ | AChown _ => FxTolerated
  | AChmod _ | AUtimens _ | AFsync _ => FxSwallowed
  | _ => FxError
  end.

(* executed actions and exit-ok flag when action number i fails *)
Definition with_fault (l : list sysact) (i : nat) : list sysact * bool :=
  match nth_error l i with
  | None => (l, true)
  | Some a =>
      match fault_effect_of a with
      | FxError => (firstn i l, false)
      | FxTolerated =>
          (* xattr copy stops at the first failing attribute, the rest of finalisation continues *)
          (firstn i l ++ filter (fun b => match a, b with ASetxattr _, ASetxattr _ => false | _, _ => true end) (skipn (S i) l), true)
      | FxSwallowed => (firstn i l, true)
      end
  end.

Definition known_class_04 (a : sysact) : bool :=
  match a with AChmod _ | AUtimens _ | AFsync _ => true | _ => false end.

(* ---- the documented step order of the three functions whose CALL ORDER the translator extracts
   (codes: 20 open source, 21 fstat source, 22 probe destination, 23 same-file check, 24 backup decision,
   26 lstat of the destination (of one the probe called absent: a dangling link is refused; of an existing one: 29 a
   directory is refused — a file never replaces a directory, with or without backups), 27 / 28 take / release the backup-step lock (the scan for a backup
   number, the rename of the old file and the create of the new one are ONE step with respect to the other workers), 25 backup name (directory scan), 1 rename, 2 create+truncate, 3 ftruncate, 4 clone attempt,
   30 sparseness test, 31 sparse walk, 32 plain loop, 40 CopyHandle::new, 41 Arc::new, 42 extent map,
   43 merge, 44 queue a range, 45 queue the whole file, 97 closure, 98 return) ---- *)
Definition copy_new_steps : list N := [20; 21; 22; 23; 98; 26; 98; 26; 29; 98; 27; 97; 24; 25; 1; 2; 28; 3].
Definition copy_file_steps : list N := [4; 98; 30; 31; 32].
Definition queue_file_blocks_steps : list N := [40; 4; 98; 41; 97; 30; 42; 43; 44; 45; 45].

(* the system calls of CopyHandle::new in the model, as step codes *)
Definition step_code_of (a : sysact) : list N :=
  match a with
  | AOpenRO (KSrc _) => [20] | AStat (KSrc _) => [21] | AStat (KDst _) => [22] | AReaddir _ => [25]
  | ARename _ _ => [1] | ACreateTrunc _ => [2] | AFtruncate _ _ => [3] | _ => []
  end.
