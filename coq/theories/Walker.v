(* Walker.v — libxcp::operations::tree_walker for ONE source
   (libxcp/src/operations.rs:164-257), over an abstract source tree.

   The tree gives, for every directory, its entries in readdir order (WalkDir
   yields a directory before its contents, contents in readdir order), and for
   every symbolic link what the kernel resolves it to (canonicalize): dangling,
   a loop, or a target subtree.  Destination state enters through the oracle
   `dexists` (does the mapped target exist — lstat, after `fix: no-clobber`),
   the ignore matcher through `keep`. *)
From XcpModel Require Import Base Backup Paths.

Inductive tree :=
| TFile (len : N)
| TDir (children : list (name * tree))
| TLink (text : name) (res : link_res)
| TSpecial (ft : N)          (* 3 socket, 4 fifo, 5 char device *)
| TOther (ft : N)            (* 6 block device, 7 unknown *)
with link_res :=
| LDangling | LLoop | LTarget (t : tree).

Definition rel := list name.   (* path relative to the source root / target base *)

Record wcfg := mkW { w_no_clobber : bool; w_deref : bool }.

Inductive wact :=
| WSize (n : N)
| WCopy (r : rel) (len : N)
| WLink (r : rel) (text : name)
| WMkdir (r : rel)
| WSpecial (r : rel) (ft : N)
| WErr (code : N) (r : rel).   (* 1 exists+no-clobber, 2 unsupported type, 3 dangling, 4 loop *)

Definition act_rel (a : wact) : option rel :=
  match a with
  | WSize _ => None
  | WCopy r _ | WLink r _ | WMkdir r | WSpecial r _ | WErr _ r => Some r
  end.

Definition is_err (a : wact) : bool := match a with WErr _ _ => true | _ => false end.

(* the `is_dir` flag ignore_filter hands to the matcher: the type of the entry AS WALKED (walkdir's file_type) — a
   directory, or, when links are followed, a link that resolves to one.  Without -L a symbolic link is never a directory
   (git's rule for `name/` patterns; fix e0053b4 — before it Path::is_dir() was asked, which follows links always) *)
Definition tree_is_dir (deref : bool) (t : tree) : bool :=
  match t with
  | TDir _ => true
  | TLink _ (LTarget (TDir _)) => deref
  | _ => false
  end.

(* run a list of sub-walks, stopping after the first error *)
Fixpoint seq_walks (ws : list (list wact * bool)) : list wact * bool :=
  match ws with
  | [] => ([], true)
  | (a, ok) :: r => if ok then let '(b, ok') := seq_walks r in (a ++ b, ok') else (a, false)
  end.

Section Walk.
  Variable cfg : wcfg.
  Variable keep : rel -> bool -> bool.     (* ignore_filter verdict for (path, is_dir) *)
  Variable dexists : rel -> bool.          (* the mapped target exists in the destination *)

  (* what the walker does with an entry whose own type/resolved type is `t`,
     before descending *)
  Definition guard (r : rel) (k : list wact * bool) : list wact * bool :=
    if w_no_clobber cfg && dexists r then ([WErr 1 r], false) else k.

  Fixpoint walk (r : rel) (t : tree) {struct t} : list wact * bool :=
    if negb (keep r (tree_is_dir (w_deref cfg) t)) then ([], true) else
    let children_of := fix go (cs : list (name * tree)) : list (list wact * bool) :=
        match cs with
        | [] => []
        | (n, c) :: rest => walk (r ++ [n]) c :: go rest
        end in
    match t with
    | TFile len => guard r ([WSize len; WCopy r len], true)
    | TDir cs => guard r (seq_walks (([WMkdir r], true) :: children_of cs))
    | TSpecial ft => guard r ([WSpecial r ft], true)
    | TOther ft => guard r ([WErr 2 r], false)
    | TLink text res =>
        if w_deref cfg then
          match res with
          | LDangling => ([WErr 3 r], false)
          | LLoop => ([WErr 4 r], false)
          | LTarget (TFile len) => guard r ([WSize len; WCopy r len], true)
          | LTarget (TDir cs) => guard r (seq_walks (([WMkdir r], true) :: children_of cs))
          | LTarget (TSpecial ft) => guard r ([WSpecial r ft], true)
          | LTarget (TOther ft) => guard r ([WErr 2 r], false)
          | LTarget (TLink _ _) => ([WErr 4 r], false)     (* canonicalize never ends on a link *)
          end
        else guard r ([WLink r text], true)
    end.
End Walk.

(* ---- the declarative side: which entries exist, which are selected ---- *)
(* all entries in pre-order, with the type the walker dispatches on *)
Inductive ekind := EFile (len : N) | EDir | ELink (text : name) | ESpecial (ft : N) | EOther (ft : N) | EBroken (code : N).

Fixpoint entries (deref : bool) (r : rel) (t : tree) {struct t} : list (rel * ekind * bool) :=
  (* (path, kind, is_dir as the filter sees it) *)
  let children_of := fix go (cs : list (name * tree)) : list (rel * ekind * bool) :=
      match cs with
      | [] => []
      | (n, c) :: rest => entries deref (r ++ [n]) c ++ go rest
      end in
  match t with
  | TFile len => [(r, EFile len, false)]
  | TDir cs => (r, EDir, true) :: children_of cs
  | TSpecial ft => [(r, ESpecial ft, false)]
  | TOther ft => [(r, EOther ft, false)]
  | TLink text res =>
      if deref then
        match res with
        | LDangling => [(r, EBroken 3, false)]
        | LLoop => [(r, EBroken 4, false)]
        | LTarget (TFile len) => [(r, EFile len, false)]
        | LTarget (TDir cs) => (r, EDir, true) :: children_of cs
        | LTarget (TSpecial ft) => [(r, ESpecial ft, false)]
        | LTarget (TOther ft) => [(r, EOther ft, false)]
        | LTarget (TLink _ _) => [(r, EBroken 4, false)]
        end
      else [(r, ELink text, tree_is_dir deref t)]
  end.

(* prefixes of a relative path from the root: [] , [a], [a;b], ... *)
Fixpoint prefixes (r : rel) : list rel :=
  match r with
  | [] => [[]]
  | x :: r' => [] :: map (cons x) (prefixes r')
  end.

(* well-formed: sibling names are unique (a directory listing) *)
Fixpoint names_unique (l : list name) : bool :=
  match l with
  | [] => true
  | x :: r => negb (existsb (name_eqb x) r) && names_unique r
  end.

Fixpoint tree_wf (t : tree) {struct t} : bool :=
  let all_wf := fix go (cs : list (name * tree)) : bool :=
      match cs with [] => true | (_, c) :: rest => tree_wf c && go rest end in
  match t with
  | TDir cs => names_unique (map fst cs) && all_wf cs
  | TLink _ (LTarget t') => tree_wf t'
  | _ => true
  end.

(* ---- destination effect of the walk's operations (fault-free) ---- *)
Inductive dkind := DFile (len : N) | DDir | DLink (text : name) | DNode (ft : N).
Definition dmap := rel -> option dkind.

Fixpoint rel_eqb (a b : rel) : bool :=
  match a, b with
  | [], [] => true
  | x :: a', y :: b' => name_eqb x y && rel_eqb a' b'
  | _, _ => false
  end.

Definition dset (d : dmap) (r : rel) (k : dkind) : dmap := fun q => if rel_eqb q r then Some k else d q.

(* create_dir_all(target): the target and every missing ancestor below the
   target base become directories (ancestors at/above the base exist) *)
Definition dmkdir_all (d : dmap) (r : rel) : dmap :=
  fun q => if existsb (rel_eqb q) (prefixes r)
           then match d q with Some k => Some k | None => Some DDir end
           else d q.

Definition apply_wact (d : dmap) (a : wact) : dmap :=
  match a with
  | WSize _ | WErr _ _ => d
  | WCopy r len => dset d r (DFile len)
  | WLink r text => dset d r (DLink text)
  | WMkdir r => dmkdir_all d r
  | WSpecial r ft => dset d r (DNode ft)
  end.

Definition apply_walk (d : dmap) (acts : list wact) : dmap := fold_left apply_wact acts d.

Definition expect_kind (k : ekind) : option dkind :=
  match k with
  | EFile len => Some (DFile len)
  | EDir => Some DDir
  | ELink t => Some (DLink t)
  | ESpecial ft => Some (DNode ft)
  | _ => None
  end.

(* ---- target base (operations.rs:174-183; main.rs:128-137) ---- *)
Definition target_base (dest : path) (source : path) (dest_is_dir no_target_dir : bool) : option path :=
  match last_comp source with
  | None => None                      (* "Failed to find source directory name." *)
  | Some c =>
      (* like cp, a source that ends in `..` is copied into the destination ITSELF: dest/.. is the destination's parent,
         not a place below it (repair of a defect found in round 7) *)
      if dest_is_dir && negb no_target_dir && negb (comp_eqb c CParent) then
        Some (join dest (match c with CRoot => [CRoot] | CCur => [CCur] | CParent => [CParent] | CNormal n => [CNormal n] end))
      else Some dest
  end.

Definition target_of (tb : path) (r : rel) : path := tb ++ map CNormal r.

(* ---- the walk, restated as: list the selected entries (pruning at ignored
   directories), then process them in order until the first failure ---- *)
Section Sel.
  Variable keep : rel -> bool -> bool.
  Variable deref : bool.

  Fixpoint sel_entries (r : rel) (t : tree) {struct t} : list (rel * ekind * bool) :=
    if negb (keep r (tree_is_dir deref t)) then [] else
    let children_of := fix go (cs : list (name * tree)) : list (rel * ekind * bool) :=
        match cs with
        | [] => []
        | (n, c) :: rest => sel_entries (r ++ [n]) c ++ go rest
        end in
    match t with
    | TFile len => [(r, EFile len, false)]
    | TDir cs => (r, EDir, true) :: children_of cs
    | TSpecial ft => [(r, ESpecial ft, false)]
    | TOther ft => [(r, EOther ft, false)]
    | TLink text res =>
        if deref then
          match res with
          | LDangling => [(r, EBroken 3, false)]
          | LLoop => [(r, EBroken 4, false)]
          | LTarget (TFile len) => [(r, EFile len, false)]
          | LTarget (TDir cs) => (r, EDir, true) :: children_of cs
          | LTarget (TSpecial ft) => [(r, ESpecial ft, false)]
          | LTarget (TOther ft) => [(r, EOther ft, false)]
          | LTarget (TLink _ _) => [(r, EBroken 4, false)]
          end
        else [(r, ELink text, tree_is_dir deref t)]
    end.
End Sel.

Section Process.
  Variable cfg : wcfg.
  Variable dexists : rel -> bool.

  Definition act_of (e : rel * ekind * bool) : list wact * bool :=
    let '(r, k, _) := e in
    match k with
    | EBroken c => ([WErr c r], false)        (* canonicalize fails before the no-clobber check *)
    | _ =>
        if w_no_clobber cfg && dexists r then ([WErr 1 r], false) else
        match k with
        | EFile len => ([WSize len; WCopy r len], true)
        | EDir => ([WMkdir r], true)
        | ELink text => ([WLink r text], true)
        | ESpecial ft => ([WSpecial r ft], true)
        | EOther ft => ([WErr 2 r], false)
        | EBroken c => ([WErr c r], false)
        end
    end.

  Fixpoint process (es : list (rel * ekind * bool)) : list wact * bool :=
    match es with
    | [] => ([], true)
    | e :: rest =>
        let '(a, ok) := act_of e in
        if ok then let '(b, ok') := process rest in (a ++ b, ok') else (a, false)
    end.
End Process.

(* an entry is kept iff the filter accepts it and every directory above it
   (relative to the walk root r): s is the path below r *)
(* paths::ignore_filter after `fix: --gitignore never filters the source root itself`:
   the entry at depth 0 (relative path []) is kept whatever the matcher says about it *)
Definition root_kept (keep : rel -> bool -> bool) : rel -> bool -> bool :=
  fun q d => match q with [] => true | _ => keep q d end.

Fixpoint kept_suffix (keep : rel -> bool -> bool) (r : rel) (s : rel) (d : bool) : bool :=
  match s with
  | [] => keep r d
  | x :: s' => keep r true && kept_suffix keep (r ++ [x]) s' d
  end.

Definition kept_from (keep : rel -> bool -> bool) (r : rel) (e : rel * ekind * bool) : bool :=
  let '(q, _, d) := e in kept_suffix keep r (skipn (length r) q) d.

(* ---- a directory is dispatched before anything inside it ----
   scanning the selected entries in walk order with the set of directories
   already dispatched: every entry's parent directory has been seen *)
Fixpoint parents_first (seen : list rel) (L : list (rel * ekind * bool)) : bool :=
  match L with
  | [] => true
  | (q, k, _) :: rest =>
      existsb (rel_eqb (removelast q)) seen &&
      parents_first (match k with EDir => q :: seen | _ => seen end) rest
  end.
