(* ConcFile.v — the parfile protocol (libxcp/src/drivers/parfile.rs): the
   walker sends operations into an unbounded channel and drops the sender; W
   workers each loop { receive an operation; execute it completely } and end
   when the channel is closed and empty; copy() joins the walker and the
   workers.  A worker holds at most one handle (opened in CopyHandle::new,
   finalised and closed when `hdl` goes out of scope at the end of the match
   arm). *)
From XcpModel Require Import Base ConcBlock.
From Coq Require Import Arith PeanoNat.
Local Open Scope nat_scope.

Record fst_ := mkF {
  f_todo : list bop;
  f_next : nat;
  f_wdone : bool;
  f_fq : list (nat * bop);
  f_run : list (nat * list nat);     (* per busy worker: handle and remaining blocks *)
  f_ev : list bev }.

Inductive flabel := FWalk | FTake | FWork (k : nat).

Section FStep.
  Variable W : nat.

  Definition fstep (s : fst_) (l : flabel) : option fst_ :=
    match l with
    | FWalk =>
        match f_todo s with
        | o :: r => Some (mkF r (S (f_next s)) (f_wdone s) (f_fq s ++ [(f_next s, o)]) (f_run s) (f_ev s))
        | [] => if f_wdone s then None else Some (mkF [] (f_next s) true (f_fq s) (f_run s) (f_ev s))
        end
    | FTake =>
        match f_fq s with
        | (h, OCopy js) :: r =>
            if length (f_run s) <? W
            then Some (mkF (f_todo s) (f_next s) (f_wdone s) r ((h, js) :: f_run s) (EOpen h :: f_ev s))
            else None
        | (h, OInline) :: r =>
            if length (f_run s) <? W
            then Some (mkF (f_todo s) (f_next s) (f_wdone s) r (f_run s) (EInline h :: f_ev s))
            else None
        | [] => None
        end
    | FWork k =>
        match nth_error (f_run s) k with
        | Some (h, b :: rest) =>
            Some (mkF (f_todo s) (f_next s) (f_wdone s) (f_fq s)
                      (firstn k (f_run s) ++ (h, rest) :: skipn (S k) (f_run s)) (EWrite h b :: f_ev s))
        | Some (h, []) =>
            Some (mkF (f_todo s) (f_next s) (f_wdone s) (f_fq s)
                      (firstn k (f_run s) ++ skipn (S k) (f_run s)) (EFinal h :: f_ev s))
        | None => None
        end
    end.

  Definition finit (ops : list bop) : fst_ := mkF ops 0 false [] [] [].
  Definition ffinal (s : fst_) : bool :=
    match f_todo s, f_fq s, f_run s with [], [], [] => f_wdone s | _, _, _ => false end.

  Inductive freachable (ops : list bop) : fst_ -> Prop :=
  | FR0 : freachable ops (finit ops)
  | FRS s l s' : freachable ops s -> fstep s l = Some s' -> freachable ops s'.
End FStep.

(* work left: take = 1, each block = 1, finalise = 1 *)
Definition fop_cost (o : bop) : nat := match o with OCopy js => 2 + length js | OInline => 1 end.
Definition fmeasure (s : fst_) : nat :=
  fold_right (fun o a => 1 + fop_cost o + a) 0 (f_todo s) + (if f_wdone s then 0 else 1) +
  fold_right (fun ho a => fop_cost (snd ho) + a) 0 (f_fq s) +
  fold_right (fun hj a => 1 + length (snd hj) + a) 0 (f_run s).
