(* Main.v — the front of xcp's main() (src/main.rs:78-165, after the four
   validation repairs): option conflict, argument splitting, glob expansion
   (an oracle), and the validation block that runs before the driver starts.
   File-system state enters through the oracles
     exists_ / is_dir : Path::exists / Path::is_dir (follow symlinks; a failed
                        stat reads as false)
     same_file        : libfs::is_same_file on two existing paths (dev+inode) *)
From XcpModel Require Import Base Backup Paths Walker.

Record opts := mkOpts {
  o_recursive : bool; o_no_target_dir : bool; o_no_clobber : bool; o_force : bool;
  o_glob : bool; o_target_directory : option path }.

(* error codes *)
Definition E_CONFLICT : N := 1.        (* --force and --noclobber *)
Definition E_INSUFFICIENT : N := 2.    (* Insufficient arguments *)
Definition E_GLOB : N := 3.            (* malformed pattern / unreadable match *)
Definition E_NOSOURCE : N := 4.        (* No source files found (also: a pattern selecting nothing) *)
Definition E_DIR_TO_FILE : N := 5.     (* Cannot copy a directory to a file *)
Definition E_MULTI_NOT_DIR : N := 6.   (* Multiple sources and destination is not a directory *)
Definition E_MISSING : N := 7.         (* Source does not exist *)
Definition E_DIR_NOT_RECURSIVE : N := 8.
Definition E_SAME : N := 9.            (* source == dest / source same as mapped destination *)
Definition E_NO_NAME : N := 10.        (* Failed to find source directory name *)
Definition E_DUP_TARGET : N := 11.     (* Multiple sources map to the same destination *)

(* glob oracle: per pattern, Some matches or None for a pattern error *)
Definition glob_result := option (list path).

Definition expand_sources (glob : bool) (patterns : list path) (oracle : list glob_result)
  : option (list path) + N :=
  if glob then
    (fix go (o : list glob_result) : option (list path) + N :=
       match o with
       | [] => inl (Some [])
       | None :: _ => inr E_GLOB
       | Some [] :: _ => inr E_NOSOURCE
       | Some l :: r => match go r with
                        | inl (Some rest) => inl (Some (l ++ rest))
                        | x => x
                        end
       end) oracle
  else inl (Some patterns).

Section Validate.
  Variable exists_ is_dir : path -> bool.
  Variable same_file : path -> path -> bool.
  Variable o : opts.

  Definition check_source (dest : path) (dest_is_dir : bool) (s : path) : option N :=
    if negb (exists_ s) then Some E_MISSING
    else if is_dir s && negb (o_recursive o) then Some E_DIR_NOT_RECURSIVE
    else if path_eqb s dest then Some E_SAME
    else match target_base dest s dest_is_dir (o_no_target_dir o) with
         | None => Some E_NO_NAME
         | Some tb =>
             if path_eqb s tb || (exists_ tb && same_file s tb) then Some E_SAME
             else if is_dir s && exists_ tb && negb (is_dir tb) then Some E_DIR_TO_FILE
             else None
         end.

  (* `seen`: the mapped destinations of the sources already checked (the Vec `targets`) *)
  Fixpoint check_sources (dest : path) (dest_is_dir : bool) (seen : list path) (ss : list path) : option N :=
    match ss with
    | [] => None
    | s :: r => match check_source dest dest_is_dir s with
                | Some e => Some e
                | None =>
                    match target_base dest s dest_is_dir (o_no_target_dir o) with
                    | Some tb => if existsb (path_eqb tb) seen then Some E_DUP_TARGET
                                 else check_sources dest dest_is_dir (tb :: seen) r
                    | None => check_sources dest dest_is_dir seen r      (* not reached: check_source rejects it *)
                    end
                end
    end.

  (* returns None when the copy may start *)
  Definition validate (sources : list path) (dest : path) : option N :=
    match sources with
    | [] => Some E_NOSOURCE
    | s0 :: rest =>
        let dd := is_dir dest in
        if negb dd && (match rest with [] => true | _ => false end) && is_dir s0 && exists_ dest
        then Some E_DIR_TO_FILE
        else if negb dd && (match rest with [] => false | _ => true end) then Some E_MULTI_NOT_DIR
        else check_sources dest (exists_ dest && dd) [] sources
    end.

  (* main() up to the start of the driver: None = proceed *)
  Definition front (paths : list path) (oracle : list glob_result) : option N * list path * path :=
    if o_no_clobber o && o_force o then (Some E_CONFLICT, [], [])
    else
      let split := match o_target_directory o with
                   | Some d => Some (d, paths)
                   | None => match rev paths with
                             | [] => None
                             | d :: r => Some (d, rev r)
                             end
                   end in
      match split with
      | None => (Some E_INSUFFICIENT, [], [])
      | Some (dest, pats) =>
          match expand_sources (o_glob o) pats oracle with
          | inr e => (Some e, [], dest)
          | inl None => (Some E_GLOB, [], dest)
          | inl (Some sources) => (validate sources dest, sources, dest)
          end
      end.
End Validate.

(* what the property calls an invocation that cannot be honoured *)
Section Invalid.
  Variable exists_ is_dir : path -> bool.
  Variable same_file : path -> path -> bool.
  Variable o : opts.

  Definition mapped (dest s : path) : option path :=
    target_base dest s (exists_ dest && is_dir dest) (o_no_target_dir o).

  Inductive Invalid (sources : list path) (dest : path) : Prop :=
  | InvNoSource : sources = [] -> Invalid sources dest
  | InvMissing s : In s sources -> exists_ s = false -> Invalid sources dest
  | InvDirNoRecursive s : In s sources -> is_dir s = true -> o_recursive o = false -> Invalid sources dest
  | InvMultiNotDir : (1 < length sources)%nat -> is_dir dest = false -> Invalid sources dest
  | InvDirOntoFile s tb : In s sources -> is_dir s = true -> mapped dest s = Some tb ->
                          exists_ tb = true -> is_dir tb = false -> Invalid sources dest
  | InvSame s tb : In s sources -> mapped dest s = Some tb ->
                   (path_eqb s tb = true \/ (exists_ tb = true /\ same_file s tb = true)) -> Invalid sources dest
  | InvSameDest s : In s sources -> path_eqb s dest = true -> Invalid sources dest
  (* two sources (at any two positions) map onto the same destination entry *)
  | InvDupTarget l1 s1 l2 s2 tb1 tb2 : sources = l1 ++ s1 :: l2 -> In s2 l2 ->
                   mapped dest s1 = Some tb1 -> mapped dest s2 = Some tb2 -> path_eqb tb2 tb1 = true ->
                   Invalid sources dest.
End Invalid.

(* ------------------------------------------------------------------ *)
(* option plumbing: Config::from(&Opts) (src/options.rs) and            *)
(* Config::num_workers (libxcp/src/config.rs)                           *)
(* ------------------------------------------------------------------ *)
(* `-w 0` means one worker per CPU; both the CLI and the library resolve it the same way.  ncpus = num_cpus::get(),
   which is at least 1. *)
Definition num_workers (workers ncpus : N) : N := if workers =? 0 then ncpus else workers.
