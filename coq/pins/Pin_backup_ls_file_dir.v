From XcpModel Require Import Base Extracted.
From XcpProofs Require Import PinnedSource.
From Coq Require Import String.
Local Open Scope string_scope.

Definition name_backup_ls_file_dir : string := "libxcp/src/backup.rs::ls_file_dir".
Theorem pin_backup_ls_file_dir : pin_unchanged name_backup_ls_file_dir.
Proof. split; [reflexivity|discriminate]. Qed.
