From XcpModel Require Import Base Extracted.
From XcpProofs Require Import PinnedSource.
From Coq Require Import String.
Local Open Scope string_scope.

Definition name_main_main : string := "src/main.rs::main".
Theorem pin_main_main : pin_unchanged name_main_main.
Proof. split; [reflexivity|discriminate]. Qed.
