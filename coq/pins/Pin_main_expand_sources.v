From XcpModel Require Import Base Extracted.
From XcpProofs Require Import PinnedSource.
From Coq Require Import String.
Local Open Scope string_scope.

Definition name_main_expand_sources : string := "src/main.rs::expand_sources".
Theorem pin_main_expand_sources : pin_unchanged name_main_expand_sources.
Proof. split; [reflexivity|discriminate]. Qed.
