From XcpModel Require Import Base Extracted.
From XcpProofs Require Import PinnedSource.
From Coq Require Import String.
Local Open Scope string_scope.

Definition name_parblock_copy : string := "libxcp/src/drivers/parblock.rs::copy".
Theorem pin_parblock_copy : pin_unchanged name_parblock_copy.
Proof. split; [reflexivity|discriminate]. Qed.
