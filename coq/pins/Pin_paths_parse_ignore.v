From XcpModel Require Import Base Extracted.
From XcpProofs Require Import PinnedSource.
From Coq Require Import String.
Local Open Scope string_scope.

Definition name_paths_parse_ignore : string := "libxcp/src/paths.rs::parse_ignore".
Theorem pin_paths_parse_ignore : pin_unchanged name_paths_parse_ignore.
Proof. split; [reflexivity|discriminate]. Qed.
