From XcpModel Require Import Base Extracted.
From XcpProofs Require Import PinnedSource.
From Coq Require Import String.
Local Open Scope string_scope.

Definition name_backup_next_backup_num : string := "libxcp/src/backup.rs::next_backup_num".
Theorem pin_backup_next_backup_num : pin_unchanged name_backup_next_backup_num.
Proof. split; [reflexivity|discriminate]. Qed.
