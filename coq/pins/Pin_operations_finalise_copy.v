From XcpModel Require Import Base Extracted.
From XcpProofs Require Import PinnedSource.
From Coq Require Import String.
Local Open Scope string_scope.

Definition name_operations_finalise_copy : string := "libxcp/src/operations.rs::finalise_copy".
Theorem pin_operations_finalise_copy : pin_unchanged name_operations_finalise_copy.
Proof. split; [reflexivity|discriminate]. Qed.
