From XcpModel Require Import Base Extracted.
From XcpProofs Require Import PinnedSource.
From Coq Require Import String.
Local Open Scope string_scope.

Definition name_parfile_copy_worker : string := "libxcp/src/drivers/parfile.rs::copy_worker".
Theorem pin_parfile_copy_worker : pin_unchanged name_parfile_copy_worker.
Proof. split; [reflexivity|discriminate]. Qed.
