From XcpModel Require Import Base Extracted.
From XcpProofs Require Import PinnedSource.
From Coq Require Import String.
Local Open Scope string_scope.

Definition name_linux_copy_node : string := "libfs/src/linux.rs::copy_node".
Theorem pin_linux_copy_node : pin_unchanged name_linux_copy_node.
Proof. split; [reflexivity|discriminate]. Qed.
