From XcpModel Require Import Base Extracted.
From XcpProofs Require Import PinnedSource.
From Coq Require Import String.
Local Open Scope string_scope.

Definition name_backup_is_num_backup : string := "libxcp/src/backup.rs::is_num_backup".
Theorem pin_backup_is_num_backup : pin_unchanged name_backup_is_num_backup.
Proof. split; [reflexivity|discriminate]. Qed.
