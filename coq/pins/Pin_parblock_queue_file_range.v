From XcpModel Require Import Base Extracted.
From XcpProofs Require Import PinnedSource.
From Coq Require Import String.
Local Open Scope string_scope.

Definition name_parblock_queue_file_range : string := "libxcp/src/drivers/parblock.rs::queue_file_range".
Theorem pin_parblock_queue_file_range : pin_unchanged name_parblock_queue_file_range.
Proof. split; [reflexivity|discriminate]. Qed.
