From XcpModel Require Import Base Extracted.
From XcpProofs Require Import PinnedSource.
From Coq Require Import String.
Local Open Scope string_scope.

Definition name_parfile_copy : string := "libxcp/src/drivers/parfile.rs::copy".
Theorem pin_parfile_copy : pin_unchanged name_parfile_copy.
Proof. split; [reflexivity|discriminate]. Qed.
