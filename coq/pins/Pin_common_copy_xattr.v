From XcpModel Require Import Base Extracted.
From XcpProofs Require Import PinnedSource.
From Coq Require Import String.
Local Open Scope string_scope.

Definition name_common_copy_xattr : string := "libfs/src/common.rs::copy_xattr".
Theorem pin_common_copy_xattr : pin_unchanged name_common_copy_xattr.
Proof. split; [reflexivity|discriminate]. Qed.
