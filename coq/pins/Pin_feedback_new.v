From XcpModel Require Import Base Extracted.
From XcpProofs Require Import PinnedSource.
From Coq Require Import String.
Local Open Scope string_scope.

Definition name_feedback_new : string := "libxcp/src/feedback.rs::new".
Theorem pin_feedback_new : pin_unchanged name_feedback_new.
Proof. split; [reflexivity|discriminate]. Qed.
