From XcpModel Require Import Base Extracted.
From XcpProofs Require Import PinnedSource.
From Coq Require Import String.
Local Open Scope string_scope.

Definition name_operations_copy_file : string := "libxcp/src/operations.rs::copy_file".
Theorem pin_operations_copy_file : pin_unchanged name_operations_copy_file.
Proof. split; [reflexivity|discriminate]. Qed.
