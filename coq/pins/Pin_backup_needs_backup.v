From XcpModel Require Import Base Extracted.
From XcpProofs Require Import PinnedSource.
From Coq Require Import String.
Local Open Scope string_scope.

Definition name_backup_needs_backup : string := "libxcp/src/backup.rs::needs_backup".
Theorem pin_backup_needs_backup : pin_unchanged name_backup_needs_backup.
Proof. split; [reflexivity|discriminate]. Qed.
