From XcpModel Require Import Base Extracted.
From XcpProofs Require Import PinnedSource.
From Coq Require Import String.
Local Open Scope string_scope.

Definition name_common_copy_owner : string := "libfs/src/common.rs::copy_owner".
Theorem pin_common_copy_owner : pin_unchanged name_common_copy_owner.
Proof. split; [reflexivity|discriminate]. Qed.
