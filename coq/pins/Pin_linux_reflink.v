From XcpModel Require Import Base Extracted.
From XcpProofs Require Import PinnedSource.
From Coq Require Import String.
Local Open Scope string_scope.

Definition name_linux_reflink : string := "libfs/src/linux.rs::reflink".
Theorem pin_linux_reflink : pin_unchanged name_linux_reflink.
Proof. split; [reflexivity|discriminate]. Qed.
