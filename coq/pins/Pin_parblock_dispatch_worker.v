From XcpModel Require Import Base Extracted.
From XcpProofs Require Import PinnedSource.
From Coq Require Import String.
Local Open Scope string_scope.

Definition name_parblock_dispatch_worker : string := "libxcp/src/drivers/parblock.rs::dispatch_worker".
Theorem pin_parblock_dispatch_worker : pin_unchanged name_parblock_dispatch_worker.
Proof. split; [reflexivity|discriminate]. Qed.
