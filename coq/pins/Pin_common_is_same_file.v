From XcpModel Require Import Base Extracted.
From XcpProofs Require Import PinnedSource.
From Coq Require Import String.
Local Open Scope string_scope.

Definition name_common_is_same_file : string := "libfs/src/common.rs::is_same_file".
Theorem pin_common_is_same_file : pin_unchanged name_common_is_same_file.
Proof. split; [reflexivity|discriminate]. Qed.
