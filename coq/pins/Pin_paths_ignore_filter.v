From XcpModel Require Import Base Extracted.
From XcpProofs Require Import PinnedSource.
From Coq Require Import String.
Local Open Scope string_scope.

Definition name_paths_ignore_filter : string := "libxcp/src/paths.rs::ignore_filter".
Theorem pin_paths_ignore_filter : pin_unchanged name_paths_ignore_filter.
Proof. split; [reflexivity|discriminate]. Qed.
