From XcpModel Require Import Base Extracted.
From XcpProofs Require Import PinnedSource.
From Coq Require Import String.
Local Open Scope string_scope.

Definition name_linux_lseek : string := "libfs/src/linux.rs::lseek".
Theorem pin_linux_lseek : pin_unchanged name_linux_lseek.
Proof. split; [reflexivity|discriminate]. Qed.
