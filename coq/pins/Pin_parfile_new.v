From XcpModel Require Import Base Extracted.
From XcpProofs Require Import PinnedSource.
From Coq Require Import String.
Local Open Scope string_scope.

Definition name_parfile_new : string := "libxcp/src/drivers/parfile.rs::new".
Theorem pin_parfile_new : pin_unchanged name_parfile_new.
Proof. split; [reflexivity|discriminate]. Qed.
