From XcpModel Require Import Base Extracted.
From XcpProofs Require Import PinnedSource.
From Coq Require Import String.
Local Open Scope string_scope.

Definition name_common_allocate_file : string := "libfs/src/common.rs::allocate_file".
Theorem pin_common_allocate_file : pin_unchanged name_common_allocate_file.
Proof. split; [reflexivity|discriminate]. Qed.
