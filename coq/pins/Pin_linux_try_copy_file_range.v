From XcpModel Require Import Base Extracted.
From XcpProofs Require Import PinnedSource.
From Coq Require Import String.
Local Open Scope string_scope.

Definition name_linux_try_copy_file_range : string := "libfs/src/linux.rs::try_copy_file_range".
Theorem pin_linux_try_copy_file_range : pin_unchanged name_linux_try_copy_file_range.
Proof. split; [reflexivity|discriminate]. Qed.
