From XcpModel Require Import Base Extracted.
From XcpProofs Require Import PinnedSource.
From Coq Require Import String.
Local Open Scope string_scope.

Definition name_linux_copy_file_bytes : string := "libfs/src/linux.rs::copy_file_bytes".
Theorem pin_linux_copy_file_bytes : pin_unchanged name_linux_copy_file_bytes.
Proof. split; [reflexivity|discriminate]. Qed.
