From XcpModel Require Import Base Extracted.
From XcpProofs Require Import PinnedSource.
From Coq Require Import String.
Local Open Scope string_scope.

Definition name_parblock_new : string := "libxcp/src/drivers/parblock.rs::new".
Theorem pin_parblock_new : pin_unchanged name_parblock_new.
Proof. split; [reflexivity|discriminate]. Qed.
