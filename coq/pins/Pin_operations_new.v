From XcpModel Require Import Base Extracted.
From XcpProofs Require Import PinnedSource.
From Coq Require Import String.
Local Open Scope string_scope.

Definition name_operations_new : string := "libxcp/src/operations.rs::new".
Theorem pin_operations_new : pin_unchanged name_operations_new.
Proof. split; [reflexivity|discriminate]. Qed.
