From XcpModel Require Import Base Extracted.
From XcpProofs Require Import PinnedSource.
From Coq Require Import String.
Local Open Scope string_scope.

Definition name_feedback_send : string := "libxcp/src/feedback.rs::send".
Theorem pin_feedback_send : pin_unchanged name_feedback_send.
Proof. split; [reflexivity|discriminate]. Qed.
