From XcpModel Require Import Base Extracted.
From XcpProofs Require Import PinnedSource.
From Coq Require Import String.
Local Open Scope string_scope.

Definition name_main_opts_check : string := "src/main.rs::opts_check".
Theorem pin_main_opts_check : pin_unchanged name_main_opts_check.
Proof. split; [reflexivity|discriminate]. Qed.
