From XcpModel Require Import Base Extracted.
From XcpProofs Require Import PinnedSource.
From Coq Require Import String.
Local Open Scope string_scope.

Definition name_operations_tree_walker : string := "libxcp/src/operations.rs::tree_walker".
Theorem pin_operations_tree_walker : pin_unchanged name_operations_tree_walker.
Proof. split; [reflexivity|discriminate]. Qed.
