From XcpModel Require Import Base Extracted.
From XcpProofs Require Import PinnedSource.
From Coq Require Import String.
Local Open Scope string_scope.

Definition name_common_copy_timestamps : string := "libfs/src/common.rs::copy_timestamps".
Theorem pin_common_copy_timestamps : pin_unchanged name_common_copy_timestamps.
Proof. split; [reflexivity|discriminate]. Qed.
