From XcpModel Require Import Base Extracted.
From XcpProofs Require Import PinnedSource.
From Coq Require Import String.
Local Open Scope string_scope.

Definition name_common_copy_permissions : string := "libfs/src/common.rs::copy_permissions".
Theorem pin_common_copy_permissions : pin_unchanged name_common_copy_permissions.
Proof. split; [reflexivity|discriminate]. Qed.
