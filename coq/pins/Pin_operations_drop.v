From XcpModel Require Import Base Extracted.
From XcpProofs Require Import PinnedSource.
From Coq Require Import String.
Local Open Scope string_scope.

Definition name_operations_drop : string := "libxcp/src/operations.rs::drop".
Theorem pin_operations_drop : pin_unchanged name_operations_drop.
Proof. split; [reflexivity|discriminate]. Qed.
