From XcpModel Require Import Base Extracted.
From XcpProofs Require Import PinnedSource.
From Coq Require Import String.
Local Open Scope string_scope.

Definition name_parblock_queue_file_blocks : string := "libxcp/src/drivers/parblock.rs::queue_file_blocks".
Theorem pin_parblock_queue_file_blocks : pin_unchanged name_parblock_queue_file_blocks.
Proof. split; [reflexivity|discriminate]. Qed.
