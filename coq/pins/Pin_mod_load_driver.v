From XcpModel Require Import Base Extracted.
From XcpProofs Require Import PinnedSource.
From Coq Require Import String.
Local Open Scope string_scope.

Definition name_mod_load_driver : string := "libxcp/src/drivers/mod.rs::load_driver".
Theorem pin_mod_load_driver : pin_unchanged name_mod_load_driver.
Proof. split; [reflexivity|discriminate]. Qed.
