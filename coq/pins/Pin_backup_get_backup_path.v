From XcpModel Require Import Base Extracted.
From XcpProofs Require Import PinnedSource.
From Coq Require Import String.
Local Open Scope string_scope.

Definition name_backup_get_backup_path : string := "libxcp/src/backup.rs::get_backup_path".
Theorem pin_backup_get_backup_path : pin_unchanged name_backup_get_backup_path.
Proof. split; [reflexivity|discriminate]. Qed.
