From XcpModel Require Import Base Extracted.
From XcpProofs Require Import PinnedSource.
From Coq Require Import String.
Local Open Scope string_scope.

Definition name_main_expand_globs : string := "src/main.rs::expand_globs".
Theorem pin_main_expand_globs : pin_unchanged name_main_expand_globs.
Proof. split; [reflexivity|discriminate]. Qed.
