From XcpModel Require Import Base Extracted.
From XcpProofs Require Import PinnedSource.
From Coq Require Import String.
Local Open Scope string_scope.

Definition name_common_sync : string := "libfs/src/common.rs::sync".
Theorem pin_common_sync : pin_unchanged name_common_sync.
Proof. split; [reflexivity|discriminate]. Qed.
