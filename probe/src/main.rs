// probe — API-level access to libfs/libxcp for the correspondence checks.
// Line protocol on stdin/stdout, numbers in decimal, byte strings in hex.
use std::io::{self, BufRead, Write};

mod merge;
mod backup;
mod copy;
mod paths;
mod walk;
mod gi;

fn main() {
    let args: Vec<String> = std::env::args().collect();
    if args.len() < 2 {
        eprintln!("usage: probe <subcommand> [args]");
        std::process::exit(2);
    }
    let stdin = io::stdin();
    let stdout = io::stdout();
    let mut out = io::BufWriter::new(stdout.lock());
    match args[1].as_str() {
        "merge" => {
            for line in stdin.lock().lines() {
                let line = line.unwrap();
                writeln!(out, "{}", merge::merge_line(&line)).unwrap();
            }
        }
        "extents" => {
            for f in &args[2..] {
                writeln!(out, "{}", merge::extents_file(f)).unwrap();
            }
        }
        "segments" => {
            for f in &args[2..] {
                writeln!(out, "{}", merge::segments_file(f)).unwrap();
            }
        }
        "isnum" => {
            for line in stdin.lock().lines() {
                let line = line.unwrap();
                writeln!(out, "{}", backup::isnum_line(&line)).unwrap();
            }
        }
        "nextnum" => {
            for line in stdin.lock().lines() {
                let line = line.unwrap();
                writeln!(out, "{}", backup::nextnum_line(&args[2], &line)).unwrap();
            }
        }
        "paths" => {
            for line in stdin.lock().lines() {
                let line = line.unwrap();
                writeln!(out, "{}", paths::paths_line(&line)).unwrap();
            }
        }
        "gitignore" => {
            out.flush().unwrap();
            gi::gi_main(&args[2]);
        }
        "walk" => {
            out.flush().unwrap();
            walk::walk_main(&args[2..]);
        }
        "copy" => {
            out.flush().unwrap();
            copy::copy_main(&args[2..]);
        }
        "channel" => {
            out.flush().unwrap();
            let lines: Vec<String> = stdin.lock().lines().map(|l| l.unwrap()).collect();
            copy::channel_main(args[2].parse().unwrap(), lines);
        }
        other => {
            eprintln!("unknown subcommand {}", other);
            std::process::exit(2);
        }
    }
    out.flush().unwrap();
}
