// probe gitignore <source>: verdicts of libxcp's matcher (built exactly as tree_walker builds it)
use std::ffi::OsString;
use std::io::BufRead;
use std::os::unix::ffi::OsStringExt;
use std::path::PathBuf;

use libxcp::config::Config;
use libxcp::verif_hooks::parse_ignore;

use crate::backup::unhex;

pub fn gi_main(source: &str) {
    let mut cfg = Config::default();
    cfg.gitignore = true;
    let src = PathBuf::from(source);
    let gi = match parse_ignore(&src, &cfg) {
        Ok(Some(g)) => g,
        Ok(None) => {
            println!("NONE");
            return;
        }
        Err(e) => {
            println!("ERR {}", e);
            return;
        }
    };
    let stdin = std::io::stdin();
    for line in stdin.lock().lines() {
        let line = line.unwrap();
        let mut it = line.split_whitespace();
        let rel = PathBuf::from(OsString::from_vec(unhex(it.next().unwrap())));
        let is_dir = it.next().unwrap() == "1";
        let p = if rel.as_os_str().is_empty() { src.clone() } else { src.join(rel) };
        let m = gi.matched(&p, is_dir);
        println!("{}", if m.is_ignore() { 1 } else { 0 });
    }
}
