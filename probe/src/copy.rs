// probe copy / probe channel — library-client view of libxcp (C12, C07).
use std::path::PathBuf;
use std::sync::{Arc, Mutex};
use std::thread;

use libxcp::config::{Backup, Config, Reflink};
use libxcp::drivers::{load_driver, Drivers};
use libxcp::errors::Result;
use libxcp::feedback::{ChannelUpdater, NoopUpdater, StatusUpdate, StatusUpdater};

static LOG9: Mutex<()> = Mutex::new(());

fn log9(s: &str) {
    // raw write so the ptrace supervisor sees updates in one total order with the file-system calls;
    // serialised so that the order in the file is the order of the write calls in the trace
    let _g = LOG9.lock().unwrap();
    unsafe {
        libc::write(9, s.as_ptr() as *const libc::c_void, s.len());
    }
}

fn fmt(u: &StatusUpdate) -> String {
    match u {
        StatusUpdate::Copied(n) => format!("C {}", n),
        StatusUpdate::Size(n) => format!("S {}", n),
        StatusUpdate::Error(e) => format!("E {}", e.to_string().replace('\n', " ")),
    }
}

/// client-supplied updater: records the send order
struct Recorder {
    log: Mutex<Vec<String>>,
    slow_size: bool,      // a client that takes its time over a Size update (the sending thread sits in send() meanwhile)
}
impl StatusUpdater for Recorder {
    fn send(&self, update: StatusUpdate) -> Result<()> {
        if self.slow_size {
            if let StatusUpdate::Size(_) = update { thread::sleep(std::time::Duration::from_millis(15)); }
        }
        let mut g = self.log.lock().unwrap();
        let s = fmt(&update);
        log9(&format!("{}\n", s));
        g.push(s);
        Ok(())
    }
}

/// records the send order and forwards to the real ChannelUpdater under one lock
struct Wrap {
    inner: ChannelUpdater,
    log: Mutex<Vec<String>>,
}
impl StatusUpdater for Wrap {
    fn send(&self, update: StatusUpdate) -> Result<()> {
        let mut g = self.log.lock().unwrap();
        let s = fmt(&update);
        log9(&format!("{}\n", s));
        g.push(s);
        self.inner.send(update)
    }
}

pub fn parse_config(args: &[String]) -> (Config, Drivers, String, Vec<PathBuf>, PathBuf) {
    // <driver> <workers> <bs> <updater> [flags] -- src... dest
    let driver: Drivers = args[0].parse().unwrap();
    let mut cfg = Config::default();
    cfg.workers = args[1].parse().unwrap();
    cfg.block_size = args[2].parse().unwrap();
    let upd = args[3].clone();
    let mut i = 4;
    while args[i] != "--" {
        match args[i].as_str() {
            "--no-clobber" => cfg.no_clobber = true,
            "--fsync" => cfg.fsync = true,
            "--gitignore" => cfg.gitignore = true,
            "--dereference" => cfg.dereference = true,
            "--no-target-directory" => cfg.no_target_directory = true,
            "--no-perms" => cfg.no_perms = true,
            "--no-timestamps" => cfg.no_timestamps = true,
            "--ownership" => cfg.ownership = true,
            "--reflink=never" => cfg.reflink = Reflink::Never,
            "--reflink=always" => cfg.reflink = Reflink::Always,
            "--backup=numbered" => cfg.backup = Backup::Numbered,
            "--backup=auto" => cfg.backup = Backup::Auto,
            other => panic!("unknown flag {}", other),
        }
        i += 1;
    }
    let paths: Vec<PathBuf> = args[i + 1..].iter().map(PathBuf::from).collect();
    let (dest, sources) = paths.split_last().unwrap();
    (cfg, driver, upd, sources.to_vec(), dest.clone())
}

pub fn copy_main(args: &[String]) {
    let (cfg, driver, upd, sources, dest) = parse_config(args);
    let config = Arc::new(cfg);
    let drv = load_driver(driver, &config).unwrap();
    match upd.as_str() {
        "rec" | "recslow" => {
            let rec = Arc::new(Recorder { log: Mutex::new(vec![]), slow_size: upd == "recslow" });
            let stats: Arc<dyn StatusUpdater> = rec.clone();
            let h = thread::spawn(move || drv.copy(sources, &dest, stats));
            let r = h.join();
            log9("RETURNED\n");
            match r {
                Ok(Ok(())) => println!("RET ok"),
                Ok(Err(e)) => println!("RET err {}", e.to_string().replace('\n', " ")),
                Err(_) => println!("RET panic"),
            }
            for l in rec.log.lock().unwrap().iter() {
                println!("SENT {}", l);
            }
        }
        "noop" => {
            let stats: Arc<dyn StatusUpdater> = Arc::new(NoopUpdater);
            let h = thread::spawn(move || drv.copy(sources, &dest, stats));
            match h.join() {
                Ok(Ok(())) => println!("RET ok"),
                Ok(Err(e)) => println!("RET err {}", e.to_string().replace('\n', " ")),
                Err(_) => println!("RET panic"),
            }
        }
        "chan" | "chanwrap" => {
            // as in the libxcp usage example: the updater is moved into copy() so the channel closes on completion
            let updater = ChannelUpdater::new(&config);
            let rx = updater.rx_channel();
            let wrap = upd == "chanwrap";
            let sent_log: Arc<Mutex<Vec<String>>> = Arc::new(Mutex::new(vec![]));
            let stats: Arc<dyn StatusUpdater> = if wrap {
                Arc::new(Wrap { inner: updater, log: Mutex::new(vec![]) })
            } else {
                Arc::new(updater)
            };
            let _ = sent_log;
            let h = thread::spawn(move || drv.copy(sources, &dest, stats));
            let mut delivered = vec![];
            for u in rx {
                let s = fmt(&u);
                log9(&format!("D {}\n", s));
                delivered.push(s);
            }
            log9("CLOSED\n");
            match h.join() {
                Ok(Ok(())) => println!("RET ok"),
                Ok(Err(e)) => println!("RET err {}", e.to_string().replace('\n', " ")),
                Err(_) => println!("RET panic"),
            }
            for l in delivered {
                println!("DELIVERED {}", l);
            }
            println!("CLOSED");
        }
        "chanlate" => {
            // a client that needs no real-time updates: call copy(), let it finish, THEN read the receiver until it closes
            // (drivers/mod.rs: "copy() itself will block until all work is complete, so should be run in a thread if
            // real-time updates are required")
            let updater = ChannelUpdater::new(&config);
            let rx = updater.rx_channel();
            let stats: Arc<dyn StatusUpdater> = Arc::new(updater);
            let r = drv.copy(sources, &dest, stats);
            log9("RETURNED\n");
            match r {
                Ok(()) => println!("RET ok"),
                Err(e) => println!("RET err {}", e.to_string().replace('\n', " ")),
            }
            let (mut nsize, mut size_sum, mut copied, mut nerr) = (0u64, 0u64, 0u64, 0u64);
            for u in rx {
                match u {
                    StatusUpdate::Size(n) => { nsize += 1; size_sum += n; }
                    StatusUpdate::Copied(n) => copied += n,
                    StatusUpdate::Error(_) => nerr += 1,
                }
            }
            println!("SUMMARY sizes {} size_sum {} copied {} errors {}", nsize, size_sum, copied, nerr);
            println!("CLOSED");
        }
        other => panic!("unknown updater {}", other),
    }
}

/// probe channel <bs>: single-threaded R0 for ChannelUpdater::send
pub fn channel_main(bs: u64, lines: Vec<String>) {
    let mut cfg = Config::default();
    cfg.block_size = bs;
    let config = Arc::new(cfg);
    let updater = ChannelUpdater::new(&config);
    let rx = updater.rx_channel();
    let r = std::panic::catch_unwind(std::panic::AssertUnwindSafe(|| {
        for l in &lines {
            let mut it = l.split_whitespace();
            let u = match it.next() {
                Some("S") => StatusUpdate::Size(it.next().unwrap().parse().unwrap()),
                Some("C") => StatusUpdate::Copied(it.next().unwrap().parse().unwrap()),
                Some("E") => StatusUpdate::Error(libxcp::errors::XcpError::CopyError("x".to_string())),
                _ => continue,
            };
            updater.send(u).unwrap();
        }
    }));
    drop(updater);
    if r.is_err() {
        println!("PANIC");
        return;
    }
    for u in rx {
        println!("{}", fmt(&u).split(' ').take(2).collect::<Vec<_>>().join(" "));
    }
    println!("CLOSED");
}
