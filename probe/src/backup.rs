use std::ffi::OsString;
use std::os::unix::ffi::OsStringExt;
use std::panic::catch_unwind;
use std::path::PathBuf;

use libxcp::verif_hooks::{get_backup_path, has_backup, is_num_backup, next_backup_num};

pub fn unhex(s: &str) -> Vec<u8> {
    if s == "-" {
        return vec![];
    }
    (0..s.len() / 2).map(|i| u8::from_str_radix(&s[2 * i..2 * i + 2], 16).unwrap()).collect()
}

pub fn hex(b: &[u8]) -> String {
    if b.is_empty() {
        return "-".to_string();
    }
    b.iter().map(|x| format!("{:02x}", x)).collect()
}

/// "hexbase hexcand" -> "NONE" | "SOME n"
pub fn isnum_line(line: &str) -> String {
    let mut it = line.split_whitespace();
    let base = OsString::from_vec(unhex(it.next().unwrap()));
    let mut cand = b"/d/".to_vec();
    cand.extend(unhex(it.next().unwrap()));
    let cand = PathBuf::from(OsString::from_vec(cand));
    match catch_unwind(|| is_num_backup(&base, &cand)) {
        Err(_) => "PANIC".to_string(),
        Ok(None) => "NONE".to_string(),
        Ok(Some(n)) => format!("SOME {}", n),
    }
}

/// dir + "hexbase" -> "has next backup_path_hex" | PANIC | ERR
pub fn nextnum_line(dir: &str, line: &str) -> String {
    let mut p = dir.as_bytes().to_vec();
    p.push(b'/');
    p.extend(unhex(line.trim()));
    let path = PathBuf::from(OsString::from_vec(p));
    let r = catch_unwind(|| {
        let h = has_backup(&path);
        let n = next_backup_num(&path);
        let b = get_backup_path(&path);
        (h, n, b)
    });
    match r {
        Err(_) => "PANIC".to_string(),
        Ok((Ok(h), Ok(n), Ok(b))) => {
            use std::os::unix::ffi::OsStrExt;
            let fname = b.file_name().map(|f| f.as_bytes().to_vec()).unwrap_or_default();
            format!("{} {} {}", if h { 1 } else { 0 }, n, hex(&fname))
        }
        Ok(_) => "ERR".to_string(),
    }
}
