use libfs::{map_extents, merge_extents, next_sparse_segments, Extent};
use std::fs::File;
use std::panic::catch_unwind;

fn fmt_exts(v: &[Extent]) -> String {
    let mut s = String::new();
    for e in v {
        s.push_str(&format!(" {} {} {}", e.start, e.end, if e.shared { 1 } else { 0 }));
    }
    s
}

/// "s e sh s e sh ..." -> "OK s e sh ..." | "PANIC" | "ERR"
pub fn merge_line(line: &str) -> String {
    let nums: Vec<u64> = line.split_whitespace().map(|t| t.parse().unwrap()).collect();
    let r = catch_unwind(|| {
        let exts: Vec<Extent> = nums
            .chunks(3)
            .map(|c| Extent { start: c[0], end: c[1], shared: c[2] != 0 })
            .collect();
        merge_extents(exts)
    });
    match r {
        Err(_) => "PANIC".to_string(),
        Ok(Err(_)) => "ERR".to_string(),
        Ok(Ok(v)) => format!("OK{}", fmt_exts(&v)),
    }
}

pub fn extents_file(path: &str) -> String {
    let fd = match File::open(path) {
        Ok(f) => f,
        Err(e) => return format!("OPENERR {}", e.raw_os_error().unwrap_or(0)),
    };
    match catch_unwind(|| map_extents(&fd)) {
        Err(_) => "PANIC".to_string(),
        Ok(Err(e)) => format!("ERR {}", e),
        Ok(Ok(None)) => "NONE".to_string(),
        Ok(Ok(Some(v))) => format!("SOME{}", fmt_exts(&v)),
    }
}

/// the `while pos < len` walk of copy_sparse, using the public
/// next_sparse_segments; bounded so that a non-progressing walk is reported
pub fn segments_file(path: &str) -> String {
    let fd = match File::open(path) {
        Ok(f) => f,
        Err(e) => return format!("OPENERR {}", e.raw_os_error().unwrap_or(0)),
    };
    // next_sparse_segments also positions the cursor of an output fd
    let out = File::open(path).unwrap();
    let len = fd.metadata().unwrap().len();
    let mut pos = 0u64;
    let mut s = String::from("OK");
    let mut iters = 0u64;
    while pos < len {
        iters += 1;
        if iters > 1_000_000 {
            return "SPIN".to_string();
        }
        match catch_unwind(|| next_sparse_segments(&fd, &out, pos)) {
            Err(_) => return "PANIC".to_string(),
            Ok(Err(e)) => return format!("ERR {}", e),
            Ok(Ok((d, h))) => {
                s.push_str(&format!(" {} {}", d, h));
                pos = h;
            }
        }
    }
    s
}
