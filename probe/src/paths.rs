use std::ffi::OsString;
use std::os::unix::ffi::{OsStrExt, OsStringExt};
use std::path::{Component, Path, PathBuf};

use crate::backup::unhex;

fn enc(p: &Path, out: &mut Vec<String>) {
    for c in p.components() {
        match c {
            Component::RootDir => out.push("0".into()),
            Component::CurDir => out.push("1".into()),
            Component::ParentDir => out.push("2".into()),
            Component::Normal(n) => {
                out.push("3".into());
                out.push(n.as_bytes().len().to_string());
                for b in n.as_bytes() {
                    out.push(b.to_string());
                }
            }
            Component::Prefix(_) => out.push("7".into()),
        }
    }
}

/// "hexa hexb" -> same flat encoding as Run.run_paths
pub fn paths_line(line: &str) -> String {
    let mut it = line.split_whitespace();
    let a = PathBuf::from(OsString::from_vec(unhex(it.next().unwrap())));
    let b = PathBuf::from(OsString::from_vec(unhex(it.next().unwrap())));
    let mut out: Vec<String> = vec![];
    enc(&a, &mut out);
    out.push("99".into());
    enc(&b, &mut out);
    out.push("99".into());
    enc(&a.join(&b), &mut out);
    out.push("99".into());
    match a.strip_prefix(&b) {
        Ok(s) => {
            out.push("1".into());
            enc(s, &mut out);
        }
        Err(_) => out.push("0".into()),
    }
    out.push("99".into());
    out.push(if a == b { "1".into() } else { "0".into() });
    match a.file_name() {
        Some(n) => {
            out.push("1".into());
            for x in n.as_bytes() {
                out.push(x.to_string());
            }
        }
        None => out.push("0".into()),
    }
    out.join(" ")
}
