// probe walk [flags] -- sources... dest : run libxcp's tree_walker with recording channels
use std::os::unix::ffi::OsStrExt;
use std::path::PathBuf;
use std::sync::{Arc, Mutex};

use crossbeam_channel as cbc;
use libxcp::config::Config;
use libxcp::errors::Result;
use libxcp::feedback::{StatusUpdate, StatusUpdater};
use libxcp::verif_hooks::{tree_walker, Operation};

use crate::backup::hex;

struct Rec {
    log: Mutex<Vec<String>>,
}
impl StatusUpdater for Rec {
    fn send(&self, update: StatusUpdate) -> Result<()> {
        let s = match update {
            StatusUpdate::Copied(n) => format!("COPIED {}", n),
            StatusUpdate::Size(n) => format!("SIZE {}", n),
            StatusUpdate::Error(e) => format!("ERROR {}", e.to_string().replace('\n', " ")),
        };
        self.log.lock().unwrap().push(s);
        Ok(())
    }
}

pub fn walk_main(args: &[String]) {
    let mut cfg = Config::default();
    let mut i = 0;
    while args[i] != "--" {
        match args[i].as_str() {
            "--no-clobber" => cfg.no_clobber = true,
            "--gitignore" => cfg.gitignore = true,
            "--dereference" => cfg.dereference = true,
            "--no-target-directory" => cfg.no_target_directory = true,
            other => panic!("unknown flag {}", other),
        }
        i += 1;
    }
    let paths: Vec<PathBuf> = args[i + 1..].iter().map(PathBuf::from).collect();
    let (dest, sources) = paths.split_last().unwrap();
    let (tx, rx) = cbc::unbounded::<Operation>();
    let rec = Arc::new(Rec { log: Mutex::new(vec![]) });
    let stats: Arc<dyn StatusUpdater> = rec.clone();
    let r = tree_walker(sources.to_vec(), dest, &cfg, tx, stats);
    match r {
        Ok(()) => println!("RET ok"),
        Err(e) => println!("RET err {}", e.to_string().replace('\n', " ")),
    }
    for op in rx {
        match op {
            Operation::Copy(f, t) => println!("COPY {} {}", hex(f.as_os_str().as_bytes()), hex(t.as_os_str().as_bytes())),
            Operation::Link(f, t) => println!("LINK {} {}", hex(f.as_os_str().as_bytes()), hex(t.as_os_str().as_bytes())),
            Operation::Special(f, t) => println!("SPECIAL {} {}", hex(f.as_os_str().as_bytes()), hex(t.as_os_str().as_bytes())),
        }
    }
    for l in rec.log.lock().unwrap().iter() {
        println!("{}", l);
    }
}
