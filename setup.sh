#!/bin/sh
# Build the framework from files on disk only (offline).
set -e
cd "$(dirname "$0")"
export CARGO_NET_OFFLINE=true
python3 - <<'PY'
import sys, os
sys.path.insert(0, "harness")
import core
ok, log = core.build_coq()
if not ok:
    print(log[-3000:]); sys.exit(1)
core.build_rust()
core.build_rust_release()
core.build_sup()
print("setup ok")
PY
