/* sup.c — ptrace supervisor for the xcp correspondence checks (x86-64 Linux).
 *
 *   sup -o trace [-r rules] [-p prefix] [-t timeout_ms] [-S seed -P permille -M maxms] -- cmd args...
 *
 * 1. logs every file-system relevant system call of every thread of the traced
 *    program as one JSON line per call, in one total order (entry sequence
 *    number `e`, exit sequence number `x`), with resolved paths;
 * 2. applies an oracle plan (rules file), each rule keyed by
 *    (syscall name, path substring, n-th occurrence of that key) so plans do
 *    not depend on the schedule:
 *        fail  <errno>            <sys> <path> <nth>    skip the call, return -errno
 *        ret   <value>            <sys> <path> <nth>    skip the call, return value
 *        clamp <argidx> <value>   <sys> <path> <nth>    arg := min(arg, value)
 *        kill  0                  <sys> <path> <nth>    SIGKILL the program before the call
 *        killafter 0              <sys> <path> <nth>    SIGKILL right after the call returned
 *        hold  <ms> <events>      <sys> <path> <nth>    keep this thread stopped at the call's entry until
 *                                                       <events> other calls were entered or <ms> passed
 *        holdq <maxms> <quietms>  <sys> <path> <nth>    keep this thread stopped until no thread of the program has
 *                                                       entered any system call for <quietms> (everything else is
 *                                                       blocked or done), or <maxms> passed
 *        trunc <len>              <sys> <path> <nth>    the ENVIRONMENT truncates the file the call names (its first
 *                                                       resolved path) to <len> bytes just before the call proceeds
 *                                                       (a source shrinking while it is being copied)
 *    <nth> = 0 means every occurrence; <path> = * matches anything, =<path> matches that path exactly, anything
 *    else is a substring; <sys> = * any logged call;
 * 3. with -S/-P/-M holds random threads at random calls (schedule exploration);
 * 4. enforces a wall-clock bound (-t): on expiry everything is killed and
 *    {"timeout":1} is logged, exit status 124.
 * Exit status: that of the traced program (128+signal if it was killed).
 */
#define _GNU_SOURCE
#include <errno.h>
#include <fcntl.h>
#include <limits.h>
#include <signal.h>
#include <stdint.h>
#include <stdio.h>
#include <stdlib.h>
#include <string.h>
#include <sys/ptrace.h>
#include <sys/syscall.h>
#include <sys/time.h>
#include <sys/types.h>
#include <sys/uio.h>
#include <sys/user.h>
#include <sys/wait.h>
#include <time.h>
#include <unistd.h>

/* ---- syscall table: name, kind of path resolution ---- */
enum { K_NONE, K_FD0, K_PATH0, K_AT01, K_CFR, K_PATH0_PATH1, K_AT_AT, K_SYMLINK, K_SYMLINKAT, K_LINKAT };
struct sysdesc { long nr; const char *name; int kind; };
static const struct sysdesc SYS[] = {
    {SYS_read, "read", K_FD0}, {SYS_write, "write", K_FD0}, {SYS_pread64, "pread64", K_FD0},
    {SYS_pwrite64, "pwrite64", K_FD0}, {SYS_open, "open", K_PATH0}, {SYS_openat, "openat", K_AT01},
    {SYS_close, "close", K_FD0}, {SYS_stat, "stat", K_PATH0}, {SYS_lstat, "lstat", K_PATH0},
    {SYS_fstat, "fstat", K_FD0}, {SYS_newfstatat, "newfstatat", K_AT01}, {SYS_statx, "statx", K_AT01},
    {SYS_lseek, "lseek", K_FD0}, {SYS_ioctl, "ioctl", K_FD0}, {SYS_copy_file_range, "copy_file_range", K_CFR},
    {SYS_ftruncate, "ftruncate", K_FD0}, {SYS_truncate, "truncate", K_PATH0}, {SYS_fallocate, "fallocate", K_FD0},
    {SYS_fsync, "fsync", K_FD0}, {SYS_fdatasync, "fdatasync", K_FD0},
    {SYS_fchmod, "fchmod", K_FD0}, {SYS_chmod, "chmod", K_PATH0}, {SYS_fchmodat, "fchmodat", K_AT01},
    {SYS_fchown, "fchown", K_FD0}, {SYS_chown, "chown", K_PATH0}, {SYS_lchown, "lchown", K_PATH0},
    {SYS_fchownat, "fchownat", K_AT01}, {SYS_utimensat, "utimensat", K_AT01},
    {SYS_rename, "rename", K_PATH0_PATH1}, {SYS_renameat, "renameat", K_AT_AT}, {SYS_renameat2, "renameat2", K_AT_AT},
    {SYS_unlink, "unlink", K_PATH0}, {SYS_unlinkat, "unlinkat", K_AT01}, {SYS_rmdir, "rmdir", K_PATH0},
    {SYS_mkdir, "mkdir", K_PATH0}, {SYS_mkdirat, "mkdirat", K_AT01},
    {SYS_mknod, "mknod", K_PATH0}, {SYS_mknodat, "mknodat", K_AT01},
    {SYS_symlink, "symlink", K_SYMLINK}, {SYS_symlinkat, "symlinkat", K_SYMLINKAT},
    {SYS_link, "link", K_PATH0_PATH1}, {SYS_linkat, "linkat", K_LINKAT},
    {SYS_readlink, "readlink", K_PATH0}, {SYS_readlinkat, "readlinkat", K_AT01},
    {SYS_getdents64, "getdents64", K_FD0}, {SYS_access, "access", K_PATH0}, {SYS_faccessat, "faccessat", K_AT01},
#ifdef SYS_faccessat2
    {SYS_faccessat2, "faccessat2", K_AT01},
#endif
    {SYS_fsetxattr, "fsetxattr", K_FD0}, {SYS_fgetxattr, "fgetxattr", K_FD0}, {SYS_flistxattr, "flistxattr", K_FD0},
    {SYS_setxattr, "setxattr", K_PATH0}, {SYS_lsetxattr, "lsetxattr", K_PATH0},
    {SYS_sendfile, "sendfile", K_FD0}, {SYS_chdir, "chdir", K_PATH0}, {SYS_umask, "umask", K_NONE},
    {SYS_dup, "dup", K_FD0}, {SYS_dup2, "dup2", K_FD0}, {SYS_dup3, "dup3", K_FD0}, {SYS_fcntl, "fcntl", K_FD0},
    {SYS_exit_group, "exit_group", K_NONE}, {SYS_clone, "clone", K_NONE},
#ifdef SYS_clone3
    {SYS_clone3, "clone3", K_NONE},
#endif
#ifdef SYS_openat2
    {SYS_openat2, "openat2", K_AT01},
#endif
    {-1, NULL, 0}
};

static const struct sysdesc *lookup(long nr) {
    for (const struct sysdesc *d = SYS; d->name; d++) if (d->nr == nr) return d;
    return NULL;
}

/* ---- rules ---- */
enum { A_FAIL, A_RET, A_CLAMP, A_KILL, A_KILLAFTER, A_HOLD, A_HOLDQ, A_TRUNC };
struct rule { int act; long p1, p2; char sys[32]; char path[PATH_MAX]; long nth; long seen; };
static struct rule rules[256];
static int nrules;

/* ---- per-thread state ---- */
struct thr {
    pid_t tid; int used; int insys; int logged;
    const struct sysdesc *d;
    unsigned long long args[6]; long nr;
    unsigned long eseq;
    char path1[PATH_MAX * 2]; char path2[PATH_MAX * 2];
    long long pos_in, pos_out;
    int inj; long long injval; int killafter;
    char injdesc[64];
    int held; double hold_until; unsigned long hold_evs; double hold_quiet;
    int started;
};
#define MAXT 512
static struct thr T[MAXT];
static FILE *out;
static unsigned long seq;
static unsigned long nentries;   /* number of logged-call entries so far (for hold release) */
static const char *prefix = NULL;
static pid_t rootpid;
static double last_entry_ms = 0;
static int quiet_logged = 0;
static unsigned long long rngs = 0; static int hold_permille = 0; static int hold_maxms = 0;

static double now_ms(void) { struct timespec ts; clock_gettime(CLOCK_MONOTONIC, &ts); return ts.tv_sec * 1e3 + ts.tv_nsec / 1e6; }
static unsigned long long rnd(void) { rngs ^= rngs << 13; rngs ^= rngs >> 7; rngs ^= rngs << 17; return rngs; }

static struct thr *get_thr(pid_t tid) {
    for (int i = 0; i < MAXT; i++) if (T[i].used && T[i].tid == tid) return &T[i];
    for (int i = 0; i < MAXT; i++) if (!T[i].used) { memset(&T[i], 0, sizeof T[i]); T[i].used = 1; T[i].tid = tid; return &T[i]; }
    fprintf(stderr, "sup: too many threads\n"); exit(99);
}

static void jstr(FILE *f, const char *s) {
    fputc('"', f);
    for (const unsigned char *p = (const unsigned char *)s; *p; p++) {
        if (*p == '"' || *p == '\\') { fputc('\\', f); fputc(*p, f); }
        else if (*p < 0x20 || *p >= 0x7f) fprintf(f, "\\u%04x", *p);
        else fputc(*p, f);
    }
    fputc('"', f);
}

static int read_str(pid_t tid, unsigned long long addr, char *buf, size_t n) {
    size_t got = 0;
    if (!addr) { buf[0] = 0; return -1; }
    while (got + 1 < n) {
        size_t chunk = 4096 - ((addr + got) & 4095);
        if (chunk > n - 1 - got) chunk = n - 1 - got;
        struct iovec l = { buf + got, chunk }, r = { (void *)(uintptr_t)(addr + got), chunk };
        ssize_t k = process_vm_readv(tid, &l, 1, &r, 1, 0);
        if (k <= 0) break;
        for (ssize_t i = 0; i < k; i++) if (buf[got + i] == 0) return 0;
        got += k;
    }
    buf[got] = 0;
    return 0;
}

static long long read_u64(pid_t tid, unsigned long long addr) {
    unsigned long long v = 0;
    struct iovec l = { &v, 8 }, r = { (void *)(uintptr_t)addr, 8 };
    if (process_vm_readv(tid, &l, 1, &r, 1, 0) != 8) return -1;
    return (long long)v;
}

static void fd_path(pid_t tid, long fd, char *buf, size_t n) {
    char p[64];
    snprintf(p, sizeof p, "/proc/%d/fd/%ld", tid, fd);
    ssize_t k = readlink(p, buf, n - 1);
    if (k < 0) k = 0;
    buf[k] = 0;
}

static long long fd_pos(pid_t tid, long fd) {
    char p[64], line[256];
    snprintf(p, sizeof p, "/proc/%d/fdinfo/%ld", tid, fd);
    FILE *f = fopen(p, "r");
    long long pos = -1;
    if (!f) return -1;
    while (fgets(line, sizeof line, f)) if (!strncmp(line, "pos:", 4)) { pos = atoll(line + 4); break; }
    fclose(f);
    return pos;
}

static void at_path(pid_t tid, long dirfd, unsigned long long addr, char *buf, size_t n) {
    char s[PATH_MAX];
    read_str(tid, addr, s, sizeof s);
    if (s[0] == '/') { snprintf(buf, n, "%s", s); return; }
    char base[PATH_MAX];
    if ((int)dirfd == AT_FDCWD) {
        char p[64]; snprintf(p, sizeof p, "/proc/%d/cwd", tid);
        ssize_t k = readlink(p, base, sizeof base - 1); if (k < 0) k = 0; base[k] = 0;
    } else fd_path(tid, dirfd, base, sizeof base);
    if (s[0] == 0) snprintf(buf, n, "%s", base);       /* AT_EMPTY_PATH */
    else snprintf(buf, n, "%s/%s", base, s);
}

static void resolve(struct thr *t) {
    pid_t tid = t->tid; unsigned long long *a = t->args;
    t->path1[0] = t->path2[0] = 0; t->pos_in = t->pos_out = -1;
    switch (t->d->kind) {
    case K_FD0: fd_path(tid, (long)a[0], t->path1, sizeof t->path1); break;
    case K_PATH0: at_path(tid, AT_FDCWD, a[0], t->path1, sizeof t->path1); break;
    case K_AT01: at_path(tid, (long)a[0], a[1], t->path1, sizeof t->path1); break;
    case K_CFR:
        fd_path(tid, (long)a[0], t->path1, sizeof t->path1);
        fd_path(tid, (long)a[2], t->path2, sizeof t->path2);
        t->pos_in = a[1] ? read_u64(tid, a[1]) : fd_pos(tid, (long)a[0]);
        t->pos_out = a[3] ? read_u64(tid, a[3]) : fd_pos(tid, (long)a[2]);
        break;
    case K_PATH0_PATH1:
        at_path(tid, AT_FDCWD, a[0], t->path1, sizeof t->path1);
        at_path(tid, AT_FDCWD, a[1], t->path2, sizeof t->path2); break;
    case K_AT_AT:
        at_path(tid, (long)a[0], a[1], t->path1, sizeof t->path1);
        at_path(tid, (long)a[2], a[3], t->path2, sizeof t->path2); break;
    case K_LINKAT:
        at_path(tid, (long)a[0], a[1], t->path1, sizeof t->path1);
        at_path(tid, (long)a[2], a[3], t->path2, sizeof t->path2); break;
    case K_SYMLINK:   /* symlink(target, linkpath): path1 = linkpath, path2 = target text */
        at_path(tid, AT_FDCWD, a[1], t->path1, sizeof t->path1);
        read_str(tid, a[0], t->path2, sizeof t->path2); break;
    case K_SYMLINKAT: /* symlinkat(target, newdirfd, linkpath) */
        at_path(tid, (long)a[1], a[2], t->path1, sizeof t->path1);
        read_str(tid, a[0], t->path2, sizeof t->path2); break;
    default: break;
    }
    if (t->nr == SYS_read || t->nr == SYS_write) t->pos_in = fd_pos(tid, (long)a[0]);
    if (t->nr == SYS_pread64 || t->nr == SYS_pwrite64) t->pos_in = (long long)a[3];
}

static int interesting(struct thr *t) {
    if (t->nr == SYS_exit_group || t->nr == SYS_clone
#ifdef SYS_clone3
        || t->nr == SYS_clone3
#endif
        || t->nr == SYS_umask) return 1;
    if (!prefix) return 1;
    return strstr(t->path1, prefix) != NULL || strstr(t->path2, prefix) != NULL;
}

static void kill_all(void) {
    for (int i = 0; i < MAXT; i++) if (T[i].used) kill(T[i].tid, SIGKILL);
    kill(rootpid, SIGKILL);
}

static void emit(struct thr *t, long long ret, int killed) {
    fprintf(out, "{\"e\":%lu,\"x\":%lu,\"tid\":%d,\"sys\":\"%s\",\"a\":[%llu,%llu,%llu,%llu,%llu,%llu],\"p1\":",
            t->eseq, ++seq, t->tid, t->d->name, t->args[0], t->args[1], t->args[2], t->args[3], t->args[4], t->args[5]);
    jstr(out, t->path1); fputs(",\"p2\":", out); jstr(out, t->path2);
    fprintf(out, ",\"pi\":%lld,\"po\":%lld,", t->pos_in, t->pos_out);
    if (killed) fputs("\"ret\":null,\"killed\":1", out); else fprintf(out, "\"ret\":%lld", ret);
    if (t->injdesc[0]) { fputs(",\"inj\":", out); jstr(out, t->injdesc); }
    fputs("}\n", out);
    fflush(out);
}

static void at_entry_stop(struct thr *t, struct user_regs_struct *r) {
    t->nr = (long)r->orig_rax;
    t->d = lookup(t->nr);
    last_entry_ms = now_ms();
    t->logged = 0; t->inj = 0; t->killafter = 0; t->injdesc[0] = 0;
    if (!t->d) return;
    t->args[0] = r->rdi; t->args[1] = r->rsi; t->args[2] = r->rdx; t->args[3] = r->r10; t->args[4] = r->r8; t->args[5] = r->r9;
    resolve(t);
    if (!interesting(t)) return;
    t->logged = 1; t->eseq = ++seq; nentries++;
    for (int i = 0; i < nrules; i++) {
        struct rule *ru = &rules[i];
        if (strcmp(ru->sys, "*") && strcmp(ru->sys, t->d->name)) continue;
        if (ru->path[0] == '=') {          /* exact path */
            if (strcmp(t->path1, ru->path + 1) && strcmp(t->path2, ru->path + 1)) continue;
        } else if (strcmp(ru->path, "*") && !strstr(t->path1, ru->path) && !strstr(t->path2, ru->path)) continue;
        ru->seen++;
        if (ru->nth && ru->seen != ru->nth) continue;
        switch (ru->act) {
        case A_FAIL: t->inj = 1; t->injval = -ru->p1; snprintf(t->injdesc, sizeof t->injdesc, "fail %ld", ru->p1); break;
        case A_RET: t->inj = 1; t->injval = ru->p1; snprintf(t->injdesc, sizeof t->injdesc, "ret %ld", ru->p1); break;
        case A_CLAMP: {
            unsigned long long *regp[6] = { &r->rdi, &r->rsi, &r->rdx, &r->r10, &r->r8, &r->r9 };
            if (ru->p1 >= 0 && ru->p1 < 6 && *regp[ru->p1] > (unsigned long long)ru->p2) {
                *regp[ru->p1] = ru->p2;
                ptrace(PTRACE_SETREGS, t->tid, 0, r);
                snprintf(t->injdesc, sizeof t->injdesc, "clamp %ld %ld", ru->p1, ru->p2);
            }
            break; }
        case A_KILL:
            snprintf(t->injdesc, sizeof t->injdesc, "kill");
            emit(t, 0, 1);
            fprintf(out, "{\"killed_before\":%lu}\n", t->eseq); fflush(out);
            kill_all();
            return;
        case A_KILLAFTER: t->killafter = 1; snprintf(t->injdesc, sizeof t->injdesc, "killafter"); break;
        case A_HOLD: t->held = 1; t->hold_until = now_ms() + ru->p1; t->hold_evs = ru->p2 ? nentries + ru->p2 : 0; t->hold_quiet = 0; break;
        case A_HOLDQ: t->held = 1; t->hold_until = now_ms() + ru->p1; t->hold_evs = 0; t->hold_quiet = ru->p2; break;
        case A_TRUNC:
            if (t->path1[0] && truncate(t->path1, (off_t)ru->p1) == 0) snprintf(t->injdesc, sizeof t->injdesc, "trunc %ld", ru->p1);
            break;
        }
    }
    if (t->inj) { r->orig_rax = (unsigned long long)-1; ptrace(PTRACE_SETREGS, t->tid, 0, r); }
    if (!t->held && hold_permille && t->nr != SYS_exit_group && (int)(rnd() % 1000) < hold_permille) {
        t->held = 1; t->hold_until = now_ms() + (double)(rnd() % (hold_maxms * 1000 + 1)) / 1000.0; t->hold_evs = 0; t->hold_quiet = 0;
    }
}

static void at_exit_stop(struct thr *t, struct user_regs_struct *r) {
    if (!t->d || !t->logged) return;
    long long ret = (long long)r->rax;
    if (t->inj) { r->rax = (unsigned long long)t->injval; ptrace(PTRACE_SETREGS, t->tid, 0, r); ret = t->injval; }
    emit(t, ret, 0);
    if (t->killafter) { fprintf(out, "{\"killed_after\":%lu}\n", t->eseq); fflush(out); kill_all(); }
}

static void on_alarm(int s) { (void)s; }

static void load_rules(const char *path) {
    FILE *f = fopen(path, "r");
    char line[PATH_MAX + 256];
    if (!f) { perror("rules"); exit(99); }
    while (fgets(line, sizeof line, f)) {
        char act[32]; struct rule *ru = &rules[nrules];
        if (line[0] == '#' || line[0] == '\n') continue;
        memset(ru, 0, sizeof *ru);
        /* act p1 p2 sys nth path(rest of line) */
        int off = 0;
        if (sscanf(line, "%31s %ld %ld %31s %ld %n", act, &ru->p1, &ru->p2, ru->sys, &ru->nth, &off) < 5) {
            fprintf(stderr, "sup: bad rule: %s", line); exit(99);
        }
        char *p = line + off; size_t L = strlen(p);
        while (L && (p[L - 1] == '\n' || p[L - 1] == ' ')) p[--L] = 0;
        /* the path field may contain \n and \\ escapes (file names with newlines) */
        { char *w = p; for (char *q = p; *q; q++) { if (*q == '\\' && q[1] == 'n') { *w++ = '\n'; q++; } else if (*q == '\\' && q[1] == '\\') { *w++ = '\\'; q++; } else *w++ = *q; } *w = 0; L = strlen(p); }
        snprintf(ru->path, sizeof ru->path, "%s", L ? p : "*");
        if (!strcmp(act, "fail")) ru->act = A_FAIL; else if (!strcmp(act, "ret")) ru->act = A_RET;
        else if (!strcmp(act, "clamp")) ru->act = A_CLAMP; else if (!strcmp(act, "kill")) ru->act = A_KILL;
        else if (!strcmp(act, "killafter")) ru->act = A_KILLAFTER; else if (!strcmp(act, "hold")) ru->act = A_HOLD;
        else if (!strcmp(act, "holdq")) ru->act = A_HOLDQ;
        else if (!strcmp(act, "trunc")) ru->act = A_TRUNC;
        else { fprintf(stderr, "sup: bad action %s\n", act); exit(99); }
        if (++nrules >= 256) break;
    }
    fclose(f);
}

int main(int argc, char **argv) {
    const char *outp = NULL; long timeout_ms = 60000; int i = 1;
    for (; i < argc; i++) {
        if (!strcmp(argv[i], "--")) { i++; break; }
        if (!strcmp(argv[i], "-o") && i + 1 < argc) outp = argv[++i];
        else if (!strcmp(argv[i], "-r") && i + 1 < argc) load_rules(argv[++i]);
        else if (!strcmp(argv[i], "-p") && i + 1 < argc) prefix = argv[++i];
        else if (!strcmp(argv[i], "-t") && i + 1 < argc) timeout_ms = atol(argv[++i]);
        else if (!strcmp(argv[i], "-S") && i + 1 < argc) rngs = strtoull(argv[++i], 0, 10) * 2654435761ULL + 88172645463325252ULL;
        else if (!strcmp(argv[i], "-P") && i + 1 < argc) hold_permille = atoi(argv[++i]);
        else if (!strcmp(argv[i], "-M") && i + 1 < argc) hold_maxms = atoi(argv[++i]);
        else { fprintf(stderr, "sup: bad option %s\n", argv[i]); return 99; }
    }
    if (i >= argc || !outp) { fprintf(stderr, "usage: sup -o trace [opts] -- cmd...\n"); return 99; }
    out = fopen(outp, "w");
    if (!out) { perror(outp); return 99; }
    if (!rngs) rngs = 88172645463325252ULL;

    pid_t pid = fork();
    if (pid == 0) {
        ptrace(PTRACE_TRACEME, 0, 0, 0);
        raise(SIGSTOP);
        execvp(argv[i], argv + i);
        perror("execvp"); _exit(127);
    }
    rootpid = pid;
    int st;
    waitpid(pid, &st, 0);
    ptrace(PTRACE_SETOPTIONS, pid, 0, PTRACE_O_TRACESYSGOOD | PTRACE_O_TRACECLONE | PTRACE_O_TRACEFORK |
           PTRACE_O_TRACEVFORK | PTRACE_O_TRACEEXEC | PTRACE_O_EXITKILL);
    get_thr(pid)->started = 1;
    ptrace(PTRACE_SYSCALL, pid, 0, 0);
    { struct sigaction sa; memset(&sa, 0, sizeof sa); sa.sa_handler = on_alarm; sigaction(SIGALRM, &sa, NULL);
      struct itimerval it = { {0, 20000}, {0, 20000} }; setitimer(ITIMER_REAL, &it, NULL); }
    double t0 = now_ms();
    int exitcode = -1; int timed_out = 0; int nheld = 0;

    for (;;) {
        /* release held threads whose condition is met */
        nheld = 0;
        double nowt = now_ms();
        for (int k = 0; k < MAXT; k++) if (T[k].used && T[k].held) {
            int quiet = T[k].hold_quiet > 0 && nowt - last_entry_ms >= T[k].hold_quiet;
            if (quiet && !quiet_logged) { quiet_logged = 1; fprintf(out, "{\"quiet\":%lu}\n", seq); fflush(out); }
            if (nowt >= T[k].hold_until || (T[k].hold_evs && nentries >= T[k].hold_evs) || quiet) {
                T[k].held = 0; ptrace(PTRACE_SYSCALL, T[k].tid, 0, 0);
            } else nheld++;
        }
        if (!timed_out && nowt - t0 > timeout_ms) {
            timed_out = 1; fprintf(out, "{\"timeout\":1}\n"); fflush(out); kill_all();
        }
        pid_t w = waitpid(-1, &st, __WALL | (nheld ? WNOHANG : 0));
        if (w == 0) {
            struct timespec ts = { 0, 100000 };
            nanosleep(&ts, NULL);
            continue;
        }
        if (w < 0) { if (errno == ECHILD) break; if (errno == EINTR) continue; break; }
        struct thr *t = get_thr(w);
        if (WIFEXITED(st) || WIFSIGNALED(st)) {
            if (w == rootpid) exitcode = WIFEXITED(st) ? WEXITSTATUS(st) : 128 + WTERMSIG(st);
            t->used = 0;
            continue;
        }
        if (!WIFSTOPPED(st)) continue;
        int sig = WSTOPSIG(st);
        if (sig == (SIGTRAP | 0x80)) {
            t->started = 1;
            struct user_regs_struct r;
            struct __ptrace_syscall_info si;
            if (ptrace(PTRACE_GETREGS, w, 0, &r) < 0) { continue; }
            long n = ptrace(PTRACE_GET_SYSCALL_INFO, w, sizeof si, &si);
            int is_entry = n > 0 ? (si.op == PTRACE_SYSCALL_INFO_ENTRY) : !t->insys;
            if (is_entry) { t->insys = 1; at_entry_stop(t, &r); }
            else { t->insys = 0; at_exit_stop(t, &r); }
            if (!t->held) ptrace(PTRACE_SYSCALL, w, 0, 0);
            continue;
        }
        if (sig == SIGTRAP && (st >> 16)) { ptrace(PTRACE_SYSCALL, w, 0, 0); continue; }  /* clone/exec events */
        if (sig == SIGSTOP && !t->started) { t->started = 1; ptrace(PTRACE_SYSCALL, w, 0, 0); continue; } /* new thread */
        if (sig == SIGTRAP) { ptrace(PTRACE_SYSCALL, w, 0, 0); continue; }
        ptrace(PTRACE_SYSCALL, w, 0, sig);   /* deliver other signals */
    }
    if (timed_out) exitcode = 124;
    fprintf(out, "{\"exit\":%d}\n", exitcode);
    fclose(out);
    return exitcode < 0 ? 98 : exitcode;
}
