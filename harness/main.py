"""main.py — `./check <Cxx> <quick|thorough>` / `./check <Cxx> --replay <file>`."""
import importlib
import json
import os
import random
import sys
import time
import traceback

sys.path.insert(0, os.path.dirname(os.path.abspath(__file__)))
import core  # noqa: E402


class Ctx:
    pass


TRUSTED_BASE = [
    "Coq 8.16.1 kernel incl. vm_compute (no native_compute); coqchk in the thorough tier",
    "axioms: none (Print Assumptions = 'Closed under the global context' for every property theorem)",
    "hand-written Gallina model tied to /repo by the correspondence check of this run (sampled, not proved)",
    "harness: case generators, sup.c ptrace supervisor, probe crate, snapshot/diff code",
    "kernel/library contracts stated as hypotheses in the theorems (see DESIGN.md Part IV)",
]


def write_replay(prop, tier, seed, n, obj):
    d = os.path.join(core.OUTDIR, "replays")
    os.makedirs(d, exist_ok=True)
    p = os.path.join(d, "%s-%s-%d-%d.json" % (prop, tier, seed, n))
    with open(p, "w") as f:
        json.dump(obj, f, indent=1, default=repr)
    return p


def main():
    if len(sys.argv) < 3:
        print("usage: check <Cxx> <quick|thorough> | check <Cxx> --replay <file>")
        return 2
    prop = sys.argv[1]
    tier = sys.argv[2]
    replay_file = None
    if tier == "--replay":
        replay_file = sys.argv[3]
        tier = "quick"
    tier = os.environ.get("VERIF_TIER", tier) if tier not in ("quick", "thorough") else tier
    seed = int(os.environ.get("VERIF_SEED", "1"))
    t0 = time.time()

    mod = importlib.import_module("props." + prop.lower())
    ctx = Ctx()
    ctx.prop, ctx.tier, ctx.seed = prop, tier, seed
    ctx.rng = random.Random((seed << 8) ^ int(prop[1:]))
    ctx.replay = json.load(open(replay_file)) if replay_file else None

    proof_problems = []
    # 1. proofs
    ok_all, coqlog = core.build_coq()
    model_ok = core.coq_built("theories/Run")
    # a broken file elsewhere in the development is this property's problem only if its theorems depend on it
    ok = core.coq_built("props/" + prop)
    if not ok:
        proof_problems.append("coq build failed: " + coqlog[-1500:])
    bad = core.coq_forbidden_scan()
    proof_problems += ["forbidden declaration: " + b for b in bad]
    audit = dict(obligations=0, discharged=0, theorems=[], problems=[])
    if ok:
        audit = core.coq_audit(prop)
        proof_problems += audit["problems"]
    else:
        # count the obligations even when they do not compile
        a0 = core.coq_audit(prop)
        audit = dict(obligations=a0["obligations"], discharged=0, theorems=a0["theorems"], problems=[])
    if tier == "thorough" and ok and not os.environ.get("VERIF_SKIP_COQCHK"):
        r = core.run(["coqchk", "-silent", "-o", "-Q", "theories", "XcpModel", "-Q", "proofs", "XcpProofs",
                      "-Q", "props", "XcpProps", "-Q", "pins", "XcpPins", "XcpProps." + prop], cwd=core.COQ, timeout=3000)
        if r.returncode != 0:
            proof_problems.append("coqchk failed: " + r.stdout[-1000:])
        else:
            tail = r.stdout.split("CONTEXT SUMMARY")[-1]
            if "Axioms: <none>" not in tail.replace("\n", " ") and "* Axioms:" in tail:
                ax = tail.split("* Axioms:")[1].split("*")[0].strip()
                if ax and ax != "<none>":
                    proof_problems.append("coqchk reports axioms: " + ax)

    # 2. implementation + correspondence + direct oracle
    out = core.Outcome(prop)
    try:
        ctx.bins = core.build_rust()
        ctx.sup = None   # modules that need the supervisor call core.build_sup()
        ctx.model_ok = model_ok
        with core.Work(prop) as work:
            ctx.work = work
            mod.run(ctx, out)
    except core.BuildError as e:
        print("BUILD-ERROR: %s" % e)
        traceback.print_exc()
        return 2

    # 3. verdict
    known = core.load_known_findings(prop)
    known_by_class = {k["class"]: k for k in known}
    lines = []
    nviol = 0
    known_seen = {}
    unknown = []
    for v in out.violations:
        cls = v.get("cls")
        if cls and cls in known_by_class:
            known_seen.setdefault(cls, v)
        else:
            unknown.append(v)
    for cls, v in sorted(known_seen.items()):
        lines.append("KNOWN-FINDING: property=%s %s [%s]" % (prop, known_by_class[cls]["what"], cls))
    n = 0
    for v in unknown[:5]:
        n += 1
        p = write_replay(prop, tier, seed, n, dict(property=prop, kind=v["kind"], what=v["what"], replay=v["replay"]))
        lines.append("VIOLATION property=%s replay=%s" % (prop, p))
        nviol += 1
    if not unknown:
        if out.corr_failures:
            n += 1
            p = write_replay(prop, tier, seed, n, dict(
                property=prop, kind="correspondence",
                what="model and implementation disagree; the direct oracle found no failing input",
                failures=out.corr_failures[:10]))
            lines.append("VIOLATION property=%s replay=%s no-failing-input-found" % (prop, p))
            nviol += 1
        if proof_problems:
            n += 1
            p = write_replay(prop, tier, seed, n, dict(
                property=prop, kind="proof-obligation",
                what="a proof obligation no longer checks; the direct oracle found no failing input",
                problems=proof_problems))
            lines.append("VIOLATION property=%s replay=%s no-failing-input-found" % (prop, p))
            nviol += 1

    # 4. evidence
    cov = dict(
        obligations=audit["obligations"], discharged=audit["discharged"],
        checker_cmd="make -C coq (coqc 8.16.1, full .vo build) + coqc props/%s.v with Print Assumptions%s"
                    % (prop, "; coqchk -o" if tier == "thorough" else ""),
        trusted_base=TRUSTED_BASE + out.assumptions,
        theorems=audit["theorems"],
        evaluations=out.evaluations, distinct_nontrivial=len(out.nontrivial),
        rule=out.rule, samples=out.samples[:8] or ["(none)"],
        input_distribution=out.dist,
        correspondence_disagreements=len(out.corr_failures),
        known_findings_seen=sorted(known_seen.keys()),
        proof_problems=proof_problems,
    )
    cov.update(out.extra)
    ev = dict(property_id=prop, tier=tier, seed=seed, level="proof", coverage=cov,
              assumptions=TRUSTED_BASE + out.assumptions, wall_s=round(time.time() - t0, 2), violations=nviol)
    os.makedirs(os.path.join(core.OUTDIR, "evidence"), exist_ok=True)
    with open(os.path.join(core.OUTDIR, "evidence", prop + ".json"), "w") as f:
        json.dump(ev, f, indent=1, default=repr)
        f.write("\n")

    for l in lines:
        print(l)
    print("%s %s: theorems %d/%d, evaluations %d (nontrivial %d), correspondence disagreements %d, violations %d, %.1fs"
          % (prop, tier, audit["discharged"], audit["obligations"], out.evaluations, len(out.nontrivial),
             len(out.corr_failures), nviol, time.time() - t0))
    return 1 if nviol else 0


if __name__ == "__main__":
    sys.exit(main())
