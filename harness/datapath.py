"""datapath.py — single-file copy cases for C01/C05/C11/C15 (and reused by
C10/C18): run the real xcp under the supervisor with an oracle plan, project
the trace to transfer events, evaluate the Gallina model on the answers the
kernel really gave, compare (R1/R2), and evaluate the direct oracles."""
import os
import shutil

import core
import fsutil
import xcp

MODE = {"auto": 0, "always": 1, "never": 2}
FALLBACK_ERRNOS = (38, 1, 18)
NOPROGRESS_BS = (1 << 64) - 1     # usize::MAX on x86-64


def layout_for(size, data):
    return [(s, min(e, size)) for s, e in data if s < size]


class Case:
    def __init__(self, size, data=None, driver="parfile", workers=1, bs=4096, reflink="auto", prior="absent",
                 plan=(), flags=(), tag=None, label=""):
        self.size = size
        self.data = layout_for(size, data if data is not None else [(0, size)])
        self.driver = driver
        self.workers = workers
        self.bs = bs            # int or "noprogress"
        self.reflink = reflink
        self.prior = prior
        self.plan = list(plan)  # rules with {src}/{dst} placeholders in the path field
        self.flags = list(flags)
        self.label = label
        self.seed = None        # schedule seed: random holding of threads at system-call entries
        self.zeros = None       # [(s, e)]: ranges WRITTEN as zero bytes (allocated data that happens to be all zero, not holes)
        self.xattr = None       # {name: value}: user extended attributes of the source (a large one lives in a block of its own,
                                # which st_blocks counts although it holds no file data)
        self.prealloc = None    # [(offset, length)]: regions reserved with fallocate and then written WITHOUT a sync, so that
                                # the kernel still reports them as `unwritten` extents while read() already sees the data

    def key(self):
        return (self.size, tuple(self.data), self.driver, self.workers, self.bs, self.reflink, self.prior,
                tuple(self.plan), tuple(self.flags), getattr(self, 'seed', None), tuple(self.prealloc or ()), tuple(sorted((self.xattr or {}).keys())), tuple(self.zeros or ()))

    def describe(self):
        return dict(size=self.size, data=self.data if len(self.data) < 8 else "%d ranges" % len(self.data),
                    driver=self.driver, workers=self.workers, bs=self.bs, reflink=self.reflink, prior=self.prior,
                    plan=self.plan, flags=self.flags, label=self.label)


class Obs:
    pass


def materialise(case, d, idx):
    src = os.path.join(d, "src_%d" % idx)
    dst = os.path.join(d, "dst_%d" % idx)
    if case.prealloc:
        fd = os.open(src, os.O_CREAT | os.O_TRUNC | os.O_RDWR, 0o644)
        try:
            os.ftruncate(fd, case.size)
            for (off, ln) in case.prealloc:
                a0 = off - off % 4096
                end = min(case.size, (off + ln + 4095) // 4096 * 4096)
                os.posix_fallocate(fd, a0, max(1, end - a0))
                os.pwrite(fd, fsutil.tagged_bytes(idx + 1, off, min(ln, case.size - off)), off)
        finally:
            os.close(fd)          # no fsync
    else:
        fsutil.make_file(src, case.size, case.data, tag=idx + 1)
    if case.zeros:
        fd = os.open(src, os.O_WRONLY)
        try:
            for (zs, ze) in case.zeros:
                os.pwrite(fd, b"\0" * (ze - zs), zs)
            os.fsync(fd)
        finally:
            os.close(fd)
    if case.xattr:
        for a, v in case.xattr.items():
            os.setxattr(src, a, v)
        fd = os.open(src, os.O_RDONLY)
        try:
            os.fsync(fd)
        finally:
            os.close(fd)
    if case.prior != "absent":
        psize = {"shorter": max(0, case.size // 2), "longer": case.size * 2 + 4096 + 13, "same": case.size,
                 "longer_dense": case.size + 3 * 4096}[case.prior]
        with open(dst, "wb") as f:
            f.write(b"\xee" * psize)
            f.flush()
            os.fsync(f.fileno())
    return src, dst


def run_case(ctx, case, d, idx, sup):
    o = Obs()
    src, dst = materialise(case, d, idx)
    o.src, o.dst = src, dst
    st = os.stat(src)
    o.sparse = st.st_blocks < st.st_size // 512
    o.src_blocks = st.st_blocks
    o.raw_fiemap = fsutil.raw_fiemap(src)
    o.seek_layout = fsutil.seek_layout(src)[1]
    argv = [ctx.bins[getattr(case, "binary", "xcp")]]
    argv += ["--driver", case.driver, "-w", str(case.workers), "--reflink", getattr(case, "reflink_spelling", None) or case.reflink]
    if case.bs == "noprogress":
        argv += ["--no-progress"]
    else:
        argv += ["--block-size", str(case.bs)]
    argv += list(case.flags) + [src, dst]
    rules = [(a, p1, p2, s, n, path.replace("{src}", src).replace("{dst}", dst)) for (a, p1, p2, s, n, path) in case.plan]
    kw = {}
    if getattr(case, "seed", None) is not None:
        kw = dict(seed=case.seed, hold_permille=250, hold_maxms=3)
    run = xcp.run_supervised(sup, argv, d, d, rules=rules, tag="c%d" % idx, timeout_ms=60000, **kw)
    o.run = run
    o.exit = run.exit
    o.argv = argv
    # observations
    try:
        dstst = os.stat(dst)
        o.dst_size = dstst.st_size
        o.dst_blocks = dstst.st_blocks
        o.dst_exists = True
    except OSError:
        o.dst_exists = False
        o.dst_size = None
        o.dst_blocks = None
    # clone / fiemap answers as seen by xcp
    o.clone = None
    o.fiemap_supported = True
    o.fiemap_calls = 0
    for e in run.trace:
        if e["sys"] == "ioctl" and e["a"][1] == xcp.FICLONE and e["p1"] == dst:
            o.clone = 0 if e["ret"] == 0 else -e["ret"]
            o.clone_e = e["e"]
        if e["sys"] == "ioctl" and e["a"][1] == xcp.FS_IOC_FIEMAP and e["p1"] == src:
            o.fiemap_calls += 1
            if e["ret"] == -95:
                o.fiemap_supported = False
    o.xfers = abstract_xfers(run, src, dst)
    return o


def abstract_xfers(run, src, dst):
    """[(eseq, src_off, dst_off, req, ok, val)] — one per copy_file_range call;
    a call answered ENOSYS/EPERM/EXDEV is replaced by the outcome of the
    user-space fallback that follows it in the same thread."""
    per_tid = {}
    for e in run.trace:
        if e.get("ret") is None:
            continue
        if e["sys"] == "copy_file_range" and e["p1"] == src and e["p2"] == dst:
            per_tid.setdefault(e["tid"], []).append(("cfr", e))
        elif e["sys"] in ("write", "pwrite64") and e["p1"] == dst:
            per_tid.setdefault(e["tid"], []).append(("w", e))
    out = []
    for tid, evs in per_tid.items():
        i = 0
        while i < len(evs):
            kind, e = evs[i]
            if kind != "cfr":
                i += 1
                continue
            req = e["a"][4]
            if e["ret"] >= 0:
                out.append((e["e"], e["pi"], e["po"], req, 1, e["ret"]))
                i += 1
                continue
            err = -e["ret"]
            if err in FALLBACK_ERRNOS:
                moved = 0
                j = i + 1
                while j < len(evs) and evs[j][0] == "w":
                    if evs[j][1]["ret"] > 0:
                        moved += evs[j][1]["ret"]
                    j += 1
                if moved == req:
                    out.append((e["e"], e["pi"], e["po"], req, 1, req))
                else:
                    out.append((e["e"], e["pi"], e["po"], req, 0, 5))
                i = j
            else:
                out.append((e["e"], e["pi"], e["po"], req, 0, err))
                i += 1
    return out


def model_input(case, o):
    bs = NOPROGRESS_BS if case.bs == "noprogress" else case.bs
    clone = o.clone if o.clone is not None else 95
    if case.driver == "parfile":
        xs = sorted(o.xfers)                      # one worker per file: issue order
        ans = [v for x in xs for v in (x[4], x[5])]
        L = o.seek_layout
        return "run_parfile_file", [bs, MODE[case.reflink], case.size, 1 if o.sparse else 0, clone, len(L)] + \
            [v for se in L for v in se] + ans, xs
    else:
        xs = sorted(o.xfers, key=lambda x: (x[1], x[0]))   # job order = ascending offset, retries in issue order
        ans = [v for x in xs for v in (x[4], x[5])]
        ex = []
        raw = o.raw_fiemap or []
        for (lg, ln, fl) in raw:
            ex += [lg, ln, 1 if fl & fsutil.FIEMAP_EXTENT_LAST else 0, 1 if fl & fsutil.FIEMAP_EXTENT_SHARED else 0]
        return "run_parblock_file", [bs, MODE[case.reflink], case.size, 1 if o.sparse else 0, clone,
                                     1 if o.fiemap_supported else 0, len(raw)] + ex + ans, xs


def decode_fout(res):
    """[contract_ok, st_tag, st_val, issued, cloned, rest, (src dst len ok v)*]"""
    ok, tag, val, issued, cloned, rest = res[:6]
    tr = [tuple(res[i:i + 5]) for i in range(6, len(res), 5)]
    return dict(contract_ok=ok, st=tag, val=val, issued=issued, cloned=cloned, rest=rest, trace=tr)


def expected_dest_from_trace(size, trace, srcpath):
    buf = bytearray(size)
    with open(srcpath, "rb") as f:
        for (s, d, ln, ok, v) in trace:
            if ok and v > 0:
                f.seek(s)
                b = f.read(v)
                end = min(size, d + len(b))
                if d < size:
                    buf[d:end] = b[:end - d]
    return bytes(buf)


def files_equal(a, b):
    try:
        if os.path.getsize(a) != os.path.getsize(b):
            return False
        with open(a, "rb") as fa, open(b, "rb") as fb:
            while True:
                x = fa.read(1 << 20)
                y = fb.read(1 << 20)
                if x != y:
                    return False
                if not x:
                    return True
    except OSError:
        return False


def first_diff(a, b):
    with open(a, "rb") as fa, open(b, "rb") as fb:
        pos = 0
        while True:
            x = fa.read(1 << 16)
            y = fb.read(1 << 16)
            if x != y:
                for k in range(min(len(x), len(y))):
                    if x[k] != y[k]:
                        return pos + k
                return pos + min(len(x), len(y))
            if not x:
                return None
            pos += len(x)


def run_cases(ctx, out, cases, prop, oracle, nontrivial, batch=64):
    """Run every case, the model on the observed answers, compare, apply the
    property's direct `oracle(case, obs, model) -> (why, cls) | None`."""
    sup = core.build_sup()
    d = ctx.work.fresh(prop.lower() + "data")
    pending = []
    for idx, case in enumerate(cases):
        o = run_case(ctx, case, d, idx, sup)
        out.case((prop,) + case.key(), nontrivial(case, o))
        out.count("driver_" + case.driver)
        out.count("size_%s" % ("0" if case.size == 0 else "<=4K" if case.size <= 4096 else "<=64K" if case.size <= 65536
                               else "<=1M" if case.size <= (1 << 20) else ">1M"))
        out.count("plan_%s" % ("none" if not case.plan else "+".join(sorted({r[0] + ":" + r[3] for r in case.plan}))))
        out.count("exit_%d" % o.exit)
        pending.append((case, o))
        if len(pending) >= batch or idx == len(cases) - 1:
            flush(ctx, out, pending, prop, oracle)
            for c, ob in pending:
                for p in (ob.src, ob.dst):
                    try:
                        os.unlink(p)
                    except OSError:
                        pass
            pending = []
    shutil.rmtree(d, ignore_errors=True)


def flush(ctx, out, pending, prop, oracle):
    byfn = {}
    for k, (case, o) in enumerate(pending):
        fn, inp, xs = model_input(case, o)
        o.model_xs = xs
        if len(inp) > 40000:
            # a trace far longer than any the unchanged program produces for these inputs (tens of thousands of data calls):
            # not fed to the model — the direct oracle still judges the run, and the excess itself is a disagreement
            out.count("traces_too_long_for_the_model")
            out.corr("R1-trace-length: %d numbers describe this run's data calls; no modelled run of these inputs has more than a few thousand"
                     % len(inp), case.describe(), "a trace of modelled length", len(inp))
            continue
        if getattr(case, "binary", "xcp") == "xcp" and not case.prealloc:
            # (a preallocated, unsynced file's extent list may change under our feet — writeback — between the harness's
            # look and xcp's: such cases are judged by the direct oracle only)
            byfn.setdefault(fn, []).append((k, inp))
    results = {}
    if ctx.model_ok:
        for fn, items in byfn.items():
            res = core.run_model(fn, [inp for _, inp in items], shard=8, tag=prop.lower())
            for (k, _), r in zip(items, res):
                results[k] = decode_fout(r)
    for k, (case, o) in enumerate(pending):
        m = results.get(k)
        o.model = m
        rep = dict(case=case.describe(), argv=o.argv, exit=o.exit, stderr=o.run.stderr[-400:],
                   xfers=[x[1:] for x in o.model_xs][:40], model=m and dict(m, trace=m["trace"][:40]))
        if o.run.meta.get("timeout"):
            out.violation("xcp did not terminate within the time bound", rep, cls=None)
            continue
        if m is not None and m["contract_ok"] == 1:
            # R1: exit class
            model_ok = (m["st"] == 0)
            stuck = (m["st"] == 2)
            if stuck:
                # the model wanted another answer: the implementation issued fewer transfers than the model
                if o.exit == 0:
                    out.corr("R2-%s: implementation stopped issuing transfers before the model did" % case.driver,
                             rep["case"], m, rep["xfers"])
            else:
                if model_ok != (o.exit == 0):
                    out.corr("R1-exit(%s): model status %s, xcp exit %d" % (case.driver, m["st"], o.exit), rep["case"],
                             dict(st=m["st"], val=m["val"]), dict(exit=o.exit, stderr=o.run.stderr[-300:]))
                if o.exit == 0:
                    obs_tr = [tuple(x[1:]) for x in o.model_xs]
                    if m["rest"] != 0 or obs_tr != [tuple(t) for t in m["trace"]]:
                        out.corr("R2-%s: transfer requests differ" % case.driver, rep["case"], m["trace"][:60], obs_tr[:60])
                    # destination prologue of CopyHandle::new: create+truncate, then ftruncate(len), before any data/clone
                    fe = xcp.file_events(o.run, o.dst)
                    kinds = [k for k, _ in fe]
                    pro_ok = (len(fe) >= 2 and kinds[0] == "open" and kinds[1] == "truncate"
                              and (fe[0][1]["a"][2] & (os.O_CREAT | os.O_TRUNC | os.O_WRONLY)) == (os.O_CREAT | os.O_TRUNC | os.O_WRONLY)
                              and fe[1][1]["a"][1] == case.size and fe[1][1]["ret"] == 0
                              and "truncate" not in kinds[2:])
                    if not pro_ok:
                        out.corr("R2-prologue: destination not opened create+truncate then sized once to the source length",
                                 rep["case"], "open(O_CREAT|O_TRUNC|O_WRONLY); ftruncate(len)", kinds[:6])
                    # clone issued?
                    if bool(m["issued"]) != (o.clone is not None):
                        out.corr("R2-clone-issued", rep["case"], m["issued"], o.clone)
                    if not m["cloned"] and o.dst_exists:
                        exp = expected_dest_from_trace(case.size, m["trace"], o.src)
                        try:
                            got = open(o.dst, "rb").read()
                        except OSError:
                            got = None
                        if got != exp:
                            out.corr("R1-content: destination differs from the model's write log", rep["case"],
                                     "sha-mismatch", dict(dst_size=o.dst_size))
        why = oracle(case, o, m)
        if why:
            out.violation(why[0], rep, cls=why[1])
    c0, o0 = pending[0]
    out.sample(dict(case=c0.describe(), exit=o0.exit, transfers=[x[1:] for x in o0.model_xs][:6]))
