"""repin.py — rewrite coq/proofs/PinnedSource.v from the CURRENT extraction.

Run by hand, and only after the hand-written models (Walker.v, Main.v, Ops.v, Meta.v, Backup.v, ConcBlock.v,
ConcFile.v, ConcFault.v, Updater.v) have been re-read against an intentional change of the pinned glue functions
(e.g. after a `fix:` commit).  The checks never run this: they only compile PinnedSource.v against the freshly
extracted theories/Extracted.v, so any other edit of those functions breaks `pinned_source_ok`."""
import os
import re
import subprocess
import sys

VERIF = os.path.dirname(os.path.dirname(os.path.abspath(__file__)))


def main():
    ex = open(os.path.join(VERIF, "coq", "theories", "Extracted.v")).read()
    m = re.search(r"Definition x_pinned : list \(string \* string\) :=\s*(\[.*?\])\.\n", ex, re.S)
    if not m:
        sys.exit("x_pinned not found in Extracted.v")
    lit = m.group(1)
    out = '''(* PinnedSource.v — written by harness/repin.py, never by a check.
   The bodies (normalised text, logging dropped) of the glue functions that the hand-written models mirror, as they
   were when those models were last validated.  `pinned_source_ok` compares them with what the translator extracts
   from the repository NOW: an edit of any of these functions re-opens the obligation, and the correspondence run of
   the property then looks for a failing input. *)
From XcpModel Require Import Base Extracted.
From Coq Require Import String.
Local Open Scope string_scope.

Definition pinned_source : list (string * string) :=
  %s.

(* one function at a time, so that a property only depends on the functions its model mirrors *)
Fixpoint pin_of (name : string) (l : list (string * string)) : option string :=
  match l with
  | nil => None
  | (n, t) :: r => if String.eqb n name then Some t else pin_of name r
  end.

Definition pin_unchanged (name : string) : Prop := pin_of name x_pinned = pin_of name pinned_source /\\ pin_of name x_pinned <> None.
''' % lit
    names = re.findall(r'\("([^"]+::[A-Za-z_]+)", "', lit)
    open(os.path.join(VERIF, "coq", "proofs", "PinnedSource.v"), "w").write(out)
    # one file per function: a changed function only takes down the properties whose model mirrors it
    pdir = os.path.join(VERIF, "coq", "pins")
    os.makedirs(pdir, exist_ok=True)
    for f in os.listdir(pdir):
        if f.endswith(".v"):
            os.unlink(os.path.join(pdir, f))
    files = []
    for n in names:
        ident = re.sub(r"[^A-Za-z0-9]+", "_", n.split("/")[-1].replace(".rs", ""))
        files.append("pins/Pin_%s.v" % ident)
        with open(os.path.join(pdir, "Pin_%s.v" % ident), "w") as f:
            f.write('From XcpModel Require Import Base Extracted.\nFrom XcpProofs Require Import PinnedSource.\nFrom Coq Require Import String.\n'
                    'Local Open Scope string_scope.\n\nDefinition name_%s : string := "%s".\nTheorem pin_%s : pin_unchanged name_%s.\n'
                    'Proof. split; [reflexivity|discriminate]. Qed.\n' % (ident, n, ident, ident))
    # keep _CoqProject in step
    cp = os.path.join(VERIF, "coq", "_CoqProject")
    lines = [l for l in open(cp).read().split("\n") if not l.startswith("pins/") and l != "-Q pins XcpPins"]
    txt = "\n".join(lines).rstrip("\n")
    txt = txt.replace("-Q props XcpProps", "-Q props XcpProps\n-Q pins XcpPins")
    txt = txt.replace("proofs/PinnedSource.v", "proofs/PinnedSource.v\n" + "\n".join(files))
    open(cp, "w").write(txt + "\n")
    print("pinned %d functions" % len(names))


if __name__ == "__main__":
    main()
