"""core.py — shared machinery of the xcp verification checks.

Build steps (Coq development, xcp + probe with the hook cfg, the ptrace
supervisor), Coq audit (forbidden tokens, Print Assumptions allow-list),
running the Gallina model with vm_compute, evidence and verdict writing.
Python 3 standard library only.
"""
import ast
import contextlib
import fcntl
import json
import os
import re
import shutil
import subprocess
import sys
import time

VERIF = os.path.dirname(os.path.dirname(os.path.abspath(__file__)))
REPO = os.environ.get("XCP_REPO", "/repo")
BUILD = os.environ.get("VERIF_BUILD", os.path.join(VERIF, ".build"))
COQ_SRC = os.path.join(VERIF, "coq")
# a redirected build (seed testing against a scratch repository) gets its own copy of the Coq development,
# because theories/Extracted.v is regenerated from the repository under test
COQ = COQ_SRC if "VERIF_BUILD" not in os.environ else os.path.join(BUILD, "coq")
TARGET = os.path.join(BUILD, "target")
WORKROOT = os.environ.get("VERIF_WORK", "/var/tmp/xcp-verif-work")
OUTDIR = os.environ.get("VERIF_OUT", VERIF)     # evidence/ and replays/ (redirected when testing seeded changes)
NPROC = os.cpu_count() or 4

CARGO_ENV = dict(os.environ,
                 CARGO_NET_OFFLINE="true",
                 CARGO_TARGET_DIR=TARGET,
                 RUSTFLAGS="--cfg xcp_verif",
                 RUST_BACKTRACE="0")

ALLOWED_AXIOMS = set()   # target: none.  Names added here must be listed in DESIGN.md Part IV.


class BuildError(Exception):
    pass


_py_rmtree = shutil.rmtree


def safe_rmtree(path, ignore_errors=True, onerror=None, **kw):
    """shutil.rmtree recurses in Python and dies on trees deeper than the recursion limit (a copy through a link to
    an ancestor nests until PATH_MAX): let rm(1) do it, fall back to the library"""
    try:
        subprocess.run(["rm", "-rf", "--", os.fsdecode(path)], capture_output=True, timeout=600)
    except Exception:
        pass
    if os.path.lexists(path):
        _py_rmtree(path, ignore_errors=True)


shutil.rmtree = safe_rmtree


def log(*a):
    print(*a, file=sys.stderr, flush=True)


@contextlib.contextmanager
def locked(name):
    os.makedirs(BUILD, exist_ok=True)
    fd = os.open(os.path.join(BUILD, name + ".lock"), os.O_CREAT | os.O_RDWR, 0o644)
    try:
        fcntl.flock(fd, fcntl.LOCK_EX)
        yield
    finally:
        fcntl.flock(fd, fcntl.LOCK_UN)
        os.close(fd)


def run(cmd, timeout=1800, **kw):
    return subprocess.run(cmd, stdout=subprocess.PIPE, stderr=subprocess.STDOUT,
                          timeout=timeout, text=True, errors="replace", **kw)


# ---------------------------------------------------------------------------
# Coq
# ---------------------------------------------------------------------------
def _sync_coq_copy():
    if COQ == COQ_SRC:
        return
    for sub in ("theories", "proofs", "props", "pins"):
        os.makedirs(os.path.join(COQ, sub), exist_ok=True)
        for f in os.listdir(os.path.join(COQ_SRC, sub)):
            if not f.endswith(".v") or f == "Extracted.v":
                continue
            a, b = os.path.join(COQ_SRC, sub, f), os.path.join(COQ, sub, f)
            if (not os.path.exists(b)) or open(a).read() != open(b).read():
                shutil.copy(a, b)
    a, b = os.path.join(COQ_SRC, "_CoqProject"), os.path.join(COQ, "_CoqProject")
    if (not os.path.exists(b)) or open(a).read() != open(b).read():
        shutil.copy(a, b)


def extract_model():
    """Run the Rust -> Gallina translator (xlate/) on the repository's CURRENT source and install the result
    as theories/Extracted.v (rewritten only when it changed).  Returns the translator's complaints."""
    env = dict(CARGO_ENV)
    env.pop("RUSTFLAGS", None)
    r = run(["cargo", "build", "--offline"], cwd=os.path.join(VERIF, "xlate"),
            env=dict(env, CARGO_TARGET_DIR=os.path.join(BUILD, "target-xlate")), timeout=1500)
    if r.returncode != 0:
        raise BuildError("xlate does not build:\n" + r.stdout[-3000:])
    p = subprocess.run([os.path.join(BUILD, "target-xlate", "debug", "xlate"), REPO], stdout=subprocess.PIPE,
                       stderr=subprocess.PIPE, text=True, timeout=120)
    dst = os.path.join(COQ, "theories", "Extracted.v")
    if (not os.path.exists(dst)) or open(dst).read() != p.stdout:
        with open(dst, "w") as f:
            f.write(p.stdout)
    return [l for l in p.stderr.split("\n") if l.strip()]


def build_coq():
    """Regenerate theories/Extracted.v from the repository, then a full .vo build (no -vos; `make -k`, so that a
    broken file only takes down what depends on it).  Returns (ok, log_text)."""
    with locked("coq"):
        _sync_coq_copy()
        try:
            complaints = extract_model()
        except BuildError as e:
            return False, str(e)
        mk = os.path.join(COQ, "Makefile")
        cp = os.path.join(COQ, "_CoqProject")
        if (not os.path.exists(mk)) or os.path.getmtime(mk) < os.path.getmtime(cp):
            r = run(["coq_makefile", "-f", "_CoqProject", "-o", "Makefile"], cwd=COQ, timeout=120)
            if r.returncode != 0:
                return False, r.stdout
        try:
            r = run(["make", "-k", "-j%d" % NPROC], cwd=COQ, timeout=1500)
        except subprocess.TimeoutExpired:
            return False, "coq build timed out"
        log_text = r.stdout
        if complaints:
            log_text += "\n" + "\n".join(complaints)
        return r.returncode == 0, log_text


def coq_built(rel):
    """is coq/<rel>.vo present and newer than its source?"""
    v = os.path.join(COQ, rel + ".v")
    vo = os.path.join(COQ, rel + ".vo")
    return os.path.exists(vo) and os.path.getmtime(vo) >= os.path.getmtime(v)


def strip_coq_comments(src):
    out = []
    depth = 0
    i = 0
    n = len(src)
    instr = False
    while i < n:
        if depth == 0 and src[i] == '"':
            instr = not instr
            out.append(src[i]); i += 1; continue
        if not instr and src.startswith("(*", i):
            depth += 1; i += 2; continue
        if not instr and depth > 0 and src.startswith("*)", i):
            depth -= 1; i += 2; continue
        if depth == 0:
            out.append(src[i])
        elif src[i] == "\n":
            out.append("\n")
        i += 1
    return "".join(out)


FORBIDDEN = re.compile(
    r"\b(Admitted|admit|Axiom|Axioms|Parameter|Parameters|Conjecture|Conjectures|"
    r"Admit Obligations|bypass_check|native_compute)\b|Unset\s+Guard|Unset\s+Positivity|"
    r"Unset\s+Universe\s+Checking|type-in-type|impredicative-set")
SECTION_VAR = re.compile(r"^\s*(Variable|Variables|Hypothesis|Hypotheses|Context)\b")


def coq_forbidden_scan():
    """Scan every .v of the development (and _CoqProject) for declarations the
    brief forbids.  Returns a list of 'file:line: text'."""
    bad = []
    for root, _, files in os.walk(COQ):
        for f in sorted(files):
            p = os.path.join(root, f)
            if f == "_CoqProject":
                txt = open(p).read()
                if re.search(r"type-in-type|impredicative-set|-vos|-vok", txt):
                    bad.append("%s: forbidden coqc flag" % p)
                continue
            if not f.endswith(".v"):
                continue
            src = strip_coq_comments(open(p).read())
            depth = 0
            for ln, line in enumerate(src.split("\n"), 1):
                if re.match(r"^\s*Section\s+\w+\s*\.", line):
                    depth += 1
                elif re.match(r"^\s*End\s+\w+\s*\.", line) and depth > 0:
                    depth -= 1
                if FORBIDDEN.search(line):
                    bad.append("%s:%d: %s" % (os.path.relpath(p, VERIF), ln, line.strip()))
                if SECTION_VAR.match(line) and depth == 0:
                    bad.append("%s:%d: %s (outside a Section)" % (os.path.relpath(p, VERIF), ln, line.strip()))
    return bad


def coq_audit(prop_id):
    """Re-compile props/<id>.v, count its theorems and the Print Assumptions
    verdicts.  Returns dict(obligations, discharged, theorems, problems)."""
    problems = []
    pf = os.path.join(COQ, "props", prop_id + ".v")
    if not os.path.exists(pf):
        return dict(obligations=0, discharged=0, theorems=[], problems=["no props file for " + prop_id])
    src = strip_coq_comments(open(pf).read())
    theorems = re.findall(r"^\s*Theorem\s+(\w+)", src, re.M)
    printed = re.findall(r"^\s*Print\s+Assumptions\s+(\w+)\s*\.", src, re.M)
    for t in theorems:
        if t not in printed:
            problems.append("theorem %s has no Print Assumptions" % t)
    outdir = os.path.join(BUILD, "audit", "%s_%d" % (prop_id, os.getpid()))
    os.makedirs(outdir, exist_ok=True)
    try:
        r = run(["coqc", "-Q", "theories", "XcpModel", "-Q", "proofs", "XcpProofs",
                 "-Q", "props", "XcpProps", "-Q", "pins", "XcpPins", "-o", os.path.join(outdir, prop_id + ".vo"),
                 pf], cwd=COQ, timeout=900)
    finally:
        shutil.rmtree(outdir, ignore_errors=True)
    if r.returncode != 0:
        problems.append("props/%s.v does not compile: %s" % (prop_id, r.stdout[-1500:]))
        return dict(obligations=len(theorems), discharged=0, theorems=theorems, problems=problems)
    # split the Print Assumptions output: either 'Closed under the global context'
    # or 'Axioms:' followed by indented 'name : type' lines
    verdicts = []
    lines = r.stdout.split("\n")
    i = 0
    while i < len(lines):
        if lines[i].startswith("Closed under the global context"):
            verdicts.append([])
        elif lines[i].startswith("Axioms:"):
            axs = []
            i += 1
            while i < len(lines) and (lines[i].startswith(" ") or re.match(r"^[\w.']+\s*:", lines[i])):
                m = re.match(r"^([\w.']+)\s*:", lines[i])
                if m:
                    axs.append(m.group(1))
                i += 1
            verdicts.append(axs)
            continue
        i += 1
    discharged = 0
    if len(verdicts) != len(printed):
        problems.append("expected %d Print Assumptions verdicts, saw %d" % (len(printed), len(verdicts)))
    for name, axs in zip(printed, verdicts):
        extra = [a for a in axs if a not in ALLOWED_AXIOMS]
        if extra:
            problems.append("theorem %s depends on axioms not in the allow-list: %s" % (name, extra))
        elif name in theorems:
            discharged += 1
    return dict(obligations=len(theorems), discharged=discharged, theorems=theorems, problems=problems)


_EVAL_RE = re.compile(r"^\s+= (.*?)^\s+: ", re.S | re.M)


def parse_coq_values(text):
    """Parse the output of `Eval vm_compute in X.` commands whose values are
    (nested) lists of N."""
    vals = []
    for m in _EVAL_RE.finditer(text):
        body = m.group(1).replace("%N", "").replace(";", ",")
        body = " ".join(body.split())
        vals.append(ast.literal_eval(body))
    return vals


def coq_list(l):
    if isinstance(l, (list, tuple)):
        return "[" + "; ".join(coq_list(x) for x in l) + "]"
    return str(int(l))


def run_model(fn, cases, shard=400, imports="Run", tag="m"):
    """Evaluate the Gallina function `fn : list N -> list N` (or nested) on
    every case with vm_compute.  Returns the list of results, same order."""
    if not cases:
        return []
    wd = os.path.join(BUILD, "cases", "%s_%d_%d" % (tag, os.getpid(), int(time.time() * 1000) % 10**9))
    os.makedirs(wd, exist_ok=True)
    shards = [cases[i:i + shard] for i in range(0, len(cases), shard)]
    procs = []
    results = [None] * len(shards)
    try:
        def start(k):
            vf = os.path.join(wd, "cases_%d.v" % k)
            with open(vf, "w") as f:
                f.write("From XcpModel Require Import Base %s.\n" % imports)
                f.write("Set Printing Width 1000000.\nSet Printing Depth 10000000.\n")
                f.write("Eval vm_compute in map %s %s.\n" % (fn, coq_list(shards[k])))
            def big_stack():
                # the case list is one large literal: Coq's parser and vm_compute recurse over it
                import resource
                try:
                    resource.setrlimit(resource.RLIMIT_STACK, (resource.RLIM_INFINITY, resource.RLIM_INFINITY))
                except (ValueError, OSError):
                    pass
            return subprocess.Popen(["coqc", "-noglob", "-Q", os.path.join(COQ, "theories"), "XcpModel", vf],
                                    stdout=subprocess.PIPE, stderr=subprocess.STDOUT, text=True, cwd=wd, preexec_fn=big_stack)
        pending = list(range(len(shards)))
        running = {}
        while pending or running:
            while pending and len(running) < NPROC:
                k = pending.pop(0)
                running[k] = start(k)
            for k, p in list(running.items()):
                try:
                    out, _ = p.communicate(timeout=0.05)
                except subprocess.TimeoutExpired:
                    continue
                del running[k]
                if p.returncode != 0:
                    raise BuildError("model evaluation failed (%s): %s" % (fn, out[-2000:]))
                vals = parse_coq_values(out)
                if len(vals) != 1 or len(vals[0]) != len(shards[k]):
                    raise BuildError("cannot parse model output for %s: %s" % (fn, out[-500:]))
                results[k] = vals[0]
    finally:
        for p in procs:
            p.kill()
        shutil.rmtree(wd, ignore_errors=True)
    return [r for sh in results for r in sh]


# ---------------------------------------------------------------------------
# Rust / C builds
# ---------------------------------------------------------------------------
def build_rust(features=None):
    """Build xcp (from /repo's working tree) and probe with --cfg xcp_verif."""
    with locked("cargo"):
        os.makedirs(TARGET, exist_ok=True)
        cmd = ["cargo", "build", "--offline", "--bin", "xcp"]
        r = run(cmd, cwd=REPO, env=CARGO_ENV, timeout=1500)
        if r.returncode != 0:
            raise BuildError("xcp does not build:\n" + r.stdout[-3000:])
        lock_src = os.path.join(REPO, "Cargo.lock")
        probe_dir = os.path.join(VERIF, "probe")
        if os.path.realpath(REPO) != "/repo":
            # seed testing against a scratch copy of the repository: build a copy of the probe that points at it
            alt = os.path.join(BUILD, "probe-src")
            shutil.rmtree(alt, ignore_errors=True)
            shutil.copytree(probe_dir, alt, ignore=shutil.ignore_patterns("target"))
            mf = os.path.join(alt, "Cargo.toml")
            txt = open(mf).read().replace('"/repo/', '"%s/' % os.path.realpath(REPO))
            open(mf, "w").write(txt)
            probe_dir = alt
        lock_dst = os.path.join(probe_dir, "Cargo.lock")
        if not os.path.exists(lock_dst):
            shutil.copy(lock_src, lock_dst)
        r = run(["cargo", "build", "--offline"], cwd=probe_dir, env=CARGO_ENV, timeout=1500)
        if r.returncode != 0:
            raise BuildError("probe does not build:\n" + r.stdout[-3000:])
    return dict(xcp=os.path.join(TARGET, "debug", "xcp"), probe=os.path.join(TARGET, "debug", "probe"))


def build_rust_release():
    """xcp built with --release: integer overflow WRAPS there instead of panicking — arithmetic at the edges of u64 behaves
    differently from the debug build every other check uses."""
    with locked("cargo"):
        r = run(["cargo", "build", "--offline", "--release", "--bin", "xcp"], cwd=REPO, env=CARGO_ENV, timeout=2400)
        if r.returncode != 0:
            raise BuildError("xcp does not build with --release:\n" + r.stdout[-3000:])
    return os.path.join(TARGET, "release", "xcp")


def build_rust_fallback():
    """xcp built without the Linux backend (libfs/src/fallback.rs)."""
    tdir = os.path.join(BUILD, "target-fallback")
    env = dict(CARGO_ENV, CARGO_TARGET_DIR=tdir)
    with locked("cargo-fallback"):
        r = run(["cargo", "build", "--offline", "--bin", "xcp", "--no-default-features", "--features", "parblock"],
                cwd=REPO, env=env, timeout=1500)
        if r.returncode != 0:
            raise BuildError("fallback xcp does not build:\n" + r.stdout[-3000:])
    return os.path.join(tdir, "debug", "xcp")


def build_sup():
    src = os.path.join(VERIF, "sup", "sup.c")
    out = os.path.join(BUILD, "sup")
    with locked("sup"):
        if (not os.path.exists(out)) or os.path.getmtime(out) < os.path.getmtime(src):
            r = run(["gcc", "-O1", "-Wall", "-o", out, src], timeout=120)
            if r.returncode != 0:
                raise BuildError("sup does not build:\n" + r.stdout)
    return out


# ---------------------------------------------------------------------------
# work directories
# ---------------------------------------------------------------------------
class Work:
    """A scratch directory on the (ext4) root file system, removed on exit."""

    def __init__(self, tag):
        self.root = os.path.join(WORKROOT, "%s-%d" % (tag, os.getpid()))
        shutil.rmtree(self.root, ignore_errors=True)
        os.makedirs(self.root)
        self.n = 0

    def fresh(self, name=None):
        self.n += 1
        d = os.path.join(self.root, name or ("c%d" % self.n))
        os.makedirs(d)
        return d

    def close(self):
        # files may have odd modes; trees may be very deep
        subprocess.run(["chmod", "-R", "u+rwx", self.root], capture_output=True)
        subprocess.run(["rm", "-rf", self.root], capture_output=True)
        shutil.rmtree(self.root, ignore_errors=True)
        try:
            os.rmdir(WORKROOT)
        except OSError:
            pass

    def __enter__(self):
        return self

    def __exit__(self, *a):
        self.close()


# ---------------------------------------------------------------------------
# results
# ---------------------------------------------------------------------------
class Outcome:
    """Collected by a property module during one run."""

    def __init__(self, prop_id):
        self.prop = prop_id
        self.evaluations = 0
        self.nontrivial = set()
        self.rule = ""
        self.samples = []
        self.dist = {}
        self.violations = []      # dict(kind, what, replay)
        self.known = []           # dict(id, what)
        self.corr_failures = []   # correspondence disagreements: dict(relation, case, model, impl)
        self.extra = {}
        self.assumptions = []

    def count(self, key, n=1):
        self.dist[key] = self.dist.get(key, 0) + n

    def case(self, sig=None, nontrivial=True):
        self.evaluations += 1
        if nontrivial and sig is not None:
            self.nontrivial.add(sig)

    def sample(self, s, limit=6):
        if len(self.samples) < limit:
            self.samples.append(s)

    def violation(self, what, replay, kind="oracle", cls=None):
        self.violations.append(dict(kind=kind, what=what, replay=replay, cls=cls))

    def corr(self, relation, case, model, impl):
        self.corr_failures.append(dict(relation=relation, case=case, model=model, impl=impl))


def load_known_findings(prop_id):
    p = os.path.join(VERIF, "known_findings.jsonl")
    out = []
    if os.path.exists(p):
        for line in open(p):
            line = line.strip()
            if not line or line.startswith("#"):
                continue
            try:
                e = json.loads(line)
            except ValueError:
                continue   # 'fixed: ...' lines are plain text records
            if e.get("property") == prop_id and e.get("status") == "known":
                out.append(e)
    return out
