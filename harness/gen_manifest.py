"""gen_manifest.py — writes MANIFEST.json from the table below (kept in one
place so the manifest stays valid while checks are added)."""
import json
import os

VERIF = os.path.dirname(os.path.dirname(os.path.abspath(__file__)))

CHECKS = {
    "C19": dict(
        text=("Coq theorems (unbounded): merge_extents never drops coverage, outputs start/end at input boundaries, adds only "
              "one-byte adjacency gaps, keeps order; the FIEMAP paging loop returns exactly the extent list for any number of "
              "extents; the SEEK_DATA/SEEK_HOLE walk reports exactly the data set. Tied to libfs by running the same inputs "
              "through the probe (real libfs) and the Gallina model (vm_compute), plus a direct zero-outside-ranges oracle on "
              "real ext4 files."),
        note=("FIEMAP / SEEK_DATA / SEEK_HOLE answers are modelled by contract functions (kernel_fiemap, k_seek_data, "
              "k_seek_hole); the contract is checked per file against the real kernel's raw answers. u64 overflow of "
              "p.end+1 / logical+length is outside the model (guard: values < 2^64-1)."),
        technique="Coq proof over hand-written Gallina model + differential correspondence (probe vs vm_compute)",
        design="Part II C19"),
}

NOT_YET = {}

def main():
    props = [json.loads(l) for l in open(os.path.join(VERIF, "properties.jsonl"))]
    checks = []
    na = []
    for p in props:
        pid = p["id"]
        if pid in CHECKS:
            c = CHECKS[pid]
            checks.append(dict(
                property_id=pid,
                quick_cmd="./check %s quick" % pid,
                thorough_cmd="./check %s thorough" % pid,
                evidence_file="evidence/%s.json" % pid,
                replay_cmd_template="./check %s --replay {path}" % pid,
                engine="coq+correspondence",
                level_claimed=dict(category="proof", text=c["text"], design_ref="DESIGN.md " + c["design"]),
                level_note=c["note"],
                technique=c["technique"]))
        else:
            na.append(dict(property_id=pid, reason=NOT_YET.get(
                pid, "check not built yet in this revision (work in progress; DESIGN.md Part II describes the planned "
                     "Coq model, theorems and correspondence)")))
    m = dict(
        version=1,
        setup_cmd="./setup.sh",
        hooks=dict(
            guard="xcp_verif",
            enable='RUSTFLAGS="--cfg xcp_verif" cargo build --offline (visibility-only re-exports: libfs::verif_hooks, '
                   'libxcp::verif_hooks)',
            baseline_off_cmd="cd /repo && cargo test --workspace --no-fail-fast --offline",
            source_commits=open(os.path.join(VERIF, "hooks_commits.txt")).read().split(),
            add_only=True),
        engines=[dict(name="coq+correspondence", path="check",
                      serves_properties=sorted(CHECKS.keys()),
                      kind_free_text="Coq 8.16.1 theorems over a hand-written Gallina model of xcp (coq/), tied to /repo on "
                                     "every run by a differential correspondence check (harness/, probe/, sup/)")],
        checks=checks,
        notes="See DESIGN.md. Known findings: known_findings.jsonl.",
        not_applicable=na)
    with open(os.path.join(VERIF, "MANIFEST.json"), "w") as f:
        json.dump(m, f, indent=1)
        f.write("\n")

if __name__ == "__main__":
    main()
